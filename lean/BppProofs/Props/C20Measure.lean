import BppProofs.Props.C20Inst
import Mathlib.Order.Interval.Finset.Defs
import Mathlib.Data.Int.Interval
import Mathlib.Data.Finset.Card
/-!
# C20 — total length is the measure of the union
`MultiRange::totalLength` (a `size_t` accumulator over the stored lengths) equals the number of
unit cells of the denoted union, for every state satisfying the representation invariant (which
`C20.mr_inv` proves for every history) — for `int`, for `unsigned` (no `length()` wraps) and for
`double` with integral end points (the property's universe; the accumulator truncates after
every addition, see `totalLength_truncates_rat` for what happens outside).
-/
namespace Bpp.C20
open Bpp Bpp.Range Bpp.MultiRange

/-- the finite set of integer points denoted by a list of ranges -/
def cells : List (Range Int) → Finset Int
  | [] => ∅
  | x :: xs => Finset.Ico x.b x.e ∪ cells xs

theorem mem_cells (m : List (Range Int)) (p : Int) : p ∈ cells m ↔ pts m p := by
  induction m with
  | nil => simp [cells, pts]
  | cons x xs ih =>
    simp only [cells, Finset.mem_union, Finset.mem_Ico, ih, pts, List.mem_cons]
    constructor
    · rintro (h | ⟨y, hy, hp⟩)
      · exact ⟨x, Or.inl rfl, h⟩
      · exact ⟨y, Or.inr hy, hp⟩
    · rintro ⟨y, (e | e), hp⟩
      · subst e; exact Or.inl hp
      · exact Or.inr ⟨y, e, hp⟩

/-- the sum of the lengths of an ascending list of disjoint ranges is the number of its points -/
theorem sum_lengths_card (m : List (Range Int)) (h : MultiRange.Inv m) :
    (m.map Range.length).sum = ((cells m).card : Int) := by
  induction m with
  | nil => simp [cells]
  | cons x xs ih =>
    have hx := h.1 x (by simp)
    have hxs : MultiRange.Inv xs := ⟨fun y hy => h.1 y (by simp [hy]), (List.pairwise_cons.mp h.2).2⟩
    have hR : ∀ y ∈ xs, R x y := (List.pairwise_cons.mp h.2).1
    have hdisj : Disjoint (Finset.Ico x.b x.e) (cells xs) := by
      rw [Finset.disjoint_left]
      intro p hp hq
      rw [mem_cells] at hq
      obtain ⟨y, hy, hpy⟩ := hq
      have := hR y hy
      simp only [Finset.mem_Ico] at hp
      unfold R at this; unfold mem at hpy; omega
    have ih' := ih hxs
    simp only [List.map_cons, List.sum_cons] at ih' ⊢
    rw [cells, Finset.card_union_of_disjoint hdisj, Int.card_Ico]
    simp only [Range.length]
    push_cast
    rw [← ih']
    have : ((x.e - x.b).toNat : Int) = x.e - x.b := Int.toNat_of_nonneg (by omega)
    omega

/-- **mr_total_length** (`int`): the total length is the measure (number of points) of the union -/
theorem mr_total_length (m : List (Range Int)) (h : MultiRange.Inv m) (hB : ∀ x ∈ m, x.e < 2 ^ 63)
    (hL : ∀ x ∈ m, -(2 : Int) ^ 63 ≤ x.b) :
    (MultiRange.totalLength m : Int) = ((cells m).card : Int) := by
  rw [totalLength_int m h hB hL, sum_lengths_card m h]

/-- **mr_total_length_uint** (`unsigned`): the same, the coordinates read as natural numbers -/
theorem mr_total_length_uint (m : List (Range UInt32)) (h : MultiRange.Inv m) :
    (MultiRange.totalLength m : Int) = ((cells (m.map uintToI)).card : Int) := by
  rw [totalLength_uint m h, sum_lengths_card _ (inv_uintToI m h)]

/-- **mr_total_length_rat** (`double`, integral end points): the same -/
theorem mr_total_length_rat (m : List (Range Rat)) (h : MultiRange.Inv m) (hint : ∀ x ∈ m, Integral x)
    (hB : ∀ x ∈ m, x.e.floor < 2 ^ 63) (hL : ∀ x ∈ m, -(2 : Int) ^ 63 ≤ x.b.floor) :
    (MultiRange.totalLength m : Int) = ((cells (m.map ratToI)).card : Int) := by
  have hinv : MultiRange.Inv (m.map ratToI) := by
    have hcast : ∀ a b : Int, ((a : Rat) ≤ b ↔ a ≤ b) ∧ ((a : Rat) < b ↔ a < b) := by
      intro a b; exact ⟨Rat.intCast_le_intCast, Rat.intCast_lt_intCast⟩
    refine ⟨?_, ?_⟩
    · intro y hy
      simp only [List.mem_map] at hy
      obtain ⟨x, hx, e⟩ := hy
      subst e
      obtain ⟨hb, he⟩ := hint x hx
      have h1 := h.1 x hx
      rw [hb, he] at h1
      rw [(hcast _ _).2] at h1
      simpa [ratToI, Rat.floor_intCast] using h1
    · rw [List.pairwise_map]
      apply List.Pairwise.imp_of_mem _ h.2
      intro x y hx hy hxy
      have h1 := (hint x hx).2
      have h2 := (hint y hy).1
      simp only [R, ratToI] at *
      rw [h1, h2, (hcast _ _).1] at hxy
      simpa [Rat.floor_intCast] using hxy
  rw [totalLength_rat m h hint hB hL, sum_lengths_card _ hinv]

/-- for every history of an `int` multi-range with arguments in `[-2^30, 2^30[`, the reported
total length is the number of points of the stored union (whose points `mr_denotes` /
`mr_denotes_all` identify), read through `mem_cells` -/
theorem mr_total_length_history (ops : List (Op Int))
    (hfit : ∀ o ∈ ops, ∀ a ∈ o.args, inHalfInt32 a) :
    (MultiRange.totalLength (run ops) : Int) = ((cells (run ops)).card : Int) ∧
    ∀ p, p ∈ cells (run ops) ↔ pts (run ops) p := by
  have h := (int_no_overflow ops hfit).1
  refine ⟨mr_total_length _ (mr_inv ops) ?_ ?_, mem_cells _⟩
  · intro x hx; have := (h x hx).2.1; unfold inHalfInt32 at this; omega
  · intro x hx; have := (h x hx).1; unfold inHalfInt32 at this; omega

/-- the same for every history of an `unsigned` multi-range (no hypothesis at all) -/
theorem mr_total_length_history_uint (ops : List (Op UInt32)) :
    (MultiRange.totalLength (run ops) : Int) = ((cells ((run ops).map uintToI)).card : Int) :=
  mr_total_length_uint _ (mr_inv ops)

/-- and for every history of a `double` multi-range whose arguments are integers (the property's
universe): integrality of the stored end points is preserved because no new coordinate is ever
computed (`endpoints_closed`) -/
theorem mr_total_length_history_rat (ops : List (Op Rat))
    (hint : ∀ o ∈ ops, ∀ a ∈ o.args, a = (a.floor : Rat) ∧ -(2 : Int) ^ 63 ≤ a.floor ∧ a.floor < 2 ^ 63) :
    (MultiRange.totalLength (run ops) : Int) = ((cells ((run ops).map ratToI)).card : Int) := by
  have hcl := endpoints_closed (fun a : Rat => a = (a.floor : Rat) ∧ -(2 : Int) ^ 63 ≤ a.floor ∧ a.floor < 2 ^ 63)
    (by refine ⟨by decide +kernel, by decide +kernel, by decide +kernel⟩) ops hint
  exact mr_total_length_rat _ (mr_inv ops) (fun x hx => ⟨(hcl x hx).1.1, (hcl x hx).2.1⟩)
    (fun x hx => (hcl x hx).2.2.2) (fun x hx => (hcl x hx).1.2.1)

example : MultiRange.totalLength [(⟨1, 3⟩ : Range Int), ⟨3, 5⟩, ⟨7, 9⟩] = 6 := by decide
example : MultiRange.totalLength [(⟨1, 3⟩ : Range UInt32), ⟨3, 5⟩, ⟨7, 9⟩] = 6 := by decide

end Bpp.C20
