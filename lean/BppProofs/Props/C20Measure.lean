import BppProofs.Lemmas.Range
import Mathlib.Order.Interval.Finset.Defs
import Mathlib.Data.Int.Interval
import Mathlib.Data.Finset.Card
/-!
# C20 — total length is the measure of the union
`MultiRange::totalLength` (sum of the stored lengths) equals the number of integer points of the
denoted union, for every state satisfying the representation invariant (which `C20.mr_inv` proves
for every history).
-/
namespace Bpp.C20
open Bpp Bpp.Range Bpp.MultiRange

/-- the finite set of integer points denoted by a list of ranges -/
def cells : List Range → Finset Int
  | [] => ∅
  | x :: xs => Finset.Ico x.b x.e ∪ cells xs

theorem mem_cells (m : List Range) (p : Int) : p ∈ cells m ↔ pts m p := by
  induction m with
  | nil => simp [cells, pts]
  | cons x xs ih =>
    simp only [cells, Finset.mem_union, Finset.mem_Ico, ih, pts, List.mem_cons]
    constructor
    · rintro (h | ⟨y, hy, hp⟩)
      · exact ⟨x, Or.inl rfl, h⟩
      · exact ⟨y, Or.inr hy, hp⟩
    · rintro ⟨y, (e | e), hp⟩
      · subst e; exact Or.inl hp
      · exact Or.inr ⟨y, e, hp⟩

/-- **mr_total_length**: the total length is the measure (number of points) of the union -/
theorem mr_total_length (m : List Range) (h : MultiRange.Inv m) :
    totalLength m = ((cells m).card : Int) := by
  induction m with
  | nil => simp [totalLength, cells]
  | cons x xs ih =>
    have hx := h.1 x (by simp)
    have hxs : MultiRange.Inv xs := ⟨fun y hy => h.1 y (by simp [hy]), (List.pairwise_cons.mp h.2).2⟩
    have hR : ∀ y ∈ xs, R x y := (List.pairwise_cons.mp h.2).1
    have hdisj : Disjoint (Finset.Ico x.b x.e) (cells xs) := by
      rw [Finset.disjoint_left]
      intro p hp hq
      rw [mem_cells] at hq
      obtain ⟨y, hy, hpy⟩ := hq
      have := hR y hy
      simp only [Finset.mem_Ico] at hp
      unfold R at this; unfold mem at hpy; omega
    have ih' := ih hxs
    simp only [totalLength, List.map_cons, List.sum_cons] at ih' ⊢
    rw [cells, Finset.card_union_of_disjoint hdisj, Int.card_Ico]
    simp only [Range.length]
    push_cast
    rw [← ih']
    have : ((x.e - x.b).toNat : Int) = x.e - x.b := Int.toNat_of_nonneg (by omega)
    omega

example : totalLength [⟨1, 3⟩, ⟨3, 5⟩, ⟨7, 9⟩] = 6 := by decide

end Bpp.C20
