import BppProofs.Lemmas.Optim
/-!
# C10 — optimisers never end worse than they start, converge when convex, respect bounds

Property theorems, part 1: the `AbstractOptimizer` template (`BppModel/Optim.lean`), for **every**
optimiser `A : Algo F τ α` (every `doInit`, `doStep`, stop condition), every function object and
every scalar type.

Full statement of the clause: "the run terminates within its evaluation budget (plus the iteration in
progress) … the value returned equals the objective evaluated at the reported parameters".
What the template can guarantee is about its *counter* `nbEval_` (which each `doStep` is free to
advance by the number of evaluations it makes, or not: see findings/C10.json for optimisers that
undercount) and about a `doStep` that returns the value at the parameters it leaves.
-/
namespace Bpp.C10
open Bpp Bpp.Optim

variable {α : Type} [Scalar α] {F τ : Type}

/-- **optimize_terminates**: for every optimiser whose `doStep` does not move the counter backwards
(`Monotone A`: that is all the `for` loop of `optimize` needs, because it increments the counter
itself), `nbEvalMax - 1` iterations are enough: with that much fuel the modelled loop never runs out
of it — more fuel does not change the result, and an exception that comes out of `optimize` is
either "not initialised" or was raised by one of the steps. -/
theorem optimize_terminates (A : Algo F τ α) (hm : Monotone A) (s : St F τ α) (fuel : Nat)
    (hf : s.core.nbEvalMax ≤ fuel + 1) :
    (∀ k, A.optimize (fuel + k) s = A.optimize fuel s) ∧
    (∀ e, A.optimize fuel s = .error e →
      (s.core.initialized = false ∧ e = (.bpp, s.fn)) ∨ ∃ s0, Guard s0 ∧ A.step s0 = .error e) := by
  constructor
  · intro k
    unfold Algo.optimize
    split
    · rfl
    · rw [loop_fuel_irrelevant A hm fuel _ (by simpa using hf) k]
  · intro e h
    unfold Algo.optimize at h
    by_cases hi : s.core.initialized = true
    · rw [if_neg (by simp [hi])] at h
      right
      cases hl : A.loop fuel { s with core := { s.core with tol := false, nbEval := 1 } } with
      | error e' =>
        rw [hl] at h
        simp only [Except.error.injEq] at h
        subst h
        exact loop_error_from_step A hm fuel _ e' (by simpa using hf) hl
      | ok s' => rw [hl] at h; cases h
    · have hi' : s.core.initialized = false := by simpa using hi
      rw [if_pos (by simp [hi'])] at h
      simp only [Except.error.injEq] at h
      exact Or.inl ⟨hi', h.symm⟩

/-- **budget**: "evaluations at exit ≤ max + evaluations of the step in progress".  When `optimize`
returns, either no step was made and the counter is the 1 the loop starts from, or there is a last
step, begun with the counter `before < nbEvalMax`, and the counter at exit is what that step made
of it, plus one: at most `nbEvalMax` plus what the last step added.  `Spec.budget` is the predicate
the driver evaluates on the implementation's figures. -/
theorem budget (A : Algo F τ α) (hm : Monotone A) (s s' : St F τ α) (v : α) (fuel : Nat)
    (h : A.optimize fuel s = .ok (s', v)) :
    (s'.core.nbEval = 1 ∧ Spec.budget s.core.nbEvalMax s'.core.nbEval none = true) ∨
    ∃ sb sa w, A.step sb = .ok (sa, w) ∧ sb.core.nbEval < s.core.nbEvalMax ∧
      s'.core.nbEval = sa.core.nbEval + 1 ∧
      s'.core.nbEval ≤ s.core.nbEvalMax + (sa.core.nbEval - sb.core.nbEval) ∧
      Spec.budget s.core.nbEvalMax s'.core.nbEval (some sb.core.nbEval) = true := by
  unfold Algo.optimize at h
  split at h
  · cases h
  · cases hl : A.loop fuel { s with core := { s.core with tol := false, nbEval := 1 } } with
    | error e => rw [hl] at h; cases h
    | ok s1 =>
      rw [hl] at h
      simp only [Except.ok.injEq, Prod.mk.injEq] at h
      obtain ⟨rfl, -⟩ := h
      -- `nbEvalMax` is the same all along
      have hmax : ∀ fuel (t t' : St F τ α), t.core.nbEvalMax = s.core.nbEvalMax → A.loop fuel t = .ok t' →
          t'.core.nbEvalMax = s.core.nbEvalMax := fun fuel t t' ht hl =>
        loop_invariant A (fun u => u.core.nbEvalMax = s.core.nbEvalMax)
          (fun u u' w hu _ hst => by rw [(step_counter A hm u hst).2]; exact hu)
          (fun u hu => hu) fuel t t' ht hl
      -- a step begun within a loop started from `t` sees the same cap
      have hcap : ∀ fuel (t t' : St F τ α), t.core.nbEvalMax = s.core.nbEvalMax → A.loop fuel t = .ok t' →
          t' = t ∨ ∃ sb sa w, Guard sb ∧ sb.core.nbEvalMax = s.core.nbEvalMax ∧ A.step sb = .ok (sa, w) ∧ t' = bump sa := by
        intro fuel
        induction fuel with
        | zero =>
          intro t t' _ hl
          rw [loop_zero] at hl
          by_cases hg : Guard t
          · rw [if_pos hg] at hl; cases hl
          · rw [if_neg hg] at hl; cases hl; exact Or.inl rfl
        | succ fuel ih =>
          intro t t' ht hl
          rw [loop_succ] at hl
          by_cases hg : Guard t
          · rw [if_pos hg] at hl
            cases hst : A.step t with
            | error e => rw [hst] at hl; cases hl
            | ok r =>
              obtain ⟨t1, w⟩ := r
              rw [hst] at hl
              have ht1 : (bump t1).core.nbEvalMax = s.core.nbEvalMax := by
                show t1.core.nbEvalMax = _; rw [(step_counter A hm t hst).2]; exact ht
              rcases ih _ _ ht1 hl with rfl | hex
              · exact Or.inr ⟨t, t1, w, hg, ht, hst, rfl⟩
              · exact Or.inr hex
          · rw [if_neg hg] at hl; cases hl; exact Or.inl rfl
      generalize hs0 : ({ s with core := { s.core with tol := false, nbEval := 1 } } : St F τ α) = s0 at hl
      have e1 : s0.core.nbEvalMax = s.core.nbEvalMax := by rw [← hs0]
      have e2 : s0.core.nbEval = 1 := by rw [← hs0]
      rcases hcap fuel s0 s1 e1 hl with rfl | ⟨sb, sa, w, hg, hcapb, hst, rfl⟩
      · left; simp [Spec.budget, e2]
      · right
        have hc := step_counter A hm sb hst
        have hlt : sb.core.nbEval < s.core.nbEvalMax := by rw [← hcapb]; exact hg.1
        refine ⟨sb, sa, w, hst, hlt, rfl, ?_, ?_⟩
        · show sa.core.nbEval + 1 ≤ _; omega
        · simp [Spec.budget, hlt]

/-- when `optimize` returns, the loop was left for a reason: the tolerance flag is set or the
counter has reached the cap (`Spec.exitReason`, evaluated by the driver on the implementation) -/
theorem exit_reason (A : Algo F τ α) (s s' : St F τ α) (v : α) (fuel : Nat)
    (h : A.optimize fuel s = .ok (s', v)) :
    Spec.exitReason s'.core.nbEvalMax s'.core.nbEval s'.core.tol = true := by
  unfold Algo.optimize at h
  split at h
  · cases h
  · cases hl : A.loop fuel { s with core := { s.core with tol := false, nbEval := 1 } } with
    | error e => rw [hl] at h; cases h
    | ok s1 =>
      rw [hl] at h
      simp only [Except.ok.injEq, Prod.mk.injEq] at h
      obtain ⟨rfl, -⟩ := h
      have hg := loop_ok_guard A fuel _ _ hl
      unfold Guard at hg
      unfold Spec.exitReason
      cases ht : s1.core.tol with
      | true => simp
      | false =>
        have : ¬ s1.core.nbEval < s1.core.nbEvalMax := fun c => hg ⟨c, ht⟩
        simp; omega

/-- **reported_value_consistent** (template form): let `val params fn` be "the objective at the
reported parameters" (any function of the optimiser's parameter list and of the function object).
If `doStep` returns `val` of the parameters and function it leaves, and the stop condition touches
neither, then `optimize` returns `val` of the parameters it reports — provided the same held of the
state it started from (which is what `init` establishes when `doInit` leaves the function at the
parameters: `currentValue_ = function_->getValue()`), because with a cap of 0 or 1, or a tolerance
already met, no step is made at all. -/
theorem reported_value_consistent (A : Algo F τ α) (val : PList α → F → α)
    (hstep : ∀ s s' v, A.doStep s = .ok (s', v) → v = val s'.core.params s'.fn)
    (hstop : ∀ s, (A.stop s).1.core.params = s.core.params ∧ (A.stop s).1.fn = s.fn ∧ (A.stop s).1.core.cur = s.core.cur)
    (s s' : St F τ α) (v : α) (fuel : Nat)
    (h0 : s.core.cur = val s.core.params s.fn)
    (h : A.optimize fuel s = .ok (s', v)) :
    v = val s'.core.params s'.fn ∧ s'.core.cur = v := by
  unfold Algo.optimize at h
  split at h
  · cases h
  · cases hl : A.loop fuel { s with core := { s.core with tol := false, nbEval := 1 } } with
    | error e => rw [hl] at h; cases h
    | ok s1 =>
      rw [hl] at h
      simp only [Except.ok.injEq, Prod.mk.injEq] at h
      obtain ⟨rfl, rfl⟩ := h
      generalize hs0 : ({ s with core := { s.core with tol := false, nbEval := 1 } } : St F τ α) = s0 at hl
      have h0' : s0.core.cur = val s0.core.params s0.fn := by rw [← hs0]; exact h0
      have := loop_invariant A (fun u => u.core.cur = val u.core.params u.fn)
        (fun u u' w _ _ hst => by
          obtain ⟨u1, hd, hc⟩ := step_cases A u hst
          have hv := hstep u u1 w hd
          rcases hc with ⟨_, rfl⟩ | ⟨_, rfl⟩
          · exact hv
          · have hs := hstop { u1 with core := { u1.core with cur := w } }
            simp only [] at hs ⊢
            rw [hs.1, hs.2.1, hs.2.2]; exact hv)
        (fun u hu => hu) fuel s0 s1 h0' hl
      exact ⟨this, rfl⟩

end Bpp.C10
