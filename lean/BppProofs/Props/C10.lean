import BppModel.OptimSpec
namespace Bpp.C10
end Bpp.C10
