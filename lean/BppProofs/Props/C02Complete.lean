import BppProofs.Props.C02
import BppProofs.Lemmas.ParamListExt
/-!
# C02, completion (round 2): every routine of the anchored API inside the statement

Property theorems only (helper lemmas: `Lemmas/ParamListExt.lean`).  The model additions are in
`BppModel/ParamListExt.lean`: the whole-parameter setters after the repair, the object-valued
accessors, the owner's read routes through the namespace, the extended machine `xstep`/`xrun`
(`XOp.base op` = the machine of `Props/C02.lean`; the protected forwarders of
`AbstractParametrizable` are the list-level operations on the owner's list).
-/
namespace Bpp.C02
open Bpp Bpp.ParamList

/-! ## Whole-parameter assignment (`setAllParameters`, `setParameters`; repaired code) -/

/-- **whole_assignment_atomic** (no hypothesis: any heap, any lists, shared objects, duplicated
names): `setParameters(params)` succeeds exactly when every name of `params` is in the list,
`setAllParameters(params)` exactly when every name of the list is in `params`; otherwise
ParameterNotFoundException is raised and the heap is *unchanged*. -/
theorem whole_assignment_atomic (h : Store) (l src : List ObjId) :
    (((setParametersA h l src).err = none ↔ ∀ s ∈ src, nameOf h s ∈ names h l) ∧
     (∀ e, (setParametersA h l src).err = some e → e = .notfound ∧ (setParametersA h l src).heap = h)) ∧
    (((setAllParametersA h src l).err = none ↔ ∀ i ∈ l, nameOf h i ∈ names h src) ∧
     (∀ e, (setAllParametersA h src l).err = some e → e = .notfound ∧ (setAllParametersA h src l).heap = h)) := by
  obtain ⟨a1, a2⟩ := setParametersA_err_iff h l src
  obtain ⟨b1, b2⟩ := setAllParametersA_err_iff h src l
  refine ⟨⟨?_, a2⟩, ⟨?_, b2⟩⟩
  · rw [a1]; exact forall_congr' (fun s => forall_congr' (fun _ => hasParameter_iff h l _))
  · rw [b1]; exact forall_congr' (fun s => forall_congr' (fun _ => hasParameter_iff h src _))

/-- **whole_assignment_exact**: on success every target found by a source name is a copy of that
source entry — value *and constraint* — (`expectedPar`, `expectedAllPar`), every other object is
untouched, no name changes (so `names_unique` is kept), nothing is allocated. -/
theorem whole_assignment_exact (h : Store) (l src : List ObjId) :
    ((names h src).Nodup → (setParametersA h l src).err = none →
      (setParametersA h l src).heap.next = h.next ∧
      (∀ x, nameOf (setParametersA h l src).heap x = nameOf h x) ∧
      ∀ i, (setParametersA h l src).heap.get i = expectedPar h l src i) ∧
    ((names h l).Nodup → (setAllParametersA h src l).err = none →
      (setAllParametersA h src l).heap.next = h.next ∧
      (∀ x, nameOf (setAllParametersA h src l).heap x = nameOf h x) ∧
      ∀ i, (setAllParametersA h src l).heap.get i = expectedAllPar h l src i) := by
  refine ⟨fun nd ok => ?_, fun nd ok => ?_⟩
  · have all := List.all_eq_true.2 ((setParametersA_err_iff h l src).1.1 ok)
    exact (setParametersA_spec h l src nd all).2
  · have all := List.all_eq_true.2 ((setAllParametersA_err_iff h src l).1.1 ok)
    exact (setAllParametersA_spec h src l nd all).2

/-- read-out of `expectedPar`: a target carries value and constraint of the source entry of its name -/
theorem whole_assignment_copies (h : Store) (l src : List ObjId) (nd : (names h src).Nodup)
    (ok : (setParametersA h l src).err = none) (s t : ObjId) (hs : s ∈ src)
    (ht : find? h l (nameOf h s) = some t) : (setParametersA h l src).heap.get t = h.get s := by
  rw [((whole_assignment_exact h l src).1 nd ok).2.2 t]
  unfold expectedPar
  cases e : src.find? (fun s => find? h l (nameOf h s) == some t) with
  | none =>
    rw [List.find?_eq_none] at e
    exact absurd (by simpa using ht) (e s hs)
  | some s' =>
    have h1 := List.mem_of_find?_eq_some e
    have h2 := List.find?_some e
    simp only [beq_iff_eq] at h2
    have hn : nameOf h s' = nameOf h s := (find?_some h2).2.symm.trans (find?_some ht).2
    have : s' = s := by
      by_contra c
      obtain ⟨p, hp⟩ := List.getElem?_of_mem h1
      obtain ⟨q, hq⟩ := List.getElem?_of_mem hs
      have hpq : p ≠ q := fun x => c (by rw [x, hq] at hp; exact (Option.some.inj hp).symm)
      have e1 : (names h src)[p]? = some (nameOf h s') := by simp [names, hp]
      have e2 : (names h src)[q]? = some (nameOf h s) := by simp [names, hq]
      rw [hn] at e1
      exact hpq ((List.getElem?_inj (List.getElem?_eq_some_iff.1 e1).1 nd).1 (e1.trans e2.symm))
    rw [this]

/-- non-vacuity: a source with a new constraint, all names present -/
example :
    let s := run State.init [.add 0 ⟨"a", 1, none⟩, .add 0 ⟨"b", 2, none⟩,
                              .add 1 ⟨"b", 5, some ⟨.fin 0, .posInf, true, false⟩⟩]
    (setParametersA s.heap (s.lists 0) (s.lists 1)).err = none ∧
    ((setParametersA s.heap (s.lists 0) (s.lists 1)).heap.get 1) = ⟨"b", 5, some ⟨.fin 0, .posInf, true, false⟩⟩ := by
  decide

/-- before the repair `setParameters([a, zz, b])` on `[a, b]` overwrote `a`, then raised -/
theorem setParameters_unrepaired_partial_witness :
    let s := run State.init [.add 0 ⟨"a", 1, none⟩, .add 0 ⟨"b", 2, none⟩,
                              .add 1 ⟨"a", 9, none⟩, .add 1 ⟨"zz", 1, none⟩, .add 1 ⟨"b", 9, none⟩]
    (setParameters s.heap (s.lists 0) (s.lists 1)).err = some .notfound ∧
    ((setParameters s.heap (s.lists 0) (s.lists 1)).heap.get 0).value = 9 ∧
    (setParametersA s.heap (s.lists 0) (s.lists 1)).heap.get 0 = s.heap.get 0 := by decide

/-- before the repair `setAllParameters([a, c])` on `[a, b, c]` overwrote `a`, then raised at `b` -/
theorem setAllParameters_unrepaired_partial_witness :
    let s := run State.init [.add 0 ⟨"a", 1, none⟩, .add 0 ⟨"b", 2, none⟩, .add 0 ⟨"c", 3, none⟩,
                              .add 1 ⟨"a", 9, none⟩, .add 1 ⟨"c", 9, none⟩]
    (setAllParameters s.heap (s.lists 1) (s.lists 0)).err = some .notfound ∧
    ((setAllParameters s.heap (s.lists 1) (s.lists 0)).heap.get 0).value = 9 ∧
    (setAllParametersA s.heap (s.lists 1) (s.lists 0)).heap.get 0 = s.heap.get 0 := by decide

/-! ## `getCommonParametersWith`, index vectors, object-valued lookups -/

/-- **common_exact**: `l.getCommonParametersWith(src)` is a list of fresh, pairwise different
objects — clones of exactly the entries of `src` whose name is in `l`, in `src`'s order; no
existing object changes; its names are pairwise different when `src`'s are. -/
theorem common_exact (h : Store) (l src : List ObjId) (vs : Valid h src) :
    let r := getCommonParametersWith h l h src
    r.2.map r.1.get = (src.filter (fun s => hasParameter h l (nameOf h s))).map h.get ∧
    (∀ i ∈ r.2, h.next ≤ i) ∧ r.2.Nodup ∧ (∀ i, i < h.next → r.1.get i = h.get i) ∧
    ((names h src).Nodup → (names r.1 r.2).Nodup) := by
  obtain ⟨_, _, p3, p4, p5, p6, _⟩ := getCommon_spec l h src h vs (Nat.le_refl _) (fun _ _ => rfl) (Pres.refl _)
  refine ⟨p5, p3, p4, p6, fun nd => ?_⟩
  rw [names_eq_of_map_get p5]
  exact (names_sublist List.filter_sublist).nodup nd

example :
    let s := run State.init [.add 0 ⟨"a", 1, none⟩, .add 0 ⟨"b", 2, none⟩, .add 1 ⟨"c", 7, none⟩, .add 1 ⟨"b", 5, none⟩]
    (getCommonParametersWith s.heap (s.lists 0) s.heap (s.lists 1)).2 = [4] := by decide

/-- **delete_indices_general** (any index vector — unsorted, repeated or not): the result only
depends on the indices as a multiset (their order is irrelevant: the routine sorts a copy); the
survivors are a sub-sequence of the list; and without a raise exactly `indices.size()` entries are
gone — so a *repeated* index erases an entry nobody named (or raises half-way,
`delete_indices_repeated_witness`), which is why `delete_indices_exact` asks for a repeated-free
vector. -/
theorem delete_indices_general (l : List ObjId) (idx : List Nat) :
    (∀ idx', idx.Perm idx' → deleteParametersIdx l idx' = deleteParametersIdx l idx) ∧
    (deleteParametersIdx l idx).1.Sublist l ∧
    ((deleteParametersIdx l idx).2 = none → (deleteParametersIdx l idx).1.length + idx.length = l.length) := by
  refine ⟨fun idx' p => ?_, deleteParametersIdx_sublist idx l, fun ok => ?_⟩
  · unfold deleteParametersIdx; rw [sortNat_eq_of_perm p]
  · have := eraseDesc_length _ _ ok
    rwa [List.length_reverse, sortNat_length] at this

example : deleteParametersIdx [10, 11, 12] [1, 1] = ([10], none) := by decide

/-- **accessor_exact**: `parameter(name)` / `getParameter(name)` (list level, and owner level with
the namespace prepended) answer the object at the *first* position carrying the name — the only
one, by `names_unique` — or raise ParameterNotFoundException when no entry carries it;
`getParameter_(index)` of the owner answers the object at that position or raises
IndexOutOfBoundsException. -/
theorem accessor_exact (h : Store) (l : List ObjId) (n pre : String) :
    (∀ i, parameterNamed h l n = .ok i ↔
      ∃ p : Nat, l[p]? = some i ∧ nameOf h i = n ∧ ∀ q : Nat, q < p → (names h l)[q]? ≠ some n) ∧
    (parameterNamed h l n = .error .notfound ↔ n ∉ names h l) ∧
    apParameterNamed h l pre n = parameterNamed h l (pre ++ n) ∧
    (∀ k i, apParameterAt l k = .ok i ↔ l[k]? = some i) ∧
    (∀ k, apParameterAt l k = .error .index ↔ l.length ≤ k) := by
  refine ⟨fun i => ?_, ?_, rfl, fun k i => ?_, fun k => ?_⟩
  · rw [← find?_first]; unfold parameterNamed
    cases find? h l n <;> simp
  · unfold parameterNamed
    cases e : find? h l n with
    | none =>
      simp only [true_iff]
      intro c
      have := (hasParameter_iff h l n).2 c
      rw [← find?_isSome, e] at this; cases this
    | some i =>
      simp only [reduceCtorEq, false_iff, not_not]
      exact (hasParameter_iff h l n).1 (by rw [← find?_isSome, e]; rfl)
  · unfold apParameterAt; cases l[k]? <;> simp
  · unfold apParameterAt
    cases e : l[k]? with
    | none => simpa using e
    | some x =>
      simp only [reduceCtorEq, false_iff, Nat.not_le]
      exact (List.getElem?_eq_some_iff.1 e).1

/-- … and under unique names the object answered is the only one carrying the name -/
theorem accessor_unique (h : Store) (l : List ObjId) (n : String) (nd : (names h l).Nodup) (i : ObjId)
    (hi : parameterNamed h l n = .ok i) : ∀ j ∈ l, nameOf h j = n → j = i := by
  intro j hj hn
  have e : find? h l n = some i := by
    unfold parameterNamed at hi; cases e : find? h l n <;> simp_all
  have := find?_self nd hj
  rw [hn, e] at this
  exact (Option.some.inj this).symm

/-- **owner_lookup_exact**: the owner's read routes are the list's with the namespace prepended,
and `getParameterNameWithoutNamespace` undoes the prefixing (and leaves other names alone). -/
theorem owner_lookup_exact (h : Store) (l : List ObjId) (pre n : String) :
    (apHasParameter h l pre n = true ↔ pre ++ n ∈ names h l) ∧
    apGetParameterValue h l pre n = getParameterValue h l (pre ++ n) ∧
    nameWithoutNamespace pre (pre ++ n) = n ∧
    (startsWith n pre = true → pre ++ nameWithoutNamespace pre n = n) ∧
    (startsWith n pre = false → nameWithoutNamespace pre n = n) :=
  ⟨hasParameter_iff h l _, rfl, nameWithoutNamespace_prefix pre n, prefix_nameWithoutNamespace,
   nameWithoutNamespace_other⟩

/-! ## The owner's setters: all or nothing, and who is notified -/

/-- **owner_bulk_atomic**: each of the four setters of `AbstractParametrizable` raises exactly when
the list-level call does, and then nothing has changed, `fireParameterChanged` has not been called
and (for `matchParametersValues`) no flag is reported.

Assumption (stated in `props/C02.json`): the owner's `fireParameterChanged` does not raise — it is
the base class's empty default / a recorder in the model.  The four setters call it *after* the list
has been updated (AbstractParametrizable.h:58-83); a subclass whose override raises
(`ReparametrizationFunctionWrapper`, the discrete distributions) makes the owner's call raise with
every value already applied.  That is outside this theorem: it is about the forwarding layer. -/
theorem owner_bulk_atomic (h : Store) (l src : List ObjId) (pre n : String) (v : Rat)
    (vl : Valid h l) (nds : (names h src).Nodup) :
    ((apSetAllParametersValues h l src).err = (setAllParametersValues h l src).err ∧
      ((apSetAllParametersValues h l src).err ≠ none →
        (apSetAllParametersValues h l src).heap = h ∧ (apSetAllParametersValues h l src).fired = none)) ∧
    ((apSetParametersValues h l src).err = (setParametersValues h l src).err ∧
      ((apSetParametersValues h l src).err ≠ none →
        (apSetParametersValues h l src).heap = h ∧ (apSetParametersValues h l src).fired = none)) ∧
    ((apMatchParametersValues h l src).err = (matchParametersValues h l src).err ∧
      ((apMatchParametersValues h l src).err ≠ none →
        (apMatchParametersValues h l src).heap = h ∧ (apMatchParametersValues h l src).fired = none ∧
        (apMatchParametersValues h l src).flag = false)) ∧
    ((apSetParameterValue h l pre n v).err = (setParameterValue h l (pre ++ n) v).err ∧
      ((apSetParameterValue h l pre n v).err ≠ none →
        (apSetParameterValue h l pre n v).heap = h ∧ (apSetParameterValue h l pre n v).fired = none)) := by
  refine ⟨?_, ?_, ?_, ?_⟩
  · obtain ⟨a, b, c⟩ := apSetAllParametersValues_spec h l src
    refine ⟨b, fun e => ⟨?_, ?_⟩⟩
    · rw [a]; exact setAllParametersValues_err (by rwa [b] at e)
    · rw [c, if_neg (by rwa [b] at e)]
  · obtain ⟨a, b, c⟩ := apSetParametersValues_spec h l src
    refine ⟨b, fun e => ⟨?_, ?_⟩⟩
    · rw [a]; exact setParametersValues_err (by rwa [b] at e)
    · rw [c, if_neg (by rwa [b] at e)]
  · obtain ⟨_, b, _, d⟩ := apMatchParametersValues_spec h l src nds
    refine ⟨b, fun e => ⟨apMatchParametersValues_err nds e, d (by rwa [b] at e), ?_⟩⟩
    rw [b] at e
    unfold apMatchParametersValues; dsimp only
    cases e1 : (matchParametersValues h l src).err with
    | none => exact absurd e1 e
    | some x => rfl
  · obtain ⟨a, _⟩ := apSetParameterValue_spec h l pre n v vl
    obtain ⟨c, _⟩ := apSetParameterValue_fired h l pre n v vl
    exact ⟨a, fun e => ⟨apSetParameterValue_err e, c e⟩⟩

/-- **owner_match_fired_exact**: after a successful `matchParametersValues` of the owner (source
names pairwise different), `fireParameterChanged` is called iff the flag is `true` iff something
differed, and the list it receives consists of exactly the *source's own objects* whose name is
carried by a parameter of the owner that held another value; each of these parameters now holds
the notified value, and every parameter of the owner whose value changed is among them. -/
theorem owner_match_fired_exact (h : Store) (l src : List ObjId) (nds : (names h src).Nodup)
    (ok : (matchParametersValues h l src).err = none) :
    let r := apMatchParametersValues h l src
    let f := r.fired.getD []
    r.err = none ∧ r.flag = f.isEmpty.not ∧ (r.fired = none ↔ f = []) ∧
    (∀ s, s ∈ f ↔ s ∈ src ∧ ∃ t, find? h l (nameOf h s) = some t ∧ (h.get t).value ≠ (h.get s).value) ∧
    (∀ s ∈ f, ∀ t, find? h l (nameOf h s) = some t → (r.heap.get t).value = (h.get s).value) ∧
    (∀ t, (r.heap.get t).value ≠ (h.get t).value → ∃ s ∈ f, find? h l (nameOf h s) = some t) := by
  obtain ⟨g1, g2, g3, g4, g5⟩ := apMatch_fired h l src nds ok
  obtain ⟨_, _, _, hv, hu⟩ := matchParametersValues_full nds ok
  refine ⟨g2, g3, g4, fun s => ?_, fun s hs t e => ?_, fun t ht => ?_⟩
  · rw [g5 s]
    constructor
    · rintro ⟨p, t, e1, e2, e3⟩; exact ⟨List.mem_of_getElem? e1, t, e2, e3⟩
    · rintro ⟨hs, t, e2, e3⟩
      obtain ⟨p, hp⟩ := List.getElem?_of_mem hs
      exact ⟨p, t, hp, e2, e3⟩
  · obtain ⟨p, _, e1, _, _⟩ := (g5 s).1 hs
    rw [g1]; exact hv s (List.mem_of_getElem? e1) t e
  · rw [g1] at ht
    rcases changed_has_source hv hu t with c | ⟨s, hs, e2, e3⟩
    · exact absurd c ht
    · obtain ⟨p, hp⟩ := List.getElem?_of_mem hs
      exact ⟨s, (g5 s).2 ⟨p, t, hp, e2, e3⟩, e2⟩

/-- **owner_set_fired_covers**: `setParametersValues` / `setAllParametersValues` of the owner hand
the *whole source list* to `fireParameterChanged`; it covers every parameter of the owner whose
value changed (it may also name unchanged or unknown parameters — the code does not filter). -/
theorem owner_set_fired_covers (h : Store) (l src : List ObjId) :
    ((names h src).Nodup → (setParametersValues h l src).err = none →
      (apSetParametersValues h l src).fired = some src ∧
      ∀ t, ((apSetParametersValues h l src).heap.get t).value ≠ (h.get t).value →
        ∃ s ∈ src, find? h l (nameOf h s) = some t) ∧
    ((names h l).Nodup → (setAllParametersValues h l src).err = none →
      (apSetAllParametersValues h l src).fired = some src ∧
      ∀ t, ((apSetAllParametersValues h l src).heap.get t).value ≠ (h.get t).value →
        t ∈ l ∧ ∃ s ∈ src, nameOf h s = nameOf h t) := by
  refine ⟨fun nd ok => ?_, fun nd ok => ?_⟩
  · obtain ⟨a, _, c⟩ := apSetParametersValues_spec h l src
    obtain ⟨_, _, hv, hu⟩ := setParametersValues_full nd ok
    refine ⟨by rw [c, if_pos ok], fun t ht => ?_⟩
    rw [a] at ht
    rcases changed_has_source hv hu t with x | ⟨s, hs, e2, _⟩
    · exact absurd x ht
    · exact ⟨s, hs, e2⟩
  · obtain ⟨a, _, c⟩ := apSetAllParametersValues_spec h l src
    obtain ⟨_, _, _, hu⟩ := bulk_applies_setAllParametersValues h l src nd ok
    have acc := (acceptsAll_iff _ _ _).1 ((setAllParametersValues_err_iff _ _ _).1 ok)
    refine ⟨by rw [c, if_pos ok], fun t ht => ?_⟩
    rw [a] at ht
    have htl : t ∈ l := by
      by_contra x
      exact ht (by rw [hu t x])
    obtain ⟨j, e2, _⟩ := acc t htl
    exact ⟨htl, j, (find?_some e2).1, (find?_some e2).2⟩

/-- non-vacuity: two of three source entries differ, one of them is not a parameter of the owner -/
example :
    let s := run State.init [.add 4 ⟨"a", 1, none⟩, .add 4 ⟨"b", 2, none⟩,
                              .add 0 ⟨"b", 5, none⟩, .add 0 ⟨"z", 5, none⟩, .add 0 ⟨"a", 1, none⟩]
    (apMatchParametersValues s.heap (s.lists 4) (s.lists 0)).fired = some [2] := by decide

/-! ## `setNamespace` -/

/-- **setNamespace_exact**: every parameter of the owner's list (names pairwise different) is
renamed to `newPrefix ++ getParameterNameWithoutNamespace(name)`, value and constraint untouched;
objects outside the list are untouched. -/
theorem setNamespace_exact (h : Store) (l : List ObjId) (oldPre newPre : String) (nd : (names h l).Nodup)
    (i : ObjId) :
    (setNamespace h oldPre newPre l).get i =
      if i ∈ l then { h.get i with name := newPre ++ nameWithoutNamespace oldPre (nameOf h i) } else h.get i :=
  setNamespace_get oldPre newPre l h (List.Nodup.of_map _ nd) i

/-- **names_unique_namespace_partial**.  Full statement (false of the code, known finding
`C02-setNamespace-collision`): *after `setNamespace` the names of every list are still pairwise
different*.  Proved here under two hypotheses: every name of the owner's list carries the owner's
current prefix (the naming discipline of the class, not enforced by `addParameter_`), and no other
list holds one of the owner's parameter objects (nothing was shared with `shareParameter_`).  What is
missing: without the first, two names can be mapped to one
(`setNamespace_own_list_collision_witness`); without the second, the renaming shows in the other
list (`setNamespace_breaks_unique_witness`). -/
theorem names_unique_namespace_partial (s : State) (inv : Inv s) (k : Nat) (p : String)
    (disc : ∀ i ∈ s.lists k, startsWith (nameOf s.heap i) (s.pre k) = true)
    (priv : ∀ r, r ≠ k → ∀ i ∈ s.lists r, i ∉ s.lists k) :
    Inv (step s (.apNamespace k p)).1 ∧
    ∀ r, (names (step s (.apNamespace k p)).1.heap ((step s (.apNamespace k p)).1.lists r)).Nodup :=
  ⟨inv_setNamespace inv k p disc priv, (inv_setNamespace inv k p disc priv).names⟩

/-- non-vacuity of the guard: an owner with two prefixed parameters, nothing shared -/
example :
    let s := run State.init [.apNamespace 4 "p.", .addPtr 4 ⟨"p.a", 1, none⟩, .addPtr 4 ⟨"p.b", 2, none⟩, .add 0 ⟨"a", 1, none⟩]
    nsGuard 6 s 4 = true ∧
    names (step s (.apNamespace 4 "q.")).1.heap ((step s (.apNamespace 4 "q.")).1.lists 4) = ["q.a", "q.b"] := by
  decide

/-- known finding `C02-setNamespace-collision`, case (1): an owner with prefix `p.` holding `a`
and `p.a` has the names `[q.a, q.a]` after `setNamespace("q.")` -/
theorem setNamespace_own_list_collision_witness :
    let s := run State.init [.apNamespace 4 "p.", .addPtr 4 ⟨"a", 2, none⟩, .addPtr 4 ⟨"p.a", 3, none⟩,
                              .apNamespace 4 "q."]
    names s.heap (s.lists 4) = ["q.a", "q.a"] := by decide

/-! ## Histories of the extended machine -/

/-- **names_unique_x** / **list_param_inv_x**: along every history of the extended machine all of
whose `setNamespace` steps are guarded (`SafeRun`), names stay pairwise different in every list and
every reachable parameter satisfies its own constraint. -/
theorem names_unique_x (ops : List XOp) (safe : SafeRun State.init ops) (k : Nat) :
    (names (xrun State.init ops).heap ((xrun State.init ops).lists k)).Nodup ∧
    ∀ i ∈ (xrun State.init ops).lists k, ((xrun State.init ops).heap.get i).ok = true :=
  ⟨(inv_xrun inv_init ops safe).names k,
   fun i hi => (inv_xrun inv_init ops safe).ok i ((inv_xrun inv_init ops safe).wf k i hi)⟩

example : SafeRun State.init [.base (.add 0 ⟨"a", 1, none⟩), .base (.add 1 ⟨"a", 5, some ⟨.fin 0, .posInf, true, false⟩⟩),
    .setParamsA 0 1, .nth 0 0, .apHas 4 "a"] := by
  simp [SafeRun, XOp.nsSafe]

/-- **xcheck_sound**: from every state satisfying the invariant, every operation of the extended
machine (a `setNamespace` step under its guard) satisfies every clause the driver evaluates on the
implementation — those of `check_sound` and the new ones (`owner_atomic`, `owner_fired_exact`,
`delete_indices_general`, `namespace_exact`, `names_unique_namespace(_partial)`, `lookup_pure`, `lookup_exact`
for the object-valued and owner-level lookups, `whole_assignment_atomic`). -/
theorem xcheck_sound (n : Nat) (s : State) (inv : Inv s) (op : XOp) (safe : op.nsSafe s) :
    xcheckStep n s op (xstep s op).2.out (xstep s op).2.fired (xstep s op).1 = none := by
  have hn : allNamesUnique n (xstep s op).1 = true := allNamesUnique_of_inv (inv_xstep inv op safe) n
  have hok : clauseOk n s (xstep s op).1 = true := by
    unfold clauseOk; rw [allOk_of_inv (inv_xstep inv op safe) n]; simp
  have hro : (!op.readOnly || unchanged n s (xstep s op).1) = true := by
    by_cases ro : op.readOnly = true
    · rw [xstep_readOnly s op ro, unchanged_refl]; simp
    · simp [ro]
  have hl := clauseXLookup_sound s op
  have ha := clauseXAssign_sound n inv op
  have hc := clauseXOwnerCopy_sound n inv op
  have hf := xstep_fired_none s op
  cases op with
  | base o =>
    simp only [xcheckStep, xstep, check_sound n s inv o, clauseOwnerAtomic_sound inv o,
      clauseOwnerFired_sound inv o, clauseDeleteAny_sound s o, clauseNamespaceExact_sound n inv o,
      clauseNamespace_sound n inv o safe, clauseNamespaceGuarded_sound n inv o safe]
    rfl
  | setAllParamsA k j =>
    simp only [xcheckStep, hn, hok, hro, hl, ha, hc, hf (fun o => by simp)]; simp
  | setParamsA k j =>
    simp only [xcheckStep, hn, hok, hro, hl, ha, hc, hf (fun o => by simp)]; simp
  | nth k i =>
    simp only [xcheckStep, hn, hok, hro, hl, ha, hc, hf (fun o => by simp)]; simp
  | param k x =>
    simp only [xcheckStep, hn, hok, hro, hl, ha, hc, hf (fun o => by simp)]; simp
  | apAddNull k =>
    simp only [xcheckStep, hn, hok, hro, hl, ha, hc, hf (fun o => by simp)]; simp
  | apHas k x =>
    simp only [xcheckStep, hn, hok, hro, hl, ha, hc, hf (fun o => by simp)]; simp
  | apParam k x =>
    simp only [xcheckStep, hn, hok, hro, hl, ha, hc, hf (fun o => by simp)]; simp
  | apGetValue k x =>
    simp only [xcheckStep, hn, hok, hro, hl, ha, hc, hf (fun o => by simp)]; simp
  | apAt k i =>
    simp only [xcheckStep, hn, hok, hro, hl, ha, hc, hf (fun o => by simp)]; simp
  | apNameNoNs k x =>
    simp only [xcheckStep, hn, hok, hro, hl, ha, hc, hf (fun o => by simp)]; simp
  | apCopy k j =>
    simp only [xcheckStep, hn, hok, hro, hl, ha, hc, hf (fun o => by simp)]; simp

/-- … hence along every guarded history from the empty machine. -/
theorem xcheck_sound_run (n : Nat) (ops : List XOp) (safe : SafeRun State.init ops) (op : XOp)
    (safe' : op.nsSafe (xrun State.init ops)) :
    let s := xrun State.init ops
    xcheckStep n s op (xstep s op).2.out (xstep s op).2.fired (xstep s op).1 = none :=
  xcheck_sound n _ (inv_xrun inv_init ops safe) op safe'

end Bpp.C02
