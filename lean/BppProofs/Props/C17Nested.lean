import BppProofs.Lemmas.NestedRT
import BppProofs.Lemmas.NestedBridge
/-!
# C17 — "nested tokenising never splits inside balanced brackets"

Model: the UB-aware `NestedStringTokenizer` of `BppModel/Text/TokenizerU.lean`
(src/Bpp/Text/NestedStringTokenizer.cpp:16-114, both modes, after the repair
"fix: NestedStringTokenizer never recorded its separators …": the constructor fills `splits_`, the
inherited `unparseRemainingTokens` is the one that runs).  Predicates: `BppModel/Text/TokRT.lean`
(`nestedRtOk`, `nestedDepthOk`; the driver evaluates them on the implementation's tokens, separators
and unparsed text).  For every input string shorter than 2^31 (the code counts brackets in an `int`),
every delimiter string, both modes; the re-joining law for *any* bracket strings, the depth law for
single-character brackets that are not delimiter characters (the configurations the library and its
clients use: `(` `)`, `[` `]`, `{` `}`).
-/
namespace Bpp.C17
open Bpp.Text Bpp.Text.U Bpp.Text.RT

/-- **tokens concatenated with the recorded delimiters give back the input**, and
`unparseRemainingTokens()` returns it (without leading / trailing delimiters in non-solid mode): for
every (open, close, delimiter, solid) combination, whenever the constructor returns (it raises the
library's exception on an unclosed block or an empty solid delimiter) -/
theorem nested_rejoin (s op en d : Str) (solid : Bool) (hs : s.length < 2147483648) (T : Tokenizer)
    (h : mkNested s op en d solid = .ok T) :
    ∃ u, T.unparseRemainingTokens = .ok u ∧ nestedRtOk s d solid T.tokens T.splits u = true := by
  obtain ⟨_, hwf, _, _⟩ := (mkNested_spec s op en d solid hs).2 T h
  exact mkNested_rt s op en d solid (strOk_of_int hs) T h hwf

example : mkNested " f(a, b) g(c (d e)) ".toList "(".toList ")".toList " ".toList false
    = .ok ⟨["f(a, b)".toList, "g(c (d e))".toList], [" ".toList, " ".toList], 0⟩ := by rfl
example : mkNested "a<x::y>::b::".toList "<".toList ">".toList "::".toList true
    = .ok ⟨["a<x::y>".toList, "b".toList, []], ["::".toList, "::".toList], 0⟩ := by rfl

/-- reading `nestedRtOk`: re-joining -/
theorem nested_tokens_rejoin (s op en d : Str) (solid : Bool) (hs : s.length < 2147483648) (T : Tokenizer)
    (h : mkNested s op en d solid = .ok T) :
    (if solid then [] else s.takeWhile (inSet d)) ++ interleave T.tokens T.splits = s := by
  obtain ⟨u, _, hu⟩ := nested_rejoin s op en d solid hs T h
  simp only [nestedRtOk, Bool.and_eq_true, beq_iff_eq] at hu
  exact hu.1.1.1.1

/-- reading `nestedRtOk`: the unparsed text -/
theorem nested_unparse (s op en d : Str) (solid : Bool) (hs : s.length < 2147483648) (T : Tokenizer)
    (h : mkNested s op en d solid = .ok T) :
    T.unparseRemainingTokens = .ok (if solid then s else stripSet d s) := by
  obtain ⟨u, e, hu⟩ := nested_rejoin s op en d solid hs T h
  simp only [nestedRtOk, Bool.and_eq_true, beq_iff_eq, unparseSpec] at hu
  rw [e, hu.1.1.1.2]
  cases solid <;> rfl

/-- **every cut is at bracket depth 0**: every token has as many opening as closing brackets (so the
bracket depth at every cut, the sum over the tokens before it, is 0 — separators contain no bracket),
and in non-solid mode every delimiter character inside a token is at non-zero depth (it cuts at
*every* delimiter of depth 0).  Single-character brackets `o`, `c` that are not delimiter characters;
`o = c` is allowed (then the depth is constantly 0 and every delimiter cuts). -/
theorem nested_balanced_all (s d : Str) (o c : Char) (solid : Bool) (ho : d.contains o = false)
    (hc : d.contains c = false) (hs : s.length < 2147483648) (T : Tokenizer)
    (h : mkNested s [o] [c] d solid = .ok T) : nestedDepthOk d o c solid T.tokens = true :=
  mkNested_depth s d o c solid ho hc (strOk_of_int hs) T h

example : saneBrackets "[".toList "]".toList ",;".toList = some ('[', ']') := by decide
example : ∃ T, mkNested "a[1,2],b[[3;4],5];c".toList "[".toList "]".toList ",;".toList false = .ok T ∧
    T.tokens = ["a[1,2]".toList, "b[[3;4],5]".toList, "c".toList] := ⟨_, rfl, rfl⟩

/-- a bracket that is also a delimiter character is never seen by the counter (the pieces between
delimiters do not contain it): brackets must not be delimiters for the depth law to mean anything -/
theorem nested_bracket_delimiter_witness :
    mkNested "(a,b)".toList "(".toList ")".toList ",(".toList false = .error .bpp ∧
    ∃ T, mkNested "a),(b".toList "(".toList ")".toList ",()".toList false = .ok T ∧
      T.tokens = ["a".toList, "b".toList] := ⟨by rfl, _, rfl, rfl⟩

/-- **the two transcriptions of `NestedStringTokenizer(s, "(", ")", d)` agree** whenever the
constructor returns: the character-level `Keyval.nested` (on which `parse_render`,
`changeKeyvals_exact`, `nested_balanced` rest) returns the tokens of the position-level `mkNested`
(on which this file rests).  Delimiters other than the parentheses (KeyvalTools passes `,`).
FULL statement also has the converse for the raising case (`mkNested … = .error .bpp →
Keyval.nested … = none`, "Unclosed block"): not proved (the two agree on it on every run of the
differential check and on all strings over {a ( ) , space} up to length 7). -/
theorem keyval_nested_is_nested_tokenizer_partial (s d : Str) (ho : d.contains '(' = false)
    (hc : d.contains ')' = false) (hs : s.length < 2147483648) (T : Tokenizer)
    (h : mkNested s ['('] [')'] d false = .ok T) :
    Keyval.nested (fun c => d.contains c) false 0 s = some T.tokens :=
  nested_eq_mkNested s d ho hc hs T h

example : mkNested "f(a,b),g".toList ['('] [')'] [','] false
    = .ok ⟨["f(a,b)".toList, "g".toList], [",".toList], 0⟩ := by rfl

/-- **after `k` calls of `nextToken()`**: the same law as for the plain tokenizer -/
theorem nested_unparse_after_next (s op en d : Str) (solid : Bool) (hs : s.length < 2147483648)
    (T : Tokenizer) (h : mkNested s op en d solid = .ok T) (k : Nat) (hk : k ≤ T.tokens.length) :
    ∃ T' u0 uk, nextN k T = .ok (T.tokens.take k, T') ∧
      T.unparseRemainingTokens = .ok u0 ∧ T'.unparseRemainingTokens = .ok uk ∧
      advanceRtOk T.tokens T.splits k u0 uk = true := by
  obtain ⟨hpos, hwf, _, _⟩ := (mkNested_spec s op en d solid hs).2 T h
  obtain ⟨u0, uk, h0, h1, h2⟩ := advance_rt T hwf hpos k hk
  have hn := nextN_eq k T (by omega)
  rw [hpos] at hn
  exact ⟨advance T k, u0, uk, by simpa using hn, h0, h1, h2⟩

end Bpp.C17
