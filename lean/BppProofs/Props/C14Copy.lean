import BppProofs.Lemmas.ObserverExt
import BppProofs.Lemmas.ObserverForget
import BppProofs.Props.C14Observer
/-!
# C14, round 2: graph-level operations under observers, and copies by object identity

* **deleted items are forgotten in every map — whoever deletes them.**  Every mutator of
  `GlobalGraph` called directly on a graph that has registered observers (`createNodeOnEdge`,
  `createNodeFromEdge`, `createNodeFromNode`, `link`, `unlink`, `deleteNode`, `switchNodes`,
  `makeDirected`, `makeUndirected`, `setRoot`) tells the observers about every node and edge it
  removes (`graph_ops_notify`), and once told, every observer has the object of every vanished
  node / edge in none of its four maps (`graph_op_forgets`, `observer_unlink_forgets`).
  `Obs.forgotOk` — what the driver evaluates on the implementation's tables after every
  operation — is that statement (`forgotOk_is_forgot_dead`).
* **a copy is independent.**  Objects are identified by (owning observer, label)
  (`BppModel/ObserverExt.lean`).  The copy constructor / `clone()` / `operator=` store only
  freshly made objects, in all eight maps (`copy_independent`), share no object with the source
  (`copy_shares_nothing`), and — owners forgotten — are the label-level `copyObs` the other
  theorems are about (`copy_labels`).  `IObs.foreign` is what the driver evaluates on every
  observer after every operation.
* the invariant over histories that also use `clone()`, `operator=`, the constructor on an
  existing graph and `setRoot(Nref)` (`assoc_bijective_ext`).
-/
namespace Bpp.C14
open Bpp Bpp.Graph Bpp.AL

/-! ## graph-level operations on a graph with observers -/

/-- **graph_ops_notify**: whatever mutator is called on the graph itself — succeeding or raising —
the notifications it queues for its observers name every node and every edge that was in the
graph before and is not afterwards -/
theorem graph_ops_notify (g : G) (hc : Consistent g) (op : Op) :
    ∃ evs, (g.applyR op).state.pending = g.pending ++ evs ∧
      (∀ n, g.hasNode n = true → (g.applyR op).state.hasNode n = false → n ∈ notifiedNodes evs) ∧
      (∀ e, g.hasEdge e = true → (g.applyR op).state.hasEdge e = false → e ∈ notifiedEdges evs) :=
  G.applyR_notified hc op

/-- `orientate()` — the public mutator that re-orients the graph from its root through a sequence of
`switchNodes` calls steered by a copy of the graph, and may raise half-way (reciprocal relations,
a graph that is not connected): whether it succeeds or raises the three views agree afterwards,
and nothing was removed without the observers being told -/
theorem orientate_consistent (g : G) (hc : Consistent g) :
    Consistent g.orientate.state ∧
    ∃ evs, g.orientate.state.pending = g.pending ++ evs ∧
      (∀ n, g.hasNode n = true → g.orientate.state.hasNode n = false → n ∈ notifiedNodes evs) ∧
      (∀ e, g.hasEdge e = true → g.orientate.state.hasEdge e = false → e ∈ notifiedEdges evs) := by
  refine ⟨?_, G.orientate_notified hc⟩
  have := G.orientate_consistent hc
  cases h : g.orientate <;> rw [h] at this <;> exact this

/-- … along every history of the other operations -/
theorem orientate_consistent_inv (d : Bool) (ops : List Op) : Consistent ((Graph.empty d).run ops).orientate.state :=
  (orientate_consistent _ (consistent_inv d ops)).1

/-- non-vacuity: 1->0, 1->2 rooted at 0 is re-oriented into 0->1->2 (edge ids kept); with the
reciprocal pair 0<->1 the call raises -/
example : ((Graph.empty true).run [.createNode, .createNode, .createNode, .link 1 0, .link 1 2]).orientate.state.edges
    = [(0, (0, 1)), (1, (1, 2))] := by decide
example : ((Graph.empty true).run [.createNode, .createNode, .link 1 0, .link 0 1]).orientate.raised = true := by decide

/-- the graph a world is left with by a graph-level operation -/
theorem graphOp_graph (w : World) (op : Op) :
    (w.step (.graph op)).g = { (w.g.applyR op).state with pending := [] } := by
  simp only [World.step, World.graphOp]
  cases w.g.applyR op <;> rfl

/-- **graph_op_forgets** (deleted_forgotten, graph level): a mutator is called directly on the
graph of a world in order (any reachable world, `assoc_bijective`).  Every observer `k` is still
there afterwards and the object it had associated to a node (edge) that the operation removed —
e.g. the edge split by `createNodeOnEdge` / `createNodeFromEdge`, the edges of a deleted node —
is a key of neither object→id nor object→index and sits in no slot of id→object nor index→object -/
theorem graph_op_forgets (w : World) (hw : WInv w) (op : Op) (k : Nat) (o : Obs) (hk : w.getObs k = some o) :
    ∃ o', (w.step (.graph op)).getObs k = some o' ∧ ForgotDead (w.step (.graph op)).g o o' := by
  have hn := G.applyR_notified hw.graph op
  obtain ⟨o', h1, h2⟩ := deliver_forgets hw hn k o hk
  refine ⟨o', ?_, ?_⟩
  · simp only [World.step, World.graphOp]
    cases hr : w.g.applyR op <;> rw [hr] at h1 <;> exact h1
  · rw [graphOp_graph]
    exact ⟨fun a n ha hd => h2.1 a n ha hd, fun x e hx hd => h2.2 x e hx hd⟩

/-- … the same through `unlink(A, B)` of any observer: the other observers (copies) forget too -/
theorem observer_unlink_forgets (w : World) (hw : WInv w) (j a b : Nat) (k : Nat) (o : Obs) (hk : w.getObs k = some o) :
    ∃ o', ((w.unlink j a b).world w).getObs k = some o' ∧ ForgotDead ((w.unlink j a b).world w).g o o' := by
  have same : ∃ o', w.getObs k = some o' ∧ ForgotDead w.g o o' :=
    ⟨o, hk, forgotDead_of_shrunk (Shrunk.refl o) (hw.obs k o hk)⟩
  unfold World.unlink
  rcases hj : w.getObs j with _ | oj
  · exact same
  · simp only
    rcases find a oj.Ng with _ | ia
    · exact same
    · rcases find b oj.Ng with _ | ib
      · exact same
      · simp only
        have hn := G.unlink_notified hw.graph ia ib
        obtain ⟨o', h1, h2⟩ := deliver_forgets hw hn k o hk
        cases hr : G.unlink ia ib w.g <;> rw [hr] at h1 h2 <;> exact ⟨o', h1, h2⟩

/-- the executable predicate of the driver is `ForgotDead` -/
theorem forgotOk_is_forgot_dead (g : G) (o o' : Obs) (hn : Asc o.Ng) (he : Asc o.Eg) :
    Obs.forgotOk g o o' = true ↔ ForgotDead g o o' := forgotOk_iff g o o' hn he

/-- non-vacuity: an observer with an indexed edge object on edge 0; `createNodeOnEdge 0` on the
graph removes edge 0 and the observer has forgotten the object in all four edge maps -/
example :
    ((World.init true).run [.createNode 0 0, .createNode 0 1, .link 0 0 1 (some 5), .addEdgeIndex 0 5]).getObs 0 =
      some { gN := [some 0, some 1], gE := [some 5], Ng := [(0, 0), (1, 1)], Eg := [(5, 0)], iE := [some 5], Ei := [(5, 0)] } ∧
    ((World.init true).run [.createNode 0 0, .createNode 0 1, .link 0 0 1 (some 5), .addEdgeIndex 0 5,
        .graph (.createNodeOnEdge 0)]).getObs 0 =
      some { gN := [some 0, some 1], gE := [none], Ng := [(0, 0), (1, 1)], Eg := [], iE := [none], Ei := [] } := by
  decide

/-! ## a copy owns independent objects -/

/-- **copy_independent**: in the observer built by the copy constructor (`clone()`, `operator=`)
into slot `k`, every object in every one of the eight maps is one of the objects made by that
copy — whatever the source holds -/
theorem copy_independent (k : Nat) (s : IObs) :
    (IObs.copyI k s).foreign k = none ∧ ∀ a ∈ (IObs.copyI k s).objects, a.owner = k :=
  ⟨IObs.copyI_foreign k s, (IObs.foreign_none_iff k _).mp (IObs.copyI_foreign k s)⟩

/-- … so it shares no object with a source that holds none of the copy's objects (a source in
another slot that is itself in order) -/
theorem copy_shares_nothing (j k : Nat) (hjk : j ≠ k) (s : IObs) (hs : s.foreign j = none) :
    ∀ a, a ∈ s.objects → a ∉ (IObs.copyI k s).objects := by
  intro a ha hc
  have h1 := (IObs.foreign_none_iff j s).mp hs a ha
  have h2 := (copy_independent k s).2 a hc
  exact hjk (h1.symm.trans h2)

/-- **copy_labels**: with the owners forgotten the identity-level copy is the label-level
`copyObs` of `copy_same_relations` / `assoc_bijective` -/
theorem copy_labels (j k : Nat) (o : Obs) : IObs.copyI k (o.tag j) = (World.copyObs o).tag k :=
  IObs.copyI_tag j k o

/-- an observer of the label-level model holds its own objects only -/
theorem tag_owned (k : Nat) (o : Obs) : (o.tag k).foreign k = none := by
  rw [IObs.foreign_none_iff]
  intro a ha
  simp only [IObs.objects, Obs.tag, List.mem_append, List.mem_filterMap, List.mem_map, id] at ha
  rcases ha with ((((((ha | ha) | ha) | ha) | ha) | ha) | ha) | ha
  all_goals first
    | (obtain ⟨x, hx, hxa⟩ := ha
       obtain ⟨y, _, hy⟩ := hx
       subst hxa
       cases y <;> simp at hy
       rw [← hy])
    | (obtain ⟨p, hp, hpa⟩ := ha
       obtain ⟨q, _, hq⟩ := hp
       subst hpa; rw [← hq])

/-- non-vacuity of `copy_independent`: a copy constructor that stores the source's edge object in
`indexToE_` (and the fresh one in the other three edge maps) is caught by the same predicate -/
example :
    (IObs.copyI 1 (Obs.tag 0 { gN := [some 0, some 1], gE := [some 5], Ng := [(0, 0), (1, 1)], Eg := [(5, 0)], iE := [none, some 5], Ei := [(5, 1)] })).foreign 1 = none ∧
    (IObs.copyI_aliasing 1 (Obs.tag 0 { gN := [some 0, some 1], gE := [some 5], Ng := [(0, 0), (1, 1)], Eg := [(5, 0)], iE := [none, some 5], Ei := [(5, 1)] })).foreign 1 = some "indexToE" := by
  decide

/-! ## histories with `clone()`, `operator=`, a second observer constructed on the graph, `setRoot(Nref)` -/

theorem winv_stepX (w : World) (hw : WInv w) (op : WOpX) : WInv (w.stepX op) := by
  cases op with
  | base op => exact winv_step w hw op
  | clone j k => exact all_world hw (world_copy_inv hw j k)
  | assign j k => exact all_world hw (world_assign_inv hw j k)
  | attach k => exact all_world hw (world_attach_inv hw k)
  | setRoot k a => exact all_world hw (world_setRootObj_inv hw k a)
  | orientate => exact world_orientate_inv hw
  | notify ev => exact world_notifyDirect_inv hw ev
  | nullCall k => simp only [World.stepX, World.nullRefused]; cases w.getObs k <;> exact hw
  | graphAssign d hist =>
    have hc := consistent_inv d hist
    exact world_graphAssign_inv hw ⟨hc.views, hc.node_lt, hc.edge_lt, ⟨hc.sorted.nodes, hc.sorted.edges, hc.sorted.rows⟩⟩

/-- **assoc_bijective**, over all histories that also copy observers with `clone()` and
`operator=`, construct further observers on the same graph, set the root through an object, and
assign another graph (any graph reachable from the empty one) to the observed graph -/
theorem assoc_bijective_ext (d : Bool) (ops : List WOpX) : WInv ((World.init d).runX ops) := by
  suffices h : ∀ w, WInv w → WInv (w.runX ops) from h _ (winv_init d)
  induction ops with
  | nil => intro w hw; exact hw
  | cons op r ih => intro w hw; exact ih _ (winv_stepX w hw op)

/-- `operator=` (as repaired) gives the target the relations of the source, like the copy constructor -/
theorem assign_same_relations (w w' : World) (j k : Nat) (o : Obs) (hj : w.getObs j = some o) (hjk : j ≠ k)
    (h : w.assign j k = .ok () w') : w'.getObs k = some (World.copyObs o) := by
  unfold World.assign at h
  rw [hj] at h
  rcases hk : w.getObs k with _ | o2 <;> rw [hk] at h
  · cases h
  · simp only [hjk, if_false] at h
    split at h
    · cases h
    · injection h with _ h; subst h
      rw [getObs_setObs _ _ _ _ (getObs_lt hk)]; simp

example : ((World.init true).runX [.base (.createNode 0 3), .clone 0 1, .base (.createNode 1 4), .assign 1 2, .attach 2, .assign 1 2,
    .setRoot 2 4]).getObs 2 = some { gN := [some 3, some 4], Ng := [(3, 0), (4, 1)] } := by decide

end Bpp.C14
