import BppProofs.Lemmas.KeyvalU
/-!
C16 — KeyvalTools (src/Bpp/Text/KeyvalTools.cpp) and the wildcard matcher
(src/Bpp/App/ApplicationTools.cpp:28-95) on the UB-aware string model: every entry point returns
or raises the library's exception (`safe`): no undefined behaviour, no `std::` exception, no hang.

The `…_of` theorems take the facts about the tokenizer constructors (`mkKvTokenizer`,
`mkTokenizer`) as hypotheses (cursor at 0, a `size_t` token count: `Tokenizer.WF` is false of a
NestedStringTokenizer); the theorems without `_of` discharge them with `Lemmas/TokenizerU.lean`
(`mkTokenizer_spec`, `mkNested_spec`, `solidLoop_spec`) under the size bound those need:
`desc.length < 2^31` where a NestedStringTokenizer counts parentheses in an `int`.
-/
namespace Bpp.C16
open Bpp.Text Bpp.Text.U

/-! ## singleKeyval -/

/-- KeyvalTools::singleKeyval after the repair: any description, any separator -/
theorem singleKeyval_safe (desc split : Str) : safe (singleKeyval desc split) = true :=
  singleKeyval_safe' desc split

example : singleKeyval ['a', '=', 'b'] ['='] = .ok (['a'], ['b']) := rfl
example : singleKeyval "key = some value".toList "=".toList = .ok ("key ".toList, " some value".toList) := rfl
example : singleKeyval ['a', 'b'] ['='] = .error .bpp := rfl
example : singleKeyval [] [] = .error .bpp := rfl

/-- the code as found: `std::out_of_range` of `desc.substr(1)` on an empty description with an
empty separator -/
theorem singleKeyval_old_std : singleKeyvalOld [] [] = .error .std := rfl

/-- the two parts returned do not exceed the description (one character, the separator's first,
is dropped).  The bound `desc.length < SZ` (every `std::string` satisfies it: `StrOk`) cannot be
removed: `singleKeyval_alloc_false`. -/
theorem singleKeyval_alloc_partial (desc split k v : Str) (h : singleKeyval desc split = .ok (k, v))
    (hlen : desc.length < SZ) : k.length + v.length ≤ desc.length := by
  have := singleKeyval_alloc_of_lt desc split k v h hlen
  omega

theorem singleKeyval_alloc_strOk (desc split k v : Str) (h : singleKeyval desc split = .ok (k, v))
    (hs : StrOk desc) : k.length + v.length ≤ desc.length := by
  apply singleKeyval_alloc_partial desc split k v h
  have := maxStr_lt
  unfold StrOk at hs; unfold SZ; omega

/-- the statement without a bound on `desc` is false of the model (a description of 2^64
characters whose last one is the separator: `i + 1` wraps to 0) -/
theorem singleKeyval_alloc_false :
    ¬ ∀ desc split k v : Str, singleKeyval desc split = .ok (k, v) →
      k.length + v.length ≤ desc.length := by
  intro hall
  obtain ⟨desc, split, k, v, h, hn⟩ := singleKeyval_alloc_unbounded_false
  exact hn (hall desc split k v h)

example : singleKeyval ['a', 'b', '=', 'c', '=', 'd'] ['='] = .ok (['a', 'b'], ['c', '=', 'd']) := rfl

/-! ## the loop merging `=` tokens -/

/-- the loop terminates within `remaining tokens + 1` rounds and `tokens[tokens.size() - 1]` is
only read on a non-empty vector: no hypothesis on `acc` is needed -/
theorem mergeLoop_safe (fuel : Nat) (st : Tokenizer) (acc : List Str)
    (hpos : st.pos ≤ st.tokens.length) (hfuel : st.tokens.length - st.pos < fuel) :
    safe (mergeLoop fuel st acc) = true :=
  mergeLoop_safe' fuel st acc hpos hfuel

example : mergeLoop 4 ⟨[['a'], ['='], ['b'], ['c']], [], 0⟩ [] = .ok [['a', '=', 'b'], ['c']] := rfl
example : mergeLoop 4 ⟨[['='], ['b']], [], 0⟩ [] = .error .bpp := rfl
example : mergeLoop 1 ⟨[['a'], ['b']], [], 0⟩ [] = .error .hang := rfl

/-! ## multipleKeyvals -/

theorem multipleKeyvals_safe_of (desc split : Str) (m0 : Keyval.Map) (nested : Bool)
    (hmk : safe (mkKvTokenizer desc split nested) = true)
    (hwf : ∀ t, mkKvTokenizer desc split nested = .ok t → t.pos = 0 ∧ t.tokens.length < SZ) :
    safe (multipleKeyvals desc m0 split nested) = true :=
  multipleKeyvals_safe_of' desc split m0 nested hmk hwf

/-- hypothesis-free: a description shorter than 2^31 -/
theorem multipleKeyvals_safe (desc split : Str) (m0 : Keyval.Map) (nested : Bool)
    (hs : desc.length < 2147483648) : safe (multipleKeyvals desc m0 split nested) = true :=
  multipleKeyvals_safe' desc split m0 nested hs

example : multipleKeyvals "a=1,b=2".toList [] ",".toList false =
    .ok [("a".toList, "1".toList), ("b".toList, "2".toList)] := rfl
example : multipleKeyvals "a=f(x=1,y=2), b = 2".toList [] ",".toList true =
    .ok [("a".toList, "f(x=1,y=2)".toList), ("b".toList, "2".toList)] := rfl
example : multipleKeyvals "a,b=2".toList [] ",".toList false = .error .bpp := rfl

/-! ## splitProcedure / parseProcedure / changeKeyvals -/

theorem splitProcedure_safe (desc : Str) : safe (splitProcedure desc) = true :=
  splitProcedure_safe' desc

theorem splitProcedure_inner (desc name inner : Str)
    (h : splitProcedure desc = .ok (some (name, inner))) :
    inner.length ≤ desc.length ∧ name.length ≤ desc.length :=
  splitProcedure_inner' desc name inner h

example : splitProcedure " f(a=1)".toList = .ok (some ("f".toList, "a=1".toList)) := rfl
example : splitProcedure "f".toList = .ok none := rfl
example : splitProcedure "f)".toList = .error .bpp := rfl
example : splitProcedure "f(a".toList = .error .bpp := rfl
example : splitProcedure "f(a) ".toList = .ok (some ("f".toList, "a".toList)) := rfl
example : splitProcedure "f(a)b".toList = .error .bpp := rfl

theorem parseProcedure_safe_of (desc : Str)
    (hmk : ∀ inner, inner.length ≤ desc.length →
      safe (mkKvTokenizer inner [','] true) = true ∧
      ∀ t, mkKvTokenizer inner [','] true = .ok t → t.pos = 0 ∧ t.tokens.length < SZ) :
    safe (parseProcedure desc) = true :=
  parseProcedure_safe_of' desc hmk

/-- hypothesis-free: a description shorter than 2^31 (NestedStringTokenizer's `int` counter) -/
theorem parseProcedure_safe (desc : Str) (hs : desc.length < 2147483648) :
    safe (parseProcedure desc) = true :=
  parseProcedure_safe' desc hs

example : parseProcedure "f(a=1,b=g(c=2))".toList =
    .ok ("f".toList, [("a".toList, "1".toList), ("b".toList, "g(c=2)".toList)]) := by
  simp only [parseProcedure, show splitProcedure "f(a=1,b=g(c=2))".toList =
    .ok (some ("f".toList, "a=1,b=g(c=2)".toList)) from rfl]
  rfl
example : parseProcedure "Gamma".toList = .ok ("Gamma".toList, []) := rfl
example : parseProcedure "f(a,b=1)".toList = .error .bpp := by
  simp only [parseProcedure, show splitProcedure "f(a,b=1)".toList =
    .ok (some ("f".toList, "a,b=1".toList)) from rfl]
  rfl

theorem changeKeyvals_safe_of (desc split : Str) (newkv : Keyval.Map) (nested : Bool)
    (hmk : ∀ inner, inner.length ≤ desc.length →
      safe (mkKvTokenizer inner split nested) = true ∧
      ∀ t, mkKvTokenizer inner split nested = .ok t → t.pos = 0 ∧ t.tokens.length < SZ) :
    safe (changeKeyvals desc newkv split nested) = true :=
  changeKeyvals_safe_of' desc split newkv nested hmk

theorem changeKeyvals_safe (desc split : Str) (newkv : Keyval.Map) (nested : Bool)
    (hs : desc.length < 2147483648) : safe (changeKeyvals desc newkv split nested) = true :=
  changeKeyvals_safe' desc split newkv nested hs

example : changeKeyvals "f(a=1,b=2)".toList [("b".toList, "7".toList)] ",".toList true =
    .ok "f(a=1,b=7)".toList := by
  simp only [changeKeyvals, show splitProcedure "f(a=1,b=2)".toList =
    .ok (some ("f".toList, "a=1,b=2".toList)) from rfl]
  rfl

/-! ## the wildcard matcher -/

theorem matcherU_safe_of (pattern name : Str)
    (hmk : safe (mkTokenizer pattern ['*'] true false) = true)
    (hwf : ∀ t, mkTokenizer pattern ['*'] true false = .ok t → t.pos = 0 ∧ t.tokens.length < SZ ∧ t.tokens ≠ []) :
    safe (matcherU pattern name) = true :=
  matcherU_safe_of' pattern name hmk hwf

/-- it never raises, not even the library's exception -/
theorem matcherU_returns_of (pattern name : Str)
    (hwf : ∀ t, mkTokenizer pattern ['*'] true false = .ok t → t.pos = 0 ∧ t.tokens.length < SZ ∧ t.tokens ≠ [])
    (hex : ∃ t, mkTokenizer pattern ['*'] true false = .ok t) :
    ∃ b, matcherU pattern name = .ok b :=
  matcherU_returns_of' pattern name hwf hex

/-- hypothesis-free: any pattern a `std::string` can hold, any name -/
theorem matcherU_returns (pattern name : Str) (hs : StrOk pattern) :
    ∃ b, matcherU pattern name = .ok b :=
  matcherU_returns' pattern name hs

theorem matcherU_safe (pattern name : Str) (hs : StrOk pattern) :
    safe (matcherU pattern name) = true := by
  obtain ⟨b, hb⟩ := matcherU_returns pattern name hs
  rw [hb]; rfl

example : matcherU "ab*cd".toList "abxxcd".toList = .ok true := rfl
example : matcherU "ab*cd".toList "abxxcde".toList = .ok false := rfl
example : matcherU "*".toList "anything".toList = .ok true := rfl
example : matcherU "abc".toList "abcd".toList = .ok false := rfl

/-! ## refinement to C17's functional matcher -/

/-- the tokenizer the matcher builds computes the token list of the C17 model -/
theorem solid_star_tokens_eq (pattern : Str) (hs : StrOk pattern) :
    ∃ ss, mkTokenizer pattern ['*'] true false = .ok ⟨Glob.starTokens false pattern, ss, 0⟩ :=
  solid_star_tokens pattern hs

example : mkTokenizer "ab**cd*".toList ['*'] true false =
    .ok ⟨Glob.starTokens false "ab**cd*".toList, ["**".toList, "*".toList], 0⟩ := rfl

/-- the UB-aware matcher returns what `Bpp.Text.Glob.matcher` (the model of C17) computes, for
every pattern and name a `std::string` can hold.  `StrOk name` cannot be removed:
`matcherU_refines_false`. -/
theorem matcherU_refines_partial (pattern name : Str) (hs : StrOk pattern) (hn : StrOk name) :
    matcherU pattern name = .ok (Glob.matcher pattern name) :=
  matcherU_refines' pattern name hs hn

/-- the requested statement, with `StrOk pattern` only, is false of the model: on a name of
2^64+1 characters (`a…a=` against `*=`) the `size_t` position `pos1` wraps -/
theorem matcherU_refines_false :
    ¬ ∀ pattern name : Str, StrOk pattern →
      matcherU pattern name = .ok (Glob.matcher pattern name) := by
  intro hall
  obtain ⟨p, n, hp, hne⟩ := matcherU_refines_unbounded_false
  exact hne (hall p n hp)

example : matcherU "a*b*".toList "axxbyy".toList = .ok (Glob.matcher "a*b*".toList "axxbyy".toList) := rfl
example : Glob.matcher "a*b*".toList "axxbyy".toList = true := rfl

end Bpp.C16
