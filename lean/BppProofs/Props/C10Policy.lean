import BppProofs.Lemmas.OptimPolicy
import BppProofs.Props.C01
/-!
# C10, part 5 — the constraint policy

"Under the automatic-constraint policy the objective is never evaluated outside its parameters'
constraints and the reported point is feasible."

The optimiser's own parameter list is `init`'s list with the policy applied
(`AbstractOptimizer::autoParameter`: every parameter becomes an `AutoParameter` with the same
constraint; `keep`: unchanged).  Every evaluation hands a parameter list to the objective.  The
theorems below are built on C01: a `setValue` — plain or auto-correcting — that returns leaves the
parameter inside its constraint (`Param.svb_inv`, `Param.sva_inv`), and an auto-correcting one
always returns on a wide interval (`C01.auto_total`).

* `objective_feasible` — the objective of the harness, whatever it computes, evaluated through a list
  tied to `init`'s constraints, is evaluated at a point that satisfies them;
* `auto_policy_feasible` — template form: for **every** optimiser whose `doInit`/`doStep` evaluate the
  function through tied lists only (`SafeAlgo`), after `init` and `optimize` — however they end,
  exceptions included — every point the objective has been evaluated at satisfies the constraints
  (`Spec.feasibleLog`, the predicate the driver evaluates on the implementation's log) and the
  reported point is feasible (`Spec.feasibleReport`);
* `golden_auto_policy_feasible`, `brent_auto_policy_feasible` — the golden section search and Brent's
  method (both bracketings included) are such optimisers;
* `auto_never_raises` — under the automatic policy, with wide intervals, no `setValue` of the
  optimiser's list raises.
The same holds under the `keep` policy (the theorems only need `policy ≠ ignore`), where a plain
`setValue` may raise instead of correcting.
-/
namespace Bpp.C10
open Bpp Bpp.Optim

/-- the constraints of the list given to `init`, by parameter name -/
def consOf (params : PList ℝ) : Spec.Cons ℝ := params.map (fun q => (q.name, q.p.constraint))

/-- **objective_feasible**: one evaluation.  `fn.f obj pl` with a list tied to `cons`, from a function
whose log and point are feasible, logs a feasible point. -/
theorem objective_feasible (obj : List ℝ → ℝ) (cons : Spec.Cons ℝ) (fn : Fn ℝ) (pl : PList ℝ)
    (hQ : FeasFn cons fn) (hT : Tied cons pl) :
    Spec.feasibleLog cons (fn.f obj pl).1.log = true ∧ Spec.feasiblePoint cons (fn.f obj pl).1.point = true :=
  setParameters_feasible cons fn pl hQ hT

/-- **auto_policy_feasible** (template form, every `SafeAlgo` optimiser, every objective) -/
theorem auto_policy_feasible {τ : Type}
    (A : Algo (Fn ℝ) τ ℝ) (params : PList ℝ)
    (ha : SafeAlgo A (FeasFn (consOf params)) (Tied (consOf params)))
    (s : St (Fn ℝ) τ ℝ) (hpol : s.core.policy ≠ .ignore)
    (hfeas : feasibleList params = true) (hnd : (params.map (·.name)).Nodup)
    (hs0 : FeasFn (consOf params) s.fn) :
    ROk (FeasFn (consOf params))
      (fun s1 => Spec.feasibleLog (consOf params) s1.fn.log = true ∧ Spec.feasibleReport s1.core.params = true ∧
        ∀ fuel, ROk (FeasFn (consOf params))
          (fun r => Spec.feasibleLog (consOf params) r.1.fn.log = true ∧ Spec.feasibleReport r.1.core.params = true)
          (A.optimize fuel s1))
      (A.init s params) := by
  have hT0 := applyPolicy_tied params s.core.policy hpol hfeas hnd
  have hrep : ∀ pl, Tied (consOf params) pl → Spec.feasibleReport pl = true := by
    intro pl hT
    unfold Spec.feasibleReport feasibleList
    rw [List.all_eq_true]
    exact fun q hq => (hT q hq).1
  have hi := init_safe ha s params hs0 hT0
  cases hinit : A.init s params with
  | error e => rw [hinit] at hi; exact hi
  | ok s1 =>
    rw [hinit] at hi
    refine ⟨hi.1.1, hrep _ hi.2, fun fuel => ?_⟩
    have ho := optimize_safe ha fuel s1 hi.1 hi.2
    cases hopt : A.optimize fuel s1 with
    | error e => rw [hopt] at ho; exact ho
    | ok r => rw [hopt] at ho; exact ⟨ho.1.1, hrep _ ho.2⟩

/-- **golden_auto_policy_feasible**: `GoldenSectionSearch` — `init` (outward bracketing, the two inner
evaluations), any number of steps, the final evaluation of its `optimize` — on the objective of the
harness: however the run ends, every evaluation was made at a feasible point, and the reported
parameter is feasible. -/
theorem golden_auto_policy_feasible (obj : List ℝ → ℝ) (D : Deriv ℝ) (cap : Option Nat) (fuel : Nat)
    (params : PList ℝ) (s : St (Fn ℝ) (Gss ℝ) ℝ) (hpol : s.core.policy ≠ .ignore)
    (hfeas : feasibleList params = true) (hnd : (params.map (·.name)).Nodup)
    (hs0 : FeasFn (consOf params) s.fn) :
    ROk (FeasFn (consOf params))
      (fun s1 => Spec.feasibleLog (consOf params) s1.fn.log = true ∧ Spec.feasibleReport s1.core.params = true ∧
        ∀ fuel', ROk (FeasFn (consOf params))
          (fun r => Spec.feasibleLog (consOf params) r.1.fn.log = true ∧ Spec.feasibleReport r.1.core.params = true)
          (gssOptimize (Fn.iface obj D cap) fuel' s1))
      ((gssAlgo (Fn.iface obj D cap) fuel).init s params) := by
  have hsafe := objective_safe obj D cap (consOf params)
  have hT0 := applyPolicy_tied params s.core.policy hpol hfeas hnd
  have hrep : ∀ pl, Tied (consOf params) pl → Spec.feasibleReport pl = true := by
    intro pl hT
    unfold Spec.feasibleReport feasibleList
    rw [List.all_eq_true]
    exact fun q hq => (hT q hq).1
  have hi := init_safe (gss_safeAlgo hsafe fuel) s params hs0 hT0
  cases hinit : (gssAlgo (Fn.iface obj D cap) fuel).init s params with
  | error e => rw [hinit] at hi; exact hi
  | ok s1 =>
    rw [hinit] at hi
    refine ⟨hi.1.1, hrep _ hi.2, fun fuel' => ?_⟩
    have ho := gssOptimize_safe hsafe fuel' s1 hi.1 hi.2
    cases hopt : gssOptimize (Fn.iface obj D cap) fuel' s1 with
    | error e => rw [hopt] at ho; exact ho
    | ok r => rw [hopt] at ho; exact ⟨ho.1.1, hrep _ ho.2⟩

/-- **brent_auto_policy_feasible**: the same for `BrentOneDimension` — `init` with either bracketing
(the inward scan included), any number of steps (each evaluates on a copy of the optimiser's list),
the final evaluation of its `optimize`. -/
theorem brent_auto_policy_feasible (obj : List ℝ → ℝ) (D : Deriv ℝ) (cap : Option Nat) (fuel : Nat)
    (params : PList ℝ) (s : St (Fn ℝ) (Brent ℝ) ℝ) (hpol : s.core.policy ≠ .ignore)
    (hfeas : feasibleList params = true) (hnd : (params.map (·.name)).Nodup)
    (hs0 : FeasFn (consOf params) s.fn) :
    ROk (FeasFn (consOf params))
      (fun s1 => Spec.feasibleLog (consOf params) s1.fn.log = true ∧ Spec.feasibleReport s1.core.params = true ∧
        ∀ fuel', ROk (FeasFn (consOf params))
          (fun r => Spec.feasibleLog (consOf params) r.1.fn.log = true ∧ Spec.feasibleReport r.1.core.params = true)
          (brentOptimize (Fn.iface obj D cap) fuel' s1))
      ((brentAlgo (Fn.iface obj D cap) fuel).init s params) := by
  have hsafe := objective_safe obj D cap (consOf params)
  have hT0 := applyPolicy_tied params s.core.policy hpol hfeas hnd
  have hrep : ∀ pl, Tied (consOf params) pl → Spec.feasibleReport pl = true := by
    intro pl hT
    unfold Spec.feasibleReport feasibleList
    rw [List.all_eq_true]
    exact fun q hq => (hT q hq).1
  have hi := init_safe (brent_safeAlgo hsafe fuel) s params hs0 hT0
  cases hinit : (brentAlgo (Fn.iface obj D cap) fuel).init s params with
  | error e => rw [hinit] at hi; exact hi
  | ok s1 =>
    rw [hinit] at hi
    refine ⟨hi.1.1, hrep _ hi.2, fun fuel' => ?_⟩
    have ho := brentOptimize_safe hsafe fuel' s1 hi.1 hi.2
    cases hopt : brentOptimize (Fn.iface obj D cap) fuel' s1 with
    | error e => rw [hopt] at ho; exact ho
    | ok r => rw [hopt] at ho; exact ⟨ho.1.1, hrep _ ho.2⟩

/-- **auto_never_raises**: under the automatic policy every parameter of the optimiser's list is an
`AutoParameter`; when its constraint is a wide interval (`lo + precision + TINY < hi`) and its
precision is not negative, `l[i].setValue(x)` returns for every request `x` — the optimiser never
sees a `ConstraintException` from its own list (C01 `auto_total`). -/
theorem auto_never_raises (pl : PList ℝ) (i : Nat) (x : ℝ) (hi : i < pl.length)
    (hauto : ∀ q ∈ pl, q.p.auto = true ∧ 0 ≤ q.p.precision ∧ ∀ c, q.p.constraint = some c → c.wide = true) :
    ∃ pl', setValueAt pl i x = .ok pl' := by
  induction pl generalizing i with
  | nil => simp at hi
  | cons q r ih =>
    cases i with
    | zero =>
      obtain ⟨ha, hp, hw⟩ := hauto q (List.mem_cons_self ..)
      obtain ⟨p', hp'⟩ := C01.auto_total q.p x hp hw
      refine ⟨{ q with p := p' } :: r, ?_⟩
      rw [setValueAt]
      have : q.p.setValue x = .ok p' := by unfold Param.setValue; rw [if_pos ha]; exact hp'
      rw [this]
    | succ i =>
      obtain ⟨r', hr'⟩ := ih i (by simpa using hi) (fun q' hq' => hauto q' (List.mem_cons_of_mem _ hq'))
      exact ⟨q :: r', by rw [setValueAt, hr']⟩

/-- non-vacuity: a tied list and a feasible function for the constraint `[0, 10]` on parameter 0 -/
example : let c : Interval ℝ := ⟨.fin 0, .fin 10, true, true, 0⟩
    let params : PList ℝ := [⟨0, ⟨4, 0, some c, false⟩⟩]
    feasibleList params = true ∧ (params.map (·.name)).Nodup ∧ FeasFn (consOf params) ⟨[4], []⟩ := by
  intro c params
  refine ⟨?_, by simp [params], ?_, ?_⟩
  · simp [params, feasibleList, Param.invOk, Param.accepts, c, Interval.isCorrect, Interval.isCorrectB, Bound.geb, Bound.leb]; norm_num
  · rfl
  · simp [params, consOf, Spec.feasiblePoint, Spec.accepts, c, Interval.isCorrect, Interval.isCorrectB, Bound.geb, Bound.leb]; norm_num

end Bpp.C10
