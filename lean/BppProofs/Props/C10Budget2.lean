import BppProofs.Lemmas.OptimCount2
import BppProofs.Lemmas.OptimMonotone
import BppProofs.Props.C10
import BppProofs.Props.C10Budget
import BppProofs.Props.C10Golden
import BppProofs.Props.C10Brent
/-!
# C10 — "the run terminates within its evaluation budget", in calls of the objective: the other optimisers

`Props/C10Budget.lean` proves the clause about the real number of calls of the objective (the length of
the log of the harness objective) for Powell, conjugate gradient and BFGS.  Here:

* `golden_budget_calls`, `brent_budget_calls`, `backtrack_budget_calls`, `simplex_budget_calls`: the same
  for the golden section search (one call per step, counted — plus the loop's own increment), Brent's
  method and the Newton backtracking search (one call per step, paid for by the loop's increment), the
  downhill simplex method (every call is counted when it is made; a contraction of the whole simplex adds
  `nDim` on top);
* `brent_counter_exact`, `backtrack_counter_exact`: for the two whose step counts nothing the counter at
  exit is exactly the number of calls made since `optimize` began, plus one;
* `golden_final_call`, `brent_final_call`, `simplex_final_call`: the redefinitions of `optimize` of the
  three that have one make exactly one call after the template's loop;
* `nback_monotone`, `simplex_monotone`, and (audit round 1) `newton1d_monotone`, `simple_multi_monotone`,
  `simple_newton_monotone`, `meta_monotone` (every scalar type, every function object): with the instances of
  `C10Golden`, `C10Brent`, `C10Budget` every optimiser of the quantifier now has one, so `optimize_terminates`
  and `budget` apply to all eleven (`all_optimisers_terminate` spells the four new cases out);
* `newton1d_calls_exceed_cap`: the clause is **false** of `NewtonOneDimension` as modelled (known finding
  C10-counter-undercount, kept on record): a run over `ℝ` with `nbEvalMax = 3` whose last step begins after
  7 calls; `newton1d_calls_exceed_cap_rat`: the same run in exact `Rat` arithmetic, evaluated by the kernel.
-/
namespace Bpp.C10
open Bpp Bpp.Optim

section template
variable {α : Type} [Scalar α] {F : Type}

/-- `doStep` of the Newton backtracking search does not touch the counter nor the cap; its stop condition
does nothing -/
theorem nback_monotone (I : FunI F α) : Monotone (nbackAlgo I) := nbackAlgo_monotone I

/-- `doStep` of the downhill simplex method does not move the counter backwards and leaves the cap alone;
its stop condition touches neither -/
theorem simplex_monotone (I : FunI F α) : Monotone (simplexAlgo I) := simplexAlgo_monotone I

/-- `NewtonOneDimension::doStep` does not touch the counter (the loop of `optimize` does the counting) -/
theorem newton1d_monotone (I : FunI F α) : Monotone (newtonAlgo I) := newtonAlgo_monotone I

/-- `SimpleMultiDimensions::doStep` adds the inner Brent optimiser's counter for every coordinate -/
theorem simple_multi_monotone (I : FunI F α) (fuel : Nat) : Monotone (simpleAlgo I fuel) := simpleAlgo_monotone I fuel

/-- `SimpleNewtonMultiDimensions::doStep` adds the inner Newton optimiser's counter for every coordinate -/
theorem simple_newton_monotone (I : FunI F α) (fuel : Nat) : Monotone (snewtonAlgo I fuel) := snewtonAlgo_monotone I fuel

/-- `MetaOptimizer::doStep` (modelled configuration) adds the counter of every optimiser that has parameters -/
theorem meta_monotone (I : FunI F α) (log10 : α → α) (fuel : Nat) : Monotone (metaAlgo I log10 fuel) :=
  metaAlgo_monotone I log10 fuel

/-- **all_optimisers_terminate**: `optimize_terminates` for the four optimisers that had no `Monotone`
instance.  What it says, and what it does not: the `for` loop of `AbstractOptimizer::optimize` makes at
most `nbEvalMax - 1` iterations (with that much fuel the modelled loop never runs out of it), and an
exception that comes out of it was raised by one of the steps.  It does **not** bound what happens
*inside* a step: the steps of the coordinate-wise Brent optimiser and of the meta-optimiser (and `doInit`
of the golden section search and of Brent's method, the line minimisations of Powell and the conjugate
gradient optimiser) call `bracketMinimum`, whose loop `while (b.f > c.f)` has no bound in the source — the
cap `nbEvalMax_` is not consulted there; on an objective that decreases for ever it does not return.  The
model gives that loop fuel and ends with `Exc.hang` when it runs out: a `.hang` is one of the errors "raised
by one of the steps" here.  "The run terminates" is proved for the outer loop only. -/
theorem all_optimisers_terminate (I : FunI F α) (log10 : α → α) (fuel' fuel : Nat) :
    (∀ s : St F (Newton1 α) α, s.core.nbEvalMax ≤ fuel + 1 →
      ∀ k, (newtonAlgo I).optimize (fuel + k) s = (newtonAlgo I).optimize fuel s) ∧
    (∀ s : St F (Simple α) α, s.core.nbEvalMax ≤ fuel + 1 →
      ∀ k, (simpleAlgo I fuel').optimize (fuel + k) s = (simpleAlgo I fuel').optimize fuel s) ∧
    (∀ s : St F (SNewton α) α, s.core.nbEvalMax ≤ fuel + 1 →
      ∀ k, (snewtonAlgo I fuel').optimize (fuel + k) s = (snewtonAlgo I fuel').optimize fuel s) ∧
    (∀ s : St F (Meta α) α, s.core.nbEvalMax ≤ fuel + 1 →
      ∀ k, (metaAlgo I log10 fuel').optimize (fuel + k) s = (metaAlgo I log10 fuel').optimize fuel s) :=
  ⟨fun s hf => (optimize_terminates _ (newton1d_monotone I) s fuel hf).1,
   fun s hf => (optimize_terminates _ (simple_multi_monotone I fuel') s fuel hf).1,
   fun s hf => (optimize_terminates _ (simple_newton_monotone I fuel') s fuel hf).1,
   fun s hf => (optimize_terminates _ (meta_monotone I log10 fuel') s fuel hf).1⟩

end template

section harness
variable (obj : List ℝ → ℝ) (D : Deriv ℝ) (cap : Option Nat)

/-- **golden section search within its budget, in calls of the objective.**  Stated for the template's
loop `(gssAlgo I fuel).optimize`; `GoldenSectionSearch::optimize` (`gssOptimize`) is that loop followed by
one evaluation at the better inner point: exactly one call more (`golden_final_call`).  When the loop
returns, either no step was made (no call), or when the last step began the objective had been called,
since `optimize` began, fewer times than the counter showed, hence fewer than `nbEvalMax` times.  (Each
step makes one call and counts it; the loop's own increment comes on top, so the counter runs ahead:
`k` steps, `k` calls, counter `2k + 1`.) -/
theorem golden_budget_calls (fuel fuel' : Nat) (s s' : St (Fn ℝ) (Gss ℝ) ℝ) (v : ℝ)
    (h : (gssAlgo (Fn.iface obj D cap) fuel).optimize fuel' s = .ok (s', v)) :
    (s'.fn = s.fn ∧ s'.core.nbEval = 1) ∨
    ∃ sb sa w, Guard sb ∧ sb.core.nbEvalMax = s.core.nbEvalMax ∧
      (gssAlgo (Fn.iface obj D cap) fuel).step sb = .ok (sa, w) ∧ s' = bump sa ∧
      sb.fn.log.length + 1 ≤ s.fn.log.length + sb.core.nbEval ∧
      sb.fn.log.length - s.fn.log.length < s.core.nbEvalMax ∧
      Spec.budgetCalls s.core.nbEvalMax (sb.fn.log.length - s.fn.log.length) = true :=
  budget_calls (gssAlgo (Fn.iface obj D cap) fuel) (fun fn => fn.log.length) (golden_monotone _ fuel)
    (fun u u' w hd => Nat.le_succ_of_le (Nat.le_of_eq (gssDoStep_calls (objective_counts obj D cap) u u' w hd)))
    (fun u => (gssStop_keeps u).1) s s' v fuel' h

/-- **Brent's method within its budget, in calls of the objective** (a step makes exactly one call — the
evaluation at the proposed abscissa — and counts nothing: the loop's own increment pays for it).
`BrentOneDimension::optimize` (`brentOptimize`) makes one call more after the loop (`brent_final_call`). -/
theorem brent_budget_calls (fuel fuel' : Nat) (s s' : St (Fn ℝ) (Brent ℝ) ℝ) (v : ℝ)
    (h : (brentAlgo (Fn.iface obj D cap) fuel).optimize fuel' s = .ok (s', v)) :
    (s'.fn = s.fn ∧ s'.core.nbEval = 1) ∨
    ∃ sb sa w, Guard sb ∧ sb.core.nbEvalMax = s.core.nbEvalMax ∧
      (brentAlgo (Fn.iface obj D cap) fuel).step sb = .ok (sa, w) ∧ s' = bump sa ∧
      sb.fn.log.length + 1 ≤ s.fn.log.length + sb.core.nbEval ∧
      sb.fn.log.length - s.fn.log.length < s.core.nbEvalMax ∧
      Spec.budgetCalls s.core.nbEvalMax (sb.fn.log.length - s.fn.log.length) = true :=
  budget_calls (brentAlgo (Fn.iface obj D cap) fuel) (fun fn => fn.log.length) (brent_monotone _ fuel)
    (fun u u' w hd => Nat.le_of_eq (brentDoStep_calls (objective_counts obj D cap) u u' w hd))
    (fun u => (brentStop_keeps u).1) s s' v fuel' h

/-- **the Newton backtracking search within its budget, in calls of the objective** (a step makes exactly
one call — at the trial step length, or back at the start when no step is acceptable — and counts nothing) -/
theorem backtrack_budget_calls (fuel' : Nat) (s s' : St (Fn ℝ) (NBack ℝ) ℝ) (v : ℝ)
    (h : (nbackAlgo (Fn.iface obj D cap)).optimize fuel' s = .ok (s', v)) :
    (s'.fn = s.fn ∧ s'.core.nbEval = 1) ∨
    ∃ sb sa w, Guard sb ∧ sb.core.nbEvalMax = s.core.nbEvalMax ∧
      (nbackAlgo (Fn.iface obj D cap)).step sb = .ok (sa, w) ∧ s' = bump sa ∧
      sb.fn.log.length + 1 ≤ s.fn.log.length + sb.core.nbEval ∧
      sb.fn.log.length - s.fn.log.length < s.core.nbEvalMax ∧
      Spec.budgetCalls s.core.nbEvalMax (sb.fn.log.length - s.fn.log.length) = true :=
  budget_calls (nbackAlgo (Fn.iface obj D cap)) (fun fn => fn.log.length) (nback_monotone _)
    (fun u u' w hd => Nat.le_of_eq (nbackDoStep_calls (objective_counts obj D cap) u u' w hd))
    (fun _ => rfl) s s' v fuel' h

/-- **the downhill simplex method within its budget, in calls of the objective** (`tryExtrapolation` and
the contraction of the whole simplex add one to the counter per evaluation; after a contraction `doStep`
adds `nDim` more, and the loop's own increment comes on top: the counter runs ahead of the calls).
`DownhillSimplexMethod::optimize` (`simplexOptimize`) makes one call more after the loop
(`simplex_final_call`). -/
theorem simplex_budget_calls (fuel' : Nat) (s s' : St (Fn ℝ) (Simplex ℝ) ℝ) (v : ℝ)
    (h : (simplexAlgo (Fn.iface obj D cap)).optimize fuel' s = .ok (s', v)) :
    (s'.fn = s.fn ∧ s'.core.nbEval = 1) ∨
    ∃ sb sa w, Guard sb ∧ sb.core.nbEvalMax = s.core.nbEvalMax ∧
      (simplexAlgo (Fn.iface obj D cap)).step sb = .ok (sa, w) ∧ s' = bump sa ∧
      sb.fn.log.length + 1 ≤ s.fn.log.length + sb.core.nbEval ∧
      sb.fn.log.length - s.fn.log.length < s.core.nbEvalMax ∧
      Spec.budgetCalls s.core.nbEvalMax (sb.fn.log.length - s.fn.log.length) = true :=
  budget_calls (simplexAlgo (Fn.iface obj D cap)) (fun fn => fn.log.length) (simplex_monotone _)
    (fun u u' w hd => Nat.le_succ_of_le (simplexDoStep_calls (objective_counts obj D cap) u u' w hd))
    (fun _ => rfl) s s' v fuel' h

/-- **Brent's counter is exact**: when the template's loop returns, `nbEval_` is the number of calls of
the objective made since `optimize` began, plus one -/
theorem brent_counter_exact (fuel fuel' : Nat) (s s' : St (Fn ℝ) (Brent ℝ) ℝ) (v : ℝ)
    (h : (brentAlgo (Fn.iface obj D cap) fuel).optimize fuel' s = .ok (s', v)) :
    s'.fn.log.length + 1 = s.fn.log.length + s'.core.nbEval :=
  optimize_calls_exact (brentAlgo (Fn.iface obj D cap) fuel) (fun fn => fn.log.length) (brent_monotone _ fuel)
    (fun u u' w hd => brentDoStep_calls (objective_counts obj D cap) u u' w hd)
    (fun u => (brentStop_keeps u).1) s s' v fuel' h

/-- **the counter of the Newton backtracking search is exact** -/
theorem backtrack_counter_exact (fuel' : Nat) (s s' : St (Fn ℝ) (NBack ℝ) ℝ) (v : ℝ)
    (h : (nbackAlgo (Fn.iface obj D cap)).optimize fuel' s = .ok (s', v)) :
    s'.fn.log.length + 1 = s.fn.log.length + s'.core.nbEval :=
  optimize_calls_exact (nbackAlgo (Fn.iface obj D cap)) (fun fn => fn.log.length) (nback_monotone _)
    (fun u u' w hd => nbackDoStep_calls (objective_counts obj D cap) u u' w hd)
    (fun _ => rfl) s s' v fuel' h

/-- `GoldenSectionSearch::optimize` is the template's loop followed by exactly one call of the objective
(the evaluation at the better of the two inner points); the counter and the cap are those of the loop -/
theorem golden_final_call (fuel : Nat) (s s' : St (Fn ℝ) (Gss ℝ) ℝ) (v : ℝ)
    (h : gssOptimize (Fn.iface obj D cap) fuel s = .ok (s', v)) :
    ∃ s1 v1, (gssAlgo (Fn.iface obj D cap) fuel).optimize fuel s = .ok (s1, v1) ∧
      s'.fn.log.length = s1.fn.log.length + 1 ∧ s'.core.nbEval = s1.core.nbEval ∧
      s'.core.nbEvalMax = s1.core.nbEvalMax :=
  gssOptimize_calls (objective_counts obj D cap) fuel s s' v h

/-- `BrentOneDimension::optimize` is the template's loop followed by exactly one call of the objective
(the evaluation at the optimiser's parameter) -/
theorem brent_final_call (fuel : Nat) (s s' : St (Fn ℝ) (Brent ℝ) ℝ) (v : ℝ)
    (h : brentOptimize (Fn.iface obj D cap) fuel s = .ok (s', v)) :
    ∃ s1 v1, (brentAlgo (Fn.iface obj D cap) fuel).optimize fuel s = .ok (s1, v1) ∧
      s'.fn.log.length = s1.fn.log.length + 1 ∧ s'.core.nbEval = s1.core.nbEval ∧
      s'.core.nbEvalMax = s1.core.nbEvalMax :=
  brentOptimize_calls (objective_counts obj D cap) fuel s s' v h

/-- `DownhillSimplexMethod::optimize` is the template's loop followed by exactly one call of the objective
(the evaluation at the best vertex) -/
theorem simplex_final_call (fuel : Nat) (s s' : St (Fn ℝ) (Simplex ℝ) ℝ) (v : ℝ)
    (h : simplexOptimize (Fn.iface obj D cap) fuel s = .ok (s', v)) :
    ∃ s1 v1, (simplexAlgo (Fn.iface obj D cap)).optimize fuel s = .ok (s1, v1) ∧
      s'.fn.log.length = s1.fn.log.length + 1 ∧ s'.core = s1.core :=
  simplexOptimize_calls (objective_counts obj D cap) fuel s s' v h

end harness

/-! ### the clause is false of `NewtonOneDimension` -/

/-- **newton1d_calls_exceed_cap** (known finding C10-counter-undercount, kept on record): the budget clause
in calls of the objective is **false** of `NewtonOneDimension` as modelled.  `doStep` evaluates the
function at the Newton point and then, as long as the value is above the current one, restores the
previous point (`setParameters`: one call) and evaluates at half the movement (one call); none of these
calls is counted — only the `for` loop of `optimize` increments `nbEval_`, once per step.

The witness (`Bpp.Optim.Newton1dReal`, over `ℝ`, on the objective of the harness without cap): one free
parameter at `3/5`, the double well `(x² - 1)²` with its true derivatives, `nbEvalMax = 3`,
`maxCorrection = 10`, tolerance 0.  `init` returns `s` (one call).  `optimize` returns normally `(s', v)`
with any fuel `≥ 2`, after exactly two steps: the first one, begun in the state `optimize` starts the loop
with, ends in `s1`; the last one begins in `sb = bump s1` — the guard of the loop holds there, the counter
shows `2 < 3` (`Spec.budget` is satisfied) — although the objective has been called **7 times** since
`optimize` began (the Newton point `27/5` and three corrections `3`, `9/5`, `6/5`, each preceded by the
restoration of `3/5`): `Spec.budgetCalls 3 7 = false`.  The conclusion has the shape of the second
alternative of `budget_calls` with the last conjunct negated (and the first alternative fails: `s'.fn` has
a longer log than `s.fn`). -/
theorem newton1d_calls_exceed_cap :
    ∃ (s s' sb sa : St (Fn ℝ) (Newton1 ℝ) ℝ) (v w : ℝ),
      Newton1dReal.algo.init Newton1dReal.start (oneP (3 / 5)) = .ok s ∧
      s.core.nbEvalMax = 3 ∧
      (∀ k, Newton1dReal.algo.optimize (k + 2) s = .ok (s', v)) ∧
      Guard sb ∧ sb.core.nbEvalMax = s.core.nbEvalMax ∧ Newton1dReal.algo.step sb = .ok (sa, w) ∧ s' = bump sa ∧
      (∃ s1 w1, Newton1dReal.algo.step { s with core := { s.core with tol := false, nbEval := 1 } } = .ok (s1, w1) ∧
        sb = bump s1) ∧
      sb.fn.log = [[6 / 5], [3 / 5], [9 / 5], [3 / 5], [3], [3 / 5], [27 / 5]] ++ s.fn.log ∧
      sb.fn.log.length - s.fn.log.length = 7 ∧
      Spec.budget s.core.nbEvalMax s'.core.nbEval (some sb.core.nbEval) = true ∧
      Spec.budgetCalls s.core.nbEvalMax (sb.fn.log.length - s.fn.log.length) = false := by
  obtain ⟨s, s1, sc, w1, w2, hinit, hmax, hlog0, h1, hg1, hnb1, hmax1, hlog1, h2, -, -, hopt⟩ := Newton1dReal.run
  refine ⟨s, bump sc, bump s1, sc, (bump sc).core.cur, w2, hinit, hmax, hopt, hg1, by rw [hmax1, hmax], h2, rfl,
    ⟨s1, w1, h1, rfl⟩, by rw [hlog1, hlog0]; rfl, by rw [hlog1, hlog0]; rfl, ?_, ?_⟩
  · unfold Spec.budget
    rw [hnb1, hmax]; rfl
  · rw [hlog1, hlog0, hmax]; rfl

/-- the same run in exact `Rat` arithmetic (`Bpp.Optim.Newton1dExample`: the same program text, evaluated by
the kernel) -/
theorem newton1d_calls_exceed_cap_rat :
    ∃ (s s' sb sa : St (Fn Rat) (Newton1 Rat) Rat) (v w : Rat),
      Newton1dExample.algo.init Newton1dExample.start Newton1dExample.params = .ok s ∧
      s.core.nbEvalMax = 3 ∧
      (∀ k, Newton1dExample.algo.optimize (k + 2) s = .ok (s', v)) ∧
      Guard sb ∧ sb.core.nbEvalMax = s.core.nbEvalMax ∧ Newton1dExample.algo.step sb = .ok (sa, w) ∧ s' = bump sa ∧
      (∃ s1 w1, Newton1dExample.algo.step { s with core := { s.core with tol := false, nbEval := 1 } } = .ok (s1, w1) ∧
        sb = bump s1) ∧
      sb.fn.log = [[6 / 5], [3 / 5], [9 / 5], [3 / 5], [3], [3 / 5], [27 / 5], [3 / 5]] ∧
      sb.fn.log.length - s.fn.log.length = 7 ∧
      Spec.budget s.core.nbEvalMax s'.core.nbEval (some sb.core.nbEval) = true ∧
      Spec.budgetCalls s.core.nbEvalMax (sb.fn.log.length - s.fn.log.length) = false := by
  have h := Newton1dExample.check_true
  unfold Newton1dExample.check at h
  split at h
  · cases h
  · rename_i s hinit
    split at h
    · cases h
    · rename_i s1 w1 h1
      split at h
      · cases h
      · rename_i sc w2 h2
        simp only [Bool.and_eq_true, decide_eq_true_eq, Bool.not_eq_true', decide_eq_false_iff_not] at h
        obtain ⟨⟨⟨⟨⟨⟨⟨⟨⟨hi, hmax⟩, hlen0⟩, hg0⟩, hg1⟩, hnb1⟩, hmax1⟩, hlen1⟩, hlog⟩, hg2⟩ := h
        refine ⟨s, bump sc, bump s1, sc, (bump sc).core.cur, w2, hinit, hmax, ?_, hg1, by rw [hmax1, hmax], h2, rfl,
          ⟨s1, w1, h1, rfl⟩, hlog, by rw [hlen1, hlen0], ?_, ?_⟩
        · exact fun k => optimize_two_steps Newton1dExample.algo s s1 sc w1 w2 hi hg0 h1 hg1 h2 hg2 k
        · unfold Spec.budget
          rw [hnb1, hmax]; rfl
        · rw [hlen1, hlen0, hmax]; rfl

end Bpp.C10
