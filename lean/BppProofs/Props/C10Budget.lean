import BppProofs.Lemmas.OptimCount
/-!
# C10 — "the run terminates within its evaluation budget (plus the iteration in progress)", in calls

`Props/C10.lean` proves `budget` about the optimiser's *counter* `nbEval_`.  Here the clause is proved
about the **real number of calls of the objective**: the length of the log of the harness objective
(`Fn.log`: every `f` / `setParameters` appends exactly one point, the call that throws `cap` included).

* `budget_calls`: template form, for every optimiser whose `doStep` makes at most one call more than it
  adds to the counter.
* `powell_budget_calls`, `cg_budget_calls`, `bfgs_budget_calls`: the three optimisers built on searches
  along a direction (after the repairs of findings/C10.json: a `DirectionFunction` counts the evaluations
  made through it, `lineMinimization` / `lineSearch` return that count, Powell counts its own
  evaluations), on the objective of the harness.
* `powell_counter_exact`, `cg_counter_exact`, `bfgs_counter_exact`: for them the counter at exit is
  exactly the number of calls made since `optimize` began, plus one.
* `powell_monotone`, `cg_monotone`, `bfgs_monotone`: so that `optimize_terminates` and `budget` of
  `Props/C10.lean` apply to them.
-/
namespace Bpp.C10
open Bpp Bpp.Optim

section template
variable {α : Type} [Scalar α] {F τ : Type}

/-- **budget_calls** (template form).  `calls fn` is the number of calls the function object `fn` has
received.  Suppose a `doStep` makes at most one call more than it adds to the counter `nbEval_` (`hcount`;
the `for` loop of `optimize` adds the missing one), does not move the counter backwards nor change the cap
(`Monotone A`), and the stop condition does not touch the function.  When `optimize` returns, either no
step was made — the function is the one `optimize` was given: no call at all — or there is a last step,
begun in a state `sb` in which the guard of the loop held (`sb.core.nbEval < nbEvalMax`) and in which the
calls made since `optimize` began were fewer than the counter:
`calls sb.fn - calls s.fn < nbEvalMax`.  `Spec.budgetCalls` is the predicate the driver evaluates with the
number of calls of the objective made since `optimize` began, at the moment the last step began. -/
theorem budget_calls (A : Algo F τ α) (calls : F → Nat) (hm : Monotone A)
    (hcount : ∀ s s' v, A.doStep s = .ok (s', v) → calls s'.fn + s.core.nbEval ≤ calls s.fn + s'.core.nbEval + 1)
    (hstopfn : ∀ s, (A.stop s).1.fn = s.fn)
    (s s' : St F τ α) (v : α) (fuel : Nat) (h : A.optimize fuel s = .ok (s', v)) :
    (s'.fn = s.fn ∧ s'.core.nbEval = 1) ∨
    ∃ sb sa w, Guard sb ∧ sb.core.nbEvalMax = s.core.nbEvalMax ∧ A.step sb = .ok (sa, w) ∧ s' = bump sa ∧
      calls sb.fn + 1 ≤ calls s.fn + sb.core.nbEval ∧
      calls sb.fn - calls s.fn < s.core.nbEvalMax ∧
      Spec.budgetCalls s.core.nbEvalMax (calls sb.fn - calls s.fn) = true :=
  optimize_calls A calls hm hcount hstopfn s s' v fuel h

/-- `doStep` of Powell's method does not move the counter backwards and leaves the cap alone; its stop
condition touches neither (every scalar type, every function object) -/
theorem powell_monotone (I : FunI F α) (fuel : Nat) : Monotone (powellAlgo I fuel) := powellAlgo_monotone I fuel

/-- the same for the conjugate gradient method -/
theorem cg_monotone (I : FunI F α) (fuel : Nat) : Monotone (cgAlgo I fuel) := cgAlgo_monotone I fuel

/-- the same for the BFGS method -/
theorem bfgs_monotone (I : FunI F α) (fuel : Nat) : Monotone (bfgsAlgo I fuel) := bfgsAlgo_monotone I fuel

end template

section harness
variable (obj : List ℝ → ℝ) (D : Deriv ℝ) (cap : Option Nat)

/-- **Powell within its budget, in calls of the objective.**  Stated for the template's loop
`(powellAlgo I fuel).optimize`; the library's `PowellMultiDimensions::optimize` (`powellOptimize`) is that
loop followed by one final evaluation at the optimiser's parameters: exactly one call more
(`Bpp.Optim.powellOptimize_calls`).  When the loop returns, either no step was made (no call), or when
the last step began the objective had been called, since `optimize` began, fewer times than the counter
showed, hence fewer than `nbEvalMax` times.  (Each step makes exactly one call it does not count — the
evaluation at the extrapolated point — which the loop's own increment pays for.) -/
theorem powell_budget_calls (fuel fuel' : Nat) (s s' : St (Fn ℝ) (Powell ℝ) ℝ) (v : ℝ)
    (h : (powellAlgo (Fn.iface obj D cap) fuel).optimize fuel' s = .ok (s', v)) :
    (s'.fn = s.fn ∧ s'.core.nbEval = 1) ∨
    ∃ sb sa w, Guard sb ∧ sb.core.nbEvalMax = s.core.nbEvalMax ∧
      (powellAlgo (Fn.iface obj D cap) fuel).step sb = .ok (sa, w) ∧ s' = bump sa ∧
      sb.fn.log.length + 1 ≤ s.fn.log.length + sb.core.nbEval ∧
      sb.fn.log.length - s.fn.log.length < s.core.nbEvalMax ∧
      Spec.budgetCalls s.core.nbEvalMax (sb.fn.log.length - s.fn.log.length) = true :=
  budget_calls (powellAlgo (Fn.iface obj D cap) fuel) (fun fn => fn.log.length) (powell_monotone _ fuel)
    (fun u u' w hd => Nat.le_of_eq (powellDoStep_calls (objective_counts obj D cap) fuel u u' w hd))
    (fun u => (powellStop_keeps u).1) s s' v fuel' h

/-- **conjugate gradient within its budget, in calls of the objective** (the call a step does not count
is the evaluation after the line minimisation; derivative look-ups are not calls) -/
theorem cg_budget_calls (fuel fuel' : Nat) (s s' : St (Fn ℝ) (Cg ℝ) ℝ) (v : ℝ)
    (h : (cgAlgo (Fn.iface obj D cap) fuel).optimize fuel' s = .ok (s', v)) :
    (s'.fn = s.fn ∧ s'.core.nbEval = 1) ∨
    ∃ sb sa w, Guard sb ∧ sb.core.nbEvalMax = s.core.nbEvalMax ∧
      (cgAlgo (Fn.iface obj D cap) fuel).step sb = .ok (sa, w) ∧ s' = bump sa ∧
      sb.fn.log.length + 1 ≤ s.fn.log.length + sb.core.nbEval ∧
      sb.fn.log.length - s.fn.log.length < s.core.nbEvalMax ∧
      Spec.budgetCalls s.core.nbEvalMax (sb.fn.log.length - s.fn.log.length) = true :=
  budget_calls (cgAlgo (Fn.iface obj D cap) fuel) (fun fn => fn.log.length) (cg_monotone _ fuel)
    (fun u u' w hd => Nat.le_of_eq (cgDoStep_calls (objective_counts obj D cap) fuel u u' w hd))
    (fun u => (fscStop_keeps u).1) s s' v fuel' h

/-- **BFGS within its budget, in calls of the objective** (the call a step does not count is the
evaluation after the line search) -/
theorem bfgs_budget_calls (fuel fuel' : Nat) (s s' : St (Fn ℝ) (Bfgs ℝ) ℝ) (v : ℝ)
    (h : (bfgsAlgo (Fn.iface obj D cap) fuel).optimize fuel' s = .ok (s', v)) :
    (s'.fn = s.fn ∧ s'.core.nbEval = 1) ∨
    ∃ sb sa w, Guard sb ∧ sb.core.nbEvalMax = s.core.nbEvalMax ∧
      (bfgsAlgo (Fn.iface obj D cap) fuel).step sb = .ok (sa, w) ∧ s' = bump sa ∧
      sb.fn.log.length + 1 ≤ s.fn.log.length + sb.core.nbEval ∧
      sb.fn.log.length - s.fn.log.length < s.core.nbEvalMax ∧
      Spec.budgetCalls s.core.nbEvalMax (sb.fn.log.length - s.fn.log.length) = true :=
  budget_calls (bfgsAlgo (Fn.iface obj D cap) fuel) (fun fn => fn.log.length) (bfgs_monotone _ fuel)
    (fun u u' w hd => Nat.le_of_eq (bfgsDoStep_calls (objective_counts obj D cap) fuel u u' w hd))
    (fun u => (fscStop_keeps u).1) s s' v fuel' h

/-- **Powell's counter is exact**: when the template's loop returns, `nbEval_` is the number of calls of
the objective made since `optimize` began, plus one -/
theorem powell_counter_exact (fuel fuel' : Nat) (s s' : St (Fn ℝ) (Powell ℝ) ℝ) (v : ℝ)
    (h : (powellAlgo (Fn.iface obj D cap) fuel).optimize fuel' s = .ok (s', v)) :
    s'.fn.log.length + 1 = s.fn.log.length + s'.core.nbEval :=
  optimize_calls_exact (powellAlgo (Fn.iface obj D cap) fuel) (fun fn => fn.log.length) (powell_monotone _ fuel)
    (fun u u' w hd => powellDoStep_calls (objective_counts obj D cap) fuel u u' w hd)
    (fun u => (powellStop_keeps u).1) s s' v fuel' h

/-- **the conjugate gradient method's counter is exact** -/
theorem cg_counter_exact (fuel fuel' : Nat) (s s' : St (Fn ℝ) (Cg ℝ) ℝ) (v : ℝ)
    (h : (cgAlgo (Fn.iface obj D cap) fuel).optimize fuel' s = .ok (s', v)) :
    s'.fn.log.length + 1 = s.fn.log.length + s'.core.nbEval :=
  optimize_calls_exact (cgAlgo (Fn.iface obj D cap) fuel) (fun fn => fn.log.length) (cg_monotone _ fuel)
    (fun u u' w hd => cgDoStep_calls (objective_counts obj D cap) fuel u u' w hd)
    (fun u => (fscStop_keeps u).1) s s' v fuel' h

/-- **the BFGS method's counter is exact** -/
theorem bfgs_counter_exact (fuel fuel' : Nat) (s s' : St (Fn ℝ) (Bfgs ℝ) ℝ) (v : ℝ)
    (h : (bfgsAlgo (Fn.iface obj D cap) fuel).optimize fuel' s = .ok (s', v)) :
    s'.fn.log.length + 1 = s.fn.log.length + s'.core.nbEval :=
  optimize_calls_exact (bfgsAlgo (Fn.iface obj D cap) fuel) (fun fn => fn.log.length) (bfgs_monotone _ fuel)
    (fun u u' w hd => bfgsDoStep_calls (objective_counts obj D cap) fuel u u' w hd)
    (fun u => (fscStop_keeps u).1) s s' v fuel' h

end harness

/-! ### the hypotheses are satisfiable -/

/-- an optimiser on the objective of the harness whose `doStep` evaluates the objective once at its own
parameters and counts nothing satisfies the three hypotheses of `budget_calls`; a run of it with cap 3
returns after two steps: two calls, counter 3 (when the last step began: one call, 1 < 3) -/
example : let A : Algo (Fn ℝ) Unit ℝ :=
      { doInit := fun s _ => .ok s,
        doStep := fun s => .ok ({ s with fn := s.fn.setParameters s.core.params }, 0),
        stopInit := fun s => s,
        stop := fun s => (s, false),
        value := fun _ => 0 }
    let s : St (Fn ℝ) Unit ℝ := { core := { freshCore 3 0 0 with initialized := true }, fn := ⟨[], []⟩, ext := () }
    Monotone A ∧
    (∀ s s' v, A.doStep s = .ok (s', v) → s'.fn.log.length + s.core.nbEval ≤ s.fn.log.length + s'.core.nbEval + 1) ∧
    (∀ s, (A.stop s).1.fn = s.fn) ∧
    ∃ s' v, A.optimize 2 s = .ok (s', v) ∧ s'.fn.log.length = 2 ∧ s'.core.nbEval = 3 := by
  intro A s
  refine ⟨⟨?_, fun _ => ⟨rfl, rfl⟩⟩, ?_, fun _ => rfl, ?_⟩
  · intro u u' w h
    simp only [A, Except.ok.injEq, Prod.mk.injEq] at h
    obtain ⟨rfl, -⟩ := h
    exact ⟨Nat.le_refl _, rfl⟩
  · intro u u' w h
    simp only [A, Except.ok.injEq, Prod.mk.injEq] at h
    obtain ⟨rfl, -⟩ := h
    show (u.fn.setParameters u.core.params).log.length + u.core.nbEval ≤ u.fn.log.length + u.core.nbEval + 1
    simp only [Fn.setParameters, List.length_cons]
    omega
  · simp [A, s, Algo.optimize, Algo.loop, Algo.step, freshCore, Fn.setParameters]

/-- the invariant of the line searches holds of a freshly initialised `DirectionFunction`, and is kept by
an evaluation of it (on the objective of the harness, no cap): its counter goes to 1, the log grows by 1 -/
example : let I := Fn.iface (fun _ => (0 : ℝ)) ⟨fun _ _ => 0, fun _ _ => 0⟩ none
    let fn : Fn ℝ := ⟨[5], [[5]]⟩
    let df : DirFn (Fn ℝ) ℝ := DirFn.init fn .auto [] []
    DirCount (fun fn => fn.log.length) 1 df ∧
    ∃ df', df.setParameters I xParam = .ok df' ∧ df'.nbEval = 1 ∧ df'.inner.log.length = 2 := by
  intro I fn df
  refine ⟨rfl, ?_⟩
  simp [df, I, fn, DirFn.init, DirFn.setParameters, xParam, value0, applyPolicy, dirMove, Fn.iface, capped,
    Fn.setParameters]

end Bpp.C10
