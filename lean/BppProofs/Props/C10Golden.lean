import BppProofs.Lemmas.OptimGolden
import BppProofs.Lemmas.OptimObjective
import BppProofs.Lemmas.OptimSync
/-!
# C10, part 3 — GoldenSectionSearch in full

`doInit`, `doStep`, the stop condition and `optimize` of `GoldenSectionSearch` (model in
`BppModel/OptimOneDim.lean`, the code after the two `fix:` commits of findings/C10.json) driven by the
`AbstractOptimizer` template, over `ℝ`, for every function object whose evaluation step computes a
function `g` of the abscissa (`Det I g J`), every initial interval, every tolerance, every cap on
the number of evaluations, every number of steps.  Rounding is not modelled.
-/
namespace Bpp.C10
open Bpp Bpp.Optim

variable {F : Type} {J : F → PList ℝ → Prop}

/-- **golden_descent** (with `reported_value_consistent` and the counter's monotonicity for this
optimiser).  After `init` and `optimize`:
* the value returned is not above the function at either end of the initial interval (the golden
  section search never evaluates the starting value of its parameter: the interval is its start),
  nor above either of the two inner values it held after `init`;
* it is the function at an abscissa `x` which is what the optimiser's parameter holds, and it is the
  optimiser's current value (`getFunctionValue()`).
Holds for every objective (unimodal or not), whatever the number of steps made. -/
theorem golden_descent (I : FunI F ℝ) (g : ℝ → ℝ) (hd : Det I g J) (fuel fuel' : Nat)
    (s s1 s2 : St F (Gss ℝ) ℝ) (params : PList ℝ) (v : ℝ)
    (hJ : J s.fn (applyPolicy s.core.policy params))
    (hinit : (gssAlgo I fuel).init s params = .ok s1)
    (hopt : gssOptimize I fuel' s1 = .ok (s2, v)) :
    Spec.descent v (g s.ext.xinf) = true ∧ Spec.descent v (g s.ext.xsup) = true ∧
    v ≤ s1.ext.f1 ∧ v ≤ s1.ext.f2 ∧ s2.core.cur = v ∧
    ∃ x, v = g x ∧ value0 s2.core.params = some x ∧ J s2.fn s2.core.params := by
  obtain ⟨hi, -⟩ := gssInit_spec I g hd fuel s s1 params hinit hJ
  obtain ⟨h1, h2, h3⟩ := gssOptimize_spec I g hd fuel' _ s1 s2 v hi hopt
  have hi' : Gss.Inv g J (min s1.ext.f1 s1.ext.f2) s1 := ⟨hi.f1, hi.f2, hi.j, le_refl _⟩
  obtain ⟨h4, -, -⟩ := gssOptimize_spec I g hd fuel' _ s1 s2 v hi' hopt
  refine ⟨?_, ?_, le_trans h4 (min_le_left _ _), le_trans h4 (min_le_right _ _), h2, h3⟩
  · simp only [Spec.descent, ScalarReal.leb_iff]; exact le_trans h1 (min_le_left _ _)
  · simp only [Spec.descent, ScalarReal.leb_iff]; exact le_trans h1 (min_le_right _ _)

/-- the counter of the golden section search never goes backwards: the template theorems
`optimize_terminates` and `budget` (Props/C10.lean) apply to it -/
theorem golden_monotone (I : FunI F ℝ) (fuel : Nat) : Monotone (gssAlgo I fuel) := gss_monotone I fuel

/-- **the interval invariant**: a step keeps the four abscissae strictly ordered (in the direction
they had), the new outer interval lies within the old one and is strictly narrower.  (The factors
are `R = φ - 1` and `C = 1 - R` with `φ = (1 + √5)/2` as the code computes them: `0 < C < 1/2 < R < 1`.) -/
theorem golden_interval_invariant (I : FunI F ℝ) (s s' : St F (Gss ℝ) ℝ) (v : ℝ) (ho : s.ext.Ordered)
    (h : gssDoStep I s = .ok (s', v)) :
    s'.ext.Ordered ∧ |s'.ext.x3 - s'.ext.x0| < |s.ext.x3 - s.ext.x0| ∧
    min s.ext.x0 s.ext.x3 ≤ min s'.ext.x0 s'.ext.x3 ∧ max s'.ext.x0 s'.ext.x3 ≤ max s.ext.x0 s.ext.x3 :=
  gssDoStep_interval I s s' v ho h

/-- `golden_descent` for the objective of the harness: any objective `obj`, any point, any coordinate,
an unconstrained parameter: the value returned is the objective at the point the function is left at,
whose optimised coordinate is what the optimiser reports, and it is not above the objective with that
coordinate at either end of the initial interval. -/
theorem golden_descent_objective (obj : List ℝ → ℝ) (D : Deriv ℝ) (cap : Option Nat) (pt0 : List ℝ) (k : Nat) (hk : k < pt0.length)
    (q : NP ℝ) (hq : q.name = k) (hp : q.p.precision = 0) (hc : q.p.constraint = none)
    (fuel fuel' : Nat) (s s1 s2 : St (Fn ℝ) (Gss ℝ) ℝ) (v : ℝ) (hpt : s.fn.point = pt0)
    (hinit : (gssAlgo (Fn.iface obj D cap) fuel).init s [q] = .ok s1)
    (hopt : gssOptimize (Fn.iface obj D cap) fuel' s1 = .ok (s2, v)) :
    v ≤ obj (pt0.set k s.ext.xinf) ∧ v ≤ obj (pt0.set k s.ext.xsup) ∧
    ∃ x, value0 s2.core.params = some x ∧ v = obj (pt0.set k x) ∧ s2.core.cur = v := by
  have hJ : Along pt0 k s.fn (applyPolicy s.core.policy [q]) := by
    refine ⟨?_, hk, by rw [hpt], fun _ _ => by rw [hpt]⟩
    cases s.core.policy
    · exact ⟨q, rfl, hq, hp, hc⟩
    · exact ⟨_, rfl, hq, hp, by simp [Param.removeConstraint]⟩
    · exact ⟨_, rfl, hq, hp, hc⟩
  obtain ⟨h1, h2, -, -, h5, x, hx, hv, -⟩ :=
    golden_descent _ _ (objective_det obj D cap pt0 k) fuel fuel' s s1 s2 [q] v hJ hinit hopt
  simp only [Spec.descent, ScalarReal.leb_iff] at h1 h2
  exact ⟨h1, h2, x, hv, hx, h5⟩

/-- `golden_descent` for the objective of the harness searched along a coordinate whose parameter has
**any constraint** and either dynamic type, under any policy (precision 0, feasible starting value):
with `κ x` = what `setValue(x)` stores in the parameter (`x` itself when accepted, the auto-corrected
value otherwise), the value returned is not above the objective at `κ` of either end of the initial
interval, and it is the objective at what the optimiser's parameter holds. -/
theorem golden_descent_objective_con (obj : List ℝ → ℝ) (D : Deriv ℝ) (cap : Option Nat) (pt0 : List ℝ) (k : Nat) (hk : k < pt0.length)
    (q : NP ℝ) (hq : q.name = k) (hp : q.p.precision = 0) (hi : q.p.invOk = true)
    (fuel fuel' : Nat) (s s1 s2 : St (Fn ℝ) (Gss ℝ) ℝ) (v : ℝ) (hpt : s.fn.point = pt0)
    (hinit : (gssAlgo (Fn.iface obj D cap) fuel).init s [q] = .ok s1)
    (hopt : gssOptimize (Fn.iface obj D cap) fuel' s1 = .ok (s2, v)) :
    ∃ p0 : Param ℝ, applyPolicy s.core.policy [q] = [⟨k, p0⟩] ∧
      v ≤ obj (pt0.set k (corr p0 s.ext.xinf)) ∧ v ≤ obj (pt0.set k (corr p0 s.ext.xsup)) ∧
      ∃ x, value0 s2.core.params = some x ∧ v = obj (pt0.set k x) ∧ s2.core.cur = v := by
  obtain ⟨p0, hap, hp0v, hp0p, hp0i⟩ := applyPolicy_single s.core.policy q
  have hp0prec : p0.precision = 0 := by rw [hp0p]; exact hp
  have hp0inv : p0.invOk = true := hp0i hi
  rw [hq] at hap
  have hJ : AlongP pt0 k p0 s.fn (applyPolicy s.core.policy [q]) := by
    rw [hap]
    exact ⟨⟨p0.value, by rw [reval_self], hp0inv⟩, hk, by rw [hpt], fun _ _ => by rw [hpt]⟩
  obtain ⟨h1, h2, -, -, h5, x, hvx, hxs, hJ2⟩ :=
    golden_descent _ _ (objective_det_con obj D cap pt0 k p0 hp0prec hp0inv) fuel fuel' s s1 s2 [q] v hJ hinit hopt
  simp only [Spec.descent, ScalarReal.leb_iff] at h1 h2
  refine ⟨p0, hap, h1, h2, x, hxs, ?_, h5⟩
  obtain ⟨⟨w, hw, hacc⟩, -⟩ := hJ2
  have hwx : w = x := by
    rw [hw] at hxs; simpa [value0] using hxs
  rw [hvx, ← hwx, corr_accepted p0 w hp0prec hp0inv hacc]

/-- non-vacuity of `golden_interval_invariant`'s hypothesis and of the constants -/
example : (Gss.Ordered (⟨0, 0, 0, 1, 2, 3, 0, 3⟩ : Gss ℝ)) := Or.inl ⟨by norm_num, by norm_num, by norm_num⟩

end Bpp.C10
