import BppProofs.Lemmas.DistText
import BppProofs.Props.C17
import BppProofs.Props.C17Keyval
/-!
# C17 — "a distribution written in the description language reads back …": the textual layer

The distribution classes are not modelled: the clause about families, class values and probabilities
is **explored** (driver predicates `dist_reads_back`, `dist_family`, `dist_values`, `dist_text` on the
implementation's traces for every family and nested compounds, class counts 1..8; see props/C17.json).
What is proved here is the textual layer for the parametric families (Gamma, Beta, Exponential,
Gaussian, TruncExponential, …): the description `Name(n=<count>,<p1>=<numeral>,…)` that
`writeDiscreteDistribution` produces is a KeyvalTools procedure whose values are numerals of the
strict decimal grammar, and the reader (`parseProcedure`, `toInt(args["n"])`, `toDouble(args[p])`)
gets back the name, the class count and — as rationals, before libc's decimal→binary rounding — the
value each numeral denotes.  A composition of `parse_render`, `int_roundtrip` and `toDouble_value`.
-/
namespace Bpp.C17
open Bpp.Text Bpp.Text.Number Bpp.Text.Keyval Bpp.Text.DistText

/-- a numeral of the strict decimal grammar is a value the procedure syntax leaves alone -/
theorem numeral_valOk (p : DecParts) (hwf : p.WF) : ValOk (p.render '.' 'e') = true :=
  valOk_plain _ (render_plain p hwf)

/-- **the description parses back**: name and argument map -/
theorem dist_description_parse (fam : Str) (n : Nat) (params : List (Str × DecParts))
    (hn : NameOk fam = true) (hp : ∀ kp ∈ params, KeyOk kp.1 = true ∧ kp.2.WF) :
    parseProcedure (paramDesc fam n params) = some (fam, mapOfList (paramArgs n params)) := by
  apply parse_render fam _ hn
  simp only [paramArgs, List.all_cons, List.all_map, Bool.and_eq_true, List.all_eq_true]
  refine ⟨?_, fun kp hkp => ?_⟩
  · have hv : ValOk (natDigits n) = true := valOk_plain _ (fun c hc => digit_plain ((natDigits_spec n).1 c hc))
    have hne : natDigits n ≠ [] := (natDigits_spec n).2.1
    have hk : KeyOk "n".toList = true := by decide
    simp only [PairOk, hk, hv, Bool.true_and, Bool.not_eq_true', Bool.and_eq_false_iff]
    right
    cases h : natDigits n with
    | nil => exact absurd h hne
    | cons _ _ => rfl
  · obtain ⟨hk, hwf⟩ := hp kp hkp
    have hne := render_ne_nil kp.2 hwf
    simp only [Function.comp, PairOk, hk, numeral_valOk kp.2 hwf, Bool.true_and, Bool.not_eq_true',
      Bool.and_eq_false_iff]
    right
    cases h : kp.2.render '.' 'e' with
    | nil => exact absurd h hne
    | cons _ _ => rfl

/-- **… and the reader extracts what was written**: the family name, the class count, and for every
parameter the value its numeral denotes.  Parameter names: distinct, not `n`, free of the
structural characters. -/
theorem dist_description_reads_back (fam : Str) (n : Nat) (params : List (Str × DecParts))
    (hn : NameOk fam = true) (hp : ∀ kp ∈ params, KeyOk kp.1 = true ∧ kp.2.WF ∧ kp.1 ≠ "n".toList)
    (hd : (params.map (·.1)).Nodup) (hnmax : (n : Int) ≤ intMax) :
    readParams (paramDesc fam n params) (params.map (·.1))
      = some (fam, (n : Int), params.map (fun kp => (kp.1, kp.2.value))) := by
  unfold readParams
  rw [dist_description_parse fam n params hn (fun kp hkp => ⟨(hp kp hkp).1, (hp kp hkp).2.1⟩)]
  simp only
  -- the class count
  have hfn : mapFind "n".toList (mapOfList (paramArgs n params)) = some (natDigits n) := by
    unfold mapOfList
    apply mapFind_foldl
    · simp [paramArgs]
    · intro v' hv'
      simp only [paramArgs, List.mem_cons, Prod.mk.injEq, true_and, List.mem_map] at hv'
      rcases hv' with h | ⟨kp, hkp, h1, _⟩
      · exact h
      · exact absurd h1 (hp kp hkp).2.2
  have hint : toInt 'e' (natDigits n) = some (n : Int) := by
    have := int_roundtrip (sci := 'e') (by decide) (n : Int) (by unfold Number.intMin; omega) hnmax
    have hnn : ¬ ((n : Int) < 0) := by omega
    simpa [intToString, hnn] using this
  simp only [hfn, Option.bind_some, hint]
  -- the parameters
  have hkey : ∀ kp ∈ params,
      ((mapFind kp.1 (mapOfList (paramArgs n params))).bind (toDouble '.' 'e')).map (fun v => (kp.1, v))
        = some (kp.1, kp.2.value) := by
    intro kp hkp
    have hf : mapFind kp.1 (mapOfList (paramArgs n params)) = some (kp.2.render '.' 'e') := by
      unfold mapOfList
      apply mapFind_foldl
      · simp only [paramArgs, List.mem_cons, List.mem_map]
        right; exact ⟨kp, hkp, rfl⟩
      · intro v' hv'
        simp only [paramArgs, List.mem_cons, Prod.mk.injEq, List.mem_map] at hv'
        rcases hv' with ⟨h1, _⟩ | ⟨kp', hkp', h1, h2⟩
        · exact absurd h1 (hp kp hkp).2.2
        · -- distinct names
          have : kp' = kp := nodup_fst_inj params hd kp' kp hkp' hkp h1
          rw [← h2, this]
    rw [hf, Option.bind_some, toDouble_value sane_default.1 kp.2 (hp kp hkp).2.1]
    rfl
  have hm : ∀ (l : List (Str × DecParts)), (∀ kp ∈ l, kp ∈ params) →
      (l.map (·.1)).mapM (fun k => ((mapFind k (mapOfList (paramArgs n params))).bind (toDouble '.' 'e')).map
        (fun v => (k, v))) = some (l.map (fun kp => (kp.1, kp.2.value))) := by
    intro l
    induction l with
    | nil => intro _; rfl
    | cons a r ih =>
      intro hsub
      simp only [List.map_cons, List.mapM_cons, hkey a (hsub a (by simp)), Option.pure_def, Option.bind_eq_bind,
        Option.bind_some, ih (fun kp hkp => hsub kp (by simp [hkp]))]
  rw [hm params (fun _ h => h)]
  rfl

/-- non-vacuity: `Gamma(n=4,alpha=0.500000000000,beta=1.250000000000)` as the library writes it -/
example : paramDesc "Gamma".toList 4
    [("alpha".toList, ⟨false, "0".toList, true, "500000000000".toList, none⟩),
     ("beta".toList, ⟨false, "1".toList, true, "250000000000".toList, none⟩)]
    = "Gamma(n=4,alpha=0.500000000000,beta=1.250000000000)".toList := by
  simp [paramDesc, paramArgs, render, renderArgs, DecParts.render, natDigits, digitChar]

end Bpp.C17
