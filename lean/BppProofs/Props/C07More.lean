import BppProofs.Lemmas.VecTools2
import BppProofs.Props.C07
/-!
# C07, round 2 — the rest of VectorTools.h / VectorTools.cpp / NumTools.h
(every overload and every combination of the boolean options; see props/C07.inventory.md)

Property theorems only; helper lemmas are in `Lemmas/VecTools2.lean`.  Numeric statements are
about the program text of `BppModel/VecTools2.lean` read at `ℝ` (rounding is not modelled).
-/
namespace Bpp.C07
open Bpp Bpp.VecTools Bpp.ScalarReal

/-! ## weighted variance and standard deviation, all four option pairs -/

/-- the explicit weighted covariance `Spec.covW` (which the driver evaluates in exact arithmetic on
the implementation's answers) is what weighted `cov` computes, for each of the four combinations
of `unbiased` and `normalizeWeights` -/
theorem covW_flags_spec (v1 v2 w : List ℝ) (u nw : Bool) (h1 : v1.length = w.length) (h2 : v2.length = w.length) :
    covW v1 v2 w u nw = .ok (Spec.covW v1 v2 w u nw) := by
  rw [covW_eq v1 v2 w u nw h1 h2]
  cases nw <;> cases u <;>
    simp [Spec.covW, normW', Spec.dot, Spec.dotW]

/-- weighted `var(v, w, unbiased, normalizeWeights)` is the weighted covariance of `v` with itself
*with the options in that order* -/
theorem varW_spec (v w : List ℝ) (u nw : Bool) (h : v.length = w.length) :
    varW v w u nw = .ok (Spec.covW v v w u nw) := covW_flags_spec v v w u nw h h

/-- weighted `sd(v, w, unbiased, normalizeWeights) = sqrt(var(v, w, unbiased, normalizeWeights))`,
options in the same order, for all four pairs — for a non-negative weighted variance.  (With
negative weights, or unnormalised weights with `Σw² > 1` and `unbiased`, the variance can be
negative: the code takes `sqrt` of it and answers NaN, where `Real.sqrt` would say 0.  `_hnn` is not
used by the proof; it keeps the statement inside the region where the exact reading is faithful.) -/
theorem sdW_spec (v w : List ℝ) (u nw : Bool) (h : v.length = w.length)
    (_hnn : 0 ≤ Spec.covW v v w u nw) :
    sdW v w u nw = .ok (Real.sqrt (Spec.covW v v w u nw)) :=
  sdW_of_varW v w u nw _ (varW_spec v w u nw h)

/-- unweighted `sd(v, unbiased) = sqrt(var(v, unbiased))` -/
theorem sd_spec (v : List ℝ) (u : Bool) (hn : (if u then 2 else 1) ≤ v.length) :
    sd v u = .ok (Real.sqrt (Spec.cov v v u)) := by
  unfold sd var; rw [cov_eq v v u rfl hn]; rfl

/-- Pearson `cor(v1, v2)` is `cov/(sd·sd)` of the unbiased estimates:
`Σ(aᵢ-ā)(bᵢ-b̄)/(n-1)` over the product of the square roots of the two unbiased variances -/
theorem cor_spec (v1 v2 : List ℝ) (h : v1.length = v2.length) (hn : 2 ≤ v1.length) :
    cor v1 v2 = .ok (Spec.cov v1 v2 true /
      (Real.sqrt (Spec.cov v1 v1 true) * Real.sqrt (Spec.cov v2 v2 true))) := by
  unfold cor
  rw [cov_eq v1 v2 true h (by simpa using hn), sd_spec v1 true (by simpa using hn),
    sd_spec v2 true (by simpa using (h ▸ hn))]
  rfl

/-- … spelled out with sums -/
theorem cor_spec_sums (v1 v2 : List ℝ) (h : v1.length = v2.length) (hn : 2 ≤ v1.length) :
    cor v1 v2 = .ok (
      let a := v1.sum / (v1.length : ℝ); let b := v2.sum / (v2.length : ℝ)
      ((List.zipWith (fun x y => (x - a) * (y - b)) v1 v2).sum / ((v1.length : ℝ) - 1)) /
      (Real.sqrt ((List.zipWith (fun x y => (x - a) * (y - a)) v1 v1).sum / ((v1.length : ℝ) - 1)) *
       Real.sqrt ((List.zipWith (fun x y => (x - b) * (y - b)) v2 v2).sum / ((v2.length : ℝ) - 1)))) := by
  rw [cor_spec v1 v2 h hn]
  simp [specCov_eq]

example : cor ([1, 2, 4] : List ℝ) [3, 1, 0] =
    .ok (Spec.cov ([1, 2, 4] : List ℝ) [3, 1, 0] true /
      (Real.sqrt (Spec.cov ([1, 2, 4] : List ℝ) [1, 2, 4] true) * Real.sqrt (Spec.cov ([3, 1, 0] : List ℝ) [3, 1, 0] true))) :=
  cor_spec _ _ rfl (by decide)

/-- the two options are not interchangeable: on `v = [1,2,4]`, `w = [1,1,2]` the pair
(unbiased, not normalised) and the pair (biased, normalised) give different variances
(`-11/5` and `27/16`) -/
theorem varW_options_not_symmetric :
    Spec.covW ([1, 2, 4] : List ℝ) [1, 2, 4] [1, 1, 2] true false ≠
    Spec.covW ([1, 2, 4] : List ℝ) [1, 2, 4] [1, 1, 2] false true := by
  simp [Spec.covW, Spec.dot, Spec.dotW, zipWith3]
  norm_num

example : sdW ([1, 2, 4] : List ℝ) [1, 1, 2] false true = .ok (Real.sqrt (27 / 16)) := by
  have hval : Spec.covW ([1, 2, 4] : List ℝ) [1, 2, 4] [1, 1, 2] false true = 27 / 16 := by
    simp [Spec.covW, Spec.dot, Spec.dotW, zipWith3]; norm_num
  rw [sdW_spec [1, 2, 4] [1, 1, 2] false true rfl (by rw [hval]; norm_num), hval]

/-- weighted `mean`, both values of the option (when normalising, the weights must not sum to 0:
there the code divides every weight by zero; the hypothesis is not used by the proof, it restricts
the claim to where the exact reading is meaningful) -/
theorem meanW_flags_spec (v w : List ℝ) (nw : Bool) (h : v.length = w.length) (_hw : nw = true → w.sum ≠ 0) :
    meanW v w nw = .ok (if nw then (List.zipWith (· * ·) v w).sum / w.sum else (List.zipWith (· * ·) v w).sum) := by
  cases nw
  · simp [meanW, scalar_eq v w h]
  · simpa using meanW_eq v w h

/-- weighted `center`, both values of the option: the weighted mean is subtracted -/
theorem centerW_spec (v w : List ℝ) (nw : Bool) (h : v.length = w.length) (hw : nw = true → w.sum ≠ 0) :
    centerW v w nw = .ok (v.map (· - (if nw then (List.zipWith (· * ·) v w).sum / w.sum
                                       else (List.zipWith (· * ·) v w).sum))) := by
  unfold centerW; rw [meanW_flags_spec v w nw h hw]; rfl

example : centerW ([1, 2] : List ℝ) [1, 3] true = .ok [1 - 7 / 4, 2 - 7 / 4] := by
  rw [centerW_spec [1, 2] [1, 3] true rfl (by intro _; norm_num)]; norm_num

/-- weighted `cor`, both values of the option, is `cov/(sd·sd)` of the biased estimates on the
weights actually used — for non-negative weighted variances (a negative one, possible with
negative weights, makes the code take `sqrt` of a negative number: NaN) -/
theorem corW_spec (v1 v2 w : List ℝ) (nw : Bool) (h1 : v1.length = w.length) (h2 : v2.length = w.length)
    (_hA : 0 ≤ Spec.covW v1 v1 (normW' w nw) false false)
    (_hB : 0 ≤ Spec.covW v2 v2 (normW' w nw) false false) :
    corW v1 v2 w nw = .ok (
      let wn := normW' w nw
      Spec.covW v1 v2 wn false false /
        (Real.sqrt (Spec.covW v1 v1 wn false false) * Real.sqrt (Spec.covW v2 v2 wn false false))) := by
  have hwn : (normW' w nw).length = w.length := by unfold normW'; split <;> simp
  have hwn' : (if nw then divC w (VecTools.sum w) else w) = normW' w nw := by
    unfold normW'; simp [divC, sum_eq]
  unfold corW
  simp only [hwn']
  rw [covW_flags_spec v1 v2 _ false false (h1.trans hwn.symm) (h2.trans hwn.symm),
      sdW_spec v1 _ false false (h1.trans hwn.symm) _hA, sdW_spec v2 _ false false (h2.trans hwn.symm) _hB]
  rfl

/-- a call that leaves the options to their defaults computes the unbiased estimate on normalised
weights, and the default base of the entropies is the literal `2.7182818` -/
theorem defaults_spec (v w : List ℝ) (h : v.length = w.length) (hnn : 0 ≤ Spec.covW v v w true true) :
    sdW v w dfltUnbiased dfltNormalizeWeights = .ok (Real.sqrt (Spec.covW v v w true true)) ∧
    varW v w dfltUnbiased dfltNormalizeWeights = .ok (Spec.covW v v w true true) ∧
    (dfltBase : ℝ) = 27182818 / 10000000 := by
  refine ⟨sdW_spec v w true true h hnn, varW_spec v w true true h, ?_⟩
  simp [dfltBase]

/-! ## the value of the median -/

/-- `median` of an even number `n ≥ 2` of elements is the mean of the two middle elements of *the*
sorted permutation `s` of the input (unique over a linear order), and `s` is what the argument
holds afterwards -/
theorem median_even_spec (v s : List ℝ) (hp : s.Perm v) (hs : s.Pairwise (· ≤ ·)) (hn : 2 ≤ v.length)
    (he : v.length % 2 = 0) :
    ∃ a b, s[v.length / 2 - 1]? = some a ∧ s[v.length / 2]? = some b ∧ median v = .ok ((a + b) / 2, s) := by
  have hsv := sortVals_unique v s hp hs
  have hlen : s.length = v.length := hp.length_eq
  have hk : v.length / 2 < s.length := by omega
  have hk1 : v.length / 2 - 1 < s.length := by omega
  refine ⟨s[v.length / 2 - 1], s[v.length / 2], List.getElem?_eq_getElem hk1, List.getElem?_eq_getElem hk, ?_⟩
  rw [median_ge2 v hn, hsv, hlen, if_pos he, at?_eq_getElem s _ hk1, at?_eq_getElem s _ hk]
  simp [bind, Except.bind, pure, Except.pure]

/-- `median` of an odd number of elements is the middle element of the sorted permutation -/
theorem median_odd_spec (v s : List ℝ) (hp : s.Perm v) (hs : s.Pairwise (· ≤ ·)) (ho : v.length % 2 = 1) :
    ∃ b, s[v.length / 2]? = some b ∧ median v = .ok (b, s) := by
  have hlen : s.length = v.length := hp.length_eq
  by_cases h1 : v.length = 1
  · obtain ⟨x, rfl⟩ := List.length_eq_one_iff.mp h1
    have : s = [x] := List.perm_singleton.mp hp
    subst this
    exact ⟨x, by simp, by simp [median, at?]⟩
  · have hn : 2 ≤ v.length := by omega
    have hsv := sortVals_unique v s hp hs
    have hk : v.length / 2 < s.length := by omega
    refine ⟨s[v.length / 2], List.getElem?_eq_getElem hk, ?_⟩
    rw [median_ge2 v hn, hsv, hlen, if_neg (by omega), at?_eq_getElem s _ hk]
    rfl

example : median ([4, 1, 3, 2] : List ℝ) = .ok ((2 + 3) / 2, [1, 2, 3, 4]) := by
  obtain ⟨a, b, ha, hb, h⟩ := median_even_spec [4, 1, 3, 2] [1, 2, 3, 4]
    (by
      have h1 : ([1, 2, 3, 4] : List ℝ).Perm [4, 1, 2, 3] :=
        (List.perm_append_comm (l₁ := [1, 2, 3]) (l₂ := [4]))
      have h2 : ([4, 1, 2, 3] : List ℝ).Perm [4, 1, 3, 2] :=
        List.Perm.cons _ (List.Perm.cons _ (List.Perm.swap _ _ _))
      exact h1.trans h2)
    (by norm_num) (by decide) (by decide)
  simp at ha hb; subst ha hb; exact h

/-! ## positions of the minimum, weighted norm -/

/-- `whichMinAll` answers exactly the positions of the minimum, in increasing order -/
theorem whichMinAll_positions (v : List ℝ) (pos : List Nat) (h : whichMinAll v = .ok pos) :
    ∃ m, VecTools.min v = .ok m ∧ IsPositionsOf Scalar.eqb v m pos := whichMinAll_spec v pos h

/-- weighted `norm` is `√Σ vᵢ²·wᵢ`, for a non-negative weighted sum of squares (a negative one is NaN in
the code) -/
theorem normW_spec (v w : List ℝ) (h : v.length = w.length)
    (_hq : 0 ≤ (zipWith3 (fun x y c => x * y * c) v v w).sum) :
    normW v w = .ok (Real.sqrt (zipWith3 (fun x y c => x * y * c) v v w).sum) := normW_eq v w h

example : normW ([1, 2] : List ℝ) [3, 1] = .ok (Real.sqrt 7) := by
  rw [normW_spec [1, 2] [3, 1] rfl (by norm_num [zipWith3])]; norm_num [zipWith3]

/-! ## weighted cosine, Kronecker product -/

/-- weighted `cos` is `Σ v1ᵢv2ᵢwᵢ / (√Σ v1ᵢ²wᵢ · √Σ v2ᵢ²wᵢ)`, for non-negative weighted sums of squares
(a negative one — negative weights — is NaN in the code, not `Real.sqrt … = 0`) -/
theorem cosW_spec (v1 v2 w : List ℝ) (h1 : v1.length = w.length) (h2 : v2.length = w.length)
    (_hA : 0 ≤ (zipWith3 (fun x y c => x * y * c) v1 v1 w).sum)
    (_hB : 0 ≤ (zipWith3 (fun x y c => x * y * c) v2 v2 w).sum) :
    cosW v1 v2 w = .ok ((zipWith3 (fun a b c => a * b * c) v1 v2 w).sum /
      (Real.sqrt (zipWith3 (fun x y c => x * y * c) v1 v1 w).sum *
       Real.sqrt (zipWith3 (fun x y c => x * y * c) v2 v2 w).sum)) := cosW_eq v1 v2 w h1 h2

/-- weighted Cauchy–Schwarz: with non-negative weights and non-zero weighted norms the weighted
cosine lies in `[-1,1]` -/
theorem cosW_range (v1 v2 w : List ℝ) (h1 : v1.length = w.length) (h2 : v2.length = w.length)
    (hw : ∀ c ∈ w, 0 ≤ c)
    (hA : 0 < (zipWith3 (fun x y c => x * y * c) v1 v1 w).sum)
    (hB : 0 < (zipWith3 (fun x y c => x * y * c) v2 v2 w).sum) :
    ∃ c, cosW v1 v2 w = .ok c ∧ c ^ 2 ≤ 1 := by
  refine ⟨_, cosW_eq v1 v2 w h1 h2, ?_⟩
  rw [div_pow, mul_pow, Real.sq_sqrt hA.le, Real.sq_sqrt hB.le, div_le_one (mul_pos hA hB)]
  exact cauchy_schwarz_weighted v1 v2 w hw

example : ∃ c, cosW ([1, 2] : List ℝ) [2, 1] [1, 3] = .ok c ∧ c ^ 2 ≤ 1 :=
  cosW_range _ _ _ rfl rfl (by intro c hc; simp at hc; rcases hc with rfl | rfl <;> norm_num)
    (by norm_num [zipWith3]) (by norm_num [zipWith3])

/-- the weighted routines of this file raise DimensionException when a sample does not match the
weights -/
theorem weighted_mismatch_raises (v1 v2 w : List ℝ) :
    (v1.length ≠ w.length ∨ v2.length ≠ w.length → cosW v1 v2 w = .error .dimension) ∧
    (v1.length ≠ w.length → ∀ u nw, varW v1 w u nw = .error .dimension ∧ sdW v1 w u nw = .error .dimension) := by
  constructor
  · intro h
    unfold cosW
    rw [(mismatch_raises_weighted v1 v2 w h).1]; rfl
  · intro h1 u nw
    have hv : varW v1 w u nw = .error .dimension := (mismatch_raises_weighted v1 v1 w (Or.inl h1)).2.1 u nw
    refine ⟨hv, ?_⟩
    unfold sdW; rw [hv]; rfl

/-- `kroneckerMult` has `n1·n2` entries and entry `i·n2 + j` is `v1ᵢ·v2ⱼ` -/
theorem kroneckerMult_spec (v1 v2 : List ℝ) :
    (kroneckerMult v1 v2).length = v1.length * v2.length ∧
    ∀ i j (hi : i < v1.length) (hj : j < v2.length),
      (kroneckerMult v1 v2)[i * v2.length + j]? = some (v1[i] * v2[j]) :=
  ⟨kroneckerMult_length v1 v2, fun i j hi hj => kroneckerMult_get v1 v2 i j hi hj⟩

example : kroneckerMult ([1, 2] : List ℝ) [3, 4, 5] = [1 * 3, 1 * 4, 1 * 5, 2 * 3, 2 * 4, 2 * 5] := by
  simp [kroneckerMult]

/-! ## compound operators with a constant, element-wise functions -/

/-- `v op= c` applies the operation to every element; `v &= c` / `fill` overwrite every element -/
theorem compoundC_spec (v : List ℝ) (c : ℝ) :
    addCeq v c = v.map (· + c) ∧ subCeq v c = v.map (· - c) ∧ mulCeq v c = v.map (· * c) ∧
    divCeq v c = v.map (· / c) ∧ fillC v c = List.replicate v.length c := by
  refine ⟨rfl, rfl, rfl, rfl, ?_⟩
  unfold fillC
  induction v with
  | nil => rfl
  | cons x xs ih => simp [List.replicate_succ, ih]

/-- the binary operators with a constant on either side apply the operation to every element,
the constant on the side it was written -/
theorem constOp_spec (v : List ℝ) (c : ℝ) :
    addC v c = v.map (· + c) ∧ cAdd c v = v.map (c + ·) ∧ subC v c = v.map (· - c) ∧ cSub c v = v.map (c - ·) ∧
    mulC v c = v.map (· * c) ∧ cMul c v = v.map (c * ·) ∧ divC v c = v.map (· / c) ∧ cDiv c v = v.map (c / ·) :=
  ⟨rfl, rfl, rfl, rfl, rfl, rfl, rfl, rfl⟩

/-- the element-wise functions keep the length and apply the function at each position -/
theorem elementwise_fun_spec (v : List ℝ) (b : ℝ) (f : ℝ → ℝ) :
    vlog v = v.map Real.log ∧ vlogBase v b = v.map (fun x => Real.log x / Real.log b) ∧
    vexp v = v.map Real.exp ∧ vmap f v = v.map f ∧ vsqr v = v.map (fun x => x ^ 2) ∧
    vpow v b = v.map (fun x => x ^ b) ∧ vabs v = v.map (fun x => |x|) := by
  refine ⟨rfl, rfl, rfl, rfl, ?_, rfl, rfl⟩
  unfold vsqr; congr 1; funext x; ring

/-! ## NumTools scalar helpers -/

theorem ntAbs_spec (a : ℝ) : ntAbs a = |a| := ntAbs_eq a

theorem ntSign_spec (a : ℝ) : ntSign a = if a < 0 then -1 else if a = 0 then 0 else 1 := ntSign_eq a

theorem ntMax_spec (a b : ℝ) : ntMax a b = max a b := by
  unfold ntMax
  by_cases h : b < a
  · simp [h, max_eq_left h.le]
  · simp [h, max_eq_right (not_lt.mp h)]

theorem ntMin_spec (a b : ℝ) : ntMin a b = min a b := by
  unfold ntMin
  by_cases h : a < b
  · simp [h, min_eq_left h.le]
  · simp [h, min_eq_right (not_lt.mp h)]

/-- `sign(a, b)` is the magnitude of `a` with the sign of `b` (0 when `b = 0`) -/
theorem ntSign2_spec (a b : ℝ) :
    ntSign2 a b = |a| * (if b < 0 then -1 else if b = 0 then 0 else 1) := by
  unfold ntSign2; rw [ntAbs_eq, ntSign_eq]

theorem ntSqr_spec (a : ℝ) : ntSqr a = a ^ 2 := by unfold ntSqr; ring

/-- `fact` of a whole number is the factorial, `logFact` its logarithm -/
theorem fact_spec (n : Nat) :
    (factNat n : ℝ) = (n.factorial : ℝ) ∧ (logFactNat n : ℝ) = Real.log (n.factorial : ℝ) :=
  ⟨factNat_eq n, logFactNat_eq n⟩

/-- `swap`/`shift` move the values as documented -/
theorem ntSwap_shift_spec (a b c d : ℝ) :
    ntSwap a b = (b, a) ∧ ntShift3 a b c = (b, c) ∧ ntShift4 a b c d = (b, c, d) := ⟨rfl, rfl, rfl⟩

/-! ## breaks, nclassScott -/

/-- `breaks(v, n)`: `n` equally spaced points from the minimum, then the maximum; an empty vector
raises EmptyVectorException -/
theorem breaks_spec (v : List ℝ) (n : Nat) :
    (∀ lo hi, VecTools.range v = .ok (lo, hi) →
      breaks v n = .ok ((List.range n).map (fun (i : Nat) => lo + (hi - lo) / (n : ℝ) * (i : ℝ)) ++ [hi])) ∧
    (v = [] → breaks v n = .error .empty) := by
  constructor
  · intro lo hi h
    unfold breaks
    rw [h]
    simp [bind, Except.bind, pure, Except.pure]
  · intro hv; subst hv; rfl

example : breaks ([3, 1, 2] : List ℝ) 2 = .ok [1, 2, 3] := by
  have hr : VecTools.range ([3, 1, 2] : List ℝ) = .ok (1, 3) := by norm_num [VecTools.range]
  rw [(breaks_spec _ 2).1 1 3 hr]
  norm_num [List.range_succ]

/-- Scott's rule: `⌈(max - min) / (3.5 · sd · n^(-1/3))⌉`, for a sample with a positive standard
deviation (for a constant sample or a single element the code converts `0/0` to `size_t`, which is
undefined: see `nclassScott_constant_sd_zero`) -/
theorem nclassScott_spec (v : List ℝ) (lo hi s : ℝ) (hr : VecTools.range v = .ok (lo, hi))
    (hs : sd v true = .ok s) (_hpos : 0 < s) :
    nclassScott (fun x => some ⌈x⌉₊) v =
      .ok ⌈(hi - lo) / (3.5 * s * (v.length : ℝ) ^ (-(1 : ℝ) / 3))⌉₊ := by
  unfold nclassScott
  rw [hr, hs]
  simp only [bind, Except.bind, ofRat_eq, ofInt_eq, pow_eq]
  norm_num

example : ∃ k, nclassScott (fun x => some ⌈x⌉₊) ([1, 2, 4] : List ℝ) = .ok k := by
  have hr : VecTools.range ([1, 2, 4] : List ℝ) = .ok (1, 4) := by
    norm_num [VecTools.range]
  have hs := sd_spec ([1, 2, 4] : List ℝ) true (by decide)
  refine ⟨_, nclassScott_spec _ 1 4 _ hr hs (Real.sqrt_pos.mpr ?_)⟩
  rw [specCov_eq]; norm_num

/-- for a constant sample the standard deviation — hence the bandwidth `h` the range is divided
by — is exactly 0: the code evaluates `0/0` and converts the NaN to `size_t` -/
theorem nclassScott_constant_sd_zero (a : ℝ) (n : Nat) (hn : 2 ≤ n) :
    sd (List.replicate n a) true = .ok 0 := by
  rw [sd_spec _ true (by simpa using hn), specCov_eq]
  have hn0 : (n : ℝ) ≠ 0 := by positivity
  have hmean : (List.replicate n a).sum / ((List.replicate n a).length : ℝ) = a := by
    simp [List.sum_replicate]; field_simp
  rw [hmean]
  have : List.zipWith (fun x y => (x - a) * (y - a)) (List.replicate n a) (List.replicate n a) = List.replicate n 0 := by
    rw [List.zipWith_replicate]; simp
  rw [this]; simp

/-! ## extract, countValues -/

/-- `extract(v, positions)`: the elements at the given positions, in the order of the positions;
a position outside the vector is an out-of-range read -/
theorem extract_spec {β : Type} (v : List β) (pos : List Nat) :
    ((∀ p ∈ pos, p < v.length) → ∃ r, extract v pos = .ok r ∧ r.map some = pos.map (v[·]?)) ∧
    ((∃ p ∈ pos, v.length ≤ p) → extract v pos = .error .ub) := by
  constructor
  · intro h
    cases v with
    | nil =>
      cases pos with
      | nil => exact ⟨[], rfl, rfl⟩
      | cons p ps => exact absurd (h p (by simp)) (by simp)
    | cons x0 xs =>
      refine ⟨pos.map (fun p => ((x0 :: xs)[p]?).getD x0), ?_, ?_⟩
      · apply mapM_ok_of_forall
        intro p hp
        unfold at?
        rw [List.getElem?_eq_getElem (h p hp)]; rfl
      · rw [List.map_map]
        apply List.map_congr_left
        intro p hp
        simp [List.getElem?_eq_getElem (h p hp)]
  · intro h
    apply mapM_error_of_mem
    · intro p _
      unfold at?
      cases hv : v[p]? with
      | none => exact Or.inl rfl
      | some y => exact Or.inr ⟨y, rfl⟩
    · obtain ⟨p, hp, hle⟩ := h
      refine ⟨p, hp, ?_⟩
      unfold at?
      rw [List.getElem?_eq_none hle]

example : extract [10, 20, 30] [2, 0, 2] = .ok [30, 10, 30] := rfl
example : extract [10, 20, 30] [1, 3] = .error .ub := rfl

section Sets
variable {β : Type} [LinearOrder β]

/-- `countValues`: the keys are the distinct elements in increasing order and each is mapped to
its number of occurrences -/
theorem countValues_spec (v : List β) :
    ((countValues dlt v).map (·.1)).Pairwise (· < ·) ∧
    ∀ k c, (k, c) ∈ countValues dlt v ↔ k ∈ v ∧ c = v.count k :=
  ⟨(countValues_inv v).1, countValues_mem v⟩

example : countValues (dlt (β := Nat)) [3, 1, 3, 2, 3] = [(1, 1), (2, 1), (3, 3)] := by decide

/-! ## union / intersection of a list of vectors -/

/-- `vectorUnion(list)` holds exactly the elements of some vector of the list … -/
theorem unionList_iff (vs : List (List β)) (x : β) :
    x ∈ vectorUnionList deq vs ↔ ∃ v ∈ vs, x ∈ v := by
  rw [vectorUnionList_eq, mem_firstOcc]; simp

/-- … each once, in the order of first occurrence (`IsUnionList` is the predicate the driver
evaluates) -/
theorem unionList_shape (vs : List (List β)) :
    vectorUnionList deq vs = Spec.firstOcc deq vs.flatten ∧ (vectorUnionList deq vs).Nodup ∧
    IsUnionList deq vs (vectorUnionList deq vs) := by
  refine ⟨vectorUnionList_eq vs, ?_, ?_⟩
  · rw [vectorUnionList_eq]; exact nodup_firstOcc _
  · unfold IsUnionList; rw [vectorUnionList_eq]; exact listEq_refl _

/-- `vectorUnion(v1, v2)` (repaired) holds exactly the elements of either argument … -/
theorem union_iff (a b : List β) (x : β) : x ∈ vectorUnion deq a b ↔ x ∈ a ∨ x ∈ b := by
  rw [vectorUnion_eq, mem_firstOcc, List.mem_append]

/-- … each once, in the order of first occurrence, whatever repeats the arguments contain; it is
the union of the list `[v1, v2]` -/
theorem union_shape (a b : List β) :
    vectorUnion deq a b = Spec.firstOcc deq (a ++ b) ∧ (vectorUnion deq a b).Nodup ∧
    vectorUnion deq a b = vectorUnionList deq [a, b] ∧ IsUnionList deq [a, b] (vectorUnion deq a b) := by
  refine ⟨vectorUnion_eq a b, ?_, rfl, ?_⟩
  · rw [vectorUnion_eq]; exact nodup_firstOcc _
  · unfold IsUnionList; rw [vectorUnion_eq]; simp [listEq_refl]

example : vectorUnion (deq (β := Nat)) [1, 1, 2] [2, 3] = [1, 2, 3] := by decide

example : vectorUnionList (deq (β := Nat)) [[2, 1, 2], [], [3, 1], [4]] = [2, 1, 3, 4] := by decide

/-- `extend(v1, v2)` keeps `v1` as it is and pushes the elements of `v2` that are not yet present:
`v1` followed by new, pairwise distinct elements (`IsUnion`) -/
theorem extend_spec (v1 v2 : List β) :
    (∀ x, x ∈ extend deq v1 v2 ↔ x ∈ v1 ∨ x ∈ v2) ∧ IsUnion deq v1 v2 (extend deq v1 v2) :=
  ⟨mem_vectorUnionOrig v1 v2, isUnion_vectorUnionOrig v1 v2⟩

/-- `vectorIntersection(list)` of a non-empty list holds exactly the elements that occur in *every*
vector of the list (the first, the last and each one in between) … -/
theorem interList_iff (vs : List (List β)) (hvs : vs ≠ []) (x : β) :
    x ∈ vectorIntersectionList deq vs ↔ ∀ v ∈ vs, x ∈ v := by
  cases vs with
  | nil => exact absurd rfl hvs
  | cons v rest =>
    rw [vectorIntersectionList_cons, List.mem_filter]
    simp

/-- … in the order and with the multiplicities of the first vector; the empty list gives the
empty vector (`IsInterList` is the predicate the driver evaluates) -/
theorem interList_shape (vs : List (List β)) :
    (∀ v rest, vs = v :: rest →
      vectorIntersectionList deq vs = v.filter (fun x => decide (∀ u ∈ rest, x ∈ u))) ∧
    (vs = [] → vectorIntersectionList deq vs = []) ∧
    IsInterList deq vs (vectorIntersectionList deq vs) := by
  refine ⟨?_, ?_, ?_⟩
  · rintro v rest rfl; exact vectorIntersectionList_cons v rest
  · rintro rfl; rfl
  · cases vs with
    | nil => simp [IsInterList, vectorIntersectionList]
    | cons v rest =>
      unfold IsInterList
      simp only
      rw [listEq_iff]
      cases rest with
      | nil => simp [vectorIntersectionList]
      | cons w ws =>
        simp only [vectorIntersectionList]
        apply List.filter_congr
        intro x _
        exact inAll_eq_all _ x

/-- an element missing from a middle vector is dropped even when the last vector has it -/
example : vectorIntersectionList (deq (β := Nat)) [[1, 2, 3], [1, 3], [1, 2, 3]] = [1, 3] := by decide

/-! ## append, prepend, rep -/

omit [LinearOrder β] in
/-- `append(v1, v2)` / `prepend(v1, v2)` -/
theorem append_prepend_spec (v1 v2 : List β) :
    append2 v1 v2 = v1 ++ v2 ∧ prepend v1 v2 = v2 ++ v1 := ⟨rfl, rfl⟩

omit [LinearOrder β] in
/-- `rep(v, n)` is `n` copies of `v`, for every `n` (0 and 1 included) and every `v` (the empty
one included): no out-of-range read -/
theorem rep_spec (v : List β) (n : Nat) : rep v n = .ok (List.replicate n v).flatten := rep_eq v n

example : rep [1, 2] 3 = .ok [1, 2, 1, 2, 1, 2] := by decide
example : rep ([] : List Nat) 4 = .ok [] := by decide

/-! ## the overloads that sort their arguments in place -/

/-- non-const `haveSameElements`: the answer holds exactly for permutations; vectors of equal
sizes are left sorted, others untouched -/
theorem haveSameInPlace_spec (a b : List β) :
    ((haveSameElementsInPlace deq dlt a b).1 = true ↔ a.Perm b) ∧
    (a.length = b.length →
      (haveSameElementsInPlace deq dlt a b).2.1 = a.mergeSort (leOfLt dlt) ∧
      (haveSameElementsInPlace deq dlt a b).2.2 = b.mergeSort (leOfLt dlt)) ∧
    (a.length ≠ b.length → (haveSameElementsInPlace deq dlt a b).2 = (a, b)) := by
  refine ⟨?_, ?_, ?_⟩
  · rw [← haveSameElements_iff' a b]
    unfold haveSameElementsInPlace haveSameElements
    by_cases h : a.length = b.length <;> simp [h]
  · intro h; simp [haveSameElementsInPlace, h]
  · intro h; simp [haveSameElementsInPlace, h]

/-- the sorted copies are sorted permutations -/
theorem mergeSort_sorted_perm (a : List β) :
    (a.mergeSort (leOfLt dlt)).Perm a ∧ (a.mergeSort (leOfLt dlt)).Pairwise (· ≤ ·) :=
  ⟨List.mergeSort_perm _ _, sorted_mergeSort_dlt a⟩

/-- `diff(v1, v2, v3)` *appends* the difference to `v3` and leaves `v1`, `v2` sorted -/
theorem diff3_spec (a b c : List β) :
    ∃ d, diff3 deq dlt a b c = (a.mergeSort (leOfLt dlt), b.mergeSort (leOfLt dlt), c ++ d) ∧
      (∀ x, x ∈ d ↔ x ∈ a ∧ x ∉ b) ∧ d.Pairwise (· < ·) :=
  ⟨diff deq dlt a b, rfl, (diff_spec a b).1, (diff_spec a b).2⟩

/-- `containsAll` leaves both vectors sorted -/
theorem containsAllInPlace_spec (a b : List β) :
    ((containsAllInPlace deq dlt a b).1 = true ↔ ∀ x ∈ b, x ∈ a) ∧
    (containsAllInPlace deq dlt a b).2 = (a.mergeSort (leOfLt dlt), b.mergeSort (leOfLt dlt)) :=
  ⟨containsAll_iff' a b, rfl⟩

/-! ## the mixed-type overloads -/

/-- `contains<T,U>(vec, el)` looks for the converted element -/
theorem containsU_spec {γ : Type} (cast : γ → β) (v : List β) (el : γ) :
    containsU deq cast v el = true ↔ cast el ∈ v := contains_deq v (cast el)

omit [LinearOrder β] in
/-- `vectorIntersection<T,U>(vec1, vec2)` keeps the elements of the first vector whose *conversion
to `U`* occurs in the second -/
theorem interTU_spec {γ : Type} [LinearOrder γ] (cast : β → γ) (v1 : List β) (v2 : List γ) (x : β) :
    x ∈ vectorIntersectionTU cast deq v1 v2 ↔ x ∈ v1 ∧ cast x ∈ v2 := by
  simp [vectorIntersectionTU, List.mem_filter]

end Sets

/-! ## resize -/

/-- `resize2(vv, n1, n2)`: `n1` rows of `n2` entries; existing entries are kept, new ones are zero -/
theorem resize2_spec (vv : List (List ℝ)) (n1 n2 : Nat) :
    (resize2 0 vv n1 n2).length = n1 ∧
    ∀ i j, i < n1 → j < n2 →
      ∃ row, (resize2 0 vv n1 n2)[i]? = some row ∧ row.length = n2 ∧
        row[j]? = some (match vv[i]? with
                        | some r => (match r[j]? with | some x => x | none => 0)
                        | none => 0) := by
  refine ⟨by simp [resize2, resizeTo_length], ?_⟩
  intro i j hi hj
  unfold resize2
  rw [List.getElem?_map, resizeTo_get [] vv n1 i hi]
  refine ⟨_, rfl, resizeTo_length _ _ _, ?_⟩
  rw [resizeTo_get _ _ n2 j hj]
  cases vv[i]? with
  | none => simp
  | some r => simp only; cases r[j]? <;> rfl

/-! ## entropy / mutual information of a continuous sample, given the kernel densities -/

/-- `shannonContinuous` is `-(1/n) Σ ln(f̂(xᵢ))/ln base`, `f̂` the kernel density estimate -/
theorem shannonContinuous_spec (dens : List ℝ) (n : Nat) (base : ℝ) :
    shannonContinuousOf dens n base = -(dens.map (fun d => Real.log d / Real.log base)).sum / (n : ℝ) := by
  simp [shannonContinuousOf, foldl_add_map]

/-- `miContinuous` is `(1/n) Σ ln(f̂₁₂(xᵢ,yᵢ)/(f̂₁(xᵢ)·f̂₂(yᵢ)))/ln base`; samples of different
lengths raise DimensionException -/
theorem miContinuous_spec (n1 n2 : Nat) (d12 d1 d2 : List ℝ) (base : ℝ) :
    (n1 = n2 → miContinuousOf n1 n2 d12 d1 d2 base =
      .ok (((zipWith3 (fun a b c => (a, b, c)) d12 d1 d2).map
        (fun t => Real.log (t.1 / (t.2.1 * t.2.2)) / Real.log base)).sum / (n1 : ℝ))) ∧
    (n1 ≠ n2 → miContinuousOf n1 n2 d12 d1 d2 base = .error .dimension) := by
  constructor
  · intro h; simp [miContinuousOf, h, foldl_add_map]
  · intro h; simp [miContinuousOf, h]

end Bpp.C07
