import BppProofs.Lemmas.Alias
/-!
# C03 — aliased parameters track their source through every update, copy and renaming
(src/Bpp/Numeric/AbstractParameterAliasable.{h,cpp}, ParameterAliasable.h, Parameter.{h,cpp})

Property theorems only; helper lemmas are in `Lemmas/Alias.lean`.  The model
(`BppModel/Alias.lean`) is a world of parameter objects, listener objects and owner objects;
`step` interprets one operation, `run` a history.
-/
namespace Bpp.C03
open Bpp Bpp.Alias
open Bpp.ParamList (Bnd Con Par Store ObjId nameOf find? hasParameter names)

/-- three unconstrained parameters a = 1, b = 2, c = 3 in slot 0, empty namespace -/
def abc : World :=
  run World.init [.new 0 "", .add 0 ⟨"a", 1, none⟩, .add 0 ⟨"b", 2, none⟩, .add 0 ⟨"c", 3, none⟩]

/-! ## alias_tracks — every update that changes A leaves B equal to A

Stated for *every* world (any wiring of listeners, reachable or not).  `l ∈ w.lsn a` with
`tgt w l = some b` is "a listener attached to parameter object `a` writes to parameter object
`b`", i.e. "`b` follows `a`" (what `aliasParameters(A, B)` installs: `alias_installs_link`). -/

/-- **alias_tracks, direct link**: after `setParameterValue(n, v)` returned, every parameter
object `a` whose value changed — the named one or any one reached through listeners — is
equalled by every parameter `b` that follows it. -/
theorem alias_tracks_direct (w : World) (k : Nat) (n : String) (v : Rat)
    (ok : (apSetParameterValue w k n v).err = none) {a b : ObjId} {l : Nat}
    (hl : l ∈ w.lsn a) (ht : tgt w l = some b)
    (changed : val (apSetParameterValue w k n v).w a ≠ val w a) :
    val (apSetParameterValue w k n v).w b = val (apSetParameterValue w k n v).w a := by
  simp only [apSetParameterValue, setParameterValue] at ok changed ⊢
  split at ok
  · cases ok
  · split at ok
    · cases ok
    · rename_i o _ i _
      simp only [*] at changed ⊢
      exact (setValue_step w i v ok).1.tracks_direct hl ht changed

/-- **alias_tracks, chains of any length**: `b` follows `a` through `x` and then through any
number of links each of which was in sync (both ends equal) before the call.

The literal clause ("… or through a chain … leaves B equal to A") without the sync hypothesis is
false of the code, and not by a defect that a small repair removes: an aliased parameter stays
writable by name, and `setValue` propagates only when the value changes
(`chain_needs_sync_witness`). -/
theorem alias_tracks_chain (w : World) (k : Nat) (n : String) (v : Rat)
    (ok : (apSetParameterValue w k n v).err = none) {a x b : ObjId} {l : Nat}
    (hl : l ∈ w.lsn a) (ht : tgt w l = some x) (p : SyncPath w x b)
    (changed : val (apSetParameterValue w k n v).w a ≠ val w a) :
    val (apSetParameterValue w k n v).w b = val (apSetParameterValue w k n v).w a := by
  simp only [apSetParameterValue, setParameterValue] at ok changed ⊢
  split at ok
  · cases ok
  · split at ok
    · cases ok
    · rename_i o _ i _
      simp only [*] at changed ⊢
      exact (setValue_step w i v ok).1.tracks_chain hl ht p changed

/-- non-vacuity: c follows b follows a, all in sync; `setParameterValue("a", 7)` gives 7, 7, 7 -/
example :
    let w := run abc [.alias 0 "a" "b", .alias 0 "b" "c", .setv 0 "a" 5]
    let w' := run w [.setv 0 "a" 7]
    (val w 0, val w 1, val w 2) = (5, 5, 5) ∧ (val w' 0, val w' 1, val w' 2) = (7, 7, 7) := by decide

/-- the literal chain clause fails when a lower link is out of sync: a = 5, b = 7, c = 1, c follows
b follows a; `setParameterValue("a", 7)` changes a, leaves b (already 7) alone, and c stays 1 -/
theorem chain_needs_sync_witness :
    let w := run World.init [.new 0 "", .add 0 ⟨"a", 5, none⟩, .add 0 ⟨"b", 7, none⟩, .add 0 ⟨"c", 1, none⟩,
      .alias 0 "a" "b", .alias 0 "b" "c"]
    let w' := run w [.setv 0 "a" 7]
    (val w' 0, val w' 1, val w' 2) = (7, 7, 1) := by decide

/-- `Parameter::setValue` re-enters itself through the listeners; it returns for every wiring
(cycles included): the model's fuel is never exhausted. -/
theorem set_value_terminates (w : World) (i : ObjId) (v : Rat) (pv : ParamsValid w) (hi : i < w.heap.next) :
    (setValue w i v).err ≠ some .hang := setValue_no_hang w i v pv hi

/-! ## alias_constraints -/

/-- **alias_constraints**: the constraints `aliasParameters(p1, p2)` leaves (`aliasConSpec`, the
function the driver compares the implementation's constraints with): a common value accepted
after the call satisfies the constraints both parameters had; when both were constrained they
share the intersection, which accepts exactly the values both accepted. -/
theorem alias_constraints (c1 c2 : Option Con) (v : Rat) :
    (accOpt (aliasConSpec c1 c2).1 v = true ∧ accOpt (aliasConSpec c1 c2).2 v = true →
      accOpt c1 v = true ∧ accOpt c2 v = true) ∧
    (c1.isSome = true → c2.isSome = true →
      (aliasConSpec c1 c2).1 = (aliasConSpec c1 c2).2 ∧
      (accOpt (aliasConSpec c1 c2).1 v = true ↔ accOpt c1 v = true ∧ accOpt c2 v = true)) := by
  refine ⟨(aliasConSpec_sem c1 c2 v).1, fun h1 h2 => ⟨?_, ?_⟩⟩
  · cases c1 <;> cases c2 <;> simp_all [aliasConSpec]
    split <;> simp_all
  · rw [((aliasConSpec_sem c1 c2 v).2 h1 h2).1]; simp

/-- non-vacuity: `[0,2] ∩ ]1,3]` -/
example : aliasConSpec (some ⟨.fin 0, .fin 2, true, true⟩) (some ⟨.fin 1, .fin 3, false, true⟩)
    = (some ⟨.fin 1, .fin 2, false, true⟩, some ⟨.fin 1, .fin 2, false, true⟩) := by decide

/-! ## Defects of the code as found (repaired in the library, see findings/C03.json) -/

/-- the bulk form as found never returned on the map `{a -> b, b -> c}`: whatever the fuel, the
inner loop is still looking at the first entry -/
theorem bulk_legacy_hangs_witness (f : Nat) :
    (Legacy.bulkPass 0 f abc [abc.heap.get 2] [("a", "b"), ("b", "c")]).err = some .hang := by
  induction f with
  | zero => rfl
  | succ f ih =>
    have : Legacy.bulkPass 0 (f + 1) abc [abc.heap.get 2] [("a", "b"), ("b", "c")]
         = Legacy.bulkPass 0 f abc [abc.heap.get 2] [("a", "b"), ("b", "c")] := by
      have h1 : plFind? [abc.heap.get 2] "b" = none := by decide
      simp only [Legacy.bulkPass, h1]
      rfl
    rw [this]; exact ih

/-- the pair form as found accepted the link that closes a cycle of length 3 (and of length 1);
the repaired code refuses both -/
theorem cycle_legacy_accepted_witness :
    (aliasPairG false (run abc [.alias 0 "a" "b", .alias 0 "b" "c"]) 0 "c" "a").err = none ∧
    (aliasPairG false abc 0 "a" "a").err = none ∧
    (aliasPair (run abc [.alias 0 "a" "b", .alias 0 "b" "c"]) 0 "c" "a").err = some .bpp ∧
    (aliasPair abc 0 "a" "a").err = some .bpp := by decide

end Bpp.C03
