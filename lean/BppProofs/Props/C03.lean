import BppProofs.Lemmas.AliasViewInv
/-!
# C03 — aliased parameters track their source through every update, copy and renaming
(src/Bpp/Numeric/AbstractParameterAliasable.{h,cpp}, ParameterAliasable.h, Parameter.{h,cpp})

Property theorems only; helper lemmas are in `Lemmas/Alias.lean`.  The model
(`BppModel/Alias.lean`) is a world of parameter objects, listener objects and owner objects;
`step` interprets one operation, `run` a history.
-/
namespace Bpp.C03
open Bpp Bpp.Alias
open Bpp.ParamList (Bnd Con Par Store ObjId nameOf find? hasParameter names)

/-- three unconstrained parameters a = 1, b = 2, c = 3 in slot 0, empty namespace -/
def abc : World :=
  run World.init [.new 0 "", .add 0 ⟨"a", 1, none⟩, .add 0 ⟨"b", 2, none⟩, .add 0 ⟨"c", 3, none⟩]

/-! ## alias_tracks — every update that changes A leaves B equal to A

Stated for *every* world (any wiring of listeners, reachable or not).  `l ∈ w.lsn a` with
`tgt w l = some b` is "a listener attached to parameter object `a` writes to parameter object
`b`", i.e. "`b` follows `a`" (what `aliasParameters(A, B)` installs: `alias_installs_link`). -/

/-- **alias_tracks, direct link**: after `setParameterValue(n, v)` returned, every parameter
object `a` whose value changed — the named one or any one reached through listeners — is
equalled by every parameter `b` that follows it. -/
theorem alias_tracks_direct (w : World) (k : Nat) (n : String) (v : Rat)
    (ok : (apSetParameterValue w k n v).err = none) {a b : ObjId} {l : Nat}
    (hl : l ∈ w.lsn a) (ht : tgt w l = some b)
    (changed : val (apSetParameterValue w k n v).w a ≠ val w a) :
    val (apSetParameterValue w k n v).w b = val (apSetParameterValue w k n v).w a := by
  simp only [apSetParameterValue, setParameterValue] at ok changed ⊢
  split at ok
  · cases ok
  · split at ok
    · cases ok
    · rename_i o _ i _
      simp only [*] at changed ⊢
      exact (setValue_step w i v ok).1.tracks_direct hl ht changed

/-- **alias_tracks, chains of any length**: `b` follows `a` through `x` and then through any
number of links each of which was in sync (both ends equal) before the call.

The literal clause ("… or through a chain … leaves B equal to A") without the sync hypothesis is
false of the code, and not by a defect that a small repair removes: an aliased parameter stays
writable by name, and `setValue` propagates only when the value changes
(`chain_needs_sync_witness`). -/
theorem alias_tracks_chain (w : World) (k : Nat) (n : String) (v : Rat)
    (ok : (apSetParameterValue w k n v).err = none) {a x b : ObjId} {l : Nat}
    (hl : l ∈ w.lsn a) (ht : tgt w l = some x) (p : SyncPath w x b)
    (changed : val (apSetParameterValue w k n v).w a ≠ val w a) :
    val (apSetParameterValue w k n v).w b = val (apSetParameterValue w k n v).w a := by
  simp only [apSetParameterValue, setParameterValue] at ok changed ⊢
  split at ok
  · cases ok
  · split at ok
    · cases ok
    · rename_i o _ i _
      simp only [*] at changed ⊢
      exact (setValue_step w i v ok).1.tracks_chain hl ht p changed

/-- **the clause evaluated on the implementation**: `Alias.tracksOk` — the executable form of the two
theorems above on the observable views (names, values, links probed through
`hasParameterListener`), which the driver evaluates on the implementation's answers — holds of
the model for every `setParameterValue` that returns in a reachable world. -/
theorem alias_tracks_clause (ops : List Op) (hw : WfRun World.init ops) (k : Nat) (o : Obj)
    (ho : (run World.init ops).objs k = some o) (n : String) (v : Rat)
    (ok : (apSetParameterValue (run World.init ops) k n v).err = none) :
    tracksOk (svOf (run World.init ops) o) (svOf (apSetParameterValue (run World.init ops) k n v).w o) = true :=
  tracksOk_setv (inv_run ops inv_init hw) ho n v ok

/-- non-vacuity: c follows b follows a, all in sync; `setParameterValue("a", 7)` gives 7, 7, 7 -/
example :
    let w := run abc [.alias 0 "a" "b", .alias 0 "b" "c", .setv 0 "a" 5]
    let w' := run w [.setv 0 "a" 7]
    (val w 0, val w 1, val w 2) = (5, 5, 5) ∧ (val w' 0, val w' 1, val w' 2) = (7, 7, 7) := by decide

/-- the literal chain clause fails when a lower link is out of sync: a = 5, b = 7, c = 1, c follows
b follows a; `setParameterValue("a", 7)` changes a, leaves b (already 7) alone, and c stays 1 -/
theorem chain_needs_sync_witness :
    let w := run World.init [.new 0 "", .add 0 ⟨"a", 5, none⟩, .add 0 ⟨"b", 7, none⟩, .add 0 ⟨"c", 1, none⟩,
      .alias 0 "a" "b", .alias 0 "b" "c"]
    let w' := run w [.setv 0 "a" 7]
    (val w' 0, val w' 1, val w' 2) = (7, 7, 1) := by decide

/-- `Parameter::setValue` re-enters itself through the listeners; it returns for every wiring
(cycles included): the model's fuel is never exhausted. -/
theorem set_value_terminates (w : World) (i : ObjId) (v : Rat) (pv : ParamsValid w) (hi : i < w.heap.next) :
    (setValue w i v).err ≠ some .hang := setValue_no_hang w i v pv hi

/-! ## alias_constraints -/

/-- **alias_constraints**: the constraints `aliasParameters(p1, p2)` leaves (`aliasConSpec`, the
function the driver compares the implementation's constraints with): a common value accepted
after the call satisfies the constraints both parameters had; when both were constrained they
share the intersection, which accepts exactly the values both accepted. -/
theorem alias_constraints (c1 c2 : Option Con) (v : Rat) :
    (accOpt (aliasConSpec c1 c2).1 v = true ∧ accOpt (aliasConSpec c1 c2).2 v = true →
      accOpt c1 v = true ∧ accOpt c2 v = true) ∧
    (c1.isSome = true → c2.isSome = true →
      (aliasConSpec c1 c2).1 = (aliasConSpec c1 c2).2 ∧
      (accOpt (aliasConSpec c1 c2).1 v = true ↔ accOpt c1 v = true ∧ accOpt c2 v = true)) := by
  refine ⟨(aliasConSpec_sem c1 c2 v).1, fun h1 h2 => ⟨?_, ?_⟩⟩
  · cases c1 <;> cases c2 <;> simp_all [aliasConSpec]
    split <;> simp_all
  · rw [((aliasConSpec_sem c1 c2 v).2 h1 h2).1]; simp

/-- **alias_constraints, what the call does**: when `aliasParameters(p1, p2)` returns in a reachable
world, the two parameters end with the constraints `aliasConSpec` computes from the ones they had
(none/none untouched; the unconstrained one takes the other's; two different ones are both replaced
by the intersection), and no other parameter object is touched. -/
theorem alias_constraints_effect {w : World} (h : Inv w) {k : Nat} {o : Obj} (ho : w.objs k = some o) {p1 p2 : String}
    (ok : (aliasPair w k p1 p2).err = none) :
    ∃ i1 i2, find? w.heap o.params (o.pre ++ p1) = some i1 ∧ find? w.heap o.params (o.pre ++ p2) = some i2 ∧ i1 ≠ i2 ∧
      ((aliasPair w k p1 p2).w.heap.get i1).con = (aliasConSpec (w.heap.get i1).con (w.heap.get i2).con).1 ∧
      ((aliasPair w k p1 p2).w.heap.get i2).con = (aliasConSpec (w.heap.get i1).con (w.heap.get i2).con).2 ∧
      ∀ j, j ≠ i1 → j ≠ i2 → (aliasPair w k p1 p2).w.heap.get j = w.heap.get j := by
  have hi := h.obj k o ho
  obtain ⟨⟨i1, i2, pos1, pos2, hi1, hi2, hn1, hn2, hind, hcons, heq, hnoanc, _⟩⟩ := aliasPair_done hi ho ok
  have hm1 := List.mem_of_getElem? hi1
  have hm2 := List.mem_of_getElem? hi2
  have hne : i1 ≠ i2 := by
    rintro rfl
    exact hnoanc pos1 i1 Relation.ReflTransGen.refl hi1 hn2
  obtain ⟨c1, c2, c3, _⟩ := aliasConstraints_spec hne hcons
  refine ⟨i1, i2, (find?_iff hi.nodup).2 ⟨hm1, hn1⟩, (find?_iff hi.nodup).2 ⟨hm2, hn2⟩, hne, ?_, ?_, ?_⟩
  · rw [heq]; exact c1
  · rw [heq]; exact c2
  · intro j h1 h2; rw [heq]; exact c3 j h1 h2

/-- **the common value always satisfies the constraints both parameters had**: along every
well-formed history (any continuation `more` of any reachable world) every parameter object
satisfies its own constraint, and constraints never widen — so the value a parameter holds at any
later time is accepted by every constraint it (and, when they are equal, the parameter it follows)
ever had. -/
theorem values_satisfy_constraints (ops more : List Op) (hw : WfRun World.init (ops ++ more))
    (i : ObjId) (hi : i < (run World.init ops).heap.next) :
    accOpt ((run World.init ops).heap.get i).con (val (run World.init (ops ++ more)) i) = true := by
  have hrun : ∀ (a b : List Op) (w : World), run w (a ++ b) = run (run w a) b := by
    intro a; induction a with
    | nil => intro b w; rfl
    | cons x t ih => intro b w; exact ih b _
  have hwf : ∀ (a b : List Op) (w : World), WfRun w (a ++ b) → WfRun w a ∧ WfRun (run w a) b := by
    intro a; induction a with
    | nil => intro b w h; exact ⟨trivial, h⟩
    | cons x t ih => intro b w h; exact ⟨⟨h.1, (ih b _ h.2).1⟩, (ih b _ h.2).2⟩
  have hall := heapOk_run (ops ++ more) inv_init hw (fun j hj => absurd hj (Nat.not_lt_zero _))
  have hnar := narrow_run more (run World.init ops)
  rw [hrun] at hall ⊢
  have hlt : i < (run (run World.init ops) more).heap.next := Nat.lt_of_lt_of_le hi hnar.1
  apply hnar.2 i hi
  have := hall i hlt
  simp only [Par.ok, Par.rejects] at this
  simp only [accOpt, val]
  cases hc : ((run (run World.init ops) more).heap.get i).con with
  | none => rfl
  | some c => rw [hc] at this; simpa using this

/-- non-vacuity: `[0,2] ∩ ]1,3]` -/
example : aliasConSpec (some ⟨.fin 0, .fin 2, true, true⟩) (some ⟨.fin 1, .fin 3, false, true⟩)
    = (some ⟨.fin 1, .fin 2, false, true⟩, some ⟨.fin 1, .fin 2, false, true⟩) := by decide

/-! ## Reachable worlds

`WfRun w ops`: every `add` of the history names its parameter `<namespace of the owner><x>` with
`x` not empty and free of underscores (the listener ids `__alias_<y>_to_<x>` are then injective).
`Inv`: every object's parameters are allocated and named apart; the independent parameters are
exactly the parameters no registered listener writes to; every registered listener is attached
to the parameter its `from_` names, points at its own owner, at the position and under the name
of its target; every attached listener is registered; a parameter follows at most one parameter;
following is acyclic; parameter objects of different owners are disjoint. -/

/-- the invariant holds after every well-formed history of new / add / alias / unalias / bulk alias /
set by name / bulk set / match / set all / copy-construct / assign / setNamespace / queries,
interleaved arbitrarily, raising operations included (any length, any number of parameters) -/
theorem inv_reachable (ops : List Op) (hw : WfRun World.init ops) : Inv (run World.init ops) :=
  inv_run ops inv_init hw

/-- non-vacuity: a well-formed history mixing the operation kinds -/
example : WfRun World.init [.new 0 "m.", .add 0 ⟨"m.a", 1, none⟩, .add 0 ⟨"m.b", 2, none⟩, .alias 0 "a" "b",
    .copy 0 1, .ns 1 "", .setv 1 "a" 5, .unalias 0 "a" "b"] := by
  refine ⟨trivial, ?_, ?_, trivial, trivial, trivial, trivial, trivial, trivial⟩
  · intro o ho
    refine ⟨"a", ?_, by decide, by decide⟩
    have : o.pre = "m." := by simp [step, newObj, World.setObj, World.init] at ho; rw [← ho]
    rw [this]; decide
  · intro o ho
    refine ⟨"b", ?_, by decide, by decide⟩
    have : o.pre = "m." := by
      have h0 : ((step (step World.init (.new 0 "m.")).1 (.add 0 ⟨"m.a", 1, none⟩)).1.objs 0).map (·.pre) = some "m." := by decide
      rw [ho] at h0; simpa using h0
    rw [this]; decide

/-- **alias_tracks for reachable worlds, by names**: in every reachable world, for every registered
link "`y` follows `x`" of the object in slot `k` (`e ∈ o.reg`; `s`, `t` the two parameter objects),
`setParameterValue(n, v)` that returns and changes `s` leaves `t` equal to `s`. -/
theorem alias_tracks_registered (ops : List Op) (hw : WfRun World.init ops) (k : Nat) (o : Obj)
    (ho : (run World.init ops).objs k = some o) (e : String × Nat) (he : e ∈ o.reg) (n : String) (v : Rat)
    (ok : (apSetParameterValue (run World.init ops) k n v).err = none) :
    ∃ s t y, s ∈ o.params ∧ t ∈ o.params ∧
      nameOf (run World.init ops).heap s = o.pre ++ ((run World.init ops).lis e.2).src ∧
      nameOf (run World.init ops).heap t = o.pre ++ y ∧ e.1 = aliasId ((run World.init ops).lis e.2).src y ∧
      (val (apSetParameterValue (run World.init ops) k n v).w s ≠ val (run World.init ops) s →
        val (apSetParameterValue (run World.init ops) k n v).w t = val (apSetParameterValue (run World.init ops) k n v).w s) := by
  have hi := (inv_reachable ops hw).obj k o ho
  obtain ⟨s, t, y, hs, ht, hsn, htn, hid, hsl, htg⟩ := hi.link ho he
  exact ⟨s, t, y, hs, ht, hsn, htn, hid, fun hc => alias_tracks_direct _ k n v ok hsl htg hc⟩

/-- **what `aliasParameters(p1, p2)` installs** (reachable worlds): when it returns, the parameter
named `p1` carries a listener that writes to the parameter named `p2`; `p2` has left the
independent list (**alias_not_independent**), all other independent parameters stay, in order;
no value changed. -/
theorem alias_installs_link {w : World} (h : Inv w) {k : Nat} {o : Obj} (ho : w.objs k = some o) {p1 p2 : String}
    (ok : (aliasPair w k p1 p2).err = none) :
    ∃ i1 i2 l o', find? w.heap o.params (o.pre ++ p1) = some i1 ∧ find? w.heap o.params (o.pre ++ p2) = some i2 ∧
      (aliasPair w k p1 p2).w.objs k = some o' ∧ o'.params = o.params ∧
      l ∈ (aliasPair w k p1 p2).w.lsn i1 ∧ tgt (aliasPair w k p1 p2).w l = some i2 ∧
      i2 ∈ o.indep ∧ o'.indep = o.indep.erase i2 ∧ i2 ∉ o'.indep ∧
      (∀ j, val (aliasPair w k p1 p2).w j = val w j) := by
  have hi := h.obj k o ho
  obtain ⟨⟨i1, i2, pos1, pos2, hi1, hi2, hn1, hn2, hind, _, heq, _, _⟩⟩ := aliasPair_done hi ho ok
  have hss := aliasConstraints_sameShape w i1 i2
  have hm1 := List.mem_of_getElem? hi1
  have hm2 := List.mem_of_getElem? hi2
  refine ⟨i1, i2, w.lnext, aliasedObj o p1 p2 i2 w.lnext, (find?_iff hi.nodup).2 ⟨hm1, hn1⟩,
    (find?_iff hi.nodup).2 ⟨hm2, hn2⟩, ?_, rfl, ?_, ?_, hind, rfl, ?_, ?_⟩
  · rw [heq]; simp [aliased, hss.lnext]
  · rw [heq]; simp [aliased, hss.lnext]
  · rw [heq]
    simp only [tgt, aliased, setObj_lis, setLsn_lis, allocLis_lis, hss.lnext, if_true, setObj_objs]
    exact hi2
  · exact fun hm => (hi.indepNodup.mem_erase_iff.1 hm).1 rfl
  · intro j
    rw [heq]
    exact aliasConstraints_val w i1 i2 j

/-- **alias_not_independent, invariant form**: in every reachable world the independent parameters
of an object are exactly its parameters that no registered listener writes to (each once, and they
*are* the owner's parameter objects, not copies) -/
theorem indep_exact (ops : List Op) (hw : WfRun World.init ops) (k : Nat) (o : Obj)
    (ho : (run World.init ops).objs k = some o) :
    o.indep.Nodup ∧ (∀ i ∈ o.indep, i ∈ o.params) ∧
    ∀ i ∈ o.params, (i ∈ o.indep ↔ ¬ ∃ e ∈ o.reg, o.params[((run World.init ops).lis e.2).alias]? = some i) :=
  let hi := (inv_reachable ops hw).obj k o ho
  ⟨hi.indepNodup, hi.indepSub, hi.indepIff⟩

/-! ### chains of any length along histories: links in sync stay in sync

`AllSynced w o`: both ends of every registered link of the object hold the same value.  An update
that names independent parameters only — `setParameterValue` of an independent parameter,
`setParametersValues` / `matchParametersValues` with such a source — keeps every link in sync,
whatever the shape of the forest; so along a history of such updates every parameter equals the
parameter it follows *through a chain of any length* (`synced_chain`).  What breaks sync is
writing an aliased parameter by name and aliasing two parameters that hold different values
(`chain_needs_sync_witness`); `setAllParametersValues` writes every parameter by name: it keeps the
links in sync exactly when its source is consistent with them (`alias_tracks_set_all`, and histories
of all four routes: `updates_history_keeps_sync`, in `Props/C03Sound.lean`). -/

/-- **alias_tracks, every bulk route, chains of any length** -/
theorem alias_tracks_independent_updates {w : World} (h : Inv w) {k : Nat} {o : Obj} (ho : w.objs k = some o)
    (hsy : AllSynced w o) :
    (∀ n v, (∀ t, find? w.heap o.params (o.pre ++ n) = some t → t ∈ o.indep) →
      (apSetParameterValue w k n v).err = none → AllSynced (apSetParameterValue w k n v).w o) ∧
    (∀ src, NamesIndep w o src → (apSetParametersValues w k src).err = none →
      AllSynced (apSetParametersValues w k src).w o) ∧
    (∀ src, NamesIndep w o src → (apMatchParametersValues w k src).1.err = none →
      AllSynced (apMatchParametersValues w k src).1.w o) := by
  have hi := h.obj k o ho
  refine ⟨fun n v hn ok => ?_, fun src hn ok => ?_, fun src hn ok => ?_⟩
  · simp only [apSetParameterValue, ho, setParameterValue] at ok ⊢
    cases hf : find? w.heap o.params (o.pre ++ n) with
    | none => simp [hf] at ok
    | some t =>
      simp only [hf] at ok ⊢
      exact synced_setValue_root hi ho hsy (hn t hf) ok
  · simp only [apSetParametersValues, ho, setParametersValues] at ok ⊢
    cases hc : Alias.checkSome w o.params src with
    | some e => simp [hc] at ok
    | none =>
      simp only [hc] at ok ⊢
      exact synced_applySome src w hi ho hsy hn ok
  · simp only [apMatchParametersValues, ho, matchParametersValues] at ok ⊢
    cases hc : Alias.checkSome w o.params src with
    | some e => simp [hc] at ok
    | none =>
      simp only [hc] at ok ⊢
      exact synced_matchSome src w hi ho hsy hn ok

/-- in sync link by link = equal along every chain: if position `c` follows position `p` through any
number of links, the two parameters hold the same value -/
theorem synced_chain {w : World} {k : Nat} {o : Obj} (hi : ObjInv w k o) (hsy : AllSynced w o) {c p : Nat} {tc tp : ObjId}
    (hch : Relation.ReflTransGen (Follows w o) c p) (hc : o.params[c]? = some tc) (hp : o.params[p]? = some tp) :
    val w tc = val w tp := by
  induction hch using Relation.ReflTransGen.head_induction_on generalizing tc with
  | refl => rw [hc] at hp; cases hp; rfl
  | head hfol _ ih =>
    obtain ⟨e, he, ha, s, hs, hsn⟩ := hfol
    rw [hsy e he s tc (List.mem_of_getElem? hs) hsn (by rw [ha]; exact hc)]
    exact ih hs

/-- aliasing two parameters that hold the same value keeps all links in sync -/
theorem alias_keeps_sync {w : World} (h : Inv w) {k : Nat} {o : Obj} (ho : w.objs k = some o) (hsy : AllSynced w o)
    {p1 p2 : String} (ok : (aliasPair w k p1 p2).err = none)
    (heq : ∀ i1 i2, find? w.heap o.params (o.pre ++ p1) = some i1 → find? w.heap o.params (o.pre ++ p2) = some i2 →
      val w i1 = val w i2) :
    ∀ o', (aliasPair w k p1 p2).w.objs k = some o' → AllSynced (aliasPair w k p1 p2).w o' := by
  have hi := h.obj k o ho
  obtain ⟨_, _, _, _, _, _, _, _, _, _, _, _, _, hval⟩ := alias_installs_link h ho ok
  obtain ⟨⟨j1, j2, pos1, pos2, hj1, hj2, hn1, hn2, hind, _, hweq, _, _⟩⟩ := aliasPair_done hi ho ok
  have hss := aliasConstraints_sameShape w j1 j2
  have h1 : find? w.heap o.params (o.pre ++ p1) = some j1 := (find?_iff hi.nodup).2 ⟨List.mem_of_getElem? hj1, hn1⟩
  have h2 : find? w.heap o.params (o.pre ++ p2) = some j2 := (find?_iff hi.nodup).2 ⟨List.mem_of_getElem? hj2, hn2⟩
  have hobj : (aliasPair w k p1 p2).w.objs k = some (aliasedObj o p1 p2 j2 w.lnext) := by
    rw [hweq]; simp [aliased, hss.lnext]
  intro o' ho'
  rw [hobj] at ho'; cases ho'
  have hname : ∀ i, nameOf (aliasPair w k p1 p2).w.heap i = nameOf w.heap i := by
    intro i; rw [hweq]; exact hss.name i
  -- the registry of the new object
  have hfresh : aliasId p1 p2 ∉ o.reg.map Prod.fst := by
    intro hm
    obtain ⟨e, he, hk⟩ := List.mem_map.1 hm
    have := reg_entry_of_id hi (List.mem_of_getElem? hj2) hn2 (show (aliasId p1 p2, e.2) ∈ o.reg by rw [← hk]; exact he)
    exact (hi.indepIff j2 (List.mem_of_getElem? hj2)).1 hind ⟨_, he, this.2.1⟩
  intro e he s t hs hsn ht
  rw [hval, hval]
  have hmem : e ∈ mapInsert (aliasId p1 p2) w.lnext o.reg := he
  rcases (mem_mapInsert hfresh e).1 hmem with rfl | hold
  · -- the new link
    have hl : (aliasPair w k p1 p2).w.lis w.lnext = ⟨aliasId p1 p2, pos2, k, o.pre ++ p2, p1⟩ := by
      rw [hweq]; simp [aliased, hss.lnext]
    simp only [hl] at hsn ht
    rw [hname] at hsn
    have es : s = j1 := hi.name_inj hs (List.mem_of_getElem? hj1) (hsn.trans hn1.symm)
    have et : t = j2 := by
      have ht' : o.params[pos2]? = some t := ht
      rw [hj2] at ht'; exact (Option.some.inj ht').symm
    rw [es, et]
    exact (heq j1 j2 h1 h2).symm
  · have hl : (aliasPair w k p1 p2).w.lis e.2 = w.lis e.2 := by
      have : e.2 ≠ (aliasConstraints w j1 j2).w.lnext := by
        rw [hss.lnext]; exact Nat.ne_of_lt (hi.regOk e hold).lt
      rw [hweq]; simp [aliased, this, hss.lis]
    rw [hl] at hsn ht
    rw [hname] at hsn
    exact hsy e hold s t hs hsn ht

/-- non-vacuity: b and c follow a (all equal); bulk update of the independent parameters a and d -/
example :
    let w := run World.init [.new 0 "", .add 0 ⟨"a", 1, none⟩, .add 0 ⟨"b", 1, none⟩, .add 0 ⟨"c", 1, none⟩,
      .add 0 ⟨"d", 4, none⟩, .alias 0 "a" "b", .alias 0 "b" "c", .setvs 0 [("d", 6), ("a", 5)]]
    (val w 0, val w 1, val w 2, val w 3) = (5, 5, 5, 6) := by decide

/-! ## refuse_twice / refuse_cycle — refused requests leave everything unchanged -/

/-- **refuse_twice**: `p2` already follows somebody (it is not independent): `Exception`, and the
world is exactly as before -/
theorem refuse_twice {w : World} (h : Inv w) {k : Nat} {o : Obj} (ho : w.objs k = some o) {p1 p2 : String}
    {i1 i2 : ObjId} (h1 : find? w.heap o.params (o.pre ++ p1) = some i1) (h2 : find? w.heap o.params (o.pre ++ p2) = some i2)
    (twice : i2 ∉ o.indep) : (aliasPair w k p1 p2).err = some .bpp ∧ (aliasPair w k p1 p2).w = w :=
  ((aliasPair_spec (h.obj k o ho) ho p1 p2).2 i1 i2 h1 h2).1 twice

/-- **refuse_cycle (any length, length 1 included)**: `p2` is `p1` or is reached from `p1` by
following links upwards (`ReflTransGen (Follows w o) pos1 pos2`): `Exception`, world unchanged -/
theorem refuse_cycle {w : World} (h : Inv w) {k : Nat} {o : Obj} (ho : w.objs k = some o) {p1 p2 : String}
    {i1 i2 : ObjId} {pos1 pos2 : Nat} (h1 : find? w.heap o.params (o.pre ++ p1) = some i1)
    (h2 : find? w.heap o.params (o.pre ++ p2) = some i2) (hp1 : o.params[pos1]? = some i1) (hp2 : o.params[pos2]? = some i2)
    (cyc : Relation.ReflTransGen (Follows w o) pos1 pos2) :
    (aliasPair w k p1 p2).err = some .bpp ∧ (aliasPair w k p1 p2).w = w := by
  have hi := h.obj k o ho
  obtain ⟨a, _, c, _⟩ := (aliasPair_spec hi ho p1 p2).2 i1 i2 h1 h2
  by_cases hind : i2 ∈ o.indep
  swap
  · exact a hind
  obtain ⟨hm1, hn1⟩ := ParamList.find?_some h1
  obtain ⟨_, hn2⟩ := ParamList.find?_some h2
  have pp1 : Plain p1 := by
    obtain ⟨x, hx, px⟩ := hi.plain i1 hm1
    have : x = p1 := append_left_cancel' (hx.symm.trans hn1)
    exact this ▸ px
  cases hf : followsLoop w o p2 (o.reg.length + 2) p1 with
  | none => exact absurd hf (cycleTest_no_hang hi h1)
  | some b =>
    cases b with
    | true => exact c hind hf
    | false => exact absurd hn2 ((followsLoop_false hi p2 _ p1 pos1 i1 hp1 hn1 pp1 hf).1 pos2 i2 cyc hp2)

/-- unknown names: `ParameterNotFoundException`, world unchanged -/
theorem refuse_unknown {w : World} (h : Inv w) {k : Nat} {o : Obj} (ho : w.objs k = some o) {p1 p2 : String}
    (unk : find? w.heap o.params (o.pre ++ p1) = none ∨ find? w.heap o.params (o.pre ++ p2) = none) :
    (aliasPair w k p1 p2).err = some .notfound ∧ (aliasPair w k p1 p2).w = w :=
  (aliasPair_spec (h.obj k o ho) ho p1 p2).1 unk

/-- **the refusal clause evaluated on the implementation**: whenever `Alias.mustRefuse` (computed from
the observable view: unknown name, `p2` already a target, `p1 = p2`, or `p2` among the parameters
`p1` follows) says the request must be refused, the model refuses it and leaves the world
untouched — in every reachable world. -/
theorem refuse_clause {w : World} (h : Inv w) {k : Nat} {o : Obj} (ho : w.objs k = some o) (p1 p2 : String)
    (must : mustRefuse p1 p2 (svOf w o) = true) :
    (aliasPair w k p1 p2).err ≠ none ∧ (aliasPair w k p1 p2).w = w := by
  have hi := h.obj k o ho
  have hshorts : (svOf w o).shorts = shortNames w o := by
    simp only [SV.shorts, SV.short, svOf, shortNames, List.map_map]; rfl
  cases h1 : find? w.heap o.params (o.pre ++ p1) with
  | none => have := refuse_unknown h ho (p2 := p2) (Or.inl h1); exact ⟨by rw [this.1]; simp, this.2⟩
  | some i1 =>
    cases h2 : find? w.heap o.params (o.pre ++ p2) with
    | none => have := refuse_unknown h ho (p1 := p1) (Or.inr h2); exact ⟨by rw [this.1]; simp, this.2⟩
    | some i2 =>
      obtain ⟨hm1, hn1⟩ := ParamList.find?_some h1
      obtain ⟨hm2, hn2⟩ := ParamList.find?_some h2
      obtain ⟨pos1, hp1⟩ := hi.exists_pos hm1
      obtain ⟨pos2, hp2⟩ := hi.exists_pos hm2
      have hs1 : p1 ∈ shortNames w o := (mem_shortNames hi).2 ⟨i1, hm1, hn1⟩
      have hs2 : p2 ∈ shortNames w o := (mem_shortNames hi).2 ⟨i2, hm2, hn2⟩
      have c1 : (shortNames w o).contains p1 = true := List.contains_iff_mem.2 hs1
      have c2 : (shortNames w o).contains p2 = true := List.contains_iff_mem.2 hs2
      simp only [mustRefuse, hshorts, c1, c2, Bool.not_true, Bool.false_or, Bool.or_eq_true, beq_iff_eq] at must
      have twice : (svOf w o).isTarget p2 = true → (aliasPair w k p1 p2).err ≠ none ∧ (aliasPair w k p1 p2).w = w := by
        intro htg
        have hnot : i2 ∉ o.indep := fun hin =>
          (hi.indepIff i2 hm2).1 hin ((isTarget_svOf hi hm2 hn2).1 htg)
        have := refuse_twice h ho h1 h2 hnot
        exact ⟨by rw [this.1]; simp, this.2⟩
      rcases must with ((htg | heq) | hfol) | hclash
      rotate_left 3
      · exact twice (idInUse_isTarget hi hs2 hclash)
      · have hnot : i2 ∉ o.indep := fun hin =>
          (hi.indepIff i2 hm2).1 hin ((isTarget_svOf hi hm2 hn2).1 htg)
        have := refuse_twice h ho h1 h2 hnot
        exact ⟨by rw [this.1]; simp, this.2⟩
      · subst heq
        rw [h1] at h2; cases h2
        have := refuse_cycle h ho h1 h1 hp1 hp1 Relation.ReflTransGen.refl
        exact ⟨by rw [this.1]; simp, this.2⟩
      · simp only [SV.follows, List.contains_iff_mem] at hfol
        have htg := mem_ancestors (svOf w o) _ p1 p2 hfol
        have hlift : Relation.TransGen (Follows w o) (posOf w o p1) (posOf w o p2) :=
          Relation.TransGen.lift (posOf w o) (fun c p hcp => follows_of_link hi ho hcp) p1 p2 htg
        rw [posOf_spec hi hp1 hn1, posOf_spec hi hp2 hn2] at hlift
        have := refuse_cycle h ho h1 h2 hp1 hp2 hlift.to_reflTransGen
        exact ⟨by rw [this.1]; simp, this.2⟩

/-- **the invariant clause evaluated on the implementation**: `SV.inv` is true of the view of every
object of every reachable world -/
theorem inv_clause (ops : List Op) (hw : WfRun World.init ops) (k : Nat) (o : Obj)
    (ho : (run World.init ops).objs k = some o) : (svOf (run World.init ops) o).inv = true :=
  inv_view (inv_reachable ops hw) (heapOk_run ops inv_init hw (fun j hj => absurd hj (Nat.not_lt_zero _))) ho

/-- non-vacuity of `refuse_cycle`: c follows b follows a; `alias(c, a)` closes a cycle of length 3 -/
example : (step (run abc [.alias 0 "a" "b", .alias 0 "b" "c"]) (.alias 0 "c" "a")).2 = .err .bpp ∧
    (step abc (.alias 0 "a" "a")).2 = .err .bpp ∧
    (step (run abc [.alias 0 "a" "b"]) (.alias 0 "c" "b")).2 = .err .bpp := by decide

/-! ## unalias_restores -/

/-- **unalias_restores**: when `unaliasParameters(p1, p2)` returns, `p2` is independent again (appended
to the independent list), exactly the registry entry of that link is gone, the listener is detached
from `p1` and from nobody else, no parameter object changed; when it raises nothing changed at all. -/
theorem unalias_restores {w : World} (h : Inv w) {k : Nat} {o : Obj} (ho : w.objs k = some o) (p1 p2 : String) :
    ((unalias w k p1 p2).err ≠ none → (unalias w k p1 p2).w = w) ∧
    ((unalias w k p1 p2).err = none → ∃ i1 i2 o', find? w.heap o.params (o.pre ++ p1) = some i1 ∧
      find? w.heap o.params (o.pre ++ p2) = some i2 ∧ (unalias w k p1 p2).w.objs k = some o' ∧
      o'.params = o.params ∧ o'.indep = o.indep ++ [i2] ∧ i2 ∉ o.indep ∧
      o'.reg = mapErase (aliasId p1 p2) o.reg ∧ aliasId p1 p2 ∈ o.reg.map Prod.fst ∧
      (unalias w k p1 p2).w.heap = w.heap ∧ (unalias w k p1 p2).w.lis = w.lis ∧
      (∀ j, j ≠ i1 → (unalias w k p1 p2).w.lsn j = w.lsn j) ∧
      (unalias w k p1 p2).w.lsn i1 = (w.lsn i1).filter (fun l => (w.lis l).id != aliasId p1 p2)) := by
  obtain ⟨s1, s2⟩ := unalias_spec (h.obj k o ho) ho p1 p2
  refine ⟨s1, fun ok => ?_⟩
  obtain ⟨i1, i2, l0, h1, h2, he, hnot, heq⟩ := s2 ok
  refine ⟨i1, i2, { params := o.params, indep := o.indep ++ [i2], reg := mapErase (aliasId p1 p2) o.reg, pre := o.pre },
    h1, h2, by rw [heq]; simp [unaliased], rfl, rfl, hnot, rfl,
    List.mem_map.2 ⟨_, he, rfl⟩, by rw [heq]; rfl, by rw [heq]; rfl, fun j hj => by rw [heq]; simp [unaliased, hj],
    by rw [heq]; simp [unaliased]⟩

/-- non-vacuity: b and c follow a; un-aliasing b leaves c's link alone -/
example :
    let w := run abc [.alias 0 "a" "b", .alias 0 "a" "c", .unalias 0 "a" "b", .setv 0 "a" 9]
    (val w 0, val w 1, val w 2) = (9, 2, 9) := by decide

/-! ## copy_carries / assign_carries -/

/-- **copy_carries**: copy construction of the object in slot `s` into slot `d` returns, and the copy
(a) looks exactly like the source — same namespace, names, values, constraints, links, independent
names in the same order, each independent entry *being* the copy's own parameter object at the same
position (`svOf` equal); (b) consists of fresh parameter objects and satisfies the object invariant,
in particular every listener attached to one of its parameters points at the copy itself
(`RegOk.pl`, `ObjInv.lsnOk`) — the copy's links act on the copy's own parameters only; (c) leaves
every existing parameter and listener object untouched; the world invariant holds again. -/
theorem copy_carries {w : World} (h : Inv w) {s d : Nat} {o : Obj} (ho : w.objs s = some o) :
    (copyConstruct w s d).err = none ∧
    ∃ od, (copyConstruct w s d).w.objs d = some od ∧ svOf (copyConstruct w s d).w od = svOf w o ∧
      ObjInv (copyConstruct w s d).w d od ∧ (∀ c ∈ od.params, w.heap.next ≤ c) ∧
      (∀ i, i < w.heap.next → (copyConstruct w s d).w.heap.get i = w.heap.get i ∧ (copyConstruct w s d).w.lsn i = w.lsn i) ∧
      (∀ l, l < w.lnext → (copyConstruct w s d).w.lis l = w.lis l) ∧
      Inv (copyConstruct w s d).w := by
  obtain ⟨ok, ⟨r⟩⟩ := copyConstruct_rebuilt h (d := d) ho
  exact ⟨ok, _, by rw [r.objs]; simp, svOf_copy (h.obj s o ho) r, r.inv, r.fresh, r.old, r.lisOld, r.inv_world h⟩

/-- **assign_carries**: the same for `*objs[d] = *objs[s]` (`s ≠ d`; self-assignment is a no-op):
nothing of the former state of the target survives in its independent list or registry. -/
theorem assign_carries {w : World} (h : Inv w) {s d : Nat} {o od0 : Obj} (ho : w.objs s = some o)
    (hd : w.objs d = some od0) (hsd : s ≠ d) :
    (assign w s d).err = none ∧
    ∃ od, (assign w s d).w.objs d = some od ∧ svOf (assign w s d).w od = svOf w o ∧
      ObjInv (assign w s d).w d od ∧ (∀ c ∈ od.params, w.heap.next ≤ c) ∧
      (∀ i, i < w.heap.next → (assign w s d).w.heap.get i = w.heap.get i ∧ (assign w s d).w.lsn i = w.lsn i) ∧
      (∀ l, l < w.lnext → (assign w s d).w.lis l = w.lis l) ∧
      Inv (assign w s d).w := by
  obtain ⟨ok, ⟨r⟩⟩ := assign_rebuilt h ho hd hsd
  exact ⟨ok, _, by rw [r.objs]; simp, svOf_copy (h.obj s o ho) r, r.inv, r.fresh, r.old, r.lisOld, r.inv_world h⟩

theorem assign_self (w : World) (s : Nat) (o : Obj) (ho : w.objs s = some o) : assign w s s = { w := w } := by
  simp [assign, ho]

/-- **acting only on the object's own parameters**: in a reachable world a value update (any of the
four routes) of the object in slot `k` changes no parameter object outside that object — in
particular nothing of a copy when the source is updated and nothing of the source when a copy is. -/
theorem update_acts_on_own_parameters {w : World} (h : Inv w) {k : Nat} {o : Obj} (ho : w.objs k = some o)
    (j : ObjId) (hj : j ∉ o.params) :
    (∀ n v, val (apSetParameterValue w k n v).w j = val w j) ∧
    (∀ src, val (apSetParametersValues w k src).w j = val w j) ∧
    (∀ src, val (apMatchParametersValues w k src).1.w j = val w j) ∧
    (∀ src, val (apSetAllParametersValues w k src).w j = val w j) := update_frame h ho j hj

/-- non-vacuity: copy, then update both sides -/
example :
    let w := run abc [.alias 0 "a" "b", .copy 0 1, .setv 0 "a" 5, .setv 1 "a" 7]
    (val w 0, val w 1, val w 2, val w 3, val w 4, val w 5) = (5, 5, 3, 7, 7, 3) := by decide

/-- the assignment operator as found kept the target's former independent objects: after
`t = u` the independent list of `t` holds an object that is not one of `t`'s parameters -/
theorem assign_legacy_stale_witness :
    let w := run World.init [.new 0 "", .add 0 ⟨"a", 1, none⟩, .add 0 ⟨"b", 2, none⟩,
      .new 1 "", .add 1 ⟨"a", 10, none⟩, .add 1 ⟨"b", 20, none⟩, .alias 0 "a" "b"]
    ((Legacy.assign w 1 0).w.objs 0).map (fun o => o.indep.all (fun i => o.params.contains i)) = some false ∧
    ((assign w 1 0).w.objs 0).map (fun o => o.indep.all (fun i => o.params.contains i)) = some true := by decide

/-! ## namespace_preserves -/

/-- **namespace_preserves**: `setNamespace(new)` returns; parameters keep their positions, values,
constraints and listeners, their names go from `<old><x>` to `<new><x>`; the registry, the
independent list (same objects, same order) and therefore every link are unchanged; every
registered listener's expected target name is renamed alike, so that the links keep firing
(`inv_setNamespace`: the invariant — in particular `RegOk`: name check of
`parameterValueChanged` — holds again). -/
theorem namespace_preserves {w : World} (h : Inv w) {k : Nat} {o : Obj} (ho : w.objs k = some o) (new : String) :
    (setNamespace w k new).err = none ∧
    (setNamespace w k new).w.objs k = some { params := o.params, indep := o.indep, reg := o.reg, pre := new } ∧
    (∀ i ∈ o.params, ∃ x, nameOf w.heap i = o.pre ++ x ∧ nameOf (setNamespace w k new).w.heap i = new ++ x ∧
      val (setNamespace w k new).w i = val w i ∧ ((setNamespace w k new).w.heap.get i).con = (w.heap.get i).con) ∧
    (setNamespace w k new).w.lsn = w.lsn ∧
    (∀ e ∈ o.reg, ((setNamespace w k new).w.lis e.2).id = (w.lis e.2).id ∧
      ((setNamespace w k new).w.lis e.2).alias = (w.lis e.2).alias ∧ ((setNamespace w k new).w.lis e.2).src = (w.lis e.2).src) ∧
    Inv (setNamespace w k new).w := by
  have hi := h.obj k o ho
  have hinv := inv_setNamespace h k new
  rw [setNamespace_eq ho] at hinv ⊢
  obtain ⟨f1, f2, f3, f4, f5, f6⟩ := nsWorld_facts hi new
  refine ⟨rfl, by show (nsWorld w k o new).objs k = _; rw [f4]; simp, fun i him => ?_, f3, fun e he => ?_, hinv⟩
  · obtain ⟨x, hx, _⟩ := hi.plain i him
    refine ⟨x, hx, ?_, ?_, ?_⟩
    · show nameOf (nsWorld w k o new).heap i = _
      simp only [nameOf, f5 i, him, if_true]; rw [← renamed_append o.pre new x, ← hx]; rfl
    · show ((nsWorld w k o new).heap.get i).value = _
      simp only [f5 i, him, if_true]; rfl
    · show ((nsWorld w k o new).heap.get i).con = _
      simp only [f5 i, him, if_true]
  · show ((nsWorld w k o new).lis e.2).id = _ ∧ _
    rw [f6 e.2, if_pos (List.mem_map.2 ⟨e, he, rfl⟩)]
    exact ⟨rfl, rfl, rfl⟩

/-- non-vacuity: alias under "m.", rename to "x", update -/
example :
    let w := run World.init [.new 0 "m.", .add 0 ⟨"m.a", 1, none⟩, .add 0 ⟨"m.b", 2, none⟩, .alias 0 "a" "b", .ns 0 "x",
      .setv 0 "a" 5]
    (val w 0, val w 1, nameOf w.heap 1) = (5, 5, "xb") := by decide

/-! ## bulk_terminates -/

/-- **bulk_terminates**: in every reachable world `aliasParameters(map)` returns for every map
(whatever its keys, values, size and key order): the model never runs out of fuel — neither in the
outer loop, nor in the cycle test of a pair alias, nor in the final `matchParametersValues`.
It then either performed the links or raised (`Out`), and the invariant holds again. -/
theorem bulk_terminates (ops : List Op) (hw : WfRun World.init ops) (k : Nat) (entries : List (String × String)) :
    (bulkAlias (run World.init ops) k entries).err ≠ some .hang ∧ Inv (bulkAlias (run World.init ops) k entries).w :=
  ⟨bulkAlias_no_hang (inv_reachable ops hw) k entries, inv_bulkAlias (inv_reachable ops hw) k entries⟩

/-- **… performing the links or raising**: when the bulk form returns normally in a reachable world,
every entry `key -> value` of the map is a registered link "`key` follows `value`" of the object. -/
theorem bulk_performs_links (ops : List Op) (hw : WfRun World.init ops) (k : Nat) (entries : List (String × String))
    (ok : (bulkAlias (run World.init ops) k entries).err = none) :
    ∀ e ∈ mkMap entries, Linked (bulkAlias (run World.init ops) k entries).w k (aliasId e.2 e.1) :=
  bulkAlias_linked (inv_reachable ops hw) k entries ok

/-- the other loops touched by the repairs: the pair form and the four update routes return too -/
theorem alias_and_updates_terminate (ops : List Op) (hw : WfRun World.init ops) (k : Nat) :
    (∀ p1 p2, (aliasPair (run World.init ops) k p1 p2).err ≠ some .hang) ∧
    (∀ n v, (apSetParameterValue (run World.init ops) k n v).err ≠ some .hang) ∧
    (∀ src, (apSetParametersValues (run World.init ops) k src).err ≠ some .hang) ∧
    (∀ src, (apMatchParametersValues (run World.init ops) k src).1.err ≠ some .hang) ∧
    (∀ src, (apSetAllParametersValues (run World.init ops) k src).err ≠ some .hang) :=
  ⟨fun p1 p2 => aliasPair_no_hang (inv_reachable ops hw) k p1 p2, update_no_hang (inv_reachable ops hw) k⟩

/-- non-vacuity: the map `{a -> b, b -> c}` (the one the code as found hung on), and a cycle -/
example : (step abc (.bulk 0 [("a", "b"), ("b", "c")])).2 = .ok ∧
    (step abc (.bulk 0 [("a", "b"), ("b", "a")])).2 = .err .bpp ∧
    (let w := run abc [.bulk 0 [("a", "b"), ("b", "c")], .setv 0 "c" 8]; (val w 0, val w 1, val w 2) = (8, 8, 8)) := by decide

/-! ## Defects of the code as found (repaired in the library, see findings/C03.json) -/

/-- the bulk form as found never returned on the map `{a -> b, b -> c}`: whatever the fuel, the
inner loop is still looking at the first entry -/
theorem bulk_legacy_hangs_witness (f : Nat) :
    (Legacy.bulkPass 0 f abc [abc.heap.get 2] [("a", "b"), ("b", "c")]).err = some .hang := by
  induction f with
  | zero => rfl
  | succ f ih =>
    have : Legacy.bulkPass 0 (f + 1) abc [abc.heap.get 2] [("a", "b"), ("b", "c")]
         = Legacy.bulkPass 0 f abc [abc.heap.get 2] [("a", "b"), ("b", "c")] := by
      have h1 : plFind? [abc.heap.get 2] "b" = none := by decide
      simp only [Legacy.bulkPass, h1]
      rfl
    rw [this]; exact ih

/-- the pair form as found accepted the link that closes a cycle of length 3 (and of length 1);
the repaired code refuses both -/
theorem cycle_legacy_accepted_witness :
    (aliasPairG false (run abc [.alias 0 "a" "b", .alias 0 "b" "c"]) 0 "c" "a").err = none ∧
    (aliasPairG false abc 0 "a" "a").err = none ∧
    (aliasPair (run abc [.alias 0 "a" "b", .alias 0 "b" "c"]) 0 "c" "a").err = some .bpp ∧
    (aliasPair abc 0 "a" "a").err = some .bpp := by decide

end Bpp.C03
