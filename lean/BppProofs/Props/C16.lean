import BppProofs.Lemmas.TextToolsU
/-!
# C16 — text and option parsing never crashes, corrupts memory or hangs (TextTools, FileTools,
IntervalConstraint::readDescription)

Models: `BppModel/Text/Ub.lean` (UB-aware `std::string` primitives: an out-of-range index or
iterator is `.error .ub`, `substr` past the end is `.error .std`, a loop out of fuel is
`.error .hang`, the library's exception is `.error .bpp`), `BppModel/Text/TextToolsU.lean`,
`BppModel/Text/AttrU.lean` (path helpers, readDescription).
The property's predicate is `safe r` = "the call returned a value or raised the library's
exception"; the driver evaluates the same `safe` on the implementation's outcome class
(ASan + UBSan + libstdc++ assertions build, per-operation watchdog).
Clauses, for every input string (no bound on the length beyond `StrOk s`, i.e. `size ≤
std::string::max_size()`, which every `std::string` satisfies) and every option:
`…_safe` (no UB, no non-library exception, terminates) and `…_alloc` (output size bounded by a
stated polynomial of the input size).  Termination of the functions in this file is Lean's
totality check (structural recursion / folds; no fuel).
The other entry points are in `C16Tokenizer.lean`, `C16Keyval.lean`, `C16Attr.lean`.
-/
namespace Bpp.C16
open Bpp.Text Bpp.Text.U

/-! ## character utilities: pure functions over `[begin, end)` — the outputs never grow -/

theorem case_alloc (s : Str) : (toUpper s).length = s.length ∧ (toLower s).length = s.length := by
  simp [toUpper, toLower]

theorem strip_alloc (s : Str) :
    (removeWhiteSpaces s).length ≤ s.length ∧ (removeFirstWS s).length ≤ s.length ∧
    (removeLastWS s).length ≤ s.length ∧ (trim s).length ≤ s.length ∧
    (removeNewLines s).length ≤ s.length ∧ (removeLastNewLines s).length ≤ s.length := by
  refine ⟨List.length_filter_le _ _, removeFirstWS_le s, removeLastWS_le s, trim_le s, List.length_filter_le _ _, ?_⟩
  unfold removeLastNewLines
  have := dropWhile_length_le isNewLine s.reverse
  simpa using this

theorem removeChar_alloc (s : Str) (c : Char) : (removeChar s c).length ≤ s.length :=
  List.length_filter_le _ _

theorem count_bounded (s pat : Str) : count s pat ≤ s.length := countSub_le pat s

/-- `replaceAll`: every match is replaced once; the result has at most `|s| + |s|·|r|` characters -/
theorem replaceAll_alloc (s q r : Str) : (replaceAll s q r).length ≤ s.length + s.length * r.length := by
  unfold replaceAll
  split
  · omega
  · exact replaceGo_le q r 0 s

example : replaceAll "hello world world".toList "world".toList "X".toList = "hello X X".toList := by decide
example : count "aaa".toList "aa".toList = 2 ∧ count "abc".toList [] = 3 := by decide

/-! ## number conversion

The theorems about the conversions are in `Props/C16Recog.lean` (the recognisers and `toDouble`
with every `s[i]` / `s[i + 1]` access checked: `isDecimalNumberU_refines`,
`isDecimalIntegerU_refines`, `toDoubleU_refines`, `toDoubleU_safe`) and `Props/C16ToInt.lean`
(`toInt` with every `long long` operation checked: `toIntU_refines`, `toIntU_safe`).  The two
remarks below are about the *outcome classes* `toDoubleClass` / `toIntClass` the other models
(readDescription, the lists of the distribution reader) are written with: they are total by
construction — `.ok` or the library's exception, nothing about the C++ is expressed in them — and
are tied to the UB-aware models by the refinement theorems just named. -/

/-- remark (true by construction of `toDoubleClass`, formerly named `toDouble_safe`): the outcome
class is `.ok` or `.error .bpp`.  The statement about the code is `toDoubleU_safe`. -/
theorem toDoubleClass_total (dec sci : Char) (s : Str) : safe (toDoubleClass dec sci s) = true := by
  unfold toDoubleClass; split <;> rfl

/-- remark (true by construction of `toIntClass`, formerly named `toInt_safe`); the statement about
the code is `toIntU_safe` / `toIntU_refines`. -/
theorem toIntClass_total (sci : Char) (s : Str) : safe (toIntClass sci s) = true := by
  unfold toIntClass; split <;> rfl

example : safe (toDoubleClass '.' 'e' "1e".toList) = true := toDoubleClass_total _ _ _

/-! ## fixed width

The full statement `∀ s n f, safe (resizeRight s n f)` is FALSE, of the model and of the code: the
result has `newSize` characters, and `newSize` is the caller's number, not a function of the text.
Beyond `max_size()` `reserve` throws `std::length_error` (`resize_beyond_max_size_std`); between the
memory that can actually be allocated and `max_size()` the code throws `std::bad_alloc` — also not
the library's exception — which the model, having no memory, cannot express.  The `_partial`
theorems below therefore hold of the code only under the additional, unmodelled assumption that
`newSize` characters can be allocated (props/C16.json, assumptions). -/

/-- `resizeRight` returns exactly `newSize` characters when `newSize ≤ max_size()` (and, in the code,
when that much memory can be allocated) -/
theorem resizeRight_safe_alloc_partial (s : Str) (n : Nat) (f : Char) (hn : n ≤ maxStr) :
    ∃ r, resizeRight s n f = .ok r ∧ r.length = n := resizeRight_spec s n f hn

/-- `resizeLeft`: `begin() + (size - newSize)` is a valid iterator (same restriction on `newSize`) -/
theorem resizeLeft_safe_alloc_partial (s : Str) (n : Nat) (f : Char) (hs : StrOk s) (hn : n ≤ maxStr) :
    ∃ r, resizeLeft s n f = .ok r ∧ r.length = n := resizeLeft_spec s n f hs hn

/-- the unguarded statement is false: a `newSize` above `max_size()` gives `std::length_error`, an
exception that is not the library's -/
theorem resize_beyond_max_size_std (s : Str) (n : Nat) (f : Char) (hn : maxStr < n) :
    resizeRight s n f = .error .std ∧ resizeLeft s n f = .error .std := by
  unfold resizeRight resizeLeft
  simp [hn]

example : safe (resizeRight "ab".toList (maxStr + 1) ' ') = false := by decide

example : resizeRight "hello world".toList 4 ' ' = .ok "hell".toList ∧
    resizeLeft "hello world".toList 4 ' ' = .ok "orld".toList ∧
    resizeLeft "ab".toList 4 '.' = .ok "..ab".toList := by decide

/-! ## split -/

/-- **split never misbehaves**, whatever the chunk size (a `size_t`: 0, larger than the string,
so large that `size + n - 1` wraps): every `begin() + k` is within `[begin, end]` -/
theorem split_safe (s : Str) (n : Nat) (hs : StrOk s) : safe (split s n) = true := split_safe' s n hs

/-- the chunks together are not larger than the string; there are at most `size + 1` of them -/
theorem split_alloc (s : Str) (n : Nat) (hs : StrOk s) (v : List Str) (h : split s n = .ok v) :
    sumLen v ≤ s.length ∧ v.length ≤ s.length + 1 := split_alloc' s n hs v h

/-- the code as found divided by zero for `n = 0` (repaired: it raises the library's exception) -/
theorem split_old_ub : splitOld "abc".toList 0 = .error .ub ∧ split "abc".toList 0 = .error .bpp := by
  decide

example : StrOk "hello world".toList := by decide
example : split "hello world".toList 4 = .ok ["hell".toList, "o wo".toList, "rld".toList] := by decide
example : split "abc".toList 18446744073709551615 = .ok [] := by decide   -- `size + n - 1` wraps: no chunk at all

/-! ## block removal -/

/-- three-argument overload: returns or raises the library's exception (unmatched closing
character); the output is not longer than the input -/
theorem removeSubstrings3_safe (b e : Char) (s : Str) : safe (removeSubstrings3 b e 0 s) = true :=
  removeSubstrings3_safe' b e s 0

theorem removeSubstrings3_alloc (b e : Char) (s r : Str) (h : removeSubstrings3 b e 0 s = .ok r) :
    r.length ≤ s.length := removeSubstrings3_le b e s 0 r h

example : removeSubstrings3 '(' ')' 0 "a(b(c)d)e".toList = .ok "ae".toList ∧
    removeSubstrings3 '(' ')' 0 "a)b".toList = .error .bpp := by decide

/-- **five-argument overload** (exceptions lists): no `substr` past the end, no `int` overflow of
the block counter (`size < 2^31`), the output has at most `(size+1)²` characters (an unclosed nested
block copies the text before it once per opening character) -/
theorem removeSubstrings5_safe (s : Str) (b e : Char) (xb xe : List Str) (hs : s.length < 2147483648) :
    safe (removeSubstrings5 s b e xb xe) = true := (removeSubstrings5_spec s b e xb xe hs).1

theorem removeSubstrings5_alloc (s : Str) (b e : Char) (xb xe : List Str) (hs : s.length < 2147483648) (r : Str)
    (h : removeSubstrings5 s b e xb xe = .ok r) : r.length ≤ (s.length + 1) * (s.length + 1) :=
  (removeSubstrings5_spec s b e xb xe hs).2 r h

/-- the code as found: an exception string whose block character lies further right than the
current position made `i - pos` wrap and `substr` throw `std::out_of_range` -/
theorem removeSubstrings5_old_std :
    removeSubstrings5Old "(a)".toList '(' ')' ["x(".toList] [] = .error .std ∧
    removeSubstrings5 "(a)".toList '(' ')' ["x(".toList] [] = .ok [] := by decide

example : removeSubstrings5 "f(x) = <a> (b) c".toList '(' ')' [] [] = .ok "f = <a>  c".toList := by decide
/-- the quadratic growth is real: the text before an unclosed nest is copied per `(` -/
example : removeSubstrings5 "ab((".toList '(' ')' [] [] = .ok "abab(ab((".toList := by decide

/-! ## path helpers -/

theorem getFileName_safe_alloc (p : Str) (c : Char) (hp : StrOk p) :
    ∃ r, getFileName p c = .ok r ∧ r.length ≤ p.length := getFileName_spec p c hp

/-- after the repair: a path without separator has the empty parent -/
theorem getParent_safe_alloc (p : Str) (c : Char) (hp : StrOk p) :
    ∃ r, getParent p c = .ok r ∧ r.length ≤ p.length := getParent_spec p c hp

theorem getExtension_safe_alloc (p : Str) : ∃ r, getExtension p = .ok r ∧ r.length ≤ p.length :=
  getExtension_spec p

/-- the code as found erased from `begin() + (ptrdiff_t) npos` = `begin() - 1` -/
theorem getParent_old_ub : getParentOld "abc".toList '/' = .error .ub ∧ getParent "abc".toList '/' = .ok [] := by
  decide

example : getFileName "/home/user/file.txt".toList '/' = .ok "file".toList ∧
    getParent "/home/user/file.txt".toList '/' = .ok "/home/user".toList ∧
    getExtension "/home/user/file.txt".toList = .ok "txt".toList ∧
    getExtension "abc".toList = .ok "abc".toList ∧ getFileName "abc".toList '/' = .ok [] := by decide

/-! ## interval description -/

/-- `IntervalConstraint::readDescription`: `desc[0]`, `desc[dc]` and both `substr` are within the
string whenever they are reached; everything else raises the library's exception -/
theorem readDescription_safe (desc : Str) : safe (readDescription desc) = true := readDescription_safe' desc

example : readDescription "]-inf; +inf[".toList = .ok (false, false, "-inf".toList, "+inf".toList) := by decide
example : readDescription "[-inf;inf] ".toList = .ok (true, true, "-inf".toList, "inf".toList) := by decide
example : readDescription "[0,1]".toList = .error .bpp := by decide
example : readDescription [] = .error .bpp := by decide

end Bpp.C16
