import BppProofs.Lemmas.Dag
import BppProofs.Lemmas.TreeSwitch
/-!
# C15 — DAG container (src/Bpp/Graph/DAGraphImpl.h on GlobalGraph, model `BppModel/Dag.lean`)

Proved here (helper lemmas in `Lemmas/Dag.lean`):
* for all histories the two cached flags are **sound**: a set `isValid_` means `GlobalGraph::isDA`
  answers true on the graph as it is now, a set `isRooted_` means exactly one node is father-less
  now; hence `isValid()` / `isRooted()` answer what the computation answers on the current graph;
* `isDA` is **total** on a consistent graph (never raises, never runs out of the model's fuel) and
  its answer does not depend on the fuel;
* `isDA` **decides acyclicity**: it answers true iff no node reaches itself through one or more
  outgoing entries of the node table (`Arc`, `Acyclic` below; the transitive closure `TG` is an
  own inductive of `Lemmas/Dag.lean` with the constructors of Mathlib's `Relation.TransGen`:
  core Lean only);
* the driver's reference decision `isAcyclicRef` (transitive closure of the edge table,
  `BppModel/TreeRef.lean`) decides the same `Acyclic`, so that the check `valid_iff` compares
  `isValid()` with a proved-correct oracle;
* the histories include **re-rooting** (`rootAt`: `setRoot`, then `propagateDirection_` on a valid rooted
  DAG, `GlobalGraph::orientate()` otherwise), so all of the above holds after it as well, whether it
  succeeded or raised half way; and `rootAt` keeps the **shape**: the nodes and the undirected edge
  set with its edge ids (`dag_rootAt_shape`).
-/
namespace Bpp.C15
open Bpp Bpp.Graph Bpp.Graph.D
open Bpp.Graph.Dag (TG)

/-! ## the caches are sound over all histories -/

/-- the caches never lie: a set `isValid_` means `isDA` answers true on the current graph, a set
`isRooted_` means exactly one node of the current graph has no father -/
def DagCacheSound (d : D) : Prop :=
  (d.valid = true → D.isDA d.g = .ok true) ∧ (d.rooted = true → D.nbFatherless d.g = 1)

/-- **dag_cache_sound**: after any history of topology edits (node creations, links, unlinks,
deletions, add / remove son, add / remove father, remove all sons / fathers, set root, and
re-rooting: `rootAt` with its `setRoot`, `isRooted() && isValid()`, then `propagateDirection_` —
one `switchNodes` per relation above the new root — or `GlobalGraph::orientate()`) and queries
(`isValid`, `isRooted`, `getBelow*`), each call succeeding or raising (for `rootAt` and
`orientate`: possibly after part of the relations have been turned round), both caches are sound.
(`orientate()` resets the flags only when one of its `switchNodes` calls succeeded; when none did the
tables are as before and the flags are kept: still sound.)
A `rootAt` whose `propagateDirection_` would not return (outcome `fuel` of the model) is not a step
of a history: the state is left as it was. -/
theorem dag_cache_sound (ops : List DOp) : DagCacheSound (D.empty.run ops) :=
  (D.inv_run ops _ D.inv_empty).2

/-- … hence `isValid()` answers exactly what `isDA` answers on the current graph, whatever was
asked or edited before -/
theorem dag_isValid_is_isDA (ops : List DOp) :
    (D.empty.run ops).isValid.1 = D.isDA (D.empty.run ops).g := by
  have h := dag_cache_sound ops
  unfold D.isValid
  split
  · rename_i hv; rw [h.1 hv]
  · rcases hr : D.isDA (D.empty.run ops).g with b | _ | _ | _ <;> rfl

/-- … and `isRooted()` answers whether at most one node of the current graph is father-less -/
theorem dag_isRooted_answer (ops : List DOp) :
    (D.empty.run ops).isRooted.1 = decide (D.nbFatherless (D.empty.run ops).g ≤ 1) := by
  have h := dag_cache_sound ops
  unfold D.isRooted
  split
  · rename_i hv; rw [h.2 hv]; rfl
  · split
    · rename_i h2
      have : ¬ D.nbFatherless (D.empty.run ops).g ≤ 1 := by omega
      simp [this]
    · rename_i h2
      have : D.nbFatherless (D.empty.run ops).g ≤ 1 := by omega
      simp [this]

/-- the check's predicates `cache_sound` / `rooted_cache` are this definition, evaluated on the
reported flags and graph -/
theorem dagCacheSound_decidable (d : D) : DagCacheSound d ↔
    ((!d.valid || (D.isDA d.g == .ok true)) && (!d.rooted || (D.nbFatherless d.g == 1))) = true := by
  unfold DagCacheSound
  cases d.valid <;> cases d.rooted <;> simp

/-- every reachable graph of the container (re-rooted or not) is consistent (the invariant of C14) and
directed -/
theorem dag_reachable_consistent (ops : List DOp) :
    Consistent (D.empty.run ops).g ∧ (D.empty.run ops).g.directed = true :=
  (D.inv_run ops _ D.inv_empty).1

/-- no notification is left pending in a reachable container (every mutator of the container drains
the queue of the graph) -/
theorem dag_reachable_quiet (ops : List DOp) : (D.empty.run ops).g.pending = [] :=
  D.pending_run ops _ rfl

/-! ## re-rooting keeps the shape of the graph -/

/-- **dag_rootAt_shape**: whatever `rootAt` does to a consistent directed DAG container (whatever its
cached flags say) — turning round the relations above the new root, or `orientate()`, succeeding or
raising half way — the nodes and the undirected edge set with its edge ids stay; when it succeeds
the node is the root; for an absent node it raises and the graph is unchanged -/
theorem dag_rootAt_shape (d : D) (hc : Consistent d.g) (hd : d.g.directed = true) (hp : d.g.pending = []) (n : Nat)
    (r : GOut Unit × D) (h : d.rootAt n = .ok r) :
    AL.keys r.2.g.nodes = AL.keys d.g.nodes ∧ uedges r.2.g = uedges d.g ∧
    (∀ u g', r.1 = .ok u g' → r.2.g.root = n) ∧ (d.g.hasNode n = false → r.2.g = d.g ∧ ∃ g', r.1 = .exc g') := by
  obtain ⟨hs, hroot, habs⟩ := D.rootAt_shape d ⟨hc, hd⟩ hp n r h
  refine ⟨hs.keys, hs.uedges, ?_, habs⟩
  intro u g' hr
  cases hn : d.g.hasNode n
  · obtain ⟨_, g'', hr'⟩ := habs hn
    rw [hr] at hr'; cases hr'
  · exact hroot hn

/-- the same with `SameShape` (`Lemmas/TreeSwitch.lean`: same nodes, same undirected edges with the same
ids, nothing pending), as for the tree container; and the root is the node asked for as soon as the
node exists, even when `rootAt` raised later on -/
theorem dag_rootAt_sameShape (d : D) (hc : Consistent d.g) (hd : d.g.directed = true) (hp : d.g.pending = []) (n : Nat)
    (r : GOut Unit × D) (h : d.rootAt n = .ok r) :
    SameShape d.g r.2.g ∧ (d.g.hasNode n = true → r.2.g.root = n) :=
  ⟨(D.rootAt_shape d ⟨hc, hd⟩ hp n r h).1, (D.rootAt_shape d ⟨hc, hd⟩ hp n r h).2.1⟩

/-- **dag_rootAt_shape_history**: the same on every reachable container: the hypotheses of
`dag_rootAt_shape` hold after any history -/
theorem dag_rootAt_shape_history (ops : List DOp) (n : Nat) (r : GOut Unit × D)
    (h : (D.empty.run ops).rootAt n = .ok r) :
    AL.keys r.2.g.nodes = AL.keys (D.empty.run ops).g.nodes ∧ uedges r.2.g = uedges (D.empty.run ops).g ∧
    (∀ u g', r.1 = .ok u g' → r.2.g.root = n) ∧
    ((D.empty.run ops).g.hasNode n = false → r.2.g = (D.empty.run ops).g ∧ ∃ g', r.1 = .exc g') :=
  dag_rootAt_shape _ (dag_reachable_consistent ops).1 (dag_reachable_consistent ops).2 (dag_reachable_quiet ops) n r h

/-- non-vacuity: the diamond 0 -> 1 -> 3, 0 -> 2 -> 3 (valid and rooted at 0) re-rooted at 3:
`propagateDirection_` succeeds, the result is acyclic, rooted at 3, and 3 is its only father-less node -/
example :
    let d := D.empty.run [.createNode, .createNode, .createNode, .createNode,
      .addSon 0 1, .addSon 0 2, .addSon 1 3, .addSon 2 3]
    (match d.rootAt 3 with
      | .ok (.ok _ _, d') => D.isDA d'.g == .ok true && d'.g.root == 3 && D.nbFatherless d'.g == 1
          && (uedges d'.g == uedges d.g)
      | _ => false) = true := by decide

/-- the same as a step of a history: afterwards `isValid()` and `isRooted()` answer true -/
example :
    let d := D.empty.run [.createNode, .createNode, .createNode, .createNode,
      .addSon 0 1, .addSon 0 2, .addSon 1 3, .addSon 2 3, .rootAt 3]
    d.g.root = 3 ∧ d.isValid.1 = .ok true ∧ d.isRooted.1 = true ∧ D.nbFatherless d.g = 1 := by decide

/-- a 3-cycle 0 -> 1 -> 2 -> 0 (not valid) re-rooted at 0: `orientate()` succeeds and makes it acyclic,
with 0 its only father-less node -/
example :
    let d := D.empty.run [.createNode, .createNode, .createNode, .addSon 0 1, .addSon 1 2, .addSon 2 0]
    D.isDA d.g = .ok false ∧
    (match d.rootAt 0 with
      | .ok (.ok _ _, d') => D.isDA d'.g == .ok true && d'.g.root == 0 && D.nbFatherless d'.g == 1
          && (uedges d'.g == uedges d.g)
      | _ => false) = true := by decide

/-- two isolated nodes: `rootAt 1` succeeds (through `orientate()`), and leaves two father-less nodes:
the rootedness flag is not set (the unrepaired code set it), and `isRooted()` answers false -/
example :
    let d := D.empty.run [.createNode, .createNode]
    (match d.rootAt 1 with
      | .ok (.ok _ _, d') => d'.g.root == 1 && D.nbFatherless d'.g == 2 && !d'.rooted && !d'.isRooted.1
      | _ => false) = true := by decide

/-- an absent node: `rootAt` raises and nothing changed -/
example :
    let d := D.empty.run [.createNode, .createNode, .addSon 0 1]
    (match d.rootAt 7 with
      | .ok (.exc _, d') => d' == d
      | _ => false) = true := by decide

/-! ## `isDA` is total, and the fuel of the model is enough -/

/-- **isDA_total**: on a consistent graph `isDA` answers: `deleteNode` never throws inside the loop
and the model's fuel (number of nodes + 1) is never exhausted -/
theorem isDA_total (g : G) (hc : Consistent g) : ∃ b, D.isDA g = .ok b := by
  unfold D.isDA
  split
  · exact ⟨true, rfl⟩
  · exact D.isDALoop_total _ hc (Nat.lt_succ_self _)

/-- **isDA_fuel_suffices**: any larger fuel gives the same answer (every round removes at least one
node) -/
theorem isDA_fuel_suffices (g : G) (hc : Consistent g) :
    ∀ f ≥ g.nodes.length + 1, D.isDALoop f g (D.sinks g) = D.isDALoop (g.nodes.length + 1) g (D.sinks g) :=
  fun f hf => D.isDALoop_fuel f _ hc (by omega) (Nat.lt_succ_self _)

/-- the hypothesis is satisfiable, and holds of every reachable state -/
example : Consistent (D.empty.run [.createNode, .createNode, .addSon 0 1]).g :=
  (dag_reachable_consistent _).1

/-- on every reachable state `isValid()` answers true or false -/
theorem dag_isValid_total (ops : List DOp) : ∃ b, (D.empty.run ops).isValid.1 = .ok b := by
  rw [dag_isValid_is_isDA]; exact isDA_total _ (dag_reachable_consistent ops).1

/-! ## `isDA` decides acyclicity -/

/-- the node table lists `b` among the outgoing neighbours of `a` -/
def Arc (g : G) (a b : Nat) : Prop := (g.outE a b).isSome = true

/-- no node reaches itself through one or more arcs (`TG R a b`: `single : R a b → TG R a b`,
`tail : TG R a b → R b c → TG R a c`) -/
def Acyclic (g : G) : Prop := ¬ ∃ n, TG (Arc g) n n

/-- these are the definitions the helper lemmas are stated with -/
theorem acyclic_eq (g : G) : Acyclic g = Dag.Acyclic g := rfl

/-- the same, without the hypothesis `directed` (in an undirected consistent graph every edge is a
cycle of length two or one, and `isDA` answers true iff there is no edge at all) -/
theorem isDA_iff_acyclic_any (g : G) (hc : Consistent g) : D.isDA g = .ok true ↔ Acyclic g := by
  unfold D.isDA
  split
  · rename_i he
    exact ⟨fun _ => Dag.acyclic_of_no_node (List.isEmpty_iff.mp he), fun _ => rfl⟩
  · rename_i he
    exact D.isDALoop_iff _ hc (D.isEmpty_false he) (Nat.lt_succ_self _)

set_option linter.unusedVariables false in
/-- **isDA_iff_acyclic**: on a consistent directed graph `isDA` (repeated removal of the son-less
nodes on a copy) answers true iff no node reaches itself through one or more arcs -/
theorem isDA_iff_acyclic (g : G) (hc : Consistent g) (hd : g.directed = true) :
    D.isDA g = .ok true ↔ Acyclic g := isDA_iff_acyclic_any g hc

/-- … hence on a consistent graph the answer false means there is a cycle -/
theorem isDA_false_iff_cyclic (g : G) (hc : Consistent g) :
    D.isDA g = .ok false ↔ ∃ n, TG (Arc g) n n := by
  obtain ⟨b, hb⟩ := isDA_total g hc
  have h := isDA_iff_acyclic_any g hc
  rw [hb] at h ⊢
  cases b
  · constructor
    · intro _
      apply Classical.byContradiction
      intro hn
      have := h.mpr hn
      cases this
    · intro _; rfl
  · constructor
    · intro h'; cases h'
    · intro hcyc; exact absurd hcyc (h.mp rfl)

/-- the hypotheses are satisfiable: a diamond 0 -> 1 -> 3, 0 -> 2 -> 3 with the chord 0 -> 3 is
consistent, directed, and `isDA` answers true; after adding 3 -> 0 it answers false -/
example :
    let g := (D.empty.run [.createNode, .createNode, .createNode, .createNode,
      .addSon 0 1, .addSon 0 2, .addSon 1 3, .addFather 3 2, .link 0 3]).g
    Consistent g ∧ g.directed = true ∧ D.isDA g = .ok true :=
  ⟨(G.check_iff _).mp (by decide), by decide, by decide⟩

example :
    let g := (D.empty.run [.createNode, .createNode, .createNode, .createNode,
      .addSon 0 1, .addSon 0 2, .addSon 1 3, .addFather 3 2, .link 0 3, .link 3 0]).g
    Consistent g ∧ g.directed = true ∧ D.isDA g = .ok false :=
  ⟨(G.check_iff _).mp (by decide), by decide, by decide⟩

/-- **dag_isValid_iff_acyclic**: after any history, `isValid()` answers true iff the current graph
has no cycle (and it answers false otherwise, `dag_isValid_total`) -/
theorem dag_isValid_iff_acyclic (ops : List DOp) :
    (D.empty.run ops).isValid.1 = .ok true ↔ Acyclic (D.empty.run ops).g := by
  rw [dag_isValid_is_isDA]
  exact isDA_iff_acyclic _ (dag_reachable_consistent ops).1 (dag_reachable_consistent ops).2

/-! ## the driver's reference decision -/

/-- **isAcyclicRef_iff**: on a consistent directed graph the transitive closure of the edge table,
computed in as many rounds as there are nodes, contains a pair `(x, x)` iff some node reaches
itself through arcs of the node table -/
theorem isAcyclicRef_iff (g : G) (hc : Consistent g) (hd : g.directed = true) :
    isAcyclicRef g = true ↔ Acyclic g := Dag.isAcyclicRef_iff_acyclic g hc hd

/-- the hypotheses are satisfiable (the diamond above), and the reference answers true there -/
example :
    let g := (D.empty.run [.createNode, .createNode, .createNode, .createNode,
      .addSon 0 1, .addSon 0 2, .addSon 1 3, .addFather 3 2, .link 0 3]).g
    Consistent g ∧ g.directed = true ∧ isAcyclicRef g = true :=
  ⟨(G.check_iff _).mp (by decide), by decide, by decide⟩

/-- … hence on a consistent directed graph `isDA` and the reference decision agree -/
theorem isDA_eq_ref (g : G) (hc : Consistent g) (hd : g.directed = true) : D.isDA g = .ok (isAcyclicRef g) := by
  obtain ⟨b, hb⟩ := isDA_total g hc
  have h1 := isDA_iff_acyclic g hc hd
  have h2 := isAcyclicRef_iff g hc hd
  rw [hb] at h1 ⊢
  cases b <;> cases hr : isAcyclicRef g
  · rfl
  · exact absurd (h1.mpr (h2.mp hr)) (by simp)
  · have := h2.mpr (h1.mp rfl); rw [hr] at this; cases this
  · rfl

/-- **dag_isValid_eq_ref**: after any history `isValid()` answers what the reference decision answers
on the current graph (the driver's check `valid_iff` can never fail on the model) -/
theorem dag_isValid_eq_ref (ops : List DOp) :
    (D.empty.run ops).isValid.1 = .ok (isAcyclicRef (D.empty.run ops).g) := by
  rw [dag_isValid_is_isDA]
  exact isDA_eq_ref _ (dag_reachable_consistent ops).1 (dag_reachable_consistent ops).2

end Bpp.C15
