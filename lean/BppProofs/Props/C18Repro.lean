import BppProofs.Lemmas.RandGen
/-!
# C18 — "with a fixed seed the random stream is reproducible"

Theorems about the state machine of `BppModel/RandGen.lean`: the generator is an abstract state,
`setSeed` overwrites it, every modelled routine is a function of (state, arguments) only (`exec`).
Everything here holds for EVERY interpretation `P` of the standard library's primitives, every
history and every initial state.

What these theorems are NOT: evidence about the code.  `reproducible` is the determinism of a pure
functional model in which `setSeed` overwrites the only state (with an empty history it is `rfl`);
its whole content is the modelling decision "the generator is the only state: every std::
distribution object is constructed inside the call that uses it" (RandomTools.h:99-202;
ContingencyTableGenerator.cpp:68-71 re-initialises `jwork_`), which is TRUSTED.  The evidence for
the clause "with a fixed seed the stream is reproducible" is the execution of `repro` / `repro1`
(28 routines, two different histories before the same seed each) — which also cover what `Call`
does not have (the rejection loops of the `<Family>::randC`, `rand()` through the families) — and
`hidden_state_breaks_reproducibility` shows what the model would be if that reading were wrong.
-/
namespace Bpp.C18
open Bpp Bpp.Rand Bpp.RandGen

variable {σ α : Type} [Scalar α]

/-- `setSeed s` leaves the generator in the state `seed s`, whatever happened before and whatever
state the process started in -/
theorem setSeed_resets (P : Prims σ α) (hist : List (Call α)) (s : Nat) (g : σ) :
    (run P (hist ++ [Call.setSeed s]) g).2 = P.seed s := by
  rw [run_append]; rfl

/-- `reproducible`: the same seed gives the same stream.  For every history `h1`, `h2` of earlier
calls (of any of the modelled routines, with any arguments, `setSeed` included), every initial
generator state, every seed and every program `prog` of calls made after `setSeed(seed)`: the
values returned by `prog` and the generator state it ends in are the same. -/
theorem reproducible (P : Prims σ α) (h1 h2 prog : List (Call α)) (seed : Nat) (g1 g2 : σ) :
    (run P (h1 ++ Call.setSeed seed :: prog) g1).1.drop (h1.length + 1)
      = (run P (h2 ++ Call.setSeed seed :: prog) g2).1.drop (h2.length + 1) ∧
    (run P (h1 ++ Call.setSeed seed :: prog) g1).2 = (run P (h2 ++ Call.setSeed seed :: prog) g2).2 := by
  have key : ∀ (h : List (Call α)) (g : σ),
      (run P (h ++ Call.setSeed seed :: prog) g).1.drop (h.length + 1) = (run P prog (P.seed seed)).1 ∧
      (run P (h ++ Call.setSeed seed :: prog) g).2 = (run P prog (P.seed seed)).2 := by
    intro h g
    have hlen : ∀ (l : List (Call α)) (g : σ), (run P l g).1.length = l.length := by
      intro l; induction l with
      | nil => intro g; rfl
      | cons c cs ih => intro g; simp [run, ih]
    rw [run_append]
    constructor
    · simp only [run]
      rw [List.drop_append, List.drop_of_length_le (by rw [hlen]; omega), hlen]
      simp [exec]
    · simp only [run]; rfl
  exact ⟨(key h1 g1).1.trans (key h2 g2).1.symm, (key h1 g1).2.trans (key h2 g2).2.symm⟩

/-- every routine is a function of (generator state, arguments) only: two executions that reach
the same generator state — by whatever histories — get the same answer to the same call and
continue from the same state -/
theorem routine_depends_on_state_and_arguments_only (P : Prims σ α) (h1 h2 : List (Call α)) (g1 g2 : σ) (c : Call α)
    (hstate : (run P h1 g1).2 = (run P h2 g2).2) :
    (run P (h1 ++ [c]) g1).1.getLast? = (run P (h2 ++ [c]) g2).1.getLast? ∧
    (run P (h1 ++ [c]) g1).2 = (run P (h2 ++ [c]) g2).2 := by
  rw [run_append, run_append, hstate]
  simp [run]

/-- the state-machine routines are the draw-taking models of `BppModel/Rand.lean` fed with the
primitives' results (so every theorem of `Props/C18.lean`, which quantify over all draws, holds of
what the machine returns) -/
theorem exec_refines_draw_models (P : Prims σ α) (g : σ) (v : List Int) (w : List α) (replace : Bool)
    (hv : v.isEmpty = false) :
    exec P (.pickOne v replace) g = (.pick (pickOne v replace (P.uInt v.length g).1), (P.uInt v.length g).2) ∧
    exec P (.pickOneW v w replace) g
      = (.pickW (pickOneW v w replace (P.uReal (Scalar.ofInt 1) g).1), (P.uReal (Scalar.ofInt 1) g).2) ∧
    (∀ k, exec P (.getSampleW v w k true) g
      = (.ints (getSampleW v w k true (drawUnits P k g).1), (drawUnits P k g).2)) ∧
    (∀ n probs, multinomialRaises probs n = false → exec P (.randMultinomial n probs) g
      = (.nats (randMultinomial probs n (drawUnits P n g).1), (drawUnits P n g).2)) ∧
    (∀ a b, exec P (.randGamma2 a b) g = (.scalar (P.gamma a (Scalar.ofInt 1 / b) g).1, (P.gamma a (Scalar.ofInt 1 / b) g).2)) := by
  refine ⟨?_, ?_, ?_, ?_, ?_⟩
  · simp [exec, hv]
  · simp [exec, hv]
  · intro k; simp [exec, hv]
  · intro n probs hok; simp [exec, hok]
  · intro a b; simp [exec]

omit [Scalar α] in
/-- in particular the tables the machine draws have the requested margins, for every
interpretation of the float-dependent walk -/
theorem rcont2_on_generator_margins (P : Prims σ α) (rows cols : List Nat) (g : σ) (T : List (List Int))
    (h : (rcont2G P rows cols g).1 = .ok T) : marginsOk rows cols T = true := by
  unfold rcont2G at h
  split at h
  · cases h
  · exact rcont2_marginsOk rows cols _ T h

/-! ## a routine with hidden state is NOT reproducible

The machine with a function-static `std::normal_distribution` (`HiddenNormal`): the generator is a
counter, a round of the polar method returns the pair `(g, g + 1/2)`.  After one normal draw the
object still holds `1/2`-shifted value of the old seed; re-seeding does not remove it. -/
theorem hidden_state_breaks_reproducibility :
    let pair : Nat → (ℝ × ℝ) × Nat := fun g => (((g : ℝ), (g : ℝ) + 1 / 2), g + 1)
    let seed : Nat → Nat := fun s => 100 * s
    let fresh : HiddenNormal Nat ℝ := ⟨0, none⟩
    -- history A: setSeed(1); randGaussian          history B: randGaussian; setSeed(1); randGaussian
    let a := (HiddenNormal.randGaussian pair 0 1 (HiddenNormal.setSeed seed 1 fresh)).1
    let b := (HiddenNormal.randGaussian pair 0 1 (HiddenNormal.setSeed seed 1 (HiddenNormal.randGaussian pair 0 1 fresh).2)).1
    a ≠ b := by
  simp only [HiddenNormal.randGaussian, HiddenNormal.setSeed]
  simp only [ScalarReal.sqrt_eq, Real.sqrt_one]
  norm_num

/-! non-vacuity of `reproducible`: a counter generator -/
example :
    (run counterPrims [.uniformInt 7, .setSeed 3, .pickOne [5, 6, 7, 8] false, .uniformInt 7] 0).1.drop 2
      = (run counterPrims [.setSeed 3, .pickOne [5, 6, 7, 8] false, .uniformInt 7] 55).1.drop 1 :=
  (reproducible counterPrims [.uniformInt 7] [] [.pickOne [5, 6, 7, 8] false, .uniformInt 7] 3 0 55).1

end Bpp.C18
