import BppProofs.Lemmas.DiscretizeShared
/-!
# C09 — a copy of a distribution is independent of its source
(src/Bpp/Numeric/Prob/AbstractDiscreteDistribution.cpp:43-80 copy constructor, `operator=`,
`tieParametersToOwnDomain_`, `shareNestedConstraints_`; TruncatedExponentialDiscreteDistribution.cpp:45-55,
ConstantDistribution.cpp:44-58, SimpleDiscreteDistribution.cpp:274-303 `restrictToConstraint`;
InvariantMixedDiscreteDistribution.h:47-68, MixtureOfDiscreteDistributions.cpp:76-106)

`restrictToConstraint` of the truncated exponential, constant and user-specified distributions
makes the distribution's own domain object the constraint of `tp` / `value` / `V<i>`: the
constraint *is* the live domain.  The model with pointers is `BppModel/DiscretizeShared.lean`:
a world of distribution objects, each leaf with the address of its domain object and the address
its tie-able parameters' constraint points to, compounds with the pointers and values of their
copies of the components' parameters.  All statements are about addresses and therefore hold for
every scalar type (`ℝ`, and the `Float` the driver runs).

* `world_owned` — after every history of constructors, `clone()`, `operator=`, wrapping into an
  invariant-mixed distribution, mixtures (whose constructor clones), parameter updates, class-count
  changes, median toggles, re-discretisations and restrictions, accepted or refused: every tie
  points to the object's *own* domain (a compound's copy: to the domain of the component it
  mirrors), and no two leaves share a domain object.  The driver evaluates it on the
  implementation (`tie_own`: pointer comparison in the harness).
* `copy_independent` — in such a world an operation on one object leaves every other object as it
  was: by-value state (classes, bounds, domain — of the object and of its components), parameters,
  and the constraints the parameters have *now* (`World.view`).  Driver: `copy_independent`.
* `clone_same_view` — a copy shows the view of its source.
* `leaf_setP_refines`, `rejectsC_own`, … — with ties to the own domain the pointer model's
  `setParameterValue` is the by-value one of `DiscretizeFamilies.lean` / `DiscretizeCompound.lean`, so
  the history theorems of `Props/C09.lean` speak about the objects of the world.
* `legacy_copy_shares_witness` — the copy as found kept the source's pointer: after an update of
  the source the copy holds a value its constraint rejects (`param_accepted` false) and its view
  changed without having been touched.
-/
namespace Bpp.C09
open Bpp Bpp.Discretize Bpp.Discretize.SharedWitness

variable {α : Type} [Scalar α]

/-! ## the invariant over all histories -/

/-- **world_owned**: every world reachable from the empty one is well formed — for every history,
of any length, raising operations included -/
theorem world_owned (orc : Nat → Parent α) (ops : List (WOp α)) (w : World α) (hw : w.WF) :
    (WOp.run orc w ops).WF := by
  induction ops generalizing w with
  | nil => exact hw
  | cons op rest ih => exact ih _ (step_wf orc w hw op)

theorem world_owned_from_empty (orc : Nat → Parent α) (ops : List (WOp α)) :
    (WOp.run orc (World.empty : World α) ops).WF := world_owned orc ops _ wf_empty

/-- what `Owned` says of one leaf, spelled out: the constraint of its tie-able parameters is the
constructor's or *is* the leaf's own domain (as an interval, now) -/
theorem tie_is_own_domain (w : World α) (hw : w.WF) (j : Nat) (o : TObj α) (h : w.objs[j]? = some o)
    (s : Slot α) (hs : s ∈ o.slots) :
    w.peek s.tie = none ∨ (s.tie = some s.id ∧ w.peek s.tie = o.derefLocal s.id) := by
  have hmem : o ∈ w.objs := List.mem_iff_getElem?.2 ⟨j, h⟩
  have hok := hw.owned o hmem s hs
  rcases hok.1 with ht | ht
  · left; rw [ht]; rfl
  · right
    refine ⟨ht, ?_⟩
    rw [(peek_local w hw j o h s hs hok).1, ht]; rfl

/-! ## independence -/

/-- **copy_independent**: in a well-formed world an operation leaves every object it does not
target — in particular the copies and the sources of the object it works on — as it was:
classes, bounds, domain, parameters, parameter constraints. -/
theorem copy_independent (orc : Nat → Parent α) (w : World α) (hw : w.WF) (op : WOp α) (j : Nat) (o : TObj α)
    (h : w.objs[j]? = some o) (hj : j ∉ op.targets) :
    (WOp.step orc w op).1.objs[j]? = some o ∧ (WOp.step orc w op).1.view o = w.view o := by
  have hf := step_frame orc w op j o h hj
  refine ⟨hf, ?_⟩
  rw [view_local _ (step_wf orc w hw op) j o hf, view_local w hw j o h]

/-- over histories: whatever is done to the other objects, object `j` keeps its view -/
theorem copy_independent_history (orc : Nat → Parent α) (ops : List (WOp α)) (w : World α) (hw : w.WF)
    (j : Nat) (o : TObj α) (h : w.objs[j]? = some o) (hj : ∀ op ∈ ops, j ∉ op.targets) :
    (WOp.run orc w ops).objs[j]? = some o ∧ (WOp.run orc w ops).view o = w.view o := by
  induction ops generalizing w with
  | nil => exact ⟨h, rfl⟩
  | cons op rest ih =>
    obtain ⟨h1, h2⟩ := copy_independent orc w hw op j o h (hj op (by simp))
    obtain ⟨h3, h4⟩ := ih _ (step_wf orc w hw op) h1 (fun x hx => hj x (by simp [hx]))
    exact ⟨h3, h4.trans h2⟩

/-- `copy_independent` at every moment of every history from the empty world -/
theorem copy_independent_reachable (orc : Nat → Parent α) (pre : List (WOp α)) (op : WOp α) (j : Nat) (o : TObj α)
    (h : (WOp.run orc (World.empty : World α) pre).objs[j]? = some o) (hj : j ∉ op.targets) :
    (WOp.step orc (WOp.run orc World.empty pre) op).1.objs[j]? = some o ∧
    (WOp.step orc (WOp.run orc World.empty pre) op).1.view o = (WOp.run orc World.empty pre).view o :=
  copy_independent orc _ (world_owned_from_empty orc pre) op j o h hj

/-- **clone_same_view**: the object made by `clone()` (and what `operator=` installs) shows the
view of its source: same classes, bounds, domain, parameters and — every tie to the source's own
domain having become a tie to the copy's own, equal, domain — the same parameter constraints -/
theorem clone_same_view (orc : Nat → Parent α) (w : World α) (hw : w.WF) (i : Nat) (o : TObj α)
    (h : w.objs[i]? = some o) :
    ∃ o', (WOp.step orc w (.clone i)).1.objs[w.objs.length]? = some o' ∧
      (WOp.step orc w (.clone i)).1.view o' = w.view o := by
  have hmem : o ∈ w.objs := List.mem_iff_getElem?.2 ⟨i, h⟩
  have hwf := step_wf orc w hw (.clone i)
  refine ⟨⟨o.st, cloneSlots w.next o.slots⟩, ?_, ?_⟩
  · simp [WOp.step, h]
  · have hget : (WOp.step orc w (.clone i)).1.objs[w.objs.length]? = some ⟨o.st, cloneSlots w.next o.slots⟩ := by
      simp [WOp.step, h]
    rw [view_local _ hwf _ _ hget, view_local w hw i o h]
    exact localView_clone w.next o (ids_nodup_of_wf w hw o hmem) (hw.owned o hmem)

/-! ## the pointer model refines to the by-value model when ties are own -/

/-- **the pointer model refines to the by-value model**: with the constraint of the tie-able
parameters being the leaf's own domain, `setParameterValue` and `matchParametersValues` are the
by-value operations the history theorems of `Props/C09.lean` are about -/
theorem leaf_setPC_own (l : Leaf α) (orc : Nat → Parent α) (name : String) (v : α) :
    l.setPC (ownTc (tiedFlag l) l.top) orc name v = l.setP orc name v := by
  cases l with
  | fam slot f => simp only [Leaf.setPC, Leaf.setP, tiedFlag, Leaf.top, setParameterValueC_own]; rfl
  | const c => simp only [Leaf.setPC, Leaf.setP, tiedFlag, Leaf.top, const_setPC_own]
  | simple s => simp only [Leaf.setPC, Leaf.setP, tiedFlag, Leaf.top, simple_setPC_own]

theorem leaf_matchPC_own (l : Leaf α) (orc : Nat → Parent α) (name : String) (v : α) :
    l.matchPC (ownTc (tiedFlag l) l.top) orc name v = l.matchP orc name v := by
  cases l with
  | fam slot f => simp only [Leaf.matchPC, Leaf.matchP, tiedFlag, Leaf.top, rejectsC_own]; rfl
  | const c => simp only [Leaf.matchPC, Leaf.matchP, tiedFlag, Leaf.top, const_matchPC_own]
  | simple s => simp only [Leaf.matchPC, Leaf.matchP, tiedFlag, Leaf.top, simple_matchPC_own]

/-- on a leaf object of a well-formed world whose by-value flag agrees with its pointer,
`setParameterValue` of the world is the by-value `setParameterValue` -/
theorem leaf_setP_refines (orc : Nat → Parent α) (w : World α) (hw : w.WF) (j : Nat) (l : Leaf α) (s : Slot α)
    (h : w.objs[j]? = some ⟨.leaf l, [s]⟩) (hflag : s.tie.isSome = tiedFlag l) (name : String) (v : α) :
    (TObj.setP w ⟨.leaf l, [s]⟩ orc name v) = (⟨.leaf (l.setP orc name v).1, [s]⟩, (l.setP orc name v).2) := by
  have hmem : (⟨.leaf l, [s]⟩ : TObj α) ∈ w.objs := List.mem_iff_getElem?.2 ⟨j, h⟩
  have hok := hw.owned _ hmem s (by simp)
  have htc : w.tc s.tie = .ok (ownTc (tiedFlag l) l.top) := by
    rcases hok.1 with ht | ht
    · rw [ht] at hflag ⊢
      simp only [Option.isSome_none] at hflag
      simp [World.tc, ownTc, ← hflag]
    · have hd := deref_local w hw j _ h s.id (by simp [TObj.ids])
      rw [ht] at hflag ⊢
      simp only [Option.isSome_some] at hflag
      simp [World.tc, hd, TObj.derefLocal, CState.leaves, ownTc, ← hflag]
  simp only [TObj.setP, CState.resolve, TObj.setDirect, htc, leaf_setPC_own]

/-! ## the copy as found -/

/-- **legacy_copy_shares_witness**: with the copy constructor as found (`Legacy.cloneStep`: the
copied parameter keeps the pointer to the source's domain object) the copy's `value` ends at 8
under the constraint `[2,4]` — a parameter holding a value its constraint rejects, changed by an
operation on another object.  With the repaired copy constructor the same history leaves the
copy at 8 under its own `[0,10]`. -/
theorem legacy_copy_shares_witness :
    copyStatus (afterCopy (Legacy.cloneStep wSrc 0)) = some (some (.fin 2, .fin 4), false) ∧
    copyStatus (afterCopy (WOp.step noParent wSrc (.clone 0)).1) = some (some (.fin 0, .fin 10), true) := by
  constructor <;> decide +kernel

/-! ## non-vacuity -/

/-- a well-formed world with a tied leaf, its copy, a compound over a tied leaf and a copy of the
compound: the hypotheses of `copy_independent` are met with ties that are not trivial -/
example :
    let w := WOp.run noParent World.empty
      [.add (.const (ConstSt.make 3)), .restrict 0 (Interval.make (.fin 0) (.fin 10) true true 0), .clone 0,
       .wrapInvar 0 (1/4) 0, .clone 0]
    w.WF ∧ (w.objs.map (fun o => o.slots.map (fun s => (s.id, s.tie, s.ctie)))) =
      [[(0, some 0, some 0)], [(1, some 1, none)], [(2, some 2, some 2)]] := by
  refine ⟨world_owned_from_empty noParent _, ?_⟩
  decide +kernel

end Bpp.C09
