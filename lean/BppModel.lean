import BppModel.Drive.C20
import BppModel.Proto
import BppModel.Range
