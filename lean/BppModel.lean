import BppModel.Drive.C05
import BppModel.Drive.C20
import BppModel.Generated.LUConstants
import BppModel.LU
import BppModel.Prelude.Scalar
import BppModel.Proto
import BppModel.Range
