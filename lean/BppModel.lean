import BppModel.Drive.C20
import BppModel.Prelude.Scalar
import BppModel.Proto
import BppModel.Range
