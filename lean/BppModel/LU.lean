import BppModel.Prelude.Scalar
import BppModel.Generated.LUConstants
/-!
# Model of `Bpp/Numeric/Matrix/LUDecomposition.h` and of `MatrixTools::inv` / `MatrixTools::det`

A bug-compatible transcription, generic over `[Scalar α]` (run at `Float` and `Rat` by the driver,
reasoned about at `ℝ` in `BppProofs`).  Core Lean only.

Matrices are `Vector (Vector α n) m`, indexed by `Fin`: every element access of the model is
in bounds *by typing*.  Where the C++ would read or write outside a container for some shapes
(`LU(k,k)` with `k ≥ m`, `LU(0,0)` of an empty matrix, `LU(i,i)` with `i ≥ n`, `nx - 1` with
`nx = 0`) the model returns the explicit outcome `Err.ub` — it never invents a value.

How the loops are transcribed.  The outer loops (`k` over columns in the constructor, `k` upwards
in the forward and downwards in the back substitution, `i` in the pivot search, `j` in `det`,
`i` in the smallest-pivot scan) are folds in source order.  The two inner loops of one outer
iteration (`i`,`j`) are written as one entry-wise formula for the matrix after the iteration:
within one iteration every entry is written at most once and the entries read (row `k`, the
multiplier `LU(i,k)` just stored, the entry itself) are either untouched by the iteration or the
value written just before, so each entry undergoes exactly the same floating-point operations, in
the same order, as in the C++ (checked bit-for-bit by the correspondence run).
-/
namespace Bpp.LU
open Bpp

/-- a dense `m × n` matrix -/
abbrev Mat (α : Type) (m n : Nat) := Vector (Vector α n) m

namespace Mat
variable {α : Type} {m n : Nat}
@[inline] def get (M : Mat α m n) (i : Fin m) (j : Fin n) : α := (M[i.val]'i.isLt)[j.val]'j.isLt
@[inline] def ofFn (f : Fin m → Fin n → α) : Mat α m n := Vector.ofFn fun i => Vector.ofFn fun j => f i j
end Mat

/-- outcomes other than a normal return -/
inductive Err where
  /-- undefined behaviour in the C++ (out-of-range element access / wrapped loop bound) -/
  | ub
  /-- `BadIntegerException` (`LUDecomposition.h:317`) -/
  | badInteger
  /-- `ZeroDivisionException` (`LUDecomposition.h:330`) -/
  | zeroDivision
  /-- `DimensionException` (`MatrixTools.h:812,831`) -/
  | dimension
  deriving DecidableEq, Repr

variable {α : Type} [Scalar α]

/-- `NumTools::abs<T>(a) = a < 0 ? -a : a` (`NumTools.h:31`) — not `fabs`: `-0.0` and NaN are
returned unchanged -/
def numAbs (a : α) : α := if Scalar.ltb a Scalar.zero then -a else a

/-- `NumConstants::SMALL()`, regenerated from the sources by `tools/gen_lu_constants.py` -/
def threshold : α := Scalar.ofRat Generated.thresholdNum Generated.thresholdDen

/-- the guard `minD < NumConstants::SMALL()` (`LUDecomposition.h:328`) -/
def belowThreshold (d : α) : Bool :=
  if Generated.thresholdStrict then Scalar.ltb d threshold else Scalar.leb d threshold

/-- the object's data members `LU`, `piv`, `pivsign` (`LUDecomposition.h:40-45`); `m`,`n` are the
type indices.  `piv` holds row numbers of `A`: they are `< m` by typing, which is what makes
`A(piv[i], j)` in `permuteCopy` an in-range access. -/
structure State (α : Type) (m n : Nat) where
  lu : Mat α m n
  piv : Vector (Fin m) m
  pivsign : Int

variable {m n : Nat}

/-- pivot search (`LUDecomposition.h:185-192`): `p = k; for i in k+1..m-1: if |LU(i,k)| > |LU(p,k)| then p = i`
(strict `>`: the first row of maximal magnitude wins) -/
def findPivot (W : Mat α m n) (k : Fin n) (kr : Fin m) : Fin m :=
  Fin.foldl m (fun p i =>
    if kr.val < i.val then
      (if Scalar.gtb (numAbs (W.get i k)) (numAbs (W.get p k)) then i else p)
    else p) kr

/-- exchange of rows `p` and `k` over all `n` columns (`LUDecomposition.h:196-199`) -/
def swapRows (W : Mat α m n) (p k : Fin m) : Mat α m n :=
  Mat.ofFn fun i j => if i = k then W.get p j else if i = p then W.get k j else W.get i j

/-- `t = piv[p]; piv[p] = piv[k]; piv[k] = t` (`LUDecomposition.h:200`) -/
def swapPiv (piv : Vector (Fin m) m) (p k : Fin m) : Vector (Fin m) m :=
  Vector.ofFn fun i => if i = k then piv[p.val]'p.isLt else if i = p then piv[k.val]'k.isLt else piv[i.val]'i.isLt

/-- "Exchange if necessary" (`LUDecomposition.h:194-202`) -/
def exchange (s : State α m n) (p kr : Fin m) : State α m n :=
  if p ≠ kr then
    { lu := swapRows s.lu p kr, piv := swapPiv s.piv p kr, pivsign := - s.pivsign }
  else s

/-- "Compute multipliers and eliminate k-th column" (`LUDecomposition.h:204-214`); skipped when the
pivot compares equal to `0.0`.  Row `i > k`: `LU(i,k) /= LU(k,k)`, then for `j > k`:
`LU(i,j) -= LU(i,k) * LU(k,j)` with the quotient just stored. -/
def eliminate (W : Mat α m n) (k : Fin n) (kr : Fin m) : Mat α m n :=
  if Scalar.eqb (W.get kr k) Scalar.zero then W
  else Mat.ofFn fun i j =>
    if kr.val < i.val then
      (if j = k then W.get i k / W.get kr k
       else if k.val < j.val then W.get i j - (W.get i k / W.get kr k) * W.get kr j
       else W.get i j)
    else W.get i j

/-- one iteration of the main loop (`LUDecomposition.h:182-215`); `h : n ≤ m` makes row `k` exist -/
def step (h : n ≤ m) (s : State α m n) (k : Fin n) : State α m n :=
  let kr : Fin m := k.castLE h
  let s1 := exchange s (findPivot s.lu k kr) kr
  { s1 with lu := eliminate s1.lu k kr }

/-- initial members: `LU(A)`, `piv[i] = i`, `pivsign(1)` (`LUDecomposition.h:168-180`) -/
def init (A : Mat α m n) : State α m n :=
  { lu := A, piv := Vector.ofFn fun i => i, pivsign := 1 }

/-- the constructor's main loop for `n ≤ m` -/
def factor (h : n ≤ m) (A : Mat α m n) : State α m n :=
  Fin.foldl n (step h) (init A)

/-- the constructor (`LUDecomposition.h:168-216`).  For `m < n` iteration `k = m` evaluates
`LU(m,m)`: a read outside `std::vector` — undefined behaviour. -/
def construct (A : Mat α m n) : Except Err (State α m n) :=
  if h : n ≤ m then .ok (factor h A) else .error .ub

/-- `getL` (`LUDecomposition.h:223-244`): `m × n` -/
def getL (s : State α m n) : Mat α m n :=
  Mat.ofFn fun i j => if j.val < i.val then s.lu.get i j else if i.val = j.val then Scalar.one else Scalar.zero

/-- `getU` (`LUDecomposition.h:251-268`): `n × n`, reads rows `i < n` of `LU` (`n ≤ m`) -/
def getU (h : n ≤ m) (s : State α m n) : Mat α n n :=
  Mat.ofFn fun i j => if i.val ≤ j.val then s.lu.get (i.castLE h) j else Scalar.zero

/-- `getPivot` (`LUDecomposition.h:275-278`) -/
def getPivot (s : State α m n) : Vector (Fin m) m := s.piv

/-- `det` (`LUDecomposition.h:286-298`): `0` when not square, else `Real(pivsign)` times the
diagonal entries, multiplied in increasing order -/
def det (s : State α m n) : α :=
  if h : n = m then
    Fin.foldl n (fun d j => d * s.lu.get (j.cast h) j) (Scalar.ofInt s.pivsign)
  else Scalar.zero

/-- the smallest-magnitude scan of `solve` (`LUDecomposition.h:320-326`):
`minD = |LU(0,0)|; for i in 1..m-1: c = |LU(i,i)|; if c < minD then minD = c` -/
def minDiag (s : State α m n) (h : n = m) (hn : 0 < n) : α :=
  Fin.foldl n (fun d i =>
    if 0 < i.val then
      (if Scalar.ltb (numAbs (s.lu.get (i.cast h) i)) d then numAbs (s.lu.get (i.cast h) i) else d)
    else d) (numAbs (s.lu.get ((⟨0, hn⟩ : Fin n).cast h) ⟨0, hn⟩))

/-- `permuteCopy(B, piv, 0, nx-1, X)` (`LUDecomposition.h:48-61`): `X(i,j) = B(piv[i], j)` -/
def permuteCopy {mb nx : Nat} (B : Mat α mb nx) (hb : mb = m) (piv : Vector (Fin m) m) : Mat α m nx :=
  Mat.ofFn fun i j => B.get ((piv[i.val]'i.isLt).cast hb.symm) j

/-- iteration `k` of "Solve L*Y = B(piv,:)" (`LUDecomposition.h:348-358`):
rows `i > k`: `X(i,j) -= X(k,j) * LU(i,k)` -/
def fwdStep {nx : Nat} (s : State α m n) (h : n = m) (X : Mat α m nx) (k : Fin n) : Mat α m nx :=
  Mat.ofFn fun i j =>
    if k.val < i.val then X.get i j - X.get (k.cast h) j * s.lu.get i k else X.get i j

/-- iteration `k` of "Solve U*X = Y" (`LUDecomposition.h:359-379`): `X(k,j) /= LU(k,k)`, then rows
`i < k`: `X(i,j) -= X(k,j) * LU(i,k)` with the quotient just stored -/
def backStep {nx : Nat} (s : State α m n) (h : n = m) (k : Fin n) (X : Mat α m nx) : Mat α m nx :=
  Mat.ofFn fun i j =>
    if i.val = k.val then X.get (k.cast h) j / s.lu.get (k.cast h) k
    else if i.val < k.val then X.get i j - (X.get (k.cast h) j / s.lu.get (k.cast h) k) * s.lu.get i k
    else X.get i j

/-- the two substitution sweeps: `k = 0..n-1` forwards, then `k = n-1..0` backwards (`do … while (k > 0)`) -/
def substitute {nx : Nat} (s : State α m n) (h : n = m) (X : Mat α m nx) : Mat α m nx :=
  Fin.foldr n (backStep s h) (Fin.foldl n (fwdStep s h) X)

/-- matrix `solve` (`LUDecomposition.h:311-382`).  Order of events as in the source:
1. `B.getNumberOfRows() != m` → `BadIntegerException`;
2. smallest-magnitude scan: reads `LU(0,0)` and `LU(i,i)` for `i < m` — out of range unless
   `m = n ≥ 1` (the constructor already needs `n ≤ m`) → `ub`;
3. `minD < SMALL` → `ZeroDivisionException`;
4. `nx - 1` wraps for `nx = 0` and `permuteCopy` then writes `X(i,0)` of a matrix without
   columns → `ub`;
5. permuted copy, forward and back substitution; returns `minD`. -/
def solve {mb nx : Nat} (s : State α m n) (B : Mat α mb nx) : Except Err (α × Mat α m nx) :=
  if hb : mb = m then
    if hsq : n = m ∧ 0 < n then
      let d := minDiag s hsq.1 hsq.2
      if belowThreshold d then .error .zeroDivision
      else if 0 < nx then
        .ok (d, substitute s hsq.1 (permuteCopy B hb s.piv))
      else .error .ub
    else .error .ub
  else .error .badInteger

/-! ### the `std::vector` overload of `solve` (`LUDecomposition.h:395-443`)

The same statements as the matrix overload with the column loop removed (and no `nx - 1`). -/

/-- `permuteCopy(b, piv, x)` (`LUDecomposition.h:63-82`): `x[i] = b[piv[i]]` -/
def permuteCopyV {mb : Nat} (b : Vector α mb) (hb : mb = m) (piv : Vector (Fin m) m) : Vector α m :=
  Vector.ofFn fun i => b[((piv[i.val]'i.isLt).cast hb.symm).val]'((piv[i.val]'i.isLt).cast hb.symm).isLt

/-- rows `i > k`: `x[i] -= x[k] * LU(i,k)` -/
def fwdStepV (s : State α m n) (h : n = m) (x : Vector α m) (k : Fin n) : Vector α m :=
  Vector.ofFn fun i =>
    if k.val < i.val then x[i.val]'i.isLt - x[(k.cast h).val]'(k.cast h).isLt * s.lu.get i k else x[i.val]'i.isLt

/-- `x[k] /= LU(k,k)`, then rows `i < k`: `x[i] -= x[k] * LU(i,k)` -/
def backStepV (s : State α m n) (h : n = m) (k : Fin n) (x : Vector α m) : Vector α m :=
  Vector.ofFn fun i =>
    if i.val = k.val then x[(k.cast h).val]'(k.cast h).isLt / s.lu.get (k.cast h) k
    else if i.val < k.val then
      x[i.val]'i.isLt - (x[(k.cast h).val]'(k.cast h).isLt / s.lu.get (k.cast h) k) * s.lu.get i k
    else x[i.val]'i.isLt

/-- vector `solve`: height check, smallest-pivot scan (`ub` unless `m = n ≥ 1`), singularity
guard, permuted copy, the two sweeps -/
def solveVec {mb : Nat} (s : State α m n) (b : Vector α mb) : Except Err (α × Vector α m) :=
  if hb : mb = m then
    if hsq : n = m ∧ 0 < n then
      let d := minDiag s hsq.1 hsq.2
      if belowThreshold d then .error .zeroDivision
      else .ok (d, Fin.foldr n (backStepV s hsq.1) (Fin.foldl n (fwdStepV s hsq.1) (permuteCopyV b hb s.piv)))
    else .error .ub
  else .error .badInteger

/-- `MatrixTools::getId(n, O)` (`MatrixTools.h:107-117`) -/
def identity (k : Nat) : Mat α k k :=
  Mat.ofFn fun i j => if i.val = j.val then Scalar.ofInt 1 else Scalar.ofInt 0

/-- `MatrixTools::inv(A, O)` (`MatrixTools.h:810-817`) -/
def inv (A : Mat α m n) : Except Err (α × Mat α m m) :=
  if m ≠ n then .error .dimension
  else match construct A with
    | .error e => .error e
    | .ok s => solve s (identity m)

/-- `MatrixTools::det(A)` (`MatrixTools.h:829-834`) -/
def matDet (A : Mat α m n) : Except Err α :=
  if m ≠ n then .error .dimension
  else match construct A with
    | .error e => .error e
    | .ok s => .ok (det s)

/-! ## Specification vocabulary

Executable definitions in which the property theorems are stated, and which the driver evaluates
(at `Rat`, exactly) on the *implementation's* answers. -/
section Spec

/-- `Σ_{l<k} f l`, summed in increasing order -/
def sumFin (k : Nat) (f : Fin k → α) : α := Fin.foldl k (fun acc l => acc + f l) Scalar.zero

/-- matrix product from the definition -/
def matMul {k : Nat} (A : Mat α m k) (B : Mat α k n) : Mat α m n :=
  Mat.ofFn fun i j => sumFin k fun l => A.get i l * B.get l j

/-- `A(piv,:)`: the rows of `A` in the order given by the pivot vector (`P·A`) -/
def permuteRows (piv : Vector (Fin m) m) (A : Mat α m n) : Mat α m n :=
  Mat.ofFn fun i j => A.get (piv[i.val]'i.isLt) j

/-- a vector read as a one-column matrix -/
def colMat (v : Vector α m) : Mat α m 1 := Mat.ofFn fun i _ => v[i.val]'i.isLt

/-- transpose -/
def transpose (A : Mat α m n) : Mat α n m := Mat.ofFn fun i j => A.get j i

/-- ones on the diagonal, zeros above it -/
def UnitLower (L : Mat α m n) : Prop :=
  ∀ (i : Fin m) (j : Fin n), (i.val = j.val → L.get i j = Scalar.one) ∧ (i.val < j.val → L.get i j = Scalar.zero)

/-- zeros below the diagonal -/
def Upper {k : Nat} (U : Mat α k n) : Prop :=
  ∀ (i : Fin k) (j : Fin n), j.val < i.val → U.get i j = Scalar.zero

/-- the pivot vector has no repeated entry (hence is a permutation of the row numbers) -/
def PivInjective (piv : Vector (Fin m) m) : Prop :=
  ∀ (i j : Fin m), piv[i.val]'i.isLt = piv[j.val]'j.isLt → i = j

/-- the sign of the row permutation as the product over all position pairs `i < j` of
`+1` (in order) / `-1` (inversion) -/
def pivSignOf (piv : Vector (Fin m) m) : Int :=
  Fin.foldl m (fun acc j =>
    acc * Fin.foldl m (fun a i =>
      a * (if i.val < j.val then
            (if (piv[i.val]'i.isLt).val < (piv[j.val]'j.isLt).val then 1 else -1)
          else 1)) 1) 1

end Spec

end Bpp.LU
