import BppModel.Prelude.Scalar
/-
C06 — the parts of the eigen-decomposition code that are logic (DESIGN §7 C06).

Transcribed (bug-compatibly) from  (line numbers: the library tree of branch fix-C06, i.e. with the
verification hooks and the round-2 repair of hqr2; they move when hooks are added)
  src/Bpp/Numeric/Matrix/EigenValue.h
    * 590-608   `cdiv`            complex scalar division (Smith's formulas)
    * 1280-1286 symmetry test of the constructor (and the dispatch on its result, 1289 / 1305)
    * 1381-1400 `getD`            assembly of the block-diagonal matrix D from (d, e)
  src/Bpp/Numeric/Matrix/MatrixTools.h
    * 296-316   `mult(A, D, B, O)`   A · diag(D) · B
    * 526-535   `pow(A, double p, O)`   V · diag(λ^p) · V⁻¹
    * 548-557   `exp(A, O)`             V · diag(exp λ) · V⁻¹
  src/Bpp/Numeric/VectorTools.h 809-815 / 857-863  entry-wise exp / pow of a vector.

NOT transcribed: tred2 / tql2 / orthes / hqr2 (the QL / QR iterations) and the LU inverse.
They appear in the glue as *parameters* (`V`, `lam`, `W`): theorems hold for every value of
these parameters that satisfies the stated hypotheses (A·V = V·diag λ, V·W = 1); how closely the
implementation's values satisfy these hypotheses is explored by the driver, not proved.

Everything is generic over `[Scalar α]`: `Float` in the driver, `Rat` for exact residuals,
`ℝ` in the theorems.  Core Lean only.
-/
namespace Bpp.EigenGlue
open Bpp Scalar

/-- outcomes other than a value -/
inductive Err where
  /-- undefined behaviour in the C++: a write outside a `std::vector` -/
  | ub
  /-- `DimensionException` -/
  | dimension
  deriving DecidableEq, Repr, Inhabited

/-- a dense matrix seen through `operator()(i, j)`; the three storage classes
(`RowMatrix`, `ColMatrix`, `LinearMatrix`) differ only in how this function is stored -/
abbrev FMat (α : Type) := Nat → Nat → α

variable {α : Type} [Scalar α]

/-! ## cdiv   (EigenValue.h:590-608) -/

/-- `NumTools::abs<T>(a)` = `a < 0 ? -a : a`   (NumTools.h:31) -/
def nabs (a : α) : α := if ltb a zero then -a else a

/-- `(cdivr, cdivi)` after `cdiv(xr, xi, yr, yi)` -/
def cdiv (xr xi yr yi : α) : α × α :=
  if gtb (nabs yr) (nabs yi) then
    let r := yi / yr
    let d := yr + r * yi
    ((xr + r * xi) / d, (xi - r * xr) / d)
  else
    let r := yr / yi
    let d := yi + r * yr
    ((r * xr + xi) / d, (r * xi - xr) / d)

/-! ## symmetry test and dispatch   (EigenValue.h:1280-1286, 1289, 1305)

```
for (size_t j = 0; (j < n_) && issymmetric_; j++)
  for (size_t i = 0; (i < n_) && issymmetric_; i++)
    issymmetric_ = (A(i, j) == A(j, i));
```
`List.all` stops at the first `false`, like the two loop guards.
`n_` is the number of *columns*; the constructor does not check that `A` is square (for fewer rows
than columns the reads `A(i, j)` would be out of range). The property quantifies over square
matrices and the harness refuses anything else, so the model takes one size `n`. -/
def isSymmetric (n : Nat) (A : FMat α) : Bool :=
  (List.range n).all fun j => (List.range n).all fun i => eqb (A i j) (A j i)

/-- which pair of kernels the constructor runs -/
inductive Route where
  | tred2_tql2
  | orthes_hqr2
  deriving DecidableEq, Repr

def dispatch (n : Nat) (A : FMat α) : Route :=
  if isSymmetric n A then .tred2_tql2 else .orthes_hqr2

/-! ## getD   (EigenValue.h:1381-1400)

```
for (size_t i = 0; i < n_; i++) {
  for (size_t j = 0; j < n_; j++) D_(i, j) = 0.0;
  D_(i, i) = d_[i];
  if (e_[i] > 0)      D_(i, i + 1) = e_[i];
  else if (e_[i] < 0) D_(i, i - 1) = e_[i];
}
```
`D_` is a `RowMatrix` (`std::vector<std::vector<Real>>`, `operator()` is `m_[i][j]` without a
check): a column index `≥ n` is a write outside the row vector = undefined behaviour.
`i - 1` at `i = 0` is `SIZE_MAX` (unsigned wrap), also out of range. -/

/-- `row[j] = x` on a `std::vector` of size `row.size` -/
def writeAt (row : Array α) (j : Nat) (x : α) : Except Err (Array α) :=
  if j < row.size then .ok (row.set! j x) else .error .ub

/-- row `i` of `D_` after the body of the outer loop -/
def getDRow (n : Nat) (d e : Nat → α) (i : Nat) : Except Err (Array α) := do
  let row : Array α := Array.replicate n zero
  let row ← writeAt row i (d i)
  if gtb (e i) zero then
    writeAt row (i + 1) (e i)
  else if ltb (e i) zero then
    (if i = 0 then .error .ub       -- size_t(0) - 1 = SIZE_MAX
     else writeAt row (i - 1) (e i))
  else
    .ok row

/-- rows `0 .. k-1` -/
def getDRows (n : Nat) (d e : Nat → α) : Nat → Except Err (List (Array α))
  | 0 => .ok []
  | k + 1 => do
    let rs ← getDRows n d e k
    let r ← getDRow n d e k
    pure (rs ++ [r])

/-- `getD()`: the `n` rows, or `ub` -/
def getD (n : Nat) (d e : Nat → α) : Except Err (List (Array α)) := getDRows n d e n

/-- `D(i, j)` of a result of `getD` (no default value: `none` outside the matrix) -/
def entry? (rows : List (Array α)) (i j : Nat) : Option α := (rows[i]?).bind (·[j]?)

/-- what the documentation of `getD` promises, entry by entry -/
def blockEntry (d e : Nat → α) (i j : Nat) : α :=
  if j = i then d i
  else if j = i + 1 ∧ gtb (e i) zero then e i
  else if j + 1 = i ∧ ltb (e i) zero then e i
  else zero

/-- the shape of `(d, e)` that `hqr2` produces: a positive imaginary part is followed by its
conjugate, a negative one is preceded by it (Bool version, run by the driver on the
implementation's lists; `BppProofs/Lemmas/EigenGlue.lean` connects it with the `Prop`) -/
def pairsWFb (n : Nat) (d e : Nat → α) : Bool :=
  (List.range n).all fun i =>
    (if gtb (e i) zero then
      decide (i + 1 < n) && eqb (e (i + 1)) (-(e i)) && eqb (d (i + 1)) (d i) else true) &&
    (if ltb (e i) zero then
      decide (0 < i) && eqb (e (i - 1)) (-(e i)) && eqb (d (i - 1)) (d i) else true)

/-- the product of the spectrum read off `(d, e)`: a real eigenvalue contributes `d`, a conjugate
pair `d² + e²` (counted once, at its member with positive imaginary part) -/
def spectrumProd (n : Nat) (d e : Nat → α) : α :=
  (List.range n).foldl (fun acc i =>
    if gtb (e i) zero then acc * (d i * d i + e i * e i)
    else if ltb (e i) zero then acc
    else acc * d i) one

/-- the sum of the real parts -/
def spectrumSum (n : Nat) (d : Nat → α) : α :=
  (List.range n).foldl (fun acc i => acc + d i) zero

/-! ## A · diag(D) · B   (MatrixTools.h:296-316)

```
O(i, j) = 0;
for (size_t k = 0; k < ncA; k++) O(i, j) += A(i, k) * B(k, j) * D[k];
``` -/
def multDiagEntry (n : Nat) (A : FMat α) (D : Nat → α) (B : FMat α) (i j : Nat) : α :=
  (List.range n).foldl (fun acc k => acc + A i k * B k j * D k) zero

/-- plain product entry (MatrixTools.h:221-239), used for residuals -/
def multEntry (n : Nat) (A B : FMat α) (i j : Nat) : α :=
  (List.range n).foldl (fun acc k => acc + A i k * B k j) zero

def tabulate (nr nc : Nat) (f : FMat α) : List (List α) :=
  (List.range nr).map fun i => (List.range nc).map fun j => f i j

/-! ## pow(A, double p) and exp(A)   (MatrixTools.h:526-557)

```
size_t n = A.getNumberOfRows();
if (n != A.getNumberOfColumns()) throw DimensionException(...);
EigenValue<Scalar> eigen(A);
rightEV = eigen.getV();   inv(rightEV, leftEV);
mult(rightEV, VectorTools::pow(eigen.getRealEigenValues(), p), leftEV, O);
```
`V`, `lam` (the *real parts* of the eigenvalues: the imaginary parts are ignored by the code)
and `W = inv(V)` are the untranscribed parts, taken as parameters. -/
def glue (f : α → α) (nr nc : Nat) (V : FMat α) (lam : Nat → α) (W : FMat α) :
    Except Err (FMat α) :=
  if nr ≠ nc then .error .dimension
  else .ok (multDiagEntry nr V (fun k => f (lam k)) W)

def powGlue (nr nc : Nat) (V : FMat α) (lam : Nat → α) (W : FMat α) (p : α) : Except Err (FMat α) :=
  glue (fun x => Scalar.pow x p) nr nc V lam W

def expGlue (nr nc : Nat) (V : FMat α) (lam : Nat → α) (W : FMat α) : Except Err (FMat α) :=
  glue Scalar.exp nr nc V lam W

end Bpp.EigenGlue
