import BppModel.ParamList
/-
Completion of the model of `bpp::ParameterList` / `bpp::AbstractParametrizable` (C02, round 2).

`BppModel/ParamList.lean` is imported by other properties' models and is left as it is; this
file adds, on top of it,

* the two whole-parameter setters as they are after the repair
  `fix: ParameterList::setAllParameters / setParameters assign nothing when a name is missing`
  (the definitions of `ParamList.lean` are the second pass of the repaired routines, and the whole
  routine as it was before);
* the positional and by-name accessors (`operator[]`, `getParameter(i)`, `parameter(name)`,
  `getParameter(name)`), whose answer is an *object*, not a value;
* the read routes of `AbstractParametrizable` that prepend the namespace
  (`hasParameter`, `parameter`, `getParameter`, `getParameterValue`, `getParameter_`,
  `getParameterNameWithoutNamespace`);
* an extended machine `xstep` over `XOp` = the operations of `ParamList.Op` plus the new ones.

Core Lean only.
-/
namespace Bpp.ParamList

/-! ## Whole-parameter assignment, repaired code (ParameterList.cpp:457-486) -/

/-- `setAllParameters(params)` (457-470, repaired): a first pass looks up every name of *this*
list in `params` (ParameterNotFoundException before anything is assigned), the second pass is
`ParamList.setAllParameters`. -/
def setAllParametersA (h : Store) (src l : List ObjId) : HR :=
  if l.all (fun i => hasParameter h src (nameOf h i)) then setAllParameters h src l
  else { heap := h, err := some .notfound }

/-- `setParameters(params)` (473-486, repaired): a first pass looks up every name of `params` in
*this* list, the second pass is `ParamList.setParameters`. -/
def setParametersA (h : Store) (l src : List ObjId) : HR :=
  if src.all (fun s => hasParameter h l (nameOf h s)) then setParameters h l src
  else { heap := h, err := some .notfound }

/-! ## Accessors answering an object -/

/-- `operator[](i)`, `getParameter(i)` (ParameterList.h:62-70): no range check in the code;
`none` = the index is out of range = undefined behaviour (never executed by the harness). -/
def at? (l : List ObjId) (i : Nat) : Option ObjId := l[i]?

/-- `parameter(name)` / `getParameter(name)`, const and non-const (ParameterList.cpp:52-114):
the first object carrying the name, else ParameterNotFoundException -/
def parameterNamed (h : Store) (l : List ObjId) (n : String) : Except Err ObjId :=
  match find? h l n with
  | some i => .ok i
  | none => .error .notfound

/-! ## AbstractParametrizable: read routes through the namespace (AbstractParametrizable.h) -/

/-- `hasParameter(name)` (h:39): `parameters_.hasParameter(prefix_ + name)` -/
def apHasParameter (h : Store) (l : List ObjId) (pre n : String) : Bool := hasParameter h l (pre ++ n)

/-- `parameter(name)` (h:43-46), `getParameter(name)` (h:48-51), `getParameter_(name)` (h:164-169:
`hasParameter(name)` first, then `parameters_.parameter(prefix_ + name)`; both raise
ParameterNotFoundException), `getParameterWithNamespace_(name)` (h:176-188, same thing) -/
def apParameterNamed (h : Store) (l : List ObjId) (pre n : String) : Except Err ObjId :=
  parameterNamed h l (pre ++ n)

/-- `getParameterValue(name)` (h:53-56) -/
def apGetParameterValue (h : Store) (l : List ObjId) (pre n : String) : Except Err Rat :=
  getParameterValue h l (pre ++ n)

/-- `getParameter_(index)` (h:190-202): IndexOutOfBoundsException when out of range -/
def apParameterAt (l : List ObjId) (i : Nat) : Except Err ObjId :=
  match l[i]? with
  | some x => .ok x
  | none => .error .index

/-- `getParameterNameWithoutNamespace(name)` (AbstractParametrizable.cpp:28-34) -/
def nameWithoutNamespace (pre name : String) : String :=
  if startsWith name pre then String.ofList (name.toList.drop pre.length) else name

/-! ## The extended machine -/

inductive XOp where
  /-- every operation of `ParamList.Op`; also used for the protected forwarders of
  `AbstractParametrizable` (`addParameter_`, `addParameters_`, `shareParameter_`, `shareParameters_`,
  `includeParameters_`, `deleteParameter_` ×2, `deleteParameters_`, `resetParameters_`), whose body
  is the single list-level call on the owner's list (h:111-157) -/
  | base (op : Op)
  | setAllParamsA (k j : Nat)               -- `L[k].setAllParameters(L[j])`, repaired code
  | setParamsA (k j : Nat)                  -- `L[k].setParameters(L[j])`, repaired code
  | nth (k i : Nat)                         -- `L[k][i]`, `L[k].getParameter(i)` (4 overloads)
  | param (k : Nat) (name : String)         -- `L[k].parameter(name)`, `.getParameter(name)` (4 overloads)
  | apAddNull (k : Nat)                     -- owner of `L[k]`: `addParameter_(nullptr)` (h:111-115)
  | apHas (k : Nat) (name : String)
  | apParam (k : Nat) (name : String)       -- `parameter`, `getParameter`, `getParameter_`, `getParameterWithNamespace_`
  | apGetValue (k : Nat) (name : String)
  | apAt (k i : Nat)                        -- `getParameter_(index)`
  | apNameNoNs (k : Nat) (name : String)    -- `getParameterNameWithoutNamespace(name)`
  /-- owner of `L[j]` := copy of the owner of `L[k]` (implicit copy constructor / copy assignment of
  `AbstractParametrizable`: `parameters_` through the cloning copy constructor / `operator=` of
  `ParameterList`, `prefix_` copied) -/
  | apCopy (k j : Nat)

inductive XOut where
  | base (o : Out)
  /-- a reference to / shared pointer on a parameter object -/
  | obj (i : ObjId)
  /-- the call would be undefined behaviour (index out of range without a check) -/
  | ub
  | str (s : String)
  deriving DecidableEq

structure XAns where
  out : XOut
  fired : Option (List ObjId) := none

def XOut.isErr : XOut → Bool
  | .base o => o.isErr
  | _ => false

def xOfExcept (s : State) : Except Err ObjId → State × XAns
  | .ok i => (s, ⟨.obj i, none⟩)
  | .error e => (s, ⟨.base (.err e), none⟩)

def xstep (s : State) : XOp → State × XAns
  | .base op => let r := step s op; (r.1, ⟨.base r.2.out, r.2.fired⟩)
  | .setAllParamsA k j =>
    let r := setAllParametersA s.heap (s.lists j) (s.lists k)
    (s.withHeap r.heap, ⟨.base (.ofErr r.err), none⟩)
  | .setParamsA k j =>
    let r := setParametersA s.heap (s.lists k) (s.lists j)
    (s.withHeap r.heap, ⟨.base (.ofErr r.err), none⟩)
  | .nth k i =>
    match at? (s.lists k) i with
    | some x => (s, ⟨.obj x, none⟩)
    | none => (s, ⟨.ub, none⟩)
  | .param k n => xOfExcept s (parameterNamed s.heap (s.lists k) n)
  | .apAddNull _ => (s, ⟨.base .ok, none⟩)
  | .apHas k n => (s, ⟨.base (.bool (apHasParameter s.heap (s.lists k) (s.pre k) n)), none⟩)
  | .apParam k n => xOfExcept s (apParameterNamed s.heap (s.lists k) (s.pre k) n)
  | .apGetValue k n =>
    match apGetParameterValue s.heap (s.lists k) (s.pre k) n with
    | .ok v => (s, ⟨.base (.val v), none⟩)
    | .error e => (s, ⟨.base (.err e), none⟩)
  | .apAt k i => xOfExcept s (apParameterAt (s.lists k) i)
  | .apNameNoNs k n => (s, ⟨.str (nameWithoutNamespace (s.pre k) n), none⟩)
  | .apCopy k j =>
    let r := cloneAll s.heap (s.lists k)
    ({ (s.withHeap r.1).setList j r.2 with pre := fun x => if x = j then s.pre k else s.pre x },
     ⟨.base .ok, none⟩)

def xrun (s : State) : List XOp → State
  | [] => s
  | op :: rest => xrun (xstep s op).1 rest

end Bpp.ParamList
