import BppModel.Matrix
/-!
# `MatrixTools::lap` (`MatrixTools.h:1267-1569`): the linear assignment problem

## Specification

What the property demands of `lap` is a statement about its *answer*: `rowSol` is a permutation,
`colSol` its inverse, and the dual variables `u`, `v` certify optimality
(`u i + v j ≤ c i j` everywhere, with equality on the assigned pairs).  `certB` is that predicate
(generic in the scalar; the driver evaluates it exactly in `Rat` on the implementation's answer,
the theorem `lap_certificate` of `Props/C04Lap.lean` proves at `ℝ` that it implies optimality among
all `n!` permutations, for every `n`).  `certTolB` is the same with a slack `ε` on every
(in)equality, for cost matrices whose reduced costs are not exactly representable
(`lap_certificate_approx`: optimal within `2 n ε`).

The routine itself is transcribed in `BppModel/LapFull.lean` (`lapFull`); `lapEasy` below is the
earlier transcription of the part that is executed when the column reduction leaves no free row.
-/
namespace Bpp.Mx.Lap
open Bpp Bpp.Mx

section Cert
variable {α : Type} [Scalar α]
open Scalar

def allLt (n : Nat) (p : Nat → Bool) : Bool := (List.range n).all p

/-- `σ` maps `{0..n-1}` into itself and `ρ` is a left inverse of it there (hence `σ` is a
permutation of `{0..n-1}`) -/
def permB (n : Nat) (σ ρ : Nat → Nat) : Bool :=
  allLt n fun i => decide (σ i < n) && decide (ρ (σ i) = i)

/-- dual feasibility and complementary slackness, with slack `eps` (`eps = 0`: exact) -/
def certTolB (n : Nat) (c : Nat → Nat → α) (σ : Nat → Nat) (u v : Nat → α) (eps : α) : Bool :=
  (allLt n fun i => allLt n fun j => leb (u i + v j) (c i j + eps)) &&
  (allLt n fun i => leb (c i (σ i)) (u i + v (σ i) + eps))

/-- the exact certificate: `u i + v j ≤ c i j` for all `i, j < n`, `c i (σ i) ≤ u i + v (σ i)`
(hence equality) on the assignment -/
def certB (n : Nat) (c : Nat → Nat → α) (σ : Nat → Nat) (u v : Nat → α) : Bool :=
  (allLt n fun i => allLt n fun j => leb (u i + v j) (c i j)) &&
  (allLt n fun i => leb (c i (σ i)) (u i + v (σ i)))

/-- total cost of an assignment -/
def cost (n : Nat) (c : Nat → Nat → α) (σ : Nat → Nat) : α := Spec.sumTo n fun i => c i (σ i)

end Cert

/-! ## The part of the routine that is transcribed: inputs without free rows

When the minima of the columns lie in pairwise different rows, the column reduction
(`MatrixTools.h:1305-1329`) assigns every row, the two later phases (augmenting row reduction,
augmentation) find no free row and do nothing, and the answer is produced by the column reduction,
the reduction transfer (`:1332-1351`) and the final loop (`:1548-1555`) alone.  `lapEasy` is a
transcription of exactly these three pieces (it answers `none` when some row stays free); on its
domain the driver compares it bit-for-bit with the implementation and `lapEasy_certified`
(`Props/C04Lap.lean`) proves that its answer is a certified, hence optimal, assignment. -/
section Easy
variable {α : Type} [Scalar α] [ExtCmp α]
open Scalar

/-- row holding the minimum of column `j`: `min = c(0,j); iMin = 0; for i = 1..n-1:
if (c(i,j) < min) { min = c(i,j); iMin = i; }` (strict: the first minimal row) -/
def colMinRow (n : Nat) (c : Nat → Nat → α) (j : Nat) : Nat :=
  (List.range (n - 1)).foldl (fun im t => if ltb (c (t + 1) j) (c im j) then t + 1 else im) 0

/-- the column assigned to row `i` by the column reduction when exactly one column has its minimum
in row `i` (in general: the largest such column, the loop runs `j = n .. 1`) -/
def easyRowSol (n : Nat) (im : Nat → Nat) (i : Nat) : Nat :=
  (List.range n).foldl (fun acc j => if im j = i then j else acc) 0

/-- one column of the scan for the smallest reduced cost: `if (j != j1) if (c(i,j) - v[j] < min) min = …`
(`none` = the initial `+inf`) -/
def tmStep (c : Nat → Nat → α) (v : Nat → α) (i j1 : Nat) (m : Option α) (j : Nat) : Option α :=
  if j = j1 then m else
    let h := c i j - v j
    if (match m with
        | none => ExtCmp.ltPosInf h
        | some x => ltb h x) then some h else m

/-- `min = +inf; for j != j1: if (c(i,j) - v[j] < min) min = c(i,j) - v[j]` -/
def transferMin (n : Nat) (c : Nat → Nat → α) (v : Nat → α) (i j1 : Nat) : Option α :=
  (List.range n).foldl (tmStep c v i j1) none

/-- row `i` of the reduction transfer: `v[j1] = v[j1] - min` -/
def transferStep (n : Nat) (c : Nat → Nat → α) (rowSol : Nat → Nat) (ov : Option (Nat → α)) (i : Nat) : Option (Nat → α) :=
  match ov with
  | none => none
  | some v =>
    match transferMin n c v i (rowSol i) with
    | none => none
    | some m => some (fun j => if j = rowSol i then v (rowSol i) - m else v j)

/-- the reduction transfer over rows `0..k-1` -/
def transfer (n : Nat) (c : Nat → Nat → α) (rowSol : Nat → Nat) (v0 : Nat → α) (k : Nat) : Option (Nat → α) :=
  (List.range k).foldl (transferStep n c rowSol) (some v0)

structure Easy (α : Type) where
  rowSol : Nat → Nat
  colSol : Nat → Nat
  u : Nat → α
  v : Nat → α
  cost : α

/-- the answer of `lap` on an `n × n` cost matrix all of whose rows get assigned by the column
reduction; `none` otherwise -/
def lapEasy (n : Nat) (c : Nat → Nat → α) : Option (Easy α) :=
  let im := colMinRow n c
  let rowSol := easyRowSol n im
  -- no row stays free: every row is the minimum row of exactly one column, i.e. `im` and `rowSol`
  -- are inverse to each other on `0..n-1`
  if allLt n fun i => decide (im (rowSol i) = i) && decide (rowSol (im i) = i) then
    let v0 : Nat → α := fun j => c (im j) j
    match (if n > 1 then transfer n c rowSol v0 n else some v0) with
    | none => none
    | some v =>
      some { rowSol := rowSol, colSol := im, v := v,
             u := fun i => c i (rowSol i) - v (rowSol i),
             cost := (List.range n).foldl (fun s i => s + c i (rowSol i)) zero }
  else none

end Easy

/-- the cheapest completion of a partial assignment of rows `i, i+1, …` to the columns `cols`
(brute force over all permutations; supporting search only) -/
def bruteMin (c : Nat → Nat → Rat) : Nat → Nat → List Nat → Option Rat
  | 0, _, _ => some 0
  | fuel + 1, i, cols =>
    if cols.isEmpty then some 0 else
    cols.foldl (fun best j =>
      match bruteMin c fuel (i + 1) (cols.erase j) with
      | none => best
      | some r =>
        let t := c i j + r
        match best with
        | none => some t
        | some b => some (if t < b then t else b)) none

end Bpp.Mx.Lap
