import BppModel.Matrix
/-!
# `MatrixTools::lap` (`MatrixTools.h:1263-1541`): the linear assignment problem

## Specification (relational model)

What the property demands of `lap` is a statement about its *answer*: `rowSol` is a permutation,
`colSol` its inverse, and the dual variables `u`, `v` certify optimality
(`u i + v j ≤ c i j` everywhere, with equality on the assigned pairs).  `certB` is that predicate
(generic in the scalar; the driver evaluates it exactly in `Rat` on the implementation's answer,
the theorem `lap_certificate` of `Props/C04Lap.lean` proves at `ℝ` that it implies optimality among
all `n!` permutations, for every `n`).  `certTolB` is the same with a slack `ε` on every
(in)equality, for cost matrices whose reduced costs are not exactly representable
(`lap_certificate_approx`: optimal within `2 n ε`).
-/
namespace Bpp.Mx.Lap
open Bpp Bpp.Mx

section Cert
variable {α : Type} [Scalar α]
open Scalar

def allLt (n : Nat) (p : Nat → Bool) : Bool := (List.range n).all p

/-- `σ` maps `{0..n-1}` into itself and `ρ` is a left inverse of it there (hence `σ` is a
permutation of `{0..n-1}`) -/
def permB (n : Nat) (σ ρ : Nat → Nat) : Bool :=
  allLt n fun i => decide (σ i < n) && decide (ρ (σ i) = i)

/-- dual feasibility and complementary slackness, with slack `eps` (`eps = 0`: exact) -/
def certTolB (n : Nat) (c : Nat → Nat → α) (σ : Nat → Nat) (u v : Nat → α) (eps : α) : Bool :=
  (allLt n fun i => allLt n fun j => leb (u i + v j) (c i j + eps)) &&
  (allLt n fun i => leb (c i (σ i)) (u i + v (σ i) + eps))

/-- the exact certificate: `u i + v j ≤ c i j` for all `i, j < n`, `c i (σ i) ≤ u i + v (σ i)`
(hence equality) on the assignment -/
def certB (n : Nat) (c : Nat → Nat → α) (σ : Nat → Nat) (u v : Nat → α) : Bool :=
  (allLt n fun i => allLt n fun j => leb (u i + v j) (c i j)) &&
  (allLt n fun i => leb (c i (σ i)) (u i + v (σ i)))

/-- total cost of an assignment -/
def cost (n : Nat) (c : Nat → Nat → α) (σ : Nat → Nat) : α := Spec.sumTo n fun i => c i (σ i)

end Cert

/-- the cheapest completion of a partial assignment of rows `i, i+1, …` to the columns `cols`
(brute force over all permutations; supporting search only) -/
def bruteMin (c : Nat → Nat → Rat) : Nat → Nat → List Nat → Option Rat
  | 0, _, _ => some 0
  | fuel + 1, i, cols =>
    if cols.isEmpty then some 0 else
    cols.foldl (fun best j =>
      match bruteMin c fuel (i + 1) (cols.erase j) with
      | none => best
      | some r =>
        let t := c i j + r
        match best with
        | none => some t
        | some b => some (if t < b then t else b)) none

end Bpp.Mx.Lap
