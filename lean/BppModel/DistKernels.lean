import BppModel.PNorm
/-!
# The special-function kernels of `RandomTools`, transcribed  (RandomTools.cpp:146-279, 428-949)

Round 2 of C08: what round 1 kept as abstract parameters (`DistGuards.Kernels`) is transcribed
here, generic over `[Scalar α]`, the same operations in the same order as the C++ (the driver
runs it at `Float` and compares bit for bit with the library):

* `incompleteGamma`   cpp:146-219  — argument checks, `x == 0`, `isinf(x)`, far-tail guard, the switch
  `x > 1 && x >= p`, the series loop (l20) and the continued-fraction loop (l32-l42);
* `qChisq`            cpp:222-279  — range guard, the three starting values (closed form with its
  early return, the `v <= .32` iteration l2, Wilson–Hilferty l3 with its tail correction), the AS91
  refinement loop l4 with the error exit when `incompleteGamma` reports an error;
* `incompleteBeta`    cpp:561-667  — domain checks, end points, direct power series, tail swap
  `x > a/(a+b)`, power series after the swap, choice between the two continued fractions, the two
  normalisations (direct / logarithmic), the complement `1 - t` with its clamp on the swapped side;
  sub-kernels `incompletebetaps` (cpp:899-949), `incompletebetafe` (cpp:672-776),
  `incompletebetafe2` (cpp:783-889);
* `qBeta`             cpp:428-558  — domain, end points, tail swap at `prob > 0.5`, the four start
  values, the `lower/upper` reset, the accuracy `acu`, the modified Newton iteration (two nested
  loops, both capped by `niterations = 2000`).

The only function that stays a parameter is `std::lgamma` (`lg`; Lean has no `lgamma`): the
driver takes its values from the implementation at the points the code queries.

Loops that the C++ bounds itself (`n != 300`, `i < niterations`) are modelled with exactly that
bound (`iterCap`).  Loops that the C++ does not bound (`goto l20`, `goto l32`, `goto l2`,
`goto l4`, `while (fabs(v) > z)`) take a fuel argument (`iter`); running out of fuel is the
outcome `hang`, never a number.
-/
namespace Bpp.DistKernels
open Scalar
open Bpp.PNorm (dy half two)

/-- outcome of a call: a value, a `bpp::Exception`, or no return within the fuel -/
inductive R (α : Type) where
  | val (v : α)
  | exc
  | hang
  deriving Repr, BEq, DecidableEq

namespace R
def map {α : Type} (f : α → α) : R α → R α
  | .val v => .val (f v)
  | .exc => .exc
  | .hang => .hang
def ofOpt {α : Type} : Option α → R α
  | some v => .val v
  | none => .hang
end R

/-- a loop without a bound of its own: `step` says continue (`inl`) or exit (`inr`); `none` when
the fuel runs out -/
def iter {σ β : Type} (step : σ → Sum σ β) : Nat → σ → Option β
  | 0, _ => none
  | n + 1, s =>
    match step s with
    | .inl s' => iter step n s'
    | .inr b => some b

/-- a loop with the code's own bound `n`: the state after `n` rounds (`inl`) or an early exit -/
def iterCap {σ β : Type} (step : σ → Sum σ β) : Nat → σ → Sum σ β
  | 0, s => .inl s
  | n + 1, s =>
    match step s with
    | .inl s' => iterCap step n s'
    | .inr b => .inr b

/-- `std::isinf` (cpp:158): only the `Float` reading of the arithmetic has infinities.  (The same
test as `Bpp.Hmm.HasIsInf` of C13's model; kept separate so that neither model imports the other.) -/
class InfTest (α : Type) where
  isInf : α → Bool
instance : InfTest Float := ⟨Float.isInf⟩
instance : InfTest Rat := ⟨fun _ => false⟩

variable {α : Type} [Scalar α]

def three : α := ofInt 3
def minusOne : α := ofInt (-1)
/-- `n / 2^(k1+k2)` for exponents beyond the range of a single power of two -/
def dy2 (n : Int) (k1 k2 : Nat) : α := dy n k1 * dy 1 k2

/-! ## `incompleteGamma`  (cpp:146-219) -/
def accurate : α := dy 3022314549036573 78   -- 1e-8  (:150)
def overflow : α := ofInt 1000000000000000019884624838656   -- 1e30  (:150)

/-- `factor` at :161 -/
def igFactor (x p g : α) : α := exp (p * log x - x - g)
/-- the switch at :160: continued fraction iff `x > 1 && x >= p` -/
def igUseCF (x p : α) : Bool := gtb x one && geb x p

/-- state of the series loop l20 (:173-178) -/
structure Ser (α : Type) where
  rn : α
  term : α
  gin : α

/-- one round of l20: `rn++; term *= x / rn; gin += term; if (term > accurate) goto l20;` -/
def igSeriesStep (x : α) (s : Ser α) : Sum (Ser α) α :=
  let rn := s.rn + one
  let term := s.term * (x / rn)
  let gin := s.gin + term
  if gtb term accurate then .inl ⟨rn, term, gin⟩ else .inr gin

/-- the series branch :172-180 -/
def igSeries (fuel : Nat) (x p factor : α) : Option α :=
  (iter (igSeriesStep x) fuel ⟨p, one, one⟩).map (fun gin => gin * (factor / p))

/-- state of the continued fraction l32 (:183-212); `pn[4]`, `pn[5]` are recomputed each round -/
structure CF (α : Type) where
  a : α
  b : α
  term : α
  gin : α
  p0 : α
  p1 : α
  p2 : α
  p3 : α

/-- one round l32 … `goto l32` (:187-212).  The only exit is l42: `dif <= accurate` and
`dif <= accurate * rn`; it delivers the *previous* `gin` (l34 is skipped). -/
def igCFStep (s : CF α) : Sum (CF α) α :=
  let a := s.a + one
  let b := s.b + two
  let term := s.term + one
  let an := a * term
  let p4 := b * s.p2 - an * s.p0
  let p5 := b * s.p3 - an * s.p1
  -- l35 … : shift, rescale when |pn[4]| >= overflow
  let shift (gin : α) : Sum (CF α) α :=
    if ltb (abs p4) overflow then .inl ⟨a, b, term, gin, s.p2, s.p3, p4, p5⟩
    else .inl ⟨a, b, term, gin, s.p2 / overflow, s.p3 / overflow, p4 / overflow, p5 / overflow⟩
  if eqb p5 zero then shift s.gin
  else
    let rn := p4 / p5
    let dif := abs (s.gin - rn)
    if gtb dif accurate then shift rn
    else if leb dif (accurate * rn) then .inr s.gin
    else shift rn

/-- the continued-fraction branch :183-214 -/
def igCF (fuel : Nat) (x p factor : α) : Option α :=
  let a := one - p
  let b := a + x + one
  let p2 := x + one
  let p3 := x * b
  (iter igCFStep fuel ⟨a, b, zero, p2 / p3, one, x, p2, p3⟩).map (fun gin => one - factor * gin)

/-- `RandomTools::incompleteGamma(x, alpha, ln_gamma_alpha)`, cpp:146-219 -/
def incompleteGamma [InfTest α] (fuel : Nat) (x p g : α) : R α :=
  if ltb x zero || leb p zero then .val minusOne
  else if eqb x zero then .val zero
  else if InfTest.isInf x then .val one   -- :158-159 (added by the repair of the non-termination at x = +inf)
  else
    let factor := igFactor x p g
    if igUseCF x p then
      if eqb factor zero then .val one
      else R.ofOpt (igCF fuel x p factor)
    else R.ofOpt (igSeries fuel x p factor)

/-! ## `qChisq`  (cpp:222-279) -/
def qcE : α := dy 4722366482869645 73   -- .5e-6  (:224)
def qcAA : α := dy 1560828691906355 51   -- .6931471805  (:224)
def chLo : α := dy 4722366482869645 71   -- .000002  (:227)
def chHi : α := dy 9007181240342483 53   -- .999998  (:227)
def c1_24 : α := dy 5584463537939415 52   -- 1.24
def c0_32 : α := dy 5764607523034235 54   -- .32
def c0_4 : α := dy 3602879701896397 53   -- 0.4
def c4_67 : α := dy 2628976282477527 49   -- 4.67
def c6_73 : α := dy 1894326593262715 48   -- 6.73
def c6_66 : α := dy 1874623344892969 48   -- 6.66
def c13_32 : α := dy 1874623344892969 47   -- 13.32
def c0_01 : α := dy 5764607523034235 59   -- .01
def c0_222222 : α := dy 8006391331148211 55   -- 0.222222
def c2_2 : α := dy 2476979795053773 50   -- 2.2
def i (n : Int) : α := ofInt n

/-- the range guard :227 -/
def qcGuard (p v : α) : Bool := ltb p chLo || gtb p chHi || leb v zero

/-- which starting value is used: 0 closed form (:235), 1 the `v <= .32` iteration (l2),
2 Wilson–Hilferty (l3) -/
def qcStartKind (p v : α) : Nat :=
  if geb v (-c1_24 * log p) then (if gtb v c0_32 then 2 else 1) else 0

/-- closed-form start :235 -/
def qcStart0 (p xx g : α) : α := pow (p * xx * exp (g + xx * qcAA)) (one / xx)

/-- one round of l2 (:244-250), state `ch`; exits to l4 with the new `ch` -/
def qcL2Step (a g c : α) (ch : α) : Sum α α :=
  let q := ch
  let p1 := one + ch * (c4_67 + ch)
  let p2 := ch * (c6_73 + ch * (c6_66 + ch))
  let t := -half + (c4_67 + two * ch) / p1 - (c6_73 + ch * (c13_32 + three * ch)) / p2
  let ch := ch - (one - exp (a + g + half * ch + c * qcAA) * p2 / p1) / t
  if leb (abs (q / ch - one) - c0_01) zero then .inr ch else .inl ch

/-- Wilson–Hilferty start l3 (:253-256) -/
def qcStart2 (p v g c : α) : α :=
  let x := PNorm.qNorm p
  let p1 := c0_222222 / v
  let ch := v * pow (x * sqrt p1 + one - p1) three
  if gtb ch (c2_2 * v + i 6) then -two * (log (one - p) - c * log (half * ch) + g) else ch

/-- the Taylor-series refinement of one round of l4 (:264-274), given `t = incompleteGamma(…)` -/
def qcRefine (p xx g c ch t : α) : α :=
  let p1 := half * ch
  let p2 := p - t
  let t := p2 * exp (xx * qcAA + g + p1 - c * log ch)
  let b := t / ch
  let a := half * t - b * c
  let s1 := (i 210 + a * (i 140 + a * (i 105 + a * (i 84 + a * (i 70 + i 60 * a))))) / i 420
  let s2 := (i 420 + a * (i 735 + a * (i 966 + a * (i 1141 + i 1278 * a)))) / i 2520
  let s3 := (i 210 + a * (i 462 + a * (i 707 + i 932 * a))) / i 2520
  let s4 := (i 252 + a * (i 672 + i 1182 * a) + c * (i 294 + a * (i 889 + i 1740 * a))) / i 5040
  let s5 := (i 84 + i 264 * a + c * (i 175 + i 606 * a)) / i 2520
  let s6 := (i 120 + c * (i 346 + i 127 * c)) / i 5040
  ch + t * (one + half * t * s1 - b * c * (s1 - b * (s2 - b * (s3 - b * (s4 - b * (s5 - b * s6))))))

/-- one round of l4 (:258-276), state `ch`.  Exits: the error value when `incompleteGamma`
reports an error (or does not return), the refined `ch` when `|q/ch - 1| <= e`. -/
def qcL4Step (ig : α → α → α → R α) (p xx g c : α) (ch : α) : Sum α (R α) :=
  let q := ch
  match ig (half * ch) xx g with
  | .val t =>
    if ltb t zero then .inr (.val minusOne)
    else
      let ch := qcRefine p xx g c ch t
      if gtb (abs (q / ch - one)) qcE then .inl ch else .inr (.val ch)
  | .exc => .inr .exc
  | .hang => .inr .hang

def flat : Option (R α) → R α
  | some r => r
  | none => .hang

/-- `RandomTools::qChisq(prob, v)`, cpp:222-279; `lg` = `lnGamma`, `ig` = `incompleteGamma` -/
def qChisq (fuel : Nat) (lg : α → α) (ig : α → α → α → R α) (p v : α) : R α :=
  if qcGuard p v then .val minusOne
  else
    let g := lg (v / two)
    let xx := v / two
    let c := xx - one
    let l4 (ch : α) : R α := flat (iter (qcL4Step ig p xx g c) fuel ch)
    match qcStartKind p v with
    | 0 =>
      let ch := qcStart0 p xx g
      if ltb (ch - qcE) zero then .val ch else l4 ch
    | 1 =>
      match iter (qcL2Step (log (one - p)) g c) fuel c0_4 with
      | some ch => l4 ch
      | none => .hang
    | _ => l4 (qcStart2 p v g c)

/-! ## `incompleteBeta` and its sub-kernels  (cpp:561-949) -/
def big : α := ofInt 4503599627370496   -- 4.503599627370496e15  (:574)
def biginv : α := dy 1 52   -- 2.22044604925031308085e-16  (:575)
def maxgam : α := dy 6038495938344519 45   -- 171.624376956302725  (:576)
def c0_95 : α := dy 4278419646001971 52   -- 0.95
/-- `NumConstants::VERY_TINY()` = 1e-20 -/
def tiny : α := dy 6646139978924579 119
/-- `NumConstants::VERY_BIG()` = 1.7e23 -/
def veryBig : α := ofInt 169999999999999995805696
def minlog : α := log tiny      -- :577
def maxlog : α := log veryBig   -- :578
def thresh : α := three * tiny  -- :715, :828

/-- state of the power-series loop :919-926 -/
structure Ps (α : Type) where
  n : α
  t : α
  v : α
  s : α

/-- `while (fabs(v) > z) { u = (n - b) * x / n; t = t * u; v = t / (a + n); s = s + v; n = n + 1.0; }` -/
def psStep (a b x z : α) (s : Ps α) : Sum (Ps α) (Ps α) :=
  if gtb (abs s.v) z then
    let u := (s.n - b) * x / s.n
    let t := s.t * u
    let v := t / (a + s.n)
    .inl ⟨s.n + one, t, v, s.s + v⟩
  else .inr s

/-- the normalisation of the power series :927-944: direct when `a + b < maxgam` and
`|a log x| < log(VERY_BIG)`, logarithmic otherwise -/
def psNorm (lg : α → α) (a b x s : α) : α :=
  let u := a * log x
  if ltb (a + b) maxgam && ltb (abs u) maxlog then
    let t := exp (lg (a + b) - (lg a + lg b))
    s * t * pow x a
  else
    let t := lg (a + b) - lg a - lg b + u + log s
    if ltb t minlog then zero else exp t

/-- `RandomTools::incompletebetaps(a, b, x, maxgam)`, cpp:899-949 -/
def betaPs (fuel : Nat) (lg : α → α) (a b x : α) : Option α :=
  let ai := one / a
  let u := (one - b) * x
  let v := u / (a + one)
  let t1 := v
  let z := tiny * ai
  (iter (psStep a b x z) fuel ⟨two, u, v, zero⟩).map fun st =>
    let s := st.s + t1
    let s := s + ai
    psNorm lg a b x s

/-- state of the two continued fractions :716-773, :829-886 -/
structure Fe (α : Type) where
  k1 : α
  k2 : α
  k3 : α
  k4 : α
  k5 : α
  k6 : α
  k7 : α
  k8 : α
  pkm2 : α
  pkm1 : α
  qkm2 : α
  qkm1 : α
  ans : α
  r : α

/-- one round of the `do … while (n != 300)` loops; `x` is `x` (fe) or `z = x/(1-x)` (fe2),
`d2`, `d6` the increments of `k2` and `k6` (`+1,-1` for fe; `-1,+1` for fe2).  Exit: `t < thresh`. -/
def feStep (x d2 d6 : α) (s : Fe α) : Sum (Fe α) α :=
  let xk := -x * s.k1 * s.k2 / (s.k3 * s.k4)
  let pk := s.pkm1 + s.pkm2 * xk
  let qk := s.qkm1 + s.qkm2 * xk
  let pkm2 := s.pkm1
  let pkm1 := pk
  let qkm2 := s.qkm1
  let qkm1 := qk
  let xk := x * s.k5 * s.k6 / (s.k7 * s.k8)
  let pk := pkm1 + pkm2 * xk
  let qk := qkm1 + qkm2 * xk
  let pkm2 := pkm1
  let pkm1 := pk
  let qkm2 := qkm1
  let qkm1 := qk
  let r := if eqb qk zero then s.r else pk / qk
  let t := if eqb r zero then one else abs ((s.ans - r) / r)
  let ans := if eqb r zero then s.ans else r
  if ltb t thresh then .inr ans
  else
    let sc1 := gtb (abs qk + abs pk) big
    let pkm2 := if sc1 then pkm2 * biginv else pkm2
    let pkm1 := if sc1 then pkm1 * biginv else pkm1
    let qkm2 := if sc1 then qkm2 * biginv else qkm2
    let qkm1 := if sc1 then qkm1 * biginv else qkm1
    let sc2 := ltb (abs qk) biginv || ltb (abs pk) biginv
    let pkm2 := if sc2 then pkm2 * big else pkm2
    let pkm1 := if sc2 then pkm1 * big else pkm1
    let qkm2 := if sc2 then qkm2 * big else qkm2
    let qkm1 := if sc2 then qkm1 * big else qkm1
    .inl ⟨s.k1 + one, s.k2 + d2, s.k3 + two, s.k4 + two, s.k5 + one, s.k6 + d6, s.k7 + two, s.k8 + two,
      pkm2, pkm1, qkm2, qkm1, ans, r⟩

def feResult : Sum (Fe α) α → α
  | .inl s => s.ans
  | .inr ans => ans

/-- `RandomTools::incompletebetafe(a, b, x, big, biginv)`, cpp:672-776 (at most 300 rounds) -/
def betaFe (a b x : α) : α :=
  feResult (iterCap (feStep x one minusOne) 300
    ⟨a, a + b, a, a + one, one, b - one, a + one, a + two, zero, one, one, one, one, one⟩)

/-- `RandomTools::incompletebetafe2(a, b, x, big, biginv)`, cpp:783-889 (at most 300 rounds) -/
def betaFe2 (a b x : α) : α :=
  feResult (iterCap (feStep (x / (one - x)) minusOne one) 300
    ⟨a, b - one, a, a + one, one, a + b, a + one, a + two, zero, one, one, one, one, one⟩)

/-- the sub-kernels `incompleteBeta` calls; the theorems about its branch structure hold for
every choice of them -/
structure BetaSub (α : Type) where
  lg : α → α
  /-- `incompletebetaps(a, b, x, maxgam)`; `none`: no return -/
  ps : α → α → α → Option α
  fe : α → α → α → α
  fe2 : α → α → α → α

/-- the transcribed sub-kernels -/
def betaSub (fuel : Nat) (lg : α → α) : BetaSub α :=
  { lg := lg, ps := betaPs fuel lg, fe := betaFe, fe2 := betaFe2 }

/-- the power series is used when `beta * x <= 1.0 && x <= 0.95` (:593, :612) -/
def psCond (b x : α) : Bool := leb (b * x) one && leb x c0_95
/-- the complement after the power series on the swapped side (:615-618, test `<=`) -/
def complLe (t : α) : α := if leb t tiny then one - tiny else one - t
/-- the complement after the continued fractions on the swapped side (:641-644, :661-664, test `<`) -/
def complLt (t : α) : α := if ltb t tiny then one - tiny else one - t
/-- the tail swap :599 -/
def ibSwap (x a b : α) : Bool := gtb x (a / (a + b))

/-- cpp:621-658 for the working triple `(alpha, beta, x)` with `xc = 1 - x` as the code has it:
the value *before* the complement of the swapped side -/
def ibBody (S : BetaSub α) (a b x xc : α) : α :=
  let y := x * (a + b - two) - (a - one)
  let w := if ltb y zero then S.fe a b x else S.fe2 a b x / xc
  let y := a * log x
  let t := b * log xc
  if ltb (a + b) maxgam && ltb (abs y) maxlog && ltb (abs t) maxlog then
    let t := pow xc b
    let t := t * pow x a
    let t := t / a
    let t := t * w
    t * exp (S.lg (a + b) - (S.lg a + S.lg b))
  else
    let y := y + t + S.lg (a + b) - S.lg a - S.lg b
    let y := y + log (w / a)
    if ltb y minlog then zero else exp y

/-- `RandomTools::incompleteBeta(x, alpha, beta)`, cpp:561-667 -/
def incompleteBeta (S : BetaSub α) (x a b : α) : R α :=
  if leb a zero || leb b zero then .exc
  else if ltb x zero || gtb x one then .exc
  else if eqb x zero then .val zero
  else if eqb x one then .val one
  else if psCond b x then R.ofOpt (S.ps a b x)
  else
    let w := one - x
    if ibSwap x a b then
      -- flag = 1: alpha, beta := beta, alpha; xc = x; x = w
      if psCond a w then (R.ofOpt (S.ps b a w)).map complLe
      else .val (complLt (ibBody S b a w x))
    else .val (ibBody S a b x w)

/-! ## `qBeta`  (cpp:428-558) -/
def fpu : α := dy2 6072067599219319 537 537   -- 3e-308  (:445)
def acuMin : α := dy2 6032057205060441 525 524   -- 1e-300  (:445)
def c2_22em16 : α := dy 4502694932010671 104   -- 2.22e-16
def qbLower : α := fpu
def qbUpper : α := one - c2_22em16   -- :445
def c2_30753 : α := dy 162377988252285 46   -- 2.30753
def c0_27061 : α := dy 609359547581365 51   -- 0.27061
def c0_99229 : α := dy 8937753748486939 53   -- 0.99229
def c0_04481 : α := dy 3228900788839551 56   -- 0.04481
def c2_5 : α := dy 5 1   -- 2.5
def niterations : Nat := 2000   -- :447

/-- the initial approximation :475-502 for the working triple `(a, pp, qq)`; the result names the
start used: 0 both shapes > 1 (:480-485), 1 `t <= 0` (:493), 2 `t <= 1` (:498), 3 else (:500) -/
def qbStart (a pp qq lnbeta : α) : Nat × α :=
  let r := sqrt (-log (a * a))
  let y := r - (c2_30753 + c0_27061 * r) / (one + (c0_99229 + c0_04481 * r) * r)
  if gtb pp one && gtb qq one then
    let r := (y * y - three) / i 6
    let s := one / (pp * two - one)
    let t := one / (qq * two - one)
    let h := two / (s + t)
    let w := y * sqrt (h + r) / h - (t - s) * (r + i 5 / i 6 - two / (three * h))
    (0, pp / (pp + qq * exp (w + w)))
  else
    let r := qq * two
    let t := one / (i 9 * qq)
    let t := r * pow (one - t + y * sqrt t) three
    if leb t zero then (1, one - exp ((log ((one - a) * qq) + lnbeta) / qq))
    else
      let t := (i 4 * pp + r - two) / t
      if leb t one then (2, exp ((log (a * pp) + lnbeta) / pp))
      else (3, one - two / (t + one))

/-- the reset :514-515 -/
def qbReset (a xinbta : α) : α :=
  if leb xinbta qbLower || geb xinbta qbUpper then (a + half) / two else xinbta

/-- the accuracy :524-525 -/
def qbAcu (a pp : α) : α :=
  Scalar.max (pow (i 10) (i (-13) - c2_5 / (pp * pp) - half / (a * a))) acuMin

/-- state of the outer loop :527-554 -/
structure Nw (α : Type) where
  xinbta : α
  yprev : α
  adj : α
  prev : α
  tx : α

/-- state of the inner loop :534-549 -/
structure Inn (α : Type) where
  g : α
  adj : α
  tx : α

/-- one round of the inner loop; exits: `inr true` = `goto L_converged`, `inr false` = `break` -/
def qbInnerStep (xinbta y prev acu : α) (s : Inn α) : Sum (Inn α) (Inn α × Bool) :=
  let adj := s.g * y
  if ltb (abs adj) prev then
    let tx := xinbta - adj
    if geb tx zero && leb tx one then
      if leb prev acu || leb (abs y) acu then .inr (⟨s.g, adj, tx⟩, true)
      else if !(eqb tx zero) && !(eqb tx one) then .inr (⟨s.g, adj, tx⟩, false)
      else .inl ⟨s.g / three, adj, tx⟩
    else .inl ⟨s.g / three, adj, tx⟩
  else .inl ⟨s.g / three, adj, s.tx⟩

/-- the inner loop :534-549 with its cap; `true` = `goto L_converged` -/
def qbInner (xinbta y prev acu adj tx : α) : Inn α × Bool :=
  match iterCap (qbInnerStep xinbta y prev acu) niterations ⟨one, adj, tx⟩ with
  | .inl st => (st, false)
  | .inr r => r

/-- one round of the outer loop; exit = `L_converged` with `xinbta`, or the outcome of `pBeta` when
that is not a value -/
def qbOuterStep (pb : α → α → α → R α) (a pp qq lnbeta acu : α) (s : Nw α) : Sum (Nw α) (R α) :=
  match pb s.xinbta pp qq with
  | .exc => .inr .exc
  | .hang => .inr .hang
  | .val y0 =>
    let r := one - pp
    let t := one - qq
    let y := (y0 - a) * exp (lnbeta + r * log s.xinbta + t * log (one - s.xinbta))
    let prev := if leb (y * s.yprev) zero then Scalar.max (abs s.adj) fpu else s.prev
    let fin : Inn α × Bool := qbInner s.xinbta y prev acu s.adj s.tx
    if fin.2 then .inr (.val s.xinbta)
    else if ltb (abs (fin.1.tx - s.xinbta)) fpu then .inr (.val s.xinbta)
    else .inl ⟨fin.1.tx, y, fin.1.adj, prev, fin.1.tx⟩

/-- cpp:474-556 for the working triple `(a, pp, qq)`: the value of `xinbta` at `L_converged` -/
def qbLowerTail (pb : α → α → α → R α) (a pp qq lnbeta : α) : R α :=
  let x0 := qbReset a (qbStart a pp qq lnbeta).2
  let acu := qbAcu a pp
  match iterCap (qbOuterStep pb a pp qq lnbeta acu) niterations ⟨x0, zero, one, zero, zero⟩ with
  | .inl s => .val s.xinbta
  | .inr r => r

/-- `RandomTools::lnBeta`, cpp:417-420 -/
def lnBeta (lg : α → α) (a b : α) : α := lg a + lg b - lg (a + b)

/-- `RandomTools::qBeta(prob, alpha, beta)`, cpp:428-558; `pb` = `pBeta` -/
def qBeta (lg : α → α) (pb : α → α → α → R α) (prob p q : α) : R α :=
  if ltb prob zero || gtb prob one then .exc
  else if ltb p zero || ltb q zero then .exc
  else if eqb prob zero || eqb prob one then .val prob
  else
    let lnbeta := lnBeta lg p q
    if leb prob half then qbLowerTail pb prob p q lnbeta
    else (qbLowerTail pb (one - prob) q p lnbeta).map (fun x => one - x)

/-! ## Exact reflections that hold by construction of the tail swaps
(the executable side of `ib_reflect_swapped` and `qBeta_reflect` of `BppProofs/Props/C08Kernels.lean`;
the driver evaluates them at `Float` on the implementation's two outcomes) -/

/-- `incompleteBeta(x, a, b)` as determined by `r2 = incompleteBeta(1 - x, b, a)` when `x` is strictly
inside, on the swapped side (`x > a/(a+b)`), not in the direct power-series region, and the mirrored
call is not itself swapped and recovers `x` as its `xc` (always so in exact arithmetic); `none`
when that guard is false -/
def ibReflExpected (x a b : α) (r2 : R α) : Option (R α) :=
  let w := one - x
  if gtb a zero && gtb b zero && gtb x zero && ltb x one && !(psCond b x) && ibSwap x a b
      && gtb w zero && ltb w one && !(ibSwap w b a) && eqb (one - w) x then
    some (if psCond a w then r2.map complLe else r2.map complLt)
  else none

/-- `qBeta(prob, p, q)` as determined by `r2 = qBeta(1 - prob, q, p)` on the swapped side
`0.5 < prob < 1`; `none` elsewhere -/
def qbReflExpected (prob : α) (r2 : R α) : Option (R α) :=
  if gtb prob half && ltb prob one then some (r2.map (fun x => one - x)) else none

/-- on the swapped side `incompleteBeta` never exceeds `1 - VERY_TINY` (the clamp :615-618, :641-644,
:661-664): the executable side of `ib_swapped_le` -/
def ibSwapped (x a b : α) : Bool :=
  gtb a zero && gtb b zero && gtb x zero && ltb x one && !(psCond b x) && ibSwap x a b

end Bpp.DistKernels
