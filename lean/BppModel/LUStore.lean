import BppModel.LU
import BppModel.Matrix
/-!
# `LUDecomposition.h`, `MatrixTools::inv`, `MatrixTools::det` — statement by statement, on the
# three storage classes of `Matrix.h`

`BppModel/LU.lean` states *what each outer iteration computes* (one entry-wise formula per
iteration, on an abstract matrix type).  This file is the second, lower-level transcription of the
same source text: every loop of the C++ — including the innermost ones — is a `loop` in source
order, and every element access `M(i,j)` goes through `Store.get` / `Store.set` of C04's model of
the storage classes (`BppModel/Matrix.lean`: `RowMatrix`, `ColMatrix`, `LinearMatrix`; an index
outside the underlying `std::vector` is the explicit outcome `ub`).  Operands (`A`, `B`) and the
in/out parameters (`X` of `solve`, `O` of `inv`, `x` of the vector overload) are arbitrary stores
in an arbitrary *prior state*: `permuteCopy` resizes them (`Matrix.h` `resize`, which keeps the
leading block and zero-fills) and overwrites every entry.

`BppProofs/Lemmas/LUStore*.lean` prove that this transcription *refines* `BppModel/LU.lean` for
every scalar type (in particular `Float`): whatever the classes and prior states, the outcome is
the one of the abstract model and the output matrix keeps its class.  The driver runs this file.

The members `LU`, `L_`, `U_` of the object are `RowMatrix`es (`LUDecomposition.h:40-42`).
-/
namespace Bpp.LUS
open Bpp Bpp.Mx Bpp.LU

abbrev Res (β : Type) := Except LU.Err β

variable {α : Type}

/-- an outcome of `BppModel/Matrix.lean` (only `ub` arises from element accesses) -/
def liftMx {β : Type} : Mx.Res β → Res β
  | .ok x => .ok x
  | .error .dimension => .error .dimension
  | .error _ => .error .ub

/-- `M(i,j)` read (`Matrix.h:144, 252, 376`) -/
def rd (S : Store α) (i j : Nat) : Res α :=
  match S.get i j with
  | .ok x => .ok x
  | .error _ => .error .ub

/-- `M(i,j) = x` (`Matrix.h:146, 254, 378`) -/
def wr (S : Store α) (i j : Nat) (x : α) : Res (Store α) :=
  match S.set i j x with
  | .ok S' => .ok S'
  | .error _ => .error .ub

/-- `v[i]` read of a `std::vector` -/
def vrd {β : Type} (v : Array β) (i : Nat) : Res β :=
  match v[i]? with
  | some x => .ok x
  | none => .error .ub

/-- `v[i] = x` -/
def vwr {β : Type} (v : Array β) (i : Nat) (x : β) : Res (Array β) :=
  if i < v.size then .ok (v.set! i x) else .error .ub

/-- `for (t = 0; t < n; t++) s = f(t, s)`, stopping at the first abnormal outcome -/
def loop {σ : Type} : Nat → (Nat → σ → Res σ) → σ → Res σ
  | 0, _, s => .ok s
  | n + 1, f, s =>
    match loop n f s with
    | .ok t => f n t
    | .error e => .error e

/-- `for (i = lo; i < hi; i++) s = f(i, s)` -/
def loopFrom {σ : Type} (lo hi : Nat) (f : Nat → σ → Res σ) (s : σ) : Res σ :=
  loop (hi - lo) (fun t => f (lo + t)) s

/-- the data members (`LUDecomposition.h:40-45`); `L_`, `U_` are scratch space of `getL`/`getU` -/
structure StateS (α : Type) where
  lu : Store α
  m : Nat
  n : Nat
  pivsign : Int
  piv : Array Nat

variable [Scalar α]

/-! ## constructor (`LUDecomposition.h:168-216`) -/

/-- `LUDecomposition.h:185-192` -/
def findPivotS (LU : Store α) (m k : Nat) : Res Nat :=
  loopFrom (k + 1) m (fun i p => do
    let a ← rd LU i k
    let b ← rd LU p k
    pure (if Scalar.gtb (numAbs a) (numAbs b) then i else p)) k

/-- `LUDecomposition.h:196-199`: `t = LU(p,j); LU(p,j) = LU(k,j); LU(k,j) = t` -/
def swapRowsS (LU : Store α) (n p k : Nat) : Res (Store α) :=
  loop n (fun j LU => do
    let t ← rd LU p j
    let u ← rd LU k j
    let LU1 ← wr LU p j u
    wr LU1 k j t) LU

/-- `LUDecomposition.h:200`: `t = piv[p]; piv[p] = piv[k]; piv[k] = t` -/
def swapPivS (piv : Array Nat) (p k : Nat) : Res (Array Nat) := do
  let t ← vrd piv p
  let u ← vrd piv k
  let piv1 ← vwr piv p u
  vwr piv1 k t

/-- `LUDecomposition.h:209-212`: `for j in k+1..n-1: LU(i,j) -= LU(i,k) * LU(k,j)` -/
def elimRowS (LU : Store α) (n k i : Nat) : Res (Store α) :=
  loopFrom (k + 1) n (fun j LU => do
    let x ← rd LU i j
    let l ← rd LU i k
    let u ← rd LU k j
    wr LU i j (x - l * u)) LU

/-- `LUDecomposition.h:204-214` -/
def eliminateS (LU : Store α) (m n k : Nat) : Res (Store α) := do
  let d ← rd LU k k
  if Scalar.eqb d Scalar.zero then pure LU
  else loopFrom (k + 1) m (fun i LU => do
    let a ← rd LU i k
    let d ← rd LU k k
    let LU1 ← wr LU i k (a / d)
    elimRowS LU1 n k i) LU

/-- one iteration of the main loop (`LUDecomposition.h:182-215`) -/
def stepS (k : Nat) (s : StateS α) : Res (StateS α) := do
  let p ← findPivotS s.lu s.m k
  let s1 ← (if p ≠ k then do
      let lu ← swapRowsS s.lu s.n p k
      let piv ← swapPivS s.piv p k
      pure { s with lu := lu, piv := piv, pivsign := - s.pivsign }
    else pure s)
  let lu ← eliminateS s1.lu s1.m s1.n k
  pure { s1 with lu := lu }

/-- member initialisers (`LUDecomposition.h:168-180`): `LU(A)` is the converting constructor
`RowMatrix(const Matrix&)` (`Matrix.h:108-121`: `nr` rows resized to `nc`, every entry assigned —
the data of `MatrixTools::copy` into an empty `RowMatrix`) -/
def initS (A : Store α) : Res (StateS α) := do
  let lu ← liftMx (Mx.copy A (Store.empty .row))
  pure { lu := lu, m := A.nrows, n := A.ncols, pivsign := 1, piv := Array.ofFn (n := A.nrows) fun i => i.val }

def constructS (A : Store α) : Res (StateS α) := do
  let s0 ← initS A
  loop s0.n stepS s0

/-! ## accessors -/

/-- `getL` (`LUDecomposition.h:223-244`); `L_` was constructed as `RowMatrix(m, n)` and is
overwritten completely -/
def getLS (s : StateS α) : Res (Store α) :=
  loop s.m (fun i L => loop s.n (fun j L =>
    if j < i then do
      let x ← rd s.lu i j
      wr L i j x
    else if i = j then wr L i j Scalar.one
    else wr L i j Scalar.zero) L) ((Store.empty .row).resize s.m s.n)

/-- `getU` (`LUDecomposition.h:251-268`); `U_` is `RowMatrix(n, n)` -/
def getUS (s : StateS α) : Res (Store α) :=
  loop s.n (fun i U => loop s.n (fun j U =>
    if i ≤ j then do
      let x ← rd s.lu i j
      wr U i j x
    else wr U i j Scalar.zero) U) ((Store.empty .row).resize s.n s.n)

/-- `det` (`LUDecomposition.h:286-298`) -/
def detS (s : StateS α) : Res α :=
  if s.m ≠ s.n then pure Scalar.zero
  else loop s.n (fun j d => do
    let x ← rd s.lu j j
    pure (d * x)) (Scalar.ofInt s.pivsign)

/-! ## `solve` (`LUDecomposition.h:311-382`) -/

/-- `LUDecomposition.h:320-326` -/
def minDiagS (s : StateS α) : Res α := do
  let d0 ← rd s.lu 0 0
  loopFrom 1 s.m (fun i d => do
    let c ← rd s.lu i i
    pure (if Scalar.ltb (numAbs c) d then numAbs c else d)) (numAbs d0)

/-- `permuteCopy(B, piv, 0, nx - 1, X)` (`LUDecomposition.h:48-61`).  **The prior state of `X`
matters here and only here**: `X.resize(piv_length, j1 - j0 + 1)` — unconditionally — gives it
the shape of the result whatever it was before, then every entry is assigned.  For `nx = 0`,
`j1 = nx - 1` wraps, `j1 - j0 + 1 = 0`, and the loop `j <= j1` writes `X(i,0)` of a matrix without
columns: `ub`. -/
def permuteCopyS (B : Store α) (piv : Array Nat) (nx : Nat) (X : Store α) : Res (Store α) :=
  loop piv.size (fun i X => do
    let pi ← vrd piv i
    if nx = 0 then .error .ub
    else loop nx (fun j X => do
      let b ← rd B pi j
      wr X i j b) X) (X.resize piv.size nx)

/-- `for j < nx: X(i,j) -= X(k,j) * LU(i,k)` (`LUDecomposition.h:353-356, 373-376`) -/
def axpyRowS (LU : Store α) (nx k i : Nat) (X : Store α) : Res (Store α) :=
  loop nx (fun j X => do
    let x ← rd X i j
    let xk ← rd X k j
    let l ← rd LU i k
    wr X i j (x - xk * l)) X

/-- "Solve L*Y = B(piv,:)" (`LUDecomposition.h:348-358`) -/
def fwdS (s : StateS α) (nx : Nat) (X : Store α) : Res (Store α) :=
  loop s.n (fun k X => loopFrom (k + 1) s.n (fun i X => axpyRowS s.lu nx k i X) X) X

/-- `for j < nx: X(k,j) /= LU(k,k)` (`LUDecomposition.h:367-370`) -/
def divRowS (LU : Store α) (nx k : Nat) (X : Store α) : Res (Store α) :=
  loop nx (fun j X => do
    let x ← rd X k j
    let d ← rd LU k k
    wr X k j (x / d)) X

/-- "Solve U*X = Y" (`LUDecomposition.h:359-379`): `k = n; do { k--; … } while (k > 0)`; for
`n = 0` the decrement wraps and `LU(k,k)` is out of range -/
def backS (s : StateS α) (nx : Nat) (X : Store α) : Res (Store α) :=
  if s.n = 0 then .error .ub
  else loop s.n (fun t X => do
    let k := s.n - 1 - t
    let X1 ← divRowS s.lu nx k X
    loop k (fun i X => axpyRowS s.lu nx k i X) X1) X

/-- matrix `solve`: the result is the returned indicator and the new state of the in/out
parameter `X` (on an exception `X` has not been touched) -/
def solveS (s : StateS α) (B X : Store α) : Res (α × Store α) :=
  if B.nrows ≠ s.m then .error .badInteger else do
  let d ← minDiagS s
  if belowThreshold d then .error .zeroDivision else do
  let X1 ← permuteCopyS B s.piv B.ncols X
  let X2 ← fwdS s B.ncols X1
  let X3 ← backS s B.ncols X2
  pure (d, X3)

/-- `solve(B, B)`: the right-hand side and the output are the same object.  After the `fix:` commit
recorded in `findings/C05.json` the permuted copy is then taken from a copy `RowMatrix<Real> Bc(B)`
(`LUDecomposition.h:336-346`); `solveSelfOrigS` below is the text before the repair. -/
def solveSelfS (s : StateS α) (B : Store α) : Res (α × Store α) :=
  if B.nrows ≠ s.m then .error .badInteger else do
  let d ← minDiagS s
  if belowThreshold d then .error .zeroDivision else do
  let Bc ← liftMx (Mx.copy B (Store.empty .row))
  let X1 ← permuteCopyS Bc s.piv B.ncols B
  let X2 ← fwdS s B.ncols X1
  let X3 ← backS s B.ncols X2
  pure (d, X3)

/-- `permuteCopy(B, piv, 0, nx-1, B)` as it was before the repair: `X(i,j) = A(piv[i], j)` reads the
matrix that is being overwritten (the `resize` to its own shape changes nothing) -/
def permuteCopySelfOrigS (piv : Array Nat) (nx : Nat) (X : Store α) : Res (Store α) :=
  loop piv.size (fun i X => do
    let pi ← vrd piv i
    if nx = 0 then .error .ub
    else loop nx (fun j X => do
      let b ← rd X pi j
      wr X i j b) X) (X.resize piv.size nx)

/-- `solve(B, B)` before the repair -/
def solveSelfOrigS (s : StateS α) (B : Store α) : Res (α × Store α) :=
  if B.nrows ≠ s.m then .error .badInteger else do
  let d ← minDiagS s
  if belowThreshold d then .error .zeroDivision else do
  let X1 ← permuteCopySelfOrigS s.piv B.ncols B
  let X2 ← fwdS s B.ncols X1
  let X3 ← backS s B.ncols X2
  pure (d, X3)

/-! ## the `std::vector` overload (`LUDecomposition.h:63-82, 395-443`)

`solve(b, b)` (operand and output the same vector) permutes a copy of `b` since the same `fix:`
commit (`LUDecomposition.h:65-71`): it is `solveVecS s b b`. -/

/-- `permuteCopy(b, piv, x)`: `if (piv_length != A.size()) X.clear(); X.resize(piv_length)`
(`std::vector::resize` keeps the prefix and value-initialises new elements), then every element is
assigned.  `A` is the *operand* `b`: the `clear()` does not look at the output's length, and since
`solve` has refused `b.size() != m` before (`piv.size() = m`) the branch is dead in every call; it is
transcribed as written. -/
def permuteCopyVS (b : Array α) (piv : Array Nat) (x : Array α) : Res (Array α) :=
  loop piv.size (fun i x => do
    let pi ← vrd piv i
    let v ← vrd b pi
    vwr x i v) (vresize (if piv.size ≠ b.size then #[] else x) piv.size Scalar.zero)

def fwdVS (s : StateS α) (x : Array α) : Res (Array α) :=
  loop s.n (fun k x => loopFrom (k + 1) s.n (fun i x => do
    let xi ← vrd x i
    let xk ← vrd x k
    let l ← rd s.lu i k
    vwr x i (xi - xk * l)) x) x

def backVS (s : StateS α) (x : Array α) : Res (Array α) :=
  if s.n = 0 then .error .ub
  else loop s.n (fun t x => do
    let k := s.n - 1 - t
    let xk ← vrd x k
    let d ← rd s.lu k k
    let x1 ← vwr x k (xk / d)
    loop k (fun i x => do
      let xi ← vrd x i
      let xk ← vrd x k
      let l ← rd s.lu i k
      vwr x i (xi - xk * l)) x1) x

def solveVecS (s : StateS α) (b x : Array α) : Res (α × Array α) :=
  if b.size ≠ s.m then .error .badInteger else do
  let d ← minDiagS s
  if belowThreshold d then .error .zeroDivision else do
  let x1 ← permuteCopyVS b s.piv x
  let x2 ← fwdVS s x1
  let x3 ← backVS s x2
  pure (d, x3)

/-! ## `MatrixTools::inv`, `MatrixTools::det` (`MatrixTools.h:810-834`) -/

/-- `inv(A, O)`: `O` is the in/out parameter; `I` is a local `RowMatrix` filled by `getId` -/
def invS (A O : Store α) : Res (α × Store α) :=
  if A.nrows ≠ A.ncols then .error .dimension else do
  let s ← constructS A
  let I ← liftMx (Mx.getId A.nrows (Store.empty .row))
  solveS s I O

def matDetS (A : Store α) : Res α :=
  if A.nrows ≠ A.ncols then .error .dimension else do
  let s ← constructS A
  detS s

/-! ## reading a store as an abstract matrix (specification vocabulary of the refinement) -/

/-- the reported dimensions and entries of a store, as a matrix of `BppModel/LU.lean` -/
def matOf (S : Store α) : Mat α S.nrows S.ncols := Mat.ofFn fun i j => S.entry i.val j.val

/-- entry `(i,j)` of an abstract matrix as a total function (only `i < m`, `j < n` is ever used) -/
def fnOf {m n : Nat} (M : Mat α m n) (i j : Nat) : α :=
  if h : i < m ∧ j < n then M.get ⟨i, h.1⟩ ⟨j, h.2⟩ else default

/-- `S` is a well-formed store of class `k` that reports `r × c` and whose `(i,j)` accessor
returns `f i j` -/
def Is (S : Store α) (k : Kind) (r c : Nat) (f : Nat → Nat → α) : Prop :=
  S.WF ∧ S.kind = k ∧ S.nrows = r ∧ S.ncols = c ∧ ∀ i j, i < r → j < c → S.get i j = .ok (f i j)

/-- the object `s` (stores, arrays) represents the abstract decomposition `t` -/
def Rep {m n : Nat} (s : StateS α) (t : LU.State α m n) : Prop :=
  s.m = m ∧ s.n = n ∧ Is s.lu .row m n (fnOf t.lu) ∧ s.pivsign = t.pivsign ∧
  s.piv = Array.ofFn (n := m) fun i => (t.piv[i.val]'i.isLt).val

end Bpp.LUS
