import BppModel.Range
/-
Ownership model of the collections of src/Bpp/Numeric/Range.h: `RangeSet<T>` and `MultiRange<T>`
hold a `std::vector<Range<T>*> ranges_` of *owned* heap cells.  `BppModel/Range.lean` models the
collections as values (lists of ranges), in which "copies are deep and independent" cannot even be
expressed; this file models the memory side: a heap of cells, registers (objects) holding vectors
of addresses, and for every member function **which cells it reads, overwrites, deletes and
allocates**.  The *values* written are parameters here (they are what the value-level model
computes, tied to the code separately); the ownership skeleton is a transcription:

  * `inPlace`  — the in-place loops: `(**it).sliceWith(r)`, `expandWith` on the first overlapped
                 cell, `delete *it; it = ranges_.erase(it)` (RangeSet::restrictTo 302-318,
                 filterWithin 320-335 / 468-483, MultiRange::addRange 445-455, restrictTo 461-464,
                 clean_ 542-555, clear_ 380-388 / 561-568): every owned cell gets an outcome,
                 a new value or deletion; nothing else is touched;
  * `allocs`   — `ranges_.push_back(r.clone())` (297-300, 440, copy loops): fresh cells;
  * `permute`  — `std::sort` on the pointer vector (557): the heap is not touched;
  * `copyCtor`, `assign` — copy constructor (271-277, 402-408) and `operator=` (279-289, 410-420)
                 with its `this == &set` guard; `assignUnguarded` is the code before the round-2
                 repair; `shallowCopy` is what a copy of the pointers would be (mutant M8).
-/
namespace Bpp.RangeObj

structure World (α : Type) where
  /-- heap cells; `none` = never allocated or deleted -/
  heap : Nat → Option (Range α)
  /-- allocation pointer: every address handed out so far is below it -/
  next : Nat
  /-- the objects: register `i` holds the vector `ranges_` of object `i` -/
  regs : Nat → List Nat

variable {α : Type}

/-- what object `k` shows through `getRange(i)`: the pointees, in order -/
def view (w : World α) (k : Nat) : List (Option (Range α)) := (w.regs k).map w.heap

/-- the values an object holds (reading through every pointer) -/
def vals (w : World α) (k : Nat) : List (Range α) := (w.regs k).filterMap w.heap

/-- every owned cell of object `k` gets its outcome (`some y`: overwritten with `y`, `none`:
deleted and erased from the vector); `out` is aligned with the vector -/
def inPlace (w : World α) (k : Nat) (out : List (Option (Range α))) : World α :=
  let tab := (w.regs k).zip out
  { heap := fun b => match tab.find? (fun p => p.1 == b) with
      | some p => p.2
      | none => w.heap b
    next := w.next
    regs := fun i => if i = k then tab.filterMap (fun p => p.2.map (fun _ => p.1)) else w.regs i }

/-- `clear_()` / destructor: every owned cell deleted -/
def clear (w : World α) (k : Nat) : World α := inPlace w k ((w.regs k).map (fun _ => none))

/-- `push_back(x.clone())` for every `x` of `xs`: fresh cells at the allocation pointer -/
def allocs (w : World α) (k : Nat) (xs : List (Range α)) : World α :=
  { heap := fun b => if w.next ≤ b ∧ b < w.next + xs.length then (xs[b - w.next]?).map Range.clone else w.heap b
    next := w.next + xs.length
    regs := fun i => if i = k then w.regs k ++ List.range' w.next xs.length else w.regs i }

/-- `std::sort` of the pointer vector: any rearrangement `v'` of the same addresses -/
def permute (w : World α) (k : Nat) (v' : List Nat) : World α :=
  { w with regs := fun i => if i = k then v' else w.regs i }

/-- copy constructor into register `j` (whose previous object is destroyed), source `k ≠ j` -/
def copyCtor (w : World α) (k j : Nat) : World α := allocs (clear w j) j (vals w k)

/-- `operator=` of the repaired code: `if (this == &set) return *this; clear_(); clone loop` -/
def assign (w : World α) (k j : Nat) : World α :=
  if j = k then w else allocs (clear w j) j (vals (clear w j) k)

/-- `operator=` before the repair: no guard; the clone loop reads the source *after* `clear_()` -/
def assignUnguarded (w : World α) (k j : Nat) : World α := allocs (clear w j) j (vals (clear w j) k)

/-- a copy of the pointer vector (what the copy constructor must not do) -/
def shallowCopy (w : World α) (k j : Nat) : World α :=
  { w with regs := fun i => if i = j then w.regs k else w.regs i }

end Bpp.RangeObj
