import BppModel.Prelude.Scalar
import BppModel.Generated.Constants
/-
Model of `bpp::IntervalConstraint` (src/Bpp/Numeric/Constraints.h:101-397).

One program text, generic over `[Scalar α]` (DESIGN §2.2):
 * at `Float` the driver runs it on the very doubles the C++ sees — bit-exact tie;
 * at `Rat` the driver runs it on dyadic inputs — exact tie, no rounding anywhere;
   (in both, an infinite double is `negInf`/`posInf`, a finite one `fin x`)
 * at `ℝ` (BppProofs) the theorems are stated; `Bound ℝ` is the extended real line.

A C++ `double` that can be infinite (bounds, tested values, limits) is a `Bound α`; a double
that the model requires to be finite (a parameter's value, a precision) is an `α`.
NaN is not modelled.

The functions below are the *repaired* code (fix commits in findings/C01.json).  The code as
it was before the repairs is kept in `namespace Legacy` together with witnesses of its
defects (BppProofs/Props/C01.lean).
-/
namespace Bpp

/-- an extended scalar: `NumConstants::MINF()`, a finite double, `NumConstants::PINF()` -/
inductive Bound (α : Type) where
  | negInf
  | fin (x : α)
  | posInf
deriving Repr, Inhabited

namespace Bound
variable {α : Type} [Scalar α]

/-- `a <= b` on doubles -/
def leb : Bound α → Bound α → Bool
  | negInf, _ => true
  | fin _, negInf => false
  | fin x, fin y => Scalar.leb x y
  | fin _, posInf => true
  | posInf, posInf => true
  | posInf, _ => false

/-- `a < b` on doubles -/
def ltb : Bound α → Bound α → Bool
  | negInf, negInf => false
  | negInf, _ => true
  | fin _, negInf => false
  | fin x, fin y => Scalar.ltb x y
  | fin _, posInf => true
  | posInf, _ => false

/-- `a == b` on doubles -/
def eqb : Bound α → Bound α → Bool
  | negInf, negInf => true
  | fin x, fin y => Scalar.eqb x y
  | posInf, posInf => true
  | _, _ => false

def geb (a b : Bound α) : Bool := leb b a
def gtb (a b : Bound α) : Bool := ltb b a

/-- `b + x` for a finite `x` -/
def addS : Bound α → α → Bound α
  | negInf, _ => negInf
  | fin b, x => fin (b + x)
  | posInf, _ => posInf

/-- `b - x` for a finite `x` -/
def subS : Bound α → α → Bound α
  | negInf, _ => negInf
  | fin b, x => fin (b - x)
  | posInf, _ => posInf

def isFin : Bound α → Bool
  | fin _ => true
  | _ => false

end Bound

/-- the data members of `IntervalConstraint` (Constraints.h:104-120) -/
structure Interval (α : Type) where
  lo : Bound α
  hi : Bound α
  inclLo : Bool
  inclHi : Bool
  prec : α
deriving Repr, Inhabited

namespace Interval
variable {α : Type} [Scalar α]

/-! ### constructors (Constraints.h:122-169) -/

/-- `IntervalConstraint()` -/
def default : Interval α := ⟨.negInf, .posInf, true, true, Constants.TINY⟩

/-- `IntervalConstraint(lowerBound, upperBound, inclLower, inclUpper, precision)` -/
def make (lo hi : Bound α) (il iu : Bool) (prec : α) : Interval α := ⟨lo, hi, il, iu, prec⟩

/-- `IntervalConstraint(isPositive, bound, incl, precision)`: the infinite bound is excluded -/
def halfLine (isPositive : Bool) (bound : Bound α) (incl : Bool) (prec : α) : Interval α :=
  ⟨if isPositive then bound else .negInf,
   if isPositive then .posInf else bound,
   if isPositive then incl else false,
   if isPositive then false else incl,
   prec⟩

/-! ### accessors and setters (Constraints.h:171-182) -/
def setLowerBound (c : Interval α) (b : Bound α) (strict : Bool) : Interval α :=
  { c with lo := b, inclLo := !strict }
def setUpperBound (c : Interval α) (b : Bound α) (strict : Bool) : Interval α :=
  { c with hi := b, inclHi := !strict }
def strictLowerBound (c : Interval α) : Bool := !c.inclLo
def strictUpperBound (c : Interval α) : Bool := !c.inclHi
/-- `lowerBound_ > MINF()` -/
def finiteLowerBound (c : Interval α) : Bool := Bound.gtb c.lo .negInf
/-- `upperBound_ < PINF()` -/
def finiteUpperBound (c : Interval α) : Bool := Bound.ltb c.hi .posInf

/-! ### membership (Constraints.h:183-193) -/

/-- `includes(min, max)` -/
def includes (c : Interval α) (mn mx : Bound α) : Bool :=
  (if c.inclLo then Bound.geb mn c.lo else Bound.gtb mn c.lo) &&
  (if c.inclHi then Bound.leb mx c.hi else Bound.ltb mx c.hi)

/-- `isCorrect(value)` for any double -/
def isCorrectB (c : Interval α) (v : Bound α) : Bool :=
  (if c.inclLo then Bound.geb v c.lo else Bound.gtb v c.lo) &&
  (if c.inclHi then Bound.leb v c.hi else Bound.ltb v c.hi)

/-- `isCorrect(value)` for a finite value -/
def isCorrect (c : Interval α) (v : α) : Bool := c.isCorrectB (.fin v)

/-! ### comparisons with a value (Constraints.h:195-213) -/
/-- `operator<(double)` -/
def ltV (c : Interval α) (v : Bound α) : Bool := if c.inclHi then Bound.ltb c.hi v else Bound.leb c.hi v
/-- `operator>(double)` -/
def gtV (c : Interval α) (v : Bound α) : Bool := if c.inclLo then Bound.gtb c.lo v else Bound.geb c.lo v
/-- `operator<=(double)` -/
def leV (c : Interval α) (v : Bound α) : Bool := Bound.leb c.hi v
/-- `operator>=(double)` -/
def geV (c : Interval α) (v : Bound α) : Bool := Bound.geb c.lo v

/-! ### limits (Constraints.h:215-227) -/

/-- `getLimit(value)` -/
def getLimit (c : Interval α) (v : Bound α) : Bound α :=
  if c.isCorrectB v then v else (if c.geV v then c.lo else c.hi)

/-- `getAcceptedLimit(value)` -/
def getAcceptedLimit (c : Interval α) (v : Bound α) : Bound α :=
  if c.isCorrectB v then v else
    (if c.geV v then
      (if c.strictLowerBound then c.lo.addS c.prec else c.lo)
     else
      (if c.strictUpperBound then c.hi.subS c.prec else c.hi))

/-! ### intersection (Constraints.h:276-342), repaired: at equal bounds the intersection is
inclusive only when both operands are -/

/-- the lower end of `operator&` / `operator&=` -/
def interLo (c d : Interval α) : Bound α × Bool :=
  if Bound.ltb c.lo d.lo then (d.lo, d.inclLo)
  else if Bound.gtb c.lo d.lo then (c.lo, c.inclLo)
  else (c.lo, c.inclLo && d.inclLo)

/-- the upper end of `operator&` / `operator&=` -/
def interHi (c d : Interval α) : Bound α × Bool :=
  if Bound.gtb c.hi d.hi then (d.hi, d.inclHi)
  else if Bound.ltb c.hi d.hi then (c.hi, c.inclHi)
  else (c.hi, c.inclHi && d.inclHi)

/-- `operator&`: a new interval; precision = the larger one -/
def inter (c d : Interval α) : Interval α :=
  let l := interLo c d
  let h := interHi c d
  ⟨l.1, h.1, l.2, h.2, if Scalar.gtb c.prec d.prec then c.prec else d.prec⟩

/-- `operator&=`: in place -/
def interAssign (c d : Interval α) : Interval α :=
  let c1 : Interval α :=
    if Bound.ltb c.lo d.lo then { c with lo := d.lo, inclLo := d.inclLo }
    else if Bound.eqb c.lo d.lo then { c with inclLo := c.inclLo && d.inclLo }
    else c
  let c2 : Interval α :=
    if Bound.gtb c1.hi d.hi then { c1 with hi := d.hi, inclHi := d.inclHi }
    else if Bound.eqb c1.hi d.hi then { c1 with inclHi := c1.inclHi && d.inclHi }
    else c1
  if Scalar.gtb d.prec c2.prec then { c2 with prec := d.prec } else c2

/-! ### comparisons of intervals (Constraints.h:344-378) -/
/-- `operator==` (precision is not compared) -/
def eqI (c d : Interval α) : Bool :=
  Bound.eqb c.lo d.lo && (c.inclLo == d.inclLo) && Bound.eqb c.hi d.hi && (c.inclHi == d.inclHi)
/-- `operator!=` -/
def neI (c d : Interval α) : Bool :=
  !(Bound.eqb c.lo d.lo) || (c.inclLo != d.inclLo) || !(Bound.eqb c.hi d.hi) || (c.inclHi != d.inclHi)
/-- `operator<=(IntervalConstraint)`: compares the bounds only (not the flags) -/
def leI (c d : Interval α) : Bool := Bound.geb c.lo d.lo && Bound.leb c.hi d.hi

/-! ### emptiness (Constraints.h:405-415), repaired twice: the second disjunct tests the flags
(it repeated `lb > ub`), and a one-point interval is non-empty only when the point is finite
(`[+inf,+inf]`, `[-inf,-inf]` accept no real number) -/
def isEmpty (c : Interval α) : Bool :=
  Bound.gtb c.lo c.hi ||
    (Bound.eqb c.lo c.hi && !(c.inclHi && c.inclLo && c.finiteLowerBound && c.finiteUpperBound))

/-! ### executable specifications evaluated by the driver on the implementation's answers
(the theorems of BppProofs/Props/C01.lean connect them with the functions above) -/

/-- lower half of the denotation: `lo < v`, or `lo = v` when the bound is included -/
def memSpecLo (c : Interval α) (v : Bound α) : Bool := Bound.ltb c.lo v || (c.inclLo && Bound.eqb c.lo v)
/-- upper half of the denotation -/
def memSpecHi (c : Interval α) (v : Bound α) : Bool := Bound.ltb v c.hi || (c.inclHi && Bound.eqb v c.hi)
/-- the denotation of the interval, written independently of `isCorrect` -/
def memSpec (c : Interval α) (v : Bound α) : Bool := c.memSpecLo v && c.memSpecHi v

/-- what `getLimit(v)` may answer: `v` itself when accepted, else the bound on `v`'s side -/
def limitOk (c : Interval α) (v w : Bound α) : Bool :=
  if c.memSpec v then Bound.eqb w v
  else if Bound.leb v c.lo then Bound.eqb w c.lo else Bound.eqb w c.hi

/-- the lower bound is not `+inf` and the upper bound is not `-inf` (every interval written in the
documented bracket syntax, and every interval with finite or properly infinite bounds) -/
def proper (c : Interval α) : Bool :=
  (match c.lo with | .posInf => false | _ => true) && (match c.hi with | .negInf => false | _ => true)

/-- wide enough for the auto-correcting setter: non-negative precision and
`lo + precision + TINY < hi` -/
def wide (c : Interval α) : Bool :=
  Scalar.leb Scalar.zero c.prec && Bound.ltb (c.lo.addS (c.prec + Constants.TINY)) c.hi

/-- inside the property's quantifier for the auto-correcting variant: at least `1e-9` wide -/
def widthOk (c : Interval α) : Bool := Bound.leb (c.lo.addS Constants.NANO) c.hi

/-! ### the code as it was before the repairs -/
namespace Legacy

/-- `operator&` as found: on equal bounds the *argument's* flag wins -/
def inter (c d : Interval α) : Interval α :=
  let l : Bound α × Bool := if Bound.leb c.lo d.lo then (d.lo, d.inclLo) else (c.lo, c.inclLo)
  let h : Bound α × Bool := if Bound.geb c.hi d.hi then (d.hi, d.inclHi) else (c.hi, c.inclHi)
  ⟨l.1, h.1, l.2, h.2, if Scalar.gtb c.prec d.prec then c.prec else d.prec⟩

/-- `operator&=` as found -/
def interAssign (c d : Interval α) : Interval α :=
  let c1 : Interval α := if Bound.leb c.lo d.lo then { c with lo := d.lo, inclLo := d.inclLo } else c
  let c2 : Interval α := if Bound.geb c1.hi d.hi then { c1 with hi := d.hi, inclHi := d.inclHi } else c1
  if Scalar.gtb d.prec c2.prec then { c2 with prec := d.prec } else c2

/-- `isEmpty` as found: the second disjunct repeats `lb > ub` -/
def isEmpty (c : Interval α) : Bool :=
  Bound.gtb c.lo c.hi || (Bound.gtb c.lo c.hi && c.inclHi && c.inclLo)

/-- `isEmpty` after the first repair only: a one-point interval at an infinite bound is reported
non-empty although it accepts no real number -/
def isEmpty1 (c : Interval α) : Bool :=
  Bound.gtb c.lo c.hi || (Bound.eqb c.lo c.hi && !(c.inclLo && c.inclHi))

end Legacy

end Interval
end Bpp
