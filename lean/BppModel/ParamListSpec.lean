import BppModel.ParamList
/-
Executable predicates of property C02, phrased on a pair of machine states (before / after
one operation) and the operation's answer.  They are evaluated by the driver on the states
reconstructed from the *implementation's* answers, and `BppProofs/Props/C02.lean` proves
that every step of the model satisfies them (for every number `n` of observed registers).
Core Lean only.
-/
namespace Bpp.ParamList

/-- specification of the out-vector of `matchParametersValues`, read off the state *before* the
call: the source positions (counted from `pos`) whose name is in `l` and whose value differs from
the target's -/
def diffPos (h : Store) (l : List ObjId) (pos : Nat) : List ObjId → List Nat
  | [] => []
  | s :: rest =>
    match find? h l (nameOf h s) with
    | none => diffPos h l (pos + 1) rest
    | some t =>
      if (h.get t).value ≠ (h.get s).value then pos :: diffPos h l (pos + 1) rest
      else diffPos h l (pos + 1) rest

/-- names of register `k` are pairwise different -/
def namesUniqueB (s : State) (k : Nat) : Bool := decide (names s.heap (s.lists k)).Nodup

def allNamesUnique (n : Nat) (s : State) : Bool := (List.range n).all (namesUniqueB s)

/-- every object of every observed register satisfies its own constraint (C01's invariant) -/
def allOk (n : Nat) (s : State) : Bool :=
  (List.range n).all (fun k => (s.lists k).all (fun i => (s.heap.get i).ok))

def sameLists (n : Nat) (a b : State) : Bool := (List.range n).all (fun k => a.lists k == b.lists k)

/-- all objects that existed in `a` are the same in `b` -/
def sameObjs (a b : State) : Bool := (List.range a.heap.next).all (fun i => a.heap.get i == b.heap.get i)

def unchanged (n : Nat) (a b : State) : Bool := sameLists n a b && sameObjs a b

/-- operations that either succeed or leave everything as it was -/
def Op.atomic : Op → Bool
  | .add .. | .addPtr .. | .share .. | .setParam .. | .setValue .. | .setAllValues ..
  | .setValues .. | .testValues .. | .matchValues .. | .delName .. | .delIdx ..
  | .subNames .. | .subName .. | .subIdxs .. | .subIdx .. | .shareSubNames .. | .shareSubIdxs ..
  | .which .. | .getValue .. | .apSetAll .. | .apSetValue .. | .apSetValues .. | .apMatch .. => true
  | .delIdxs _ idx => decide idx.Nodup
  | _ => false

/-- operations after which names are still pairwise different -/
def Op.keepsNames : Op → Bool
  | .apNamespace .. => false
  | _ => true

/-- clause `bulk_atomic`: an atomic operation that raised changed nothing -/
def clauseAtomic (n : Nat) (b : State) (op : Op) (out : Out) (a : State) : Bool :=
  !(op.atomic && out.isErr) || unchanged n b a

/-- clause `names_unique` -/
def clauseNames (n : Nat) (b : State) (op : Op) (a : State) : Bool :=
  !(allNamesUnique n b && op.keepsNames) || allNamesUnique n a

/-- clause `list_param_inv` -/
def clauseOk (n : Nat) (b : State) (a : State) : Bool :=
  !(allOk n b) || allOk n a

/-- all clauses; `none` = every clause holds, `some c` = clause `c` is false -/
def checkStep (n : Nat) (b : State) (op : Op) (out : Out) (a : State) : Option String :=
  if !clauseNames n b op a then some "names_unique"
  else if !clauseOk n b a then some "list_param_inv"
  else if !clauseAtomic n b op out a then some "bulk_atomic"
  else none

end Bpp.ParamList
