import BppModel.ParamList
/-
Executable predicates of property C02, phrased on a pair of machine states (before / after
one operation) and the operation's answer.  They are evaluated by the driver on the states
reconstructed from the *implementation's* answers, and `BppProofs/Props/C02.lean` proves
that every step of the model satisfies them (for every number `n` of observed registers).
Core Lean only.
-/
namespace Bpp.ParamList

/-- specification of the out-vector of `matchParametersValues`, read off the state *before* the
call: the source positions (counted from `pos`) whose name is in `l` and whose value differs from
the target's -/
def diffPos (h : Store) (l : List ObjId) (pos : Nat) : List ObjId → List Nat
  | [] => []
  | s :: rest =>
    match find? h l (nameOf h s) with
    | none => diffPos h l (pos + 1) rest
    | some t =>
      if (h.get t).value ≠ (h.get s).value then pos :: diffPos h l (pos + 1) rest
      else diffPos h l (pos + 1) rest

/-- specification of index-set deletion: the entries whose position (counted from `n`) is not in
`idx`, in their original order -/
def keepFrom (idx : List Nat) (n : Nat) : List ObjId → List ObjId
  | [] => []
  | a :: t => if n ∈ idx then keepFrom idx (n + 1) t else a :: keepFrom idx (n + 1) t

/-- names of register `k` are pairwise different -/
def namesUniqueB (s : State) (k : Nat) : Bool := decide (names s.heap (s.lists k)).Nodup

def allNamesUnique (n : Nat) (s : State) : Bool := (List.range n).all (namesUniqueB s)

/-- every object of every observed register satisfies its own constraint (C01's invariant) -/
def allOk (n : Nat) (s : State) : Bool :=
  (List.range n).all (fun k => (s.lists k).all (fun i => (s.heap.get i).ok))

def sameLists (n : Nat) (a b : State) : Bool := (List.range n).all (fun k => a.lists k == b.lists k)

/-- all objects that existed in `a` are the same in `b` -/
def sameObjs (a b : State) : Bool := (List.range a.heap.next).all (fun i => a.heap.get i == b.heap.get i)

def unchanged (n : Nat) (a b : State) : Bool := sameLists n a b && sameObjs a b

/-- operations that either succeed or leave everything as it was -/
def Op.atomic : Op → Bool
  | .add .. | .addPtr .. | .share .. | .setParam .. | .setValue .. | .setAllValues ..
  | .setValues .. | .testValues .. | .matchValues .. | .delName .. | .delIdx ..
  | .subNames .. | .subName .. | .subIdxs .. | .subIdx ..
  | .which .. | .getValue .. | .apSetAll .. | .apSetValue .. | .apSetValues .. | .apMatch .. => true
  | .delIdxs _ idx => decide idx.Nodup
  | _ => false

/-- operations after which names are still pairwise different -/
def Op.keepsNames : Op → Bool
  | .apNamespace .. => false
  | _ => true

/-- registers through which the operation may write parameter objects (everything else it
leaves alone; allocation of new objects is not a write) -/
def Op.writes : Op → List Nat
  | .share k j _ | .shareAll k j | .apMatch k j => [k, j]
  | .incl k _ | .setValue k .. | .setAllValues k _ | .setValues k _ | .matchValues k .. | .setAllParams k _
  | .setParams k _ | .matchParams k _ | .shareSubNames k .. | .shareSubIdxs k .. | .apSetAll k _
  | .apSetValue k .. | .apSetValues k _ | .apNamespace k _ => [k]
  | _ => []

/-- the register whose list the operation may replace -/
def Op.dest : Op → Option Nat
  | .add k _ | .addPtr k _ | .addAll k _ | .share k .. | .shareAll k _ | .incl k _ | .setParam k .. | .delName k _
  | .delNames k .. | .delIdx k _ | .delIdxs k _ | .reset k => some k
  | .subNames _ j _ | .subName _ j _ | .subIdxs _ j _ | .subIdx _ j _ | .shareSubNames _ j _ | .shareSubIdxs _ j _
  | .copy _ j | .assign _ j => some j
  | .common _ _ m => some m
  | _ => none

/-- clause `frame`: objects outside the written registers are untouched, registers other than
the destination keep their list -/
def clauseFrame (n : Nat) (b : State) (op : Op) (a : State) : Bool :=
  (List.range b.heap.next).all (fun i =>
    op.writes.any (fun r => (b.lists r).contains i) || a.heap.get i == b.heap.get i) &&
  (List.range n).all (fun r => op.dest == some r || a.lists r == b.lists r)

/-- clause `bulk_atomic`: an atomic operation that raised changed nothing -/
def clauseAtomic (n : Nat) (b : State) (op : Op) (out : Out) (a : State) : Bool :=
  !(op.atomic && out.isErr) || unchanged n b a

/-- clause `names_unique` -/
def clauseNames (n : Nat) (b : State) (op : Op) (a : State) : Bool :=
  !(allNamesUnique n b && op.keepsNames) || allNamesUnique n a

/-- clause `list_param_inv` -/
def clauseOk (n : Nat) (b : State) (a : State) : Bool :=
  !(allOk n b) || allOk n a


/-! ### specification-level expectations, read off the state before the call -/

/-- what a successful `setParametersValues` / `matchParametersValues` leaves in object `i`:
if some source entry's name resolves to `i` in the target list, `i` holds that entry's value -/
def expectedSome (h : Store) (l src : List ObjId) (i : ObjId) : Par :=
  match src.find? (fun s => find? h l (nameOf h s) == some i) with
  | some s => { h.get i with value := (h.get s).value }
  | none => h.get i

/-- what a successful `setAllParametersValues` leaves in object `i` -/
def expectedAll (h : Store) (l src : List ObjId) (i : ObjId) : Par :=
  if i ∈ l then
    match find? h src (nameOf h i) with
    | some j => { h.get i with value := (h.get j).value }
    | none => h.get i
  else h.get i

/-- the first pass of the source-iterating setters accepts every matching value -/
def acceptsSome (h : Store) (l src : List ObjId) : Bool :=
  src.all (fun s => match find? h l (nameOf h s) with
    | some t => !(h.get t).rejects (h.get s).value
    | none => true)

/-- the first pass of `setAllParametersValues` finds and accepts a value for every entry -/
def acceptsAll (h : Store) (l src : List ObjId) : Bool :=
  l.all (fun i => match find? h src (nameOf h i) with
    | some j => !(h.get i).rejects (h.get j).value
    | none => false)

/-- clause `bulk_applies` (+ raise condition of `bulk_atomic`) -/
def clauseApplies (b : State) (op : Op) (out : Out) (a : State) : Bool :=
  match op with
  | .setValues k j | .matchValues k j _ | .apSetValues k j | .apMatch k j =>
    (out.isErr == !acceptsSome b.heap (b.lists k) (b.lists j)) &&
    (out.isErr || !namesUniqueB b j ||
      decide (∀ i, i < b.heap.next → a.heap.get i = expectedSome b.heap (b.lists k) (b.lists j) i))
  | .testValues k j => out.isErr == !acceptsSome b.heap (b.lists k) (b.lists j)
  | .setAllValues k j | .apSetAll k j =>
    (out.isErr == !acceptsAll b.heap (b.lists k) (b.lists j)) &&
    (out.isErr || !namesUniqueB b k ||
      decide (∀ i, i < b.heap.next → a.heap.get i = expectedAll b.heap (b.lists k) (b.lists j) i))
  | _ => true

/-- clause `match_flag_exact`: flag, out-vector and notification list -/
def clauseMatch (b : State) (op : Op) (out : Out) (fired : Option (List ObjId)) : Bool :=
  match op with
  | .matchValues k j w =>
    out.isErr || !namesUniqueB b j ||
      (let d := diffPos b.heap (b.lists k) 0 (b.lists j)
       out == .flag (d ≠ []) (if w then some d else none))
  | .testValues k j =>
    out.isErr || (out == .flag (diffPos b.heap (b.lists k) 0 (b.lists j) ≠ []) none)
  | .apMatch k j =>
    out.isErr || !namesUniqueB b j ||
      (let d := diffPos b.heap (b.lists k) 0 (b.lists j)
       out == .flag (d ≠ []) none &&
       fired == (if d = [] then none else some (d.filterMap ((b.lists j)[·]?))))
  | .apSetAll _ j | .apSetValues _ j => fired == (if out.isErr then none else some (b.lists j))
  | _ => true

/-- clause `copy_independent` / `sublist_independent`: the destination holds fresh, pairwise
different objects showing the selected entries -/
def freshWith (b a : State) (j : Nat) (content : List Par) : Bool :=
  decide ((a.lists j).map a.heap.get = content) &&
  (a.lists j).all (fun i => decide (b.heap.next ≤ i)) && decide (a.lists j).Nodup

def clauseFresh (b : State) (op : Op) (out : Out) (a : State) : Bool :=
  match op with
  | .copy k j | .assign k j => freshWith b a j ((b.lists k).map b.heap.get)
  | .subNames k j ns =>
    if decide ns.Nodup && ns.all (fun n => (find? b.heap (b.lists k) n).isSome) then
      out == .ok && freshWith b a j ((ns.filterMap (find? b.heap (b.lists k))).map b.heap.get)
    else out.isErr
  | .subName k j n =>
    match find? b.heap (b.lists k) n with
    | some i => out == .ok && freshWith b a j [b.heap.get i]
    | none => out == .err .notfound
  | .subIdxs k j idx =>
    !namesUniqueB b k || !decide idx.Nodup ||
      (out == .ok && freshWith b a j ((idx.filterMap ((b.lists k)[·]?)).map b.heap.get))
  | .subIdx k j i =>
    out == .ok && freshWith b a j ((([i] : List Nat).filterMap ((b.lists k)[·]?)).map b.heap.get)
  | .common k j m =>
    out == .ok && freshWith b a m
      (((b.lists j).filter (fun s => hasParameter b.heap (b.lists k) (nameOf b.heap s))).map b.heap.get)
  | _ => true

/-- clause `share_aliases`: shared sub-lists and shared parameters are the same objects -/
def clauseShare (b : State) (op : Op) (out : Out) (a : State) : Bool :=
  match op with
  | .shareSubNames k j ns =>
    if ns.all (fun n => (find? b.heap (b.lists k) n).isSome) then
      !decide ns.Nodup || (out == .ok && a.lists j == ns.filterMap (find? b.heap (b.lists k)))
    else out.isErr
  | .shareSubIdxs k j idx =>
    !namesUniqueB b k || !decide idx.Nodup ||
      (out == .ok && a.lists j == idx.filterMap ((b.lists k)[·]?))
  | .share k j n =>
    match find? b.heap (b.lists j) n with
    | none => out == .err .notfound
    | some i =>
      if hasParameter b.heap (b.lists k) n then a.lists k == b.lists k
      else out == .ok && a.lists k == b.lists k ++ [i]
  | _ => true

/-- clause `delete_indices_exact` / `delete_name_exact` -/
def clauseDelete (b : State) (op : Op) (out : Out) (a : State) : Bool :=
  match op with
  | .delIdxs k idx =>
    !decide idx.Nodup ||
      (if idx.all (fun d => decide (d < (b.lists k).length)) then
        out == .ok && a.lists k == keepFrom idx 0 (b.lists k)
       else out == .err .index && a.lists k == b.lists k)
  | .delIdx k i =>
    if i < (b.lists k).length then out == .ok && a.lists k == (b.lists k).eraseIdx i
    else out == .err .index && a.lists k == b.lists k
  | .delName k n =>
    if hasParameter b.heap (b.lists k) n then
      out == .ok && names b.heap (a.lists k) == (names b.heap (b.lists k)).erase n
    else out == .err .notfound && a.lists k == b.lists k
  | _ => true

/-- clause `add_dup_refused` -/
def clauseAdd (b : State) (op : Op) (out : Out) (a : State) : Bool :=
  match op with
  | .add k p | .addPtr k p =>
    if !p.ok then out == .err .constraint
    else if hasParameter b.heap (b.lists k) p.name then out == .err .bpp
    else out == .ok &&
      (match (a.lists k).getLast? with
       | some i => decide (b.heap.next ≤ i) && a.heap.get i == p && a.lists k == b.lists k ++ [i]
       | none => false)
  | _ => true

/-- clause `lookup_exact` -/
def clauseLookup (b : State) (op : Op) (out : Out) : Bool :=
  match op with
  | .which k n =>
    (match out with
     | .nat i => (names b.heap (b.lists k))[i]? == some n &&
         (List.range i).all (fun j => (names b.heap (b.lists k))[j]? != some n)
     | .err .notfound => !(names b.heap (b.lists k)).contains n
     | _ => false)
  | .has k n => out == .bool ((names b.heap (b.lists k)).contains n)
  | .names k => out == .strs (names b.heap (b.lists k))
  | .size k => out == .nat (b.lists k).length
  | .getValue k n =>
    (match find? b.heap (b.lists k) n with
     | some i => out == .val (b.heap.get i).value
     | none => out == .err .notfound)
  | _ => true


/-- what `setParameterValue(n, v)` on the list `l` must do -/
def updateOk (b : State) (l : List ObjId) (n : String) (v : Rat) (out : Out) (a : State) : Bool :=
  match find? b.heap l n with
  | none => out == .err .notfound
  | some t =>
    if (b.heap.get t).rejects v && decide (v ≠ (b.heap.get t).value) then out == .err .constraint
    else out == .ok && a.heap.get t == { b.heap.get t with value := v }

/-- clause `include_share_collision_updates` / single updates -/
def clauseUpdate (b : State) (op : Op) (out : Out) (a : State) : Bool :=
  match op with
  | .setValue k n v => updateOk b (b.lists k) n v out a
  | .apSetValue k n v => updateOk b (b.lists k) (b.pre k ++ n) v out a
  | .share k j n =>
    match find? b.heap (b.lists j) n with
    | some i =>
      if hasParameter b.heap (b.lists k) n then updateOk b (b.lists k) n (b.heap.get i).value out a else true
    | none => true
  | _ => true

/-- specification of `deleteParameters(names, mustExist)` for pairwise different names -/
def clauseDeleteNames (b : State) (op : Op) (out : Out) (a : State) : Bool :=
  match op with
  | .delNames k ns must =>
    !decide ns.Nodup ||
      (let nm := names b.heap (b.lists k)
       let pre := if must then ns.takeWhile (fun n => nm.contains n) else ns
       names b.heap (a.lists k) == pre.foldl (fun acc n => acc.erase n) nm &&
       out == (if pre.length == ns.length then .ok else .err .notfound))
  | _ => true

/-- a colliding source entry whose value its target refuses (`Parameter::setValue` semantics:
an equal value is never refused) -/
def rejColl (h : Store) (l : List ObjId) (s : ObjId) : Bool :=
  match find? h l (nameOf h s) with
  | some t => (h.get t).rejects (h.get s).value && decide ((h.get s).value ≠ (h.get t).value)
  | none => false

/-- the source entries that are processed: everything before the first refused collision -/
def mergePrefix (h : Store) (l src : List ObjId) : List ObjId := src.takeWhile (fun s => !rejColl h l s)

/-- the processed entries whose name is new to the list -/
def mergeNews (h : Store) (l src : List ObjId) : List ObjId :=
  (mergePrefix h l src).filter (fun s => !hasParameter h l (nameOf h s))

/-- `addParameters`, general form: everything before the first name already present is cloned and
appended; then ParameterException -/
def addPrefix (h : Store) (l src : List ObjId) : List ObjId :=
  src.takeWhile (fun s => !hasParameter h l (nameOf h s))

/-- what `matchParameters` / `setParameters` leave in object `i`: a copy of the processed source
entry whose name resolves to `i` -/
def expectedPar (h : Store) (l src : List ObjId) (i : ObjId) : Par :=
  match src.find? (fun s => find? h l (nameOf h s) == some i) with
  | some s => h.get s
  | none => h.get i

/-- the source entries `setParameters` processes: everything before the first unknown name -/
def knownPrefix (h : Store) (l src : List ObjId) : List ObjId :=
  src.takeWhile (fun s => hasParameter h l (nameOf h s))

/-- what `setAllParameters` leaves in object `i`: entries of the processed prefix of the list
become copies of the source entry of their name -/
def expectedAllPar (h : Store) (pre src : List ObjId) (i : ObjId) : Par :=
  if i ∈ pre then
    match find? h src (nameOf h i) with
    | some j => h.get j
    | none => h.get i
  else h.get i

/-- the list of register `k` is `l` followed by fresh, pairwise different objects showing `content` -/
def freshAppended (b a : State) (k : Nat) (l : List ObjId) (content : List Par) : Bool :=
  (a.lists k).take l.length == l &&
  decide (((a.lists k).drop l.length).map a.heap.get = content) &&
  ((a.lists k).drop l.length).all (fun i => decide (b.heap.next ≤ i)) &&
  decide ((a.lists k).drop l.length).Nodup

/-- clause `include_share_collision_updates` for the bulk forms: `includeParameters`,
`shareParameters`, `addParameters` between two lists with unique names -/
def clauseMerge (b : State) (op : Op) (out : Out) (a : State) : Bool :=
  match op with
  | .incl k j =>
    !(namesUniqueB b k && namesUniqueB b j) ||
      (out == (if (mergePrefix b.heap (b.lists k) (b.lists j)).length = (b.lists j).length then .ok
               else .err .constraint) &&
       freshAppended b a k (b.lists k) ((mergeNews b.heap (b.lists k) (b.lists j)).map b.heap.get) &&
       decide (∀ i, i < b.heap.next →
         a.heap.get i = expectedSome b.heap (b.lists k) (mergePrefix b.heap (b.lists k) (b.lists j)) i))
  | .shareAll k j =>
    !(namesUniqueB b k && namesUniqueB b j) ||
      (out == (if (mergePrefix b.heap (b.lists k) (b.lists j)).length = (b.lists j).length then .ok
               else .err .constraint) &&
       a.lists k == b.lists k ++ mergeNews b.heap (b.lists k) (b.lists j) &&
       decide (∀ i, i < b.heap.next →
         a.heap.get i = expectedSome b.heap (b.lists k) (mergePrefix b.heap (b.lists k) (b.lists j)) i))
  | .addAll k j =>
    !(namesUniqueB b k && namesUniqueB b j) ||
      (out == (if (addPrefix b.heap (b.lists k) (b.lists j)).length = (b.lists j).length then .ok
               else .err .bpp) &&
       freshAppended b a k (b.lists k) ((addPrefix b.heap (b.lists k) (b.lists j)).map b.heap.get) &&
       decide (∀ i, i < b.heap.next → a.heap.get i = b.heap.get i))
  | _ => true

/-- clause for whole-parameter assignment: `matchParameters`, `setParameters`, `setAllParameters` -/
def clauseAssign (b : State) (op : Op) (out : Out) (a : State) : Bool :=
  match op with
  | .matchParams k j =>
    !namesUniqueB b j ||
      (out == .ok &&
       decide (∀ i, i < b.heap.next → a.heap.get i = expectedPar b.heap (b.lists k) (b.lists j) i))
  | .setParams k j =>
    !namesUniqueB b j ||
      (out == (if (knownPrefix b.heap (b.lists k) (b.lists j)).length = (b.lists j).length then .ok
               else .err .notfound) &&
       decide (∀ i, i < b.heap.next →
         a.heap.get i = expectedPar b.heap (b.lists k) (knownPrefix b.heap (b.lists k) (b.lists j)) i))
  | .setAllParams k j =>
    !namesUniqueB b k ||
      (out == (if ((b.lists k).takeWhile (fun i => hasParameter b.heap (b.lists j) (nameOf b.heap i))).length
                  = (b.lists k).length then .ok else .err .notfound) &&
       decide (∀ i, i < b.heap.next → a.heap.get i =
         expectedAllPar b.heap ((b.lists k).takeWhile (fun i => hasParameter b.heap (b.lists j) (nameOf b.heap i)))
           (b.lists j) i))
  | _ => true


/-- clause `owner_forwards` for `setParameterValue(name, value)` of the owner: on success the
notification carries one fresh object, a copy of the updated parameter `prefix + name` -/
def clauseNotify (b : State) (op : Op) (out : Out) (fired : Option (List ObjId)) (a : State) : Bool :=
  match op with
  | .apSetValue k n _ =>
    if out.isErr then fired == none
    else
      match fired, find? b.heap (b.lists k) (b.pre k ++ n) with
      | some [i], some t => decide (b.heap.next ≤ i) && a.heap.get i == a.heap.get t
      | _, _ => false
  | _ => true

/-- all clauses; `none` = every clause holds, `some c` = clause `c` is false -/
def checkStep (n : Nat) (b : State) (op : Op) (out : Out) (fired : Option (List ObjId)) (a : State) :
    Option String :=
  if !clauseNames n b op a then some "names_unique"
  else if !clauseOk n b a then some "list_param_inv"
  else if !clauseAtomic n b op out a then some "bulk_atomic"
  else if !clauseFrame n b op a then some "frame"
  else if !clauseApplies b op out a then some "bulk_applies"
  else if !clauseMatch b op out fired then some "match_flag_exact"
  else if !clauseFresh b op out a then some "copy_independent"
  else if !clauseShare b op out a then some "share_aliases"
  else if !clauseDelete b op out a then some "delete_exact"
  else if !clauseAdd b op out a then some "add_dup_refused"
  else if !clauseLookup b op out then some "lookup_exact"
  else if !clauseUpdate b op out a then some "include_share_collision_updates"
  else if !clauseDeleteNames b op out a then some "delete_names_exact"
  else if !clauseMerge b op out a then some "include_share_add_all"
  else if !clauseAssign b op out a then some "whole_parameter_assignment"
  else if !clauseNotify b op out fired a then some "owner_forwards"
  else none

end Bpp.ParamList
