import BppModel.ParamList
/-
Executable predicates of property C02, phrased on a pair of machine states (before / after
one operation) and the operation's answer.  They are evaluated by the driver on the states
reconstructed from the *implementation's* answers, and `BppProofs/Props/C02.lean` proves
that every step of the model satisfies them (for every number `n` of observed registers).
Core Lean only.
-/
namespace Bpp.ParamList

/-- specification of the out-vector of `matchParametersValues`, read off the state *before* the
call: the source positions (counted from `pos`) whose name is in `l` and whose value differs from
the target's -/
def diffPos (h : Store) (l : List ObjId) (pos : Nat) : List ObjId → List Nat
  | [] => []
  | s :: rest =>
    match find? h l (nameOf h s) with
    | none => diffPos h l (pos + 1) rest
    | some t =>
      if (h.get t).value ≠ (h.get s).value then pos :: diffPos h l (pos + 1) rest
      else diffPos h l (pos + 1) rest

/-- specification of index-set deletion: the entries whose position (counted from `n`) is not in
`idx`, in their original order -/
def keepFrom (idx : List Nat) (n : Nat) : List ObjId → List ObjId
  | [] => []
  | a :: t => if n ∈ idx then keepFrom idx (n + 1) t else a :: keepFrom idx (n + 1) t

/-- names of register `k` are pairwise different -/
def namesUniqueB (s : State) (k : Nat) : Bool := decide (names s.heap (s.lists k)).Nodup

def allNamesUnique (n : Nat) (s : State) : Bool := (List.range n).all (namesUniqueB s)

/-- every object of every observed register satisfies its own constraint (C01's invariant) -/
def allOk (n : Nat) (s : State) : Bool :=
  (List.range n).all (fun k => (s.lists k).all (fun i => (s.heap.get i).ok))

def sameLists (n : Nat) (a b : State) : Bool := (List.range n).all (fun k => a.lists k == b.lists k)

/-- all objects that existed in `a` are the same in `b` -/
def sameObjs (a b : State) : Bool := (List.range a.heap.next).all (fun i => a.heap.get i == b.heap.get i)

def unchanged (n : Nat) (a b : State) : Bool := sameLists n a b && sameObjs a b

/-- operations that either succeed or leave everything as it was -/
def Op.atomic : Op → Bool
  | .add .. | .addPtr .. | .share .. | .setParam .. | .setValue .. | .setAllValues ..
  | .setValues .. | .testValues .. | .matchValues .. | .delName .. | .delIdx ..
  | .subNames .. | .subName .. | .subIdxs .. | .subIdx .. | .shareSubNames .. | .shareSubIdxs ..
  | .which .. | .getValue .. | .apSetAll .. | .apSetValue .. | .apSetValues .. | .apMatch .. => true
  | .delIdxs _ idx => decide idx.Nodup
  | _ => false

/-- operations after which names are still pairwise different -/
def Op.keepsNames : Op → Bool
  | .apNamespace .. => false
  | _ => true

/-- registers through which the operation may write parameter objects (everything else it
leaves alone; allocation of new objects is not a write) -/
def Op.writes : Op → List Nat
  | .share k j _ | .shareAll k j | .apMatch k j => [k, j]
  | .incl k _ | .setValue k .. | .setAllValues k _ | .setValues k _ | .matchValues k .. | .setAllParams k _
  | .setParams k _ | .matchParams k _ | .shareSubNames k .. | .shareSubIdxs k .. | .apSetAll k _
  | .apSetValue k .. | .apSetValues k _ | .apNamespace k _ => [k]
  | _ => []

/-- the register whose list the operation may replace -/
def Op.dest : Op → Option Nat
  | .add k _ | .addPtr k _ | .addAll k _ | .share k .. | .shareAll k _ | .incl k _ | .setParam k .. | .delName k _
  | .delNames k .. | .delIdx k _ | .delIdxs k _ | .reset k => some k
  | .subNames _ j _ | .subName _ j _ | .subIdxs _ j _ | .subIdx _ j _ | .shareSubNames _ j _ | .shareSubIdxs _ j _
  | .copy _ j | .assign _ j => some j
  | .common _ _ m => some m
  | _ => none

/-- clause `frame`: objects outside the written registers are untouched, registers other than
the destination keep their list -/
def clauseFrame (n : Nat) (b : State) (op : Op) (a : State) : Bool :=
  (List.range b.heap.next).all (fun i =>
    op.writes.any (fun r => (b.lists r).contains i) || a.heap.get i == b.heap.get i) &&
  (List.range n).all (fun r => op.dest == some r || a.lists r == b.lists r)

/-- clause `bulk_atomic`: an atomic operation that raised changed nothing -/
def clauseAtomic (n : Nat) (b : State) (op : Op) (out : Out) (a : State) : Bool :=
  !(op.atomic && out.isErr) || unchanged n b a

/-- clause `names_unique` -/
def clauseNames (n : Nat) (b : State) (op : Op) (a : State) : Bool :=
  !(allNamesUnique n b && op.keepsNames) || allNamesUnique n a

/-- clause `list_param_inv` -/
def clauseOk (n : Nat) (b : State) (a : State) : Bool :=
  !(allOk n b) || allOk n a

/-- all clauses; `none` = every clause holds, `some c` = clause `c` is false -/
def checkStep (n : Nat) (b : State) (op : Op) (out : Out) (a : State) : Option String :=
  if !clauseNames n b op a then some "names_unique"
  else if !clauseOk n b a then some "list_param_inv"
  else if !clauseAtomic n b op out a then some "bulk_atomic"
  else if !clauseFrame n b op a then some "frame"
  else none

end Bpp.ParamList
