import BppModel.Optim
/-
The executable predicates of property C10: the theorems of BppProofs/Props/C10*.lean are stated
with them and the driver (Drive/C10.lean) evaluates the very same definitions on the answers of the
implementation.
-/
namespace Bpp.Optim.Spec
open Bpp Scalar

section
variable {α : Type} [Scalar α]

/-- "the point reported after optimisation has an objective value no greater than the starting
value" -/
def descent (final start : α) : Bool := leb final start

/-- "the value returned equals the objective evaluated at the reported parameters": `value` is what
the optimiser reports, `point` the function's point with the reported parameters written into it -/
def consistent (obj : List α → α) (value : α) (point : List α) : Bool := eqb value (obj point)

/-- the function itself has been left at the reported parameters -/
def stateAt (fnPoint : List α) (names : List Nat) (reported : List α) : Bool :=
  (names.zip reported).all (fun nv => match fnPoint[nv.1]? with
    | some x => eqb x nv.2
    | none => false)

/-- the constraints of the list passed to `init`, by parameter name -/
abbrev Cons (α : Type) := List (Nat × Option (Interval α))

def accepts (c : Option (Interval α)) (v : α) : Bool :=
  match c with
  | none => true
  | some c => c.isCorrect v

/-- a point at which the objective was evaluated satisfies the constraint of every optimised
parameter -/
def feasiblePoint (cons : Cons α) (pt : List α) : Bool :=
  cons.all (fun nc => match pt[nc.1]? with
    | some x => accepts nc.2 x
    | none => true)

/-- "under the automatic-constraint policy the objective is never evaluated outside its
parameters' constraints": every logged point is feasible -/
def feasibleLog (cons : Cons α) (log : List (List α)) : Bool := log.all (feasiblePoint cons)

/-- "... and the reported point is feasible" -/
def feasibleReport (l : PList α) : Bool := feasibleList l

/-- "the run terminates within its evaluation budget (plus the iteration in progress)": the
counter at exit is at most the cap plus what the last step added (`before` is the counter when that
step began; without any step the counter is the 1 of the loop's initialisation) -/
def budget (nbEvalMax atExit : Nat) (lastStepBegan : Option Nat) : Bool :=
  match lastStepBegan with
  | none => decide (atExit ≤ 1)
  | some before => decide (before < nbEvalMax)

/-- "… within its evaluation budget", about the *calls of the objective* (not the optimiser's own
counter): when the last step of `optimize` begins, the objective has been called (since `optimize`
began) at most `nbEvalMax` times -/
def budgetCalls (nbEvalMax callsBeforeLastStep : Nat) : Bool := decide (callsBeforeLastStep ≤ nbEvalMax)

/-- the loop was left for a reason: tolerance reached or counter at the cap -/
def exitReason (nbEvalMax atExit : Nat) (tol : Bool) : Bool := tol || decide (atExit ≥ nbEvalMax)

/-- "one-dimensional bracketing returns a triple whose middle point has the lowest value" -/
def bracketOk (k : Bracket α) : Bool := leb k.b.f k.a.f && leb k.b.f k.c.f

/-! ### convergence on strictly convex quadratics (explored only: no theorem)

"On strictly convex quadratic objectives without active constraints every optimiser reaches the unique
minimiser within a tolerance tied to its stopping tolerance."  For `f = c + b.x + x'Qx`, `Q` symmetric
positive definite with smallest eigenvalue `lmin` and condition number `kappa`, minimiser `xs`:
`lmin |x - xs|^2 <= f(x) - f(xs)`.  The exploration judges the objective gap of the value reported
(`convergedGap`) and, independently, the distance of the *point* reported to the minimiser
(`convergedDist`), both against `convBound`; `convNontrivial` says whether the bound is below the gap at
the start, i.e. whether the clause says more than descent does. -/

def maxOf (a b : α) : α := if gtb a b then a else b

/-- `100 n max(kappa, 1) tol max(1, |f*|, |f0 - f*|)` -/
def convBound (n : Nat) (kappa tol fstar f0 : α) : α :=
  ofInt 100 * ofInt (Int.ofNat n) * maxOf kappa one * tol * maxOf (maxOf one (abs fstar)) (abs (f0 - fstar))

/-- the value reported is within the bound of the minimum -/
def convergedGap (value fstar bound : α) : Bool := leb (value - fstar) bound

/-- squared Euclidean distance -/
def dist2 : List α → List α → α
  | x :: xs, y :: ys => (x - y) * (x - y) + dist2 xs ys
  | _, _ => zero

/-- the point reported is within `sqrt(bound / lmin)` of the minimiser -/
def convergedDist (lmin : α) (pt xs : List α) (bound : α) : Bool := leb (lmin * dist2 pt xs) bound

/-- the bound is below the gap at the start: the clause is not implied by descent -/
def convNontrivial (f0 fstar bound : α) : Bool := ltb bound (f0 - fstar)

/-! ### the same optimiser object used again

The property's quantifier is over *uses* of an optimiser; an object may be used for several runs, with
`setConstraintPolicy` / `setMaximumNumberOfEvaluations` and another list (other constraints, another
start) between them.  The driver checks `feasibleLog` run by run, each run against the constraints of
*its* `init`'s list and under the policy in force at *its* `init`. -/

/-- one run on an optimiser object that exists: `setConstraintPolicy(policy)`,
`setMaximumNumberOfEvaluations(nbEvalMax)`, `init(params)`, `optimize()` -/
structure Run (α : Type) where
  policy : Policy
  nbEvalMax : Nat
  params : PList α
  fuel : Nat

/-- `init` and `optimize` of an optimiser class (its own `optimize` when it overrides the template's) -/
structure Obj (τ α : Type) where
  init : St (Fn α) τ α → PList α → Except (Exc × Fn α) (St (Fn α) τ α)
  optimize : Nat → St (Fn α) τ α → Except (Exc × Fn α) (St (Fn α) τ α × α)

/-- the object when run `r` begins: policy and cap set; the observer has read and emptied the
objective's log (the optimiser's own members — and whatever its sub-objects keep — are as the earlier
runs left them) -/
def Obj.prepare {τ : Type} (s : St (Fn α) τ α) (r : Run α) : St (Fn α) τ α :=
  { s with core := { s.core with policy := r.policy, nbEvalMax := r.nbEvalMax }, fn := { s.fn with log := [] } }

/-- run `r` on the object `s`: the object afterwards (`none`: a call raised; the object is not used
again) and the points at which the objective has been evaluated during the run (most recent first) -/
def Obj.run {τ : Type} (O : Obj τ α) (s : St (Fn α) τ α) (r : Run α) : Option (St (Fn α) τ α) × List (List α) :=
  match O.init (Obj.prepare s r) r.params with
  | .error e => (none, e.2.log)
  | .ok s1 =>
    match O.optimize r.fuel s1 with
    | .error e => (none, e.2.log)
    | .ok s2 => (some s2.1, s2.1.fn.log)

/-- a history of runs on the same object: for every run that took place, the run, the function's own
point when it began and the points evaluated during it -/
def Obj.history {τ : Type} (O : Obj τ α) : St (Fn α) τ α → List (Run α) → List (Run α × List α × List (List α))
  | _, [] => []
  | s, r :: rs =>
    (r, s.fn.point, (O.run s r).2) ::
      (match (O.run s r).1 with
       | some s' => O.history s' rs
       | none => [])

end
end Bpp.Optim.Spec
