import BppModel.Optim
/-
The executable predicates of property C10: the theorems of BppProofs/Props/C10*.lean are stated
with them and the driver (Drive/C10.lean) evaluates the very same definitions on the answers of the
implementation.
-/
namespace Bpp.Optim.Spec
open Bpp Scalar

section
variable {α : Type} [Scalar α]

/-- "the point reported after optimisation has an objective value no greater than the starting
value" -/
def descent (final start : α) : Bool := leb final start

/-- "the value returned equals the objective evaluated at the reported parameters": `value` is what
the optimiser reports, `point` the function's point with the reported parameters written into it -/
def consistent (obj : List α → α) (value : α) (point : List α) : Bool := eqb value (obj point)

/-- the function itself has been left at the reported parameters -/
def stateAt (fnPoint : List α) (names : List Nat) (reported : List α) : Bool :=
  (names.zip reported).all (fun nv => match fnPoint[nv.1]? with
    | some x => eqb x nv.2
    | none => false)

/-- the constraints of the list passed to `init`, by parameter name -/
abbrev Cons (α : Type) := List (Nat × Option (Interval α))

def accepts (c : Option (Interval α)) (v : α) : Bool :=
  match c with
  | none => true
  | some c => c.isCorrect v

/-- a point at which the objective was evaluated satisfies the constraint of every optimised
parameter -/
def feasiblePoint (cons : Cons α) (pt : List α) : Bool :=
  cons.all (fun nc => match pt[nc.1]? with
    | some x => accepts nc.2 x
    | none => true)

/-- "under the automatic-constraint policy the objective is never evaluated outside its
parameters' constraints": every logged point is feasible -/
def feasibleLog (cons : Cons α) (log : List (List α)) : Bool := log.all (feasiblePoint cons)

/-- "... and the reported point is feasible" -/
def feasibleReport (l : PList α) : Bool := feasibleList l

/-- "the run terminates within its evaluation budget (plus the iteration in progress)": the
counter at exit is at most the cap plus what the last step added (`before` is the counter when that
step began; without any step the counter is the 1 of the loop's initialisation) -/
def budget (nbEvalMax atExit : Nat) (lastStepBegan : Option Nat) : Bool :=
  match lastStepBegan with
  | none => decide (atExit ≤ 1)
  | some before => decide (before < nbEvalMax)

/-- "… within its evaluation budget", about the *calls of the objective* (not the optimiser's own
counter): when the last step of `optimize` begins, the objective has been called (since `optimize`
began) at most `nbEvalMax` times -/
def budgetCalls (nbEvalMax callsBeforeLastStep : Nat) : Bool := decide (callsBeforeLastStep ≤ nbEvalMax)

/-- the loop was left for a reason: tolerance reached or counter at the cap -/
def exitReason (nbEvalMax atExit : Nat) (tol : Bool) : Bool := tol || decide (atExit ≥ nbEvalMax)

/-- "one-dimensional bracketing returns a triple whose middle point has the lowest value" -/
def bracketOk (k : Bracket α) : Bool := leb k.b.f k.a.f && leb k.b.f k.c.f

end
end Bpp.Optim.Spec
