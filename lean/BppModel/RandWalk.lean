import BppModel.Rand
/-!
# The inverse-cdf walk of `rcont2` for one cell (AS159)   (C18, audit round 1: L3 / M1)

`ContingencyTableGenerator.cpp:99-163`.  `BppModel/Rand.lean` abstracts this walk to "any cell
value the increment / decrement loops can reach"; here its *control flow* is transcribed, so that
"the walk stops, and stops at a reachable value" can be stated.  What is NOT modelled: the value
`x = exp(fact_[ia] + … - fact_[ii + nlm])` of the probability mass at the starting value — it is the
parameter `x0` (the code recomputes the same expression at every restart, so it is one value per
cell) — and `long double` arithmetic: the recurrences are generic over `Scalar`, the theorems over ℝ.
This model is not run against the implementation (the driver has no `long double`); its tie to
the code is the reading below and the clauses `rcont2_margins` / `terminates` on executions.

```
dummy = U;
do {                                                  -- `walk`: one pass per element of `dummy :: restarts`
  nlm = start;  x = x0;
  if (x >= dummy) break;                              -- result nlm = start
  sumprb = x; y = x; nll = nlm;
  do {                                                -- `sweep`
    j = (id - nlm) * (ia - nlm); lsp = (j == 0);
    if (!lsp) { ++nlm; x = x * j / (nlm * (ii + nlm)); sumprb += x; if (sumprb >= dummy) goto L160; }
    do {                                              -- with `lsp`: `drain`; without: at most one step
      j = nll * (ii + nll); lsm = (j == 0);
      if (!lsm) { --nll; y = y * j / ((id - nll) * (ia - nll)); sumprb += y;
                  if (sumprb >= dummy) { nlm = nll; goto L160; }
                  if (!lsp) break; }
    } while (!lsm);
  } while (!lsp);
  dummy = sumprb * U';                                -- restart
} while (true);
L160: table(l, m) = nlm;
```
-/
namespace Bpp.Rand
section Walk
variable {α : Type} [Scalar α]

structure WalkSt (α : Type) where
  nlm : Int
  nll : Int
  x : α
  y : α
  sumprb : α

inductive WalkRes (α : Type)
  | hit (v : Int)            -- `goto L160` with this value
  | exhausted (sumprb : α)   -- both ends of the support reached without `sumprb >= dummy`
  | fuel                     -- the model's iteration bound ran out (not an outcome of the code)

/-- `++nlm; x = x * j / (nlm * (ii + nlm)); sumprb += x;` -/
def incStep (ii j : Int) (s : WalkSt α) : WalkSt α :=
  let nlm := s.nlm + 1
  let x := s.x * Scalar.ofInt j / (Scalar.ofInt nlm * Scalar.ofInt (ii + nlm))
  { s with nlm := nlm, x := x, sumprb := s.sumprb + x }

/-- `--nll; y = y * j / ((id - nll) * (ia - nll)); sumprb += y;` -/
def decStep (ia id j : Int) (s : WalkSt α) : WalkSt α :=
  let nll := s.nll - 1
  let y := s.y * Scalar.ofInt j / (Scalar.ofInt (id - nll) * Scalar.ofInt (ia - nll))
  { s with nll := nll, y := y, sumprb := s.sumprb + y }

/-- the inner `do … while (!lsm)` once the upper end is reached (`lsp`): decrement until `lsm` -/
def drain (ia id ii : Int) (dummy : α) : Nat → WalkSt α → WalkRes α
  | 0, _ => .fuel
  | n + 1, s =>
    let j := s.nll * (ii + s.nll)
    if j = 0 then .exhausted s.sumprb
    else
      let s' := decStep ia id j s
      if Scalar.geb s'.sumprb dummy then .hit s'.nll else drain ia id ii dummy n s'

/-- the middle `do … while (!lsp)`: one increment, then (at most) one decrement, alternately -/
def sweep (ia id ii : Int) (dummy : α) : Nat → WalkSt α → WalkRes α
  | 0, _ => .fuel
  | n + 1, s =>
    let j := (id - s.nlm) * (ia - s.nlm)
    if j = 0 then drain ia id ii dummy n s
    else
      let s1 := incStep ii j s
      if Scalar.geb s1.sumprb dummy then .hit s1.nlm
      else
        let j2 := s1.nll * (ii + s1.nll)
        if j2 = 0 then sweep ia id ii dummy n s1
        else
          let s2 := decStep ia id j2 s1
          if Scalar.geb s2.sumprb dummy then .hit s2.nll else sweep ia id ii dummy n s2

/-- an iteration bound that is never reached (`walk_never_out_of_fuel`) -/
def walkFuel (ia id : Int) : Nat := ia.toNat + id.toNat + 2

/-- the outer `do … while (true)`: `dummy` is the current threshold, `restarts` the further uniform
draws (`dummy = sumprb * U'`), one per restart -/
def walk (ia id ii start : Int) (x0 : α) : α → List α → R Int
  | dummy, restarts =>
    if Scalar.geb x0 dummy then .ok start
    else
      match sweep ia id ii dummy (walkFuel ia id) ⟨start, start, x0, x0, x0⟩ with
      | .hit v => .ok v
      | .fuel => .error .unreachable
      | .exhausted s =>
        match restarts with
        | [] => .error .starved
        | u :: us => walk ia id ii start x0 (s * u) us

end Walk
end Bpp.Rand
