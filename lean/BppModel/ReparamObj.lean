import BppModel.Reparam
/-
Object-level model of src/Bpp/Numeric/Function/ReparametrizationFunctionWrapper.{h,cpp}: the wrapper
as the three members it really has, with parameter *names*, and the wrapped function as a separate,
*shared* object — what `BppModel/Reparam.lean` (one `Slot` per parameter, aligned by construction)
abstracts away.  Copy construction, `clone()` and `operator=` only make sense at this level.

  * `Fn`   the wrapped function object behind `std::shared_ptr<FunctionInterface> function_`
           (h:26): its own parameter list (name, constraint, value) and its derivative switches.
           Several wrappers may hold the same `Fn` (index into `World.fns`).
  * `Wr`   a wrapper: `fn` = `function_` (h:26, a pointer: index of the function in the world),
           `params` = `AbstractParametrizable::parameters_` (the transformed parameters, each with
           its name), `fps` = `functionParameters_` (h:27, the wrapper's private copy of the
           function's original parameters).
  * names are natural numbers (only equality of names matters).

What is positional and what is by name in the code, and therefore here:
  * `init_` (cpp:15-167) creates `parameters_[i]` from `functionParameters_[i]`, same name;
  * `fireParameterChanged` (cpp:177-189) writes the back-transformed value of `parameters_[i]` into
    `functionParameters_[i]` — **by index** (`fireGo`; an index beyond `functionParameters_` is
    undefined behaviour, outcome `Exc.ub`);
  * `setParameters` (h:90-97) matches the given values **by name** into `parameters_`, and forwards
    `functionParameters_.createSubList(names)` — **by name** — to the function, which matches them
    by name into its own parameters.
So everything relies on the invariant "slot i of `parameters_` and slot i of `functionParameters_`
carry the same name" (`Wr.aligned`), which both constructors establish and which the copy
constructor / `operator=` must carry over (they copy `functionParameters_` from the source wrapper,
h:64, h:70 — *not* from the function, which would be a different list for a wrapper built by the
second constructor).

The copy shares the wrapped function with the original (`function_(rfw.function_)`, h:63): the
transformed parameters and `functionParameters_` are private (deep copies: `ParameterList`'s copy
constructor clones every `Parameter`, ParameterList.cpp:16-25), the point at which the function
stands is common to all the wrappers of that function (and to whoever else holds the pointer).

The wrapped function's `setParameters` is taken to be `matchParametersValues` on its own list (this
is what the harness's `PolyFunction` and `AbstractParametrizable`-based functions do): an assumption
on the wrapped function, as in `Reparam.pushOne`.
-/
namespace Bpp.ReparamObj
open Bpp Bpp.Scalar Bpp.Transform Bpp.Reparam

variable {α : Type} [Scalar α]

/-- a `Parameter` with a constraint: of the wrapped function, or of `functionParameters_` -/
structure FParam (α : Type) where
  name : Nat
  shape : Shape α
  value : α

/-- the wrapped function object -/
structure Fn (α : Type) where
  ps : List (FParam α)
  /-- `enableFirstOrderDerivatives` / `enableSecondOrderDerivatives` of the function -/
  d1on : Bool := true
  d2on : Bool := true

/-- a wrapper object (any of the three classes: they have the same data members) -/
structure Wr (α : Type) where
  fn : Nat
  params : List (Nat × TP α)
  fps : List (FParam α)

/-- `ParameterList::parameter(name)` (ParameterList.cpp:52-61): the first parameter with that name -/
def findP (n : Nat) (l : List (FParam α)) : Option (FParam α) := l.find? (fun p => p.name == n)

def findTP (n : Nat) (l : List (Nat × TP α)) : Option (TP α) := (l.find? (fun p => p.1 == n)).map (·.2)

/-- the value a list of named values gives to a name -/
def lookupV (n : Nat) (pl : List (Nat × α)) : Option α := (pl.find? (fun p => p.1 == n)).map (·.2)

def Fn.vals (f : Fn α) : List α := f.ps.map (·.value)
def Fn.names (f : Fn α) : List Nat := f.ps.map (·.name)
def Wr.names (w : Wr α) : List Nat := w.params.map (·.1)
def Wr.fpNames (w : Wr α) : List Nat := w.fps.map (·.name)

/-- the invariant everything relies on: slot i of `parameters_` and slot i of `functionParameters_`
have the same name.  (Also evaluated by the driver on the names the implementation reports.) -/
def alignedNames (pn fpn : List Nat) : Bool := pn == fpn
def Wr.aligned (w : Wr α) : Bool := alignedNames w.names w.fpNames

/-! ### construction -/

/-- `init_` (cpp:13-168): one transformed parameter per element of `functionParameters_`, same name,
in the same order -/
def initParams (pi tiny : α) : List (FParam α) → Except Exc (List (Nat × TP α))
  | [] => .ok []
  | p :: ps =>
    match initOne pi tiny p.shape p.value with
    | none => .error .constraint
    | some tp =>
      match initParams pi tiny ps with
      | .ok l => .ok ((p.name, tp) :: l)
      | .error e => .error e

/-- first constructor (h:36-42): `functionParameters_(function->getParameters())`, then `init_` -/
def Wr.newFull (pi tiny : α) (g : Nat) (f : Fn α) : Except Exc (Wr α) :=
  match initParams pi tiny f.ps with
  | .ok ps => .ok { fn := g, params := ps, fps := f.ps }
  | .error e => .error e

/-- `function->getParameters().getCommonParametersWith(parameters)` (ParameterList.cpp:192-204):
clones of the *given* parameters (their values and constraints) whose name the function has, in the
order of the given list -/
def common (f : Fn α) (given : List (FParam α)) : List (FParam α) :=
  given.filter (fun p => f.ps.any (fun q => q.name == p.name))

/-- second constructor (h:53-59) -/
def Wr.newSub (pi tiny : α) (g : Nat) (f : Fn α) (given : List (FParam α)) : Except Exc (Wr α) :=
  let fps := common f given
  match initParams pi tiny fps with
  | .ok ps => .ok { fn := g, params := ps, fps := fps }
  | .error e => .error e

/-! ### copies -/

/-- copy constructor (h:61-64): `AbstractParametrizable(rfw)` copies `parameters_` (deep),
`function_(rfw.function_)` shares the function, `functionParameters_(rfw.functionParameters_)` copies
the private list.  `clone()` of the three classes (h:76, h:143, h:197) is `new X(*this)`; the copy
constructors of the two derived classes are the implicit ones. -/
def Wr.copy (w : Wr α) : Wr α := { fn := w.fn, params := w.params, fps := w.fps }

/-- `operator=` (h:66-72): the three members are assigned from the source; nothing of the target
survives -/
def Wr.assign (_self w : Wr α) : Wr α := { fn := w.fn, params := w.params, fps := w.fps }

/-! ### updates -/

/-- `ParameterList::matchParametersValues` (ParameterList.cpp:421-454) on `parameters_` (transformed
parameters have no constraint), seen from the slot: a given value is stored when it differs -/
def matchTP (pl : List (Nat × α)) (p : Nat × TP α) : Nat × TP α :=
  match lookupV p.1 pl with
  | some v => if neb p.2.x v then (p.1, p.2.setX v) else p
  | none => p

def changedTP (pl : List (Nat × α)) (p : Nat × TP α) : Bool :=
  match lookupV p.1 pl with
  | some v => neb p.2.x v
  | none => false

/-- `fireParameterChanged` (cpp:170-190): `functionParameters_[i].setValue(parameters_[i]
.getOriginalValue())` for every `i < getNumberOfParameters()` — by index -/
def fireGo (pi : α) : List (Nat × TP α) → List (FParam α) → Except Exc (List (FParam α))
  | [], fps => .ok fps
  | _ :: _, [] => .error .ub
  | p :: ps, fp :: fps =>
    match paramSetC fp.shape fp.value (p.2.getOriginal pi) with
    | .error e => .error e
    | .ok v =>
      match fireGo pi ps fps with
      | .ok l => .ok ({ fp with value := v } :: l)
      | .error e => .error e

/-- `ParameterList::createSubList(names)` (ParameterList.cpp:119-128) -/
def subList (fps : List (FParam α)) : List Nat → Except Exc (List (FParam α))
  | [] => .ok []
  | n :: ns =>
    match findP n fps with
    | none => .error .notfound
    | some p =>
      match subList fps ns with
      | .ok l => .ok (p :: l)
      | .error e => .error e

/-- the wrapped function's `setParameters(pl)` = `matchParametersValues(pl)` on its own list
(ParameterList.cpp:421-454): all the constraints are checked first, then the values that differ are
stored -/
def Fn.matchValues (f : Fn α) (sub : List (FParam α)) : Except Exc (Fn α) :=
  if sub.any (fun q => match findP q.name f.ps with
      | some p => !(p.shape.isCorrect q.value)
      | none => false) then .error .constraint
  else .ok { f with ps := f.ps.map (fun p =>
    match findP p.name sub with
    | some q => if neb p.value q.value then { p with value := paramSet p.value q.value } else p
    | none => p) }

/-- the part of an update that stays inside the wrapper: `matchParametersValues` (inherited,
AbstractParametrizable.h:75-82): the values are matched into `parameters_`, and if one changed
`fireParameterChanged` refreshes `functionParameters_`.  The wrapped function is not touched. -/
def Wr.matchValues (pi : α) (w : Wr α) (pl : List (Nat × α)) : Except Exc (Wr α) :=
  let ch := w.params.any (changedTP pl)
  let params1 := w.params.map (matchTP pl)
  match (if ch then fireGo pi params1 w.fps else .ok w.fps) with
  | .error e => .error e
  | .ok fps1 => .ok { w with params := params1, fps := fps1 }

/-- `setParameters` (h:90-97), i.e. `f(parameters)` without the evaluation: `matchParametersValues`,
then `function_->setParameters(functionParameters_.createSubList(parameters.getParameterNames()))` -/
def Wr.setParameters (pi : α) (f : Fn α) (w : Wr α) (pl : List (Nat × α)) : Except Exc (Fn α × Wr α) :=
  match w.matchValues pi pl with
  | .error e => .error e
  | .ok w1 =>
    match subList w1.fps (pl.map (·.1)) with
    | .error e => .error e
    | .ok sub =>
      match f.matchValues sub with
      | .error e => .error e
      | .ok f' => .ok (f', w1)

/-- the other inherited setters — `setParametersValues` (AbstractParametrizable.h:69-73; also
`setAllParametersValues` h:57-61 when every parameter is given and `setParameterValue` h:63-67 for one
parameter): the given values are stored (`Parameter::setValue`) and `fireParameterChanged` is called
unconditionally.  The wrapped function is not touched. -/
def Wr.setValues (pi : α) (w : Wr α) (pl : List (Nat × α)) : Except Exc (Wr α) :=
  let params1 := w.params.map (fun p => match lookupV p.1 pl with
    | some v => (p.1, p.2.setX v)
    | none => p)
  match fireGo pi params1 w.fps with
  | .error e => .error e
  | .ok fps1 => .ok { w with params := params1, fps := fps1 }

/-- `setAllParametersValues` (ParameterList.cpp:343-359): every parameter of the wrapper must be given -/
def Wr.setAllValues (pi : α) (w : Wr α) (pl : List (Nat × α)) : Except Exc (Wr α) :=
  if w.params.any (fun p => (lookupV p.1 pl).isNone) then .error .notfound else w.setValues pi pl

/-- `setParameterValue(name, value)` (AbstractParametrizable.h:63-67) -/
def Wr.setValue (pi : α) (w : Wr α) (n : Nat) (v : α) : Except Exc (Wr α) :=
  if (findTP n w.params).isNone then .error .notfound else w.setValues pi [(n, v)]

/-! ### the derivative switches: pure delegation to the wrapped function (h:149-151, h:203-205) -/

def Fn.enableFirst (f : Fn α) (yn : Bool) : Fn α := { f with d1on := yn }
def Fn.enableSecond (f : Fn α) (yn : Bool) : Fn α := { f with d2on := yn }

/-! ### evaluation -/

def Fn.indexOf (f : Fn α) (n : Nat) : Option Nat := f.ps.findIdx? (fun p => p.name == n)

/-- `getValue` (h:99-102): the function where it stands -/
def getValue (F : List α → α) (f : Fn α) : α := F f.vals

/-- `getFirstOrderDerivative(variable)` (h:153-157): the function's derivative for that *name* times
the derivative of the transformed parameter of that name.  The transformed parameter is looked up
in `getParameters()` by the same full name that is forwarded to the function (after the `fix:`
"derivatives of a reparametrised function with a non-empty namespace" of findings/C11.json; before
it the lookup prepended the namespace a second time and always raised for a namespaced function). -/
def Wr.d1 (pi : α) (dF : List α → Nat → α) (f : Fn α) (w : Wr α) (n : Nat) : Except Exc α :=
  match f.indexOf n, findTP n w.params with
  | some i, some tp => .ok (dF f.vals i * tp.d1 pi)
  | _, _ => .error .notfound

/-- `getSecondOrderDerivative(variable)` (h:207-213) -/
def Wr.d2 (pi : α) (dF : List α → Nat → α) (d2F : List α → Nat → Nat → α) (f : Fn α) (w : Wr α) (n : Nat) :
    Except Exc α :=
  match f.indexOf n, findTP n w.params with
  | some i, some tp => .ok (d2F f.vals i i * sq (tp.d1 pi) + dF f.vals i * tp.d2 pi)
  | _, _ => .error .notfound

/-- `getSecondOrderDerivative(variable1, variable2)` (h:215-222): the same name twice is the
one-argument overload (`fix:` "getSecondOrderDerivative(v, v)" of findings/C11.json) -/
def Wr.d2x (pi : α) (dF : List α → Nat → α) (d2F : List α → Nat → Nat → α) (f : Fn α) (w : Wr α) (n m : Nat) :
    Except Exc α :=
  if n = m then w.d2 pi dF d2F f n else
  match f.indexOf n, f.indexOf m, findTP n w.params, findTP m w.params with
  | some i, some j, some tn, some tm => .ok (d2F f.vals i j * tn.d1 pi * tm.d1 pi)
  | _, _, _, _ => .error .notfound

/-! ### the slot view (`BppModel/Reparam.lean`) of an aligned wrapper over its function -/

/-- slot i = (`parameters_[i]`, `functionParameters_[i]`, the function's own parameter of that
name); `none` when the two lists are not aligned or the function lacks a name -/
def view? (f : Fn α) : List (Nat × TP α) → List (FParam α) → Option (W α)
  | [], [] => some []
  | p :: ps, fp :: fps =>
    if p.1 = fp.name then
      match findP p.1 f.ps, view? f ps fps with
      | some q, some v => some ({ tp := p.2, shape := fp.shape, fp := fp.value, fn := q.value } :: v)
      | _, _ => none
    else none
  | _, _ => none

def Wr.view? (f : Fn α) (w : Wr α) : Option (W α) := ReparamObj.view? f w.params w.fps

/-- the update of `setParameters` as the slot model wants it: aligned with the slots -/
def updOf (params : List (Nat × TP α)) (pl : List (Nat × α)) : List (Option α) :=
  params.map (fun p => lookupV p.1 pl)

/-! ### a world of functions and wrappers, and histories of operations on it -/

structure World (α : Type) where
  fns : List (Fn α) := []
  ws : List (Wr α) := []

inductive Op (α : Type) where
  /-- a new function object -/
  | newFn (ps : List (FParam α))
  /-- first / second constructor on function `g`: the new wrapper is appended -/
  | newFull (g : Nat)
  | newSub (g : Nat) (given : List (FParam α))
  /-- copy constructor or `clone()` of wrapper `j`: the copy is appended -/
  | copy (j : Nat)
  /-- `ws[i] = ws[j]` -/
  | assign (i j : Nat)
  /-- `setParameters` / `f(parameters)` through wrapper `i` -/
  | set (i : Nat) (pl : List (Nat × α))
  /-- inherited `matchParametersValues` through wrapper `i` -/
  | matchV (i : Nat) (pl : List (Nat × α))
  /-- inherited `setParametersValues` / `setAllParametersValues` / `setParameterValue` -/
  | setVals (i : Nat) (pl : List (Nat × α))
  /-- whoever holds the pointer moves the function: `function->setParameters(pl)` (values in the
  original coordinates, with the function's own constraints) -/
  | direct (g : Nat) (pl : List (FParam α))

/-- one operation; a dangling index is `Exc.ub` -/
def World.step (pi tiny : α) (σ : World α) : Op α → Except Exc (World α)
  | .newFn ps => .ok { σ with fns := σ.fns ++ [{ ps := ps }] }
  | .newFull g =>
    match σ.fns[g]? with
    | none => .error .ub
    | some f =>
      match Wr.newFull pi tiny g f with
      | .ok w => .ok { σ with ws := σ.ws ++ [w] }
      | .error e => .error e
  | .newSub g given =>
    match σ.fns[g]? with
    | none => .error .ub
    | some f =>
      match Wr.newSub pi tiny g f given with
      | .ok w => .ok { σ with ws := σ.ws ++ [w] }
      | .error e => .error e
  | .copy j =>
    match σ.ws[j]? with
    | none => .error .ub
    | some w => .ok { σ with ws := σ.ws ++ [w.copy] }
  | .assign i j =>
    match σ.ws[i]?, σ.ws[j]? with
    | some wi, some wj => .ok { σ with ws := σ.ws.set i (wi.assign wj) }
    | _, _ => .error .ub
  | .set i pl =>
    match σ.ws[i]? with
    | none => .error .ub
    | some w =>
      match σ.fns[w.fn]? with
      | none => .error .ub
      | some f =>
        match w.setParameters pi f pl with
        | .ok (f', w') => .ok { fns := σ.fns.set w.fn f', ws := σ.ws.set i w' }
        | .error e => .error e
  | .matchV i pl =>
    match σ.ws[i]? with
    | none => .error .ub
    | some w =>
      match w.matchValues pi pl with
      | .ok w' => .ok { σ with ws := σ.ws.set i w' }
      | .error e => .error e
  | .setVals i pl =>
    match σ.ws[i]? with
    | none => .error .ub
    | some w =>
      match w.setValues pi pl with
      | .ok w' => .ok { σ with ws := σ.ws.set i w' }
      | .error e => .error e
  | .direct g pl =>
    match σ.fns[g]? with
    | none => .error .ub
    | some f =>
      match f.matchValues pl with
      | .ok f' => .ok { σ with fns := σ.fns.set g f' }
      | .error e => .error e

/-- a history -/
def World.run (pi tiny : α) : World α → List (Op α) → Except Exc (World α)
  | σ, [] => .ok σ
  | σ, op :: ops =>
    match σ.step pi tiny op with
    | .ok σ' => World.run pi tiny σ' ops
    | .error e => .error e

end Bpp.ReparamObj
