import BppModel.Discretize
import BppModel.DiscretizeFamilies
/-
Distribution objects as the driver sees them: a continuous family (`DiscretizeFamilies.lean`),
and the compound distributions
 * `ConstantDistribution`                  (ConstantDistribution.{h,cpp})
 * `SimpleDiscreteDistribution`            (SimpleDiscreteDistribution.{h,cpp})
 * `InvariantMixedDiscreteDistribution`    (InvariantMixedDiscreteDistribution.{h,cpp})
 * `MixtureOfDiscreteDistributions`        (MixtureOfDiscreteDistributions.{h,cpp})
-/
namespace Bpp.Discretize
open Bpp Bpp.Scalar

variable {α : Type} [Scalar α]

/-! ## constant and user-specified distributions -/

/-- `ConstantDistribution` (ConstantDistribution.{h,cpp}) -/
structure ConstSt (α : Type) where
  dd : DD α
  value : α
  tied : Bool        -- the constraint of `value` is the (live) domain, after a restriction
deriving Inhabited

/-- `SimpleDiscreteDistribution(values, probas, prec, fixed = false)` -/
structure SimpleSt (α : Type) where
  dd : DD α
  vs : List α        -- parameters V1..Vk (in the order given to the constructor)
  thetas : List α    -- parameters theta1..theta(k-1)
  tied : Bool
deriving Inhabited

def unitC : Interval α := Interval.make (.fin Scalar.zero) (.fin Scalar.one) true true Constants.TINY  -- PROP_CONSTRAINT_IN

/-- midpoints of consecutive keys (`SimpleDiscreteDistribution::discretize`, cpp:262-272;
`MixtureOfDiscreteDistributions::updateDistribution`, cpp:196-204) -/
def midBounds (keys : List α) : List α := (pairs keys).map (fun ab => (ab.1 + ab.2) / two)

/-- theta parametrisation of a probability vector (SimpleDiscreteDistribution.cpp:66-74,
MixtureOfDiscreteDistributions.cpp:47-52): `theta_i = p_i / (1 - p_1 - … - p_{i-1})` for all but the
last -/
def thetasOf : List α → α → List α
  | [], _ => []
  | [_], _ => []
  | p :: ps, y => p / y :: thetasOf ps (y - p)

/-- the inverse (SimpleDiscreteDistribution.cpp:221-226, MixtureOfDiscreteDistributions.cpp:129-136):
`p_i = theta_i · x`, `x *= 1 - theta_i`, the last one is `x` -/
def probsOfThetas : List α → α → List α
  | [], x => [x]
  | t :: ts, x => t * x :: probsOfThetas ts (x * (Scalar.one - t))

namespace ConstSt
def make (v : α) : ConstSt α :=
  { dd := { n := 1, dist := [(v, Scalar.one)], bounds := [], dom := Dom.full, median := false, scheme := 1, prec := Constants.TINY },
    value := v, tied := false }

def setP (c : ConstSt α) (name : String) (v : α) : Except Err (ConstSt α) :=
  if name != "value" then .error .notfound
  else if !(Scalar.eqb c.value v) && c.tied && !(c.dd.dom.isCorrect v) then .error .constraint
  else .ok { c with value := v, dd := { c.dd with dist := [(v, Scalar.one)] } }

/-- `matchParametersValues`: the constraint is checked also for an unchanged value; nothing is
fired when the value does not change -/
def matchP (c : ConstSt α) (name : String) (v : α) : Except Err (ConstSt α) :=
  if name != "value" then .ok c
  else if c.tied && !(c.dd.dom.isCorrect v) then .error .constraint
  else if Scalar.eqb c.value v then .ok c
  else .ok { c with value := v, dd := { c.dd with dist := [(v, Scalar.one)] } }

/-- ConstantDistribution.cpp:44-58; `discretize()` is empty -/
def restrict (c : ConstSt α) (i : Interval α) : ConstSt α × Option Err :=
  if !(i.isCorrect c.value) then (c, some .constraint) else
  match restrictDom c.dd.dom i with
  | .error e => (c, some e)
  | .ok (d, changed) =>
    let c1 : ConstSt α := if changed then { c with dd := { c.dd with dom := d } } else c
    if c1.dd.dom.isCorrect c.value then ({ c1 with tied := true }, none) else (c1, some .constraint)

def setMed (c : ConstSt α) (b : Bool) : ConstSt α := { c with dd := { c.dd with median := b } }
end ConstSt

namespace SimpleSt

/-- `std::numeric_limits<double>::min()` = 2^-1022 -/
def dblMin : α := Scalar.ofRat 1 44942328371557897693232629769725618340449424473557664318357520289433168951375240783177119330601884005280028469967848339414697442203604155623211857659868531094441973356216371319075554900311523529863270738021251442209537670585615720368478277635206809290837627671146574559986811484619929076208839082406056034304

/-- the separation step of `fireParameterChanged` (repaired): the precision, at least four spacings
of the doubles around the value, and never zero -/
def sepStep (prec v : α) : α :=
  let s := Scalar.max prec (Gen.simpleSepFactor * dblEpsilon * Scalar.abs v)
  if !(Scalar.gtb s Scalar.zero) then dblMin else s

/-- the `while (true)` loop of `fireParameterChanged` (repaired): the first free position inside the
domain at `v ± j·step`; when the domain has no room on either side (`exhausted`), the first free
position whatever the domain -/
def findFree (prec step lo hi v : α) (m : TMap α) : Nat → Int → Option α
  | 0, _ => none
  | fuel + 1, j =>
    let up := v + Scalar.ofInt j * step
    let dn := v - Scalar.ofInt j * step
    let exhausted := !(Scalar.ltb up hi) && !(Scalar.gtb dn lo)
    if (Scalar.ltb up hi || exhausted) && (TMap.find? prec up m).isNone then some up else
    if (Scalar.gtb dn lo || exhausted) && (TMap.find? prec dn m).isNone then some dn else
    findFree prec step lo hi v m fuel (j + 1)

namespace Legacy
/-- the loop as found (before fix 4f99792): steps of `j * precision()`, only inside the domain -/
def findFree (prec lo hi v : α) (m : TMap α) : Nat → Int → Option α
  | 0, _ => none
  | fuel + 1, j =>
    let up := v + Scalar.ofInt j * prec
    if Scalar.ltb up hi && (TMap.find? prec up m).isNone then some up else
    let dn := v - Scalar.ofInt j * prec
    if Scalar.gtb dn lo && (TMap.find? prec dn m).isNone then some dn else
    findFree prec lo hi v m fuel (j + 1)
end Legacy

/-- `fireParameterChanged` (cpp:193-233): rebuild the map from the parameters -/
def rebuild (s : SimpleSt α) : Except Err (SimpleSt α) :=
  let ps := probsOfThetas s.thetas Scalar.one
  let rec go : List (α × α) → TMap α → Option (TMap α)
    | [], m => some m
    | (v, p) :: rest, m =>
      if (TMap.find? s.dd.prec v m).isSome then
        match findFree s.dd.prec (sepStep s.dd.prec v) s.dd.dom.lo s.dd.dom.hi v m (searchFuel m) 1 with
        | some v2 => go rest (TMap.assign s.dd.prec v2 p m)
        | none => none
      else go rest (TMap.assign s.dd.prec v p m)
  match go (s.vs.zip ps) [] with
  | some m => .ok { s with dd := { s.dd with dist := m, bounds := midBounds (TMap.keys m) } }
  | none => .error .fuel

/-- constructor (cpp:47-80) -/
def make (values probas : List α) (prec : α) : Except Err (SimpleSt α) :=
  let rec ins : List (α × α) → TMap α → Option (TMap α)
    | [], m => some m
    | (v, p) :: rest, m => if (TMap.find? prec v m).isSome then none else ins rest (TMap.assign prec v p m)
  if values.length != probas.length then .error .bpp else   -- "must have the same size" (cpp:58-61)
  match ins (values.zip probas) [] with
  | none => .error .bpp         -- "two given values are equal"
  | some m =>
    if Scalar.gtb (Scalar.abs (Scalar.one - sumL probas)) prec then .error .bpp else
    let ths := thetasOf probas Scalar.one
    if ths.any (fun t => !(unitC.isCorrect t)) then .error .constraint else
    .ok { dd := { n := values.length, dist := m, bounds := midBounds (TMap.keys m), dom := Dom.full, median := false, scheme := 1, prec := prec },
          vs := values, thetas := ths, tied := false }

/-- which parameter: `V<i>` → (true, i-1), `theta<i>` → (false, i-1) -/
def slotOf (s : SimpleSt α) (name : String) : Option (Bool × Nat) :=
  if name.startsWith "theta" then
    match (name.drop 5).toNat? with
    | some i => if 1 ≤ i && i ≤ s.thetas.length then some (false, i - 1) else none
    | none => none
  else if name.startsWith "V" then
    match (name.drop 1).toNat? with
    | some i => if 1 ≤ i && i ≤ s.vs.length then some (true, i - 1) else none
    | none => none
  else none

def rejects (s : SimpleSt α) (sl : Bool × Nat) (v : α) : Bool :=
  if sl.1 then s.tied && !(s.dd.dom.isCorrect v) else !(unitC.isCorrect v)

def current (s : SimpleSt α) (sl : Bool × Nat) : Option α := if sl.1 then s.vs[sl.2]? else s.thetas[sl.2]?

def write (s : SimpleSt α) (sl : Bool × Nat) (v : α) : SimpleSt α :=
  if sl.1 then { s with vs := s.vs.set sl.2 v } else { s with thetas := s.thetas.set sl.2 v }

def setP (s : SimpleSt α) (name : String) (v : α) : Except Err (SimpleSt α) :=
  match slotOf s name with
  | none => .error .notfound
  | some sl =>
    let same := match current s sl with | some c => Scalar.eqb c v | none => false
    if !same && rejects s sl v then .error .constraint else (write s sl v).rebuild

def matchP (s : SimpleSt α) (name : String) (v : α) : Except Err (SimpleSt α) :=
  match slotOf s name with
  | none => .ok s
  | some sl =>
    if rejects s sl v then .error .constraint else
    let same := match current s sl with | some c => Scalar.eqb c v | none => false
    if same then .ok s else (write s sl v).rebuild

/-- `restrictToConstraint` (cpp:274-303, without given ranges) -/
def restrict (s : SimpleSt α) (i : Interval α) : SimpleSt α × Option Err :=
  if (TMap.keys s.dd.dist).any (fun k => !(i.isCorrect k)) then (s, some .bpp) else
  match restrictDom s.dd.dom i with
  | .error e => (s, some e)
  | .ok (d, changed) =>
    let s1 : SimpleSt α := if changed then { s with dd := { s.dd with dom := d, bounds := midBounds (TMap.keys s.dd.dist) } } else s
    if s1.vs.all (fun v => s1.dd.dom.isCorrect v) then ({ s1 with tied := true }, none) else (s1, some .constraint)

def setMed (s : SimpleSt α) (b : Bool) : SimpleSt α :=
  if s.dd.median != b then { s with dd := { s.dd with median := b, bounds := midBounds (TMap.keys s.dd.dist) } } else s
def rediscretize (s : SimpleSt α) : SimpleSt α := { s with dd := { s.dd with bounds := midBounds (TMap.keys s.dd.dist) } }
end SimpleSt

/-- an object that is not itself a compound -/
inductive Leaf (α : Type) where
  | fam (slot : Nat) (f : FamSt α)
  | const (c : ConstSt α)
  | simple (s : SimpleSt α)
deriving Inhabited

namespace Leaf
def top : Leaf α → DD α
  | .fam _ f => f.dd
  | .const c => c.dd
  | .simple s => s.dd

/-- the namespace of the family's parameters -/
def prefix_ : Leaf α → String
  | .fam _ f => match f.fam with
    | .gamma => "Gamma." | .beta => "Beta." | .gauss => "Gaussian." | .exp => "Exponential."
    | .texp => "TruncExponential." | .unif => "Uniform."
  | .const _ => "Constant."
  | .simple _ => "Simple."

/-- virtual `getLowerBound()` / `getUpperBound()` -/
def lowerBound : Leaf α → α
  | .fam _ f => f.dd.dom.lo
  | .const c => c.value
  | .simple s => match (TMap.keys s.dd.dist).head? with | some k => k | none => s.dd.dom.lo
def upperBound : Leaf α → α
  | .fam _ f => f.dd.dom.hi
  | .const c => c.value
  | .simple s => match (TMap.keys s.dd.dist).getLast? with | some k => k | none => s.dd.dom.hi

def wrap (old : Leaf α) (mk : β → Leaf α) (r : Except Err β) : Leaf α × Option Err :=
  match r with
  | .ok x => (mk x, none)
  | .error e => (old, some e)

def ofStep (slot : Nat) (r : Step α) : Leaf α × Option Err := (.fam slot r.st, r.err)

def setP (l : Leaf α) (orc : Nat → Parent α) (name : String) (v : α) : Leaf α × Option Err :=
  match l with
  | .fam slot f => ofStep slot (Discretize.setP (orc slot) f name v)
  | .const c => wrap l .const (c.setP name v)
  | .simple s => wrap l .simple (s.setP name v)

/-- `matchParametersValues` on a nested distribution, `name` already stripped of the namespace -/
def matchP (l : Leaf α) (orc : Nat → Parent α) (name : String) (v : α) : Leaf α × Option Err :=
  match l with
  | .fam slot f =>
    match paramSlot f name with
    | none => (l, none)
    | some sl =>
      if Discretize.rejects f sl v then (l, some .constraint)
      else if Scalar.eqb (paramValue f sl) v then (l, none)
      else ofStep slot (stepOf f (fire (orc slot) f sl v))
  | .const c => wrap l .const (c.matchP name v)
  | .simple s => wrap l .simple (s.matchP name v)

def setN (l : Leaf α) (orc : Nat → Parent α) (n : Nat) : Leaf α × Option Err :=
  match l with
  | .fam slot f => ofStep slot (Discretize.setN (orc slot) f n)
  | _ => (l, none)       -- ignored (repaired)

def setMed (l : Leaf α) (orc : Nat → Parent α) (b : Bool) : Leaf α × Option Err :=
  match l with
  | .fam slot f => ofStep slot (Discretize.setMed (orc slot) f b)
  | .const c => (.const (c.setMed b), none)
  | .simple s => (.simple (s.setMed b), none)

def rediscretize (l : Leaf α) (orc : Nat → Parent α) : Leaf α × Option Err :=
  match l with
  | .fam slot f => ofStep slot (Discretize.rediscretize (orc slot) f)
  | .const _ => (l, none)
  | .simple s => (.simple s.rediscretize, none)

def restrict (l : Leaf α) (orc : Nat → Parent α) (i : Interval α) : Leaf α × Option Err :=
  match l with
  | .fam slot f => ofStep slot (Discretize.restrict (orc slot) f i)
  | .const c => let r := c.restrict i; (.const r.1, r.2)
  | .simple s => let r := s.restrict i; (.simple r.1, r.2)
end Leaf

/-! ## invariant-mixed and mixture -/

structure InvarSt (α : Type) where
  top : DD α
  p : α
  inv : α
  sub : Leaf α
deriving Inhabited

structure MixSt (α : Type) where
  top : DD α
  probas : List α
  thetas : List α
  subs : List (Leaf α)
deriving Inhabited

namespace InvarSt
/-- the bounds of `updateDistribution` (InvariantMixedDiscreteDistribution.cpp:72-103) -/
def boundsLoop (inv : α) (subBounds : List α) : List α → α → Bool → Nat → Except Err (List α)
  | [], a, nv, _ => .ok (if nv then [(a + inv) / two] else [])
  | b :: rest, a, nv, i =>
    if nv && Scalar.ltb inv b then do
      let r ← boundsLoop inv subBounds rest b false (i + 1)
      return (a + inv) / two :: (inv + b) / two :: r
    else
      match subBounds[i]? with   -- dist_->getBound(i - 1) with i counted from 1
      | none => .error .index
      | some sb => do
        let r ← boundsLoop inv subBounds rest b nv (i + 1)
        return sb :: r

/-- the classes of `updateDistribution()`: `p` on the invariant, `(1 - p) · prob` added on every
class value of the nested distribution -/
def classes (s : InvarSt α) : TMap α :=
  (s.sub.top.cats.zip s.sub.top.probs).foldl (fun m cp => TMap.addTo s.top.prec cp.1 ((Scalar.one - s.p) * cp.2) m) [(s.inv, s.p)]

/-- `updateDistribution()` (repaired: flags not negated, invariant included, probabilities added) -/
def update (s : InvarSt α) : InvarSt α × Option Err :=
  let sd := s.sub.top
  let m := s.classes
  let d0 := (s.top.dom.setLowerBound s.sub.lowerBound (!sd.dom.inclLo)).setUpperBound s.sub.upperBound (!sd.dom.inclHi)
  let d1 := if Scalar.leb s.inv d0.lo then d0.setLowerBound s.inv false else d0
  let d2 := if Scalar.geb s.inv d1.hi then d1.setUpperBound s.inv false else d1
  let base : DD α := { s.top with dist := m, bounds := [], dom := d2, n := m.length }
  let subBounds := if sd.n == 0 then [] else sd.bounds.take (sd.n - 1)
  if m.length != sd.n + 1 then
    -- class values were merged by the tolerance of the map (repaired): midpoints of the keys
    ({ s with top := { base with bounds := midBounds (TMap.keys m) } }, none)
  else
  match sd.cats with
  | [] => ({ s with top := base }, some .ub)      -- `dist_->getCategory(0)` of an empty map
  | a :: rest =>
    let first : List α := if Scalar.ltb s.inv a then [(a + s.inv) / two] else []
    match boundsLoop s.inv subBounds rest a (!(Scalar.ltb s.inv a)) 0 with
    | .ok r => ({ s with top := { base with bounds := first ++ r } }, none)
    | .error e => ({ s with top := { base with bounds := first } }, some e)

def make (sub : Leaf α) (p inv : α) : Except Err (InvarSt α) :=
  if !(unitC.isCorrect p) then .error .constraint else
  let s : InvarSt α :=
    { top := { n := 1, dist := [], bounds := [], dom := Dom.full, median := false, scheme := 1, prec := Constants.TINY },
      p := p, inv := inv, sub := sub }
  .ok s.update.1
end InvarSt

namespace MixSt
/-- `updateDistribution()` (MixtureOfDiscreteDistributions.cpp:146-205) -/
def zeros (s : MixSt α) : TMap α :=
  s.subs.foldl (fun m l => l.top.cats.foldl (fun m v => TMap.assign s.top.prec v Scalar.zero m) m) ([] : TMap α)

/-- the classes of `updateDistribution()`: every class value of every component with probability
0, then `prob · weight` added -/
def classes (s : MixSt α) : TMap α :=
  (s.subs.zip s.probas).foldl (fun m lw =>
    (lw.1.top.cats.zip lw.1.top.probs).foldl (fun m vp => TMap.addTo s.top.prec vp.1 (vp.2 * lw.2) m) m) s.zeros

def update (s : MixSt α) : MixSt α :=
  let m := s.classes
  let init : α × α × Bool × Bool := (VERY_BIG, Scalar.zero - VERY_BIG, true, true)
  let r := s.subs.foldl (fun (acc : α × α × Bool × Bool) l =>
    let (lB, uB, slB, suB) := acc
    let (lB, slB) := if Scalar.leb l.lowerBound lB then (l.lowerBound, !l.top.dom.inclLo) else (lB, slB)
    let (uB, suB) := if Scalar.geb l.upperBound uB then (l.upperBound, !l.top.dom.inclHi) else (uB, suB)
    (lB, uB, slB, suB)) init
  let d := (s.top.dom.setLowerBound r.1 r.2.2.1).setUpperBound r.2.1 r.2.2.2
  { s with top := { s.top with dist := m, n := m.length, dom := d, bounds := midBounds (TMap.keys m) } }

def make (subs : List (Leaf α)) (probas : List α) : Except Err (MixSt α) :=
  if subs.length != probas.length then .error .bpp else
  if Scalar.gtb (Scalar.abs (Scalar.one - sumL probas)) Constants.TINY then .error .bpp else
  let ths := thetasOf probas Scalar.one
  if ths.any (fun t => !(unitC.isCorrect t)) then .error .constraint else
  let s : MixSt α :=
    { top := { n := 1, dist := [], bounds := [], dom := Dom.full, median := false, scheme := 1, prec := Constants.TINY },
      probas := probas, thetas := ths, subs := subs }
  .ok s.update
end MixSt

/-- a distribution object of the harness -/
inductive CState (α : Type) where
  | leaf (l : Leaf α)
  | invar (s : InvarSt α)
  | mix (s : MixSt α)
deriving Inhabited

structure CStep (α : Type) where
  st : CState α
  err : Option Err

/-- apply an operation to every component, stopping at the first that raises -/
def mapSubs (f : Leaf α → Leaf α × Option Err) : List (Leaf α) → List (Leaf α) × Option Err
  | [] => ([], none)
  | l :: rest =>
    let r := f l
    match r.2 with
    | some e => (r.1 :: rest, some e)
    | none => let rr := mapSubs f rest; (r.1 :: rr.1, rr.2)

namespace CState
def top : CState α → DD α
  | .leaf l => l.top
  | .invar s => s.top
  | .mix s => s.top
def subDDs : CState α → List (DD α)
  | .leaf _ => []
  | .invar s => [s.sub.top]
  | .mix s => s.subs.map Leaf.top
def lowerBound : CState α → α
  | .leaf l => l.lowerBound
  | c => c.top.dom.lo
def upperBound : CState α → α
  | .leaf l => l.upperBound
  | c => c.top.dom.hi

def ofLeaf (r : Leaf α × Option Err) : CStep α := ⟨.leaf r.1, r.2⟩

def invarAfter (s : InvarSt α) (r : Leaf α × Option Err) : CStep α :=
  match r.2 with
  | some e => ⟨.invar { s with sub := r.1 }, some e⟩     -- the nested distribution raised: no update
  | none => let u := ({ s with sub := r.1 } : InvarSt α).update; ⟨.invar u.1, u.2⟩

def mixAfter (s : MixSt α) (r : List (Leaf α) × Option Err) : CStep α :=
  match r.2 with
  | some e => ⟨.mix { s with subs := r.1 }, some e⟩
  | none => ⟨.mix ({ s with subs := r.1 } : MixSt α).update, none⟩

/-- strip `pre` from the front of `name` -/
def stripPrefix? (name pre : String) : Option String :=
  if name.startsWith pre then some (name.drop pre.length).toString else none

def setP (c : CState α) (orc : Nat → Parent α) (name : String) (v : α) : CStep α :=
  match c with
  | .leaf l => ofLeaf (l.setP orc name v)
  | .invar s =>
    if name == "p" then
      if !(Scalar.eqb s.p v) && !(unitC.isCorrect v) then ⟨c, some .constraint⟩
      else let u := ({ s with p := v } : InvarSt α).update; ⟨.invar u.1, u.2⟩
    else
      match stripPrefix? name s.sub.prefix_ with
      | none => ⟨c, some .notfound⟩
      | some nm =>
        -- the compound holds a copy of the parameter: an unknown name is refused there
        if (match s.sub with
            | .fam _ f => (paramSlot f nm).isNone
            | .const _ => nm != "value"
            | .simple ss => (ss.slotOf nm).isNone) then ⟨c, some .notfound⟩
        else invarAfter s (s.sub.matchP orc nm v)
  | .mix s =>
    if name.startsWith "theta" then
      match (name.drop 5).toNat? with
      | some i =>
        if 1 ≤ i && i ≤ s.thetas.length then
          let cur := s.thetas[i - 1]?
          if !(match cur with | some t => Scalar.eqb t v | none => false) && !(unitC.isCorrect v) then ⟨c, some .constraint⟩
          else
            let ths := s.thetas.set (i - 1) v
            ⟨.mix ({ s with thetas := ths, probas := probsOfThetas ths Scalar.one } : MixSt α).update, none⟩
        else ⟨c, some .notfound⟩
      | none => ⟨c, some .notfound⟩
    else
      -- "<i>_<Prefix><param>"
      match name.splitOn "_" with
      | idx :: rest =>
        match idx.toNat? with
        | some i =>
          if 1 ≤ i && i ≤ s.subs.length && !rest.isEmpty then
            match s.subs[i - 1]? with
            | some l =>
              match stripPrefix? ("_".intercalate rest) l.prefix_ with
              | some nm =>
                if (match l with
                    | .fam _ f => (paramSlot f nm).isNone
                    | .const _ => nm != "value"
                    | .simple ss => (ss.slotOf nm).isNone) then ⟨c, some .notfound⟩
                else
                  let r := l.matchP orc nm v
                  match r.2 with
                  | some e => ⟨c, some e⟩    -- refused by the constraint of the compound's copy: nothing is notified
                  | none =>
                    -- the weights are recomputed from the thetas on every notification
                    let s1 : MixSt α := { s with probas := probsOfThetas s.thetas Scalar.one }
                    mixAfter s1 (s.subs.set (i - 1) r.1, none)
              | none => ⟨c, some .notfound⟩
            | none => ⟨c, some .notfound⟩
          else ⟨c, some .notfound⟩
        | none => ⟨c, some .notfound⟩
      | [] => ⟨c, some .notfound⟩

def setN (c : CState α) (orc : Nat → Parent α) (n : Nat) : CStep α :=
  match c with
  | .leaf l => ofLeaf (l.setN orc n)
  | .invar s => invarAfter s (s.sub.setN orc n)
  | .mix s => mixAfter s (mapSubs (fun l => l.setN orc n) s.subs)

def setMed (c : CState α) (orc : Nat → Parent α) (b : Bool) : CStep α :=
  match c with
  | .leaf l => ofLeaf (l.setMed orc b)
  | .invar s =>
    if s.top.median != b then invarAfter { s with top := { s.top with median := b } } (s.sub.setMed orc b) else ⟨c, none⟩
  | .mix s =>
    if s.top.median != b then mixAfter { s with top := { s.top with median := b } } (mapSubs (fun l => l.setMed orc b) s.subs)
    else ⟨c, none⟩

def rediscretize (c : CState α) (orc : Nat → Parent α) : CStep α :=
  match c with
  | .leaf l => ofLeaf (l.rediscretize orc)
  | .invar s => invarAfter s (s.sub.rediscretize orc)
  | .mix s => mixAfter s (mapSubs (fun l => l.rediscretize orc) s.subs)

def restrict (c : CState α) (orc : Nat → Parent α) (i : Interval α) : CStep α :=
  match c with
  | .leaf l => ofLeaf (l.restrict orc i)
  | .invar s =>
    if !(i.isCorrect s.inv) then ⟨c, some .constraint⟩ else invarAfter s (s.sub.restrict orc i)
  | .mix s => mixAfter s (mapSubs (fun l => l.restrict orc i) s.subs)
end CState

/-- clauses required of a compound distribution's top-level state -/
def normalisedB (tol : α) (s : DD α) : Bool := probsNonneg s && probsSumOne tol s

/-- **compound_normalised**: when every component is normalised (and the weights are a point of
the simplex, which the parameter constraints enforce) the compound is -/
def compoundClauses (subs : List (DD α)) (s : DD α) : List (String × Bool) :=
  let tol : α := Scalar.ofRat 1 1000000000
  [("compound_normalised", !(subs.all (normalisedB tol)) || normalisedB tol s)]

/-- hex-escaped parameter name of the line protocol -/
def hexName (s : String) : String :=
  if s == "-" then "" else
  let rec go : List Char → List Char
    | a :: b :: t =>
      match Hex.digit? a, Hex.digit? b with
      | some x, some y => Char.ofNat (x * 16 + y) :: go t
      | _, _ => []
    | _ => []
  String.ofList (go s.toList)

def famOfName : String → Option Fam
  | "gamma" => some .gamma | "beta" => some .beta | "gauss" => some .gauss
  | "exp" => some .exp | "texp" => some .texp | "unif" => some .unif | _ => none

end Bpp.Discretize
