import BppModel.Discretize
import BppModel.DiscretizeFamilies
/-
Distribution objects as the driver sees them: a continuous family (`DiscretizeFamilies.lean`),
and the compound distributions
 * `ConstantDistribution`                  (ConstantDistribution.{h,cpp})
 * `SimpleDiscreteDistribution`            (SimpleDiscreteDistribution.{h,cpp})
 * `InvariantMixedDiscreteDistribution`    (InvariantMixedDiscreteDistribution.{h,cpp})
 * `MixtureOfDiscreteDistributions`        (MixtureOfDiscreteDistributions.{h,cpp})
-/
namespace Bpp.Discretize
open Bpp Bpp.Scalar

variable {α : Type} [Scalar α]

/-- an object that is not itself a compound -/
inductive Leaf (α : Type) where
  | fam (slot : Nat) (f : FamSt α)
deriving Inhabited

/-- a distribution object of the harness -/
inductive CState (α : Type) where
  | leaf (l : Leaf α)
deriving Inhabited

structure CStep (α : Type) where
  st : CState α
  err : Option Err

namespace Leaf
def top : Leaf α → DD α
  | .fam _ f => f.dd
end Leaf

namespace CState
def top : CState α → DD α
  | .leaf l => l.top
def subDDs : CState α → List (DD α)
  | .leaf _ => []
def lowerBound (c : CState α) : α := c.top.dom.lo
def upperBound (c : CState α) : α := c.top.dom.hi

def liftFam (slot : Nat) (r : Step α) : CStep α := ⟨.leaf (.fam slot r.st), r.err⟩

def setP (c : CState α) (orc : Nat → Parent α) (name : String) (v : α) : CStep α :=
  match c with
  | .leaf (.fam slot f) => liftFam slot (Discretize.setP (orc slot) f name v)
def setN (c : CState α) (orc : Nat → Parent α) (n : Nat) : CStep α :=
  match c with
  | .leaf (.fam slot f) => liftFam slot (Discretize.setN (orc slot) f n)
def setMed (c : CState α) (orc : Nat → Parent α) (b : Bool) : CStep α :=
  match c with
  | .leaf (.fam slot f) => liftFam slot (Discretize.setMed (orc slot) f b)
def rediscretize (c : CState α) (orc : Nat → Parent α) : CStep α :=
  match c with
  | .leaf (.fam slot f) => liftFam slot (Discretize.rediscretize (orc slot) f)
def restrict (c : CState α) (orc : Nat → Parent α) (i : Interval α) : CStep α :=
  match c with
  | .leaf (.fam slot f) => liftFam slot (Discretize.restrict (orc slot) f i)
end CState

/-- clauses required of a compound distribution's top-level state -/
def compoundClauses (s : DD α) : List (String × Bool) :=
  [("compound_normalised", probsNonneg s && probsSumOne (Scalar.ofRat 1 1000000000) s)]

/-- hex-escaped parameter name of the line protocol -/
def hexName (s : String) : String :=
  if s == "-" then "" else
  let rec go : List Char → List Char
    | a :: b :: t =>
      match Hex.digit? a, Hex.digit? b with
      | some x, some y => Char.ofNat (x * 16 + y) :: go t
      | _, _ => []
    | _ => []
  String.ofList (go s.toList)

def famOfName : String → Option Fam
  | "gamma" => some .gamma | "beta" => some .beta | "gauss" => some .gauss
  | "exp" => some .exp | "texp" => some .texp | "unif" => some .unif | _ => none

end Bpp.Discretize
