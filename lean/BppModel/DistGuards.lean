import BppModel.PNorm
/-!
# Guard / wrapper layer of the cumulative and quantile functions of `RandomTools`
(src/Bpp/Numeric/Random/RandomTools.h:443-641, RandomTools.cpp:138-267, 405-579)

What is transcribed here is *the code around the numeric kernels*: argument checks, error
values (sentinels), exceptions, the argument transformations of the thin wrappers.  The kernels
themselves (series / continued fraction of the incomplete gamma ratio, the AS91 iteration, the
Cephes incomplete beta, the AS109 Newton iteration, `std::lgamma`) are *parameters* of the
model (`Kernels`): every theorem holds for every kernel (possibly under a stated contract), and
the driver takes the kernels' values from the implementation at the points the wrapper queried.
-/
namespace Bpp.DistGuards
open Scalar

/-- outcome of a call: a value, or a `bpp::Exception` -/
inductive Out (α : Type) where
  | val (v : α)
  | exc
  deriving Repr, BEq, DecidableEq

structure Kernels (α : Type) where
  /-- `std::lgamma` (RandomTools.h:472) -/
  lnGamma : α → α
  /-- `incompleteGamma(x, alpha, ln_gamma_alpha)` after its argument checks and the `x == 0` test: everything
  from the `isinf(x)` test (cpp:158) on — that test, `factor`, the far-tail guard, series and continued fraction.
  (Transcribed in `DistKernels.lean`; here a parameter whose value is the implementation's own.) -/
  igCore : α → α → α → α
  /-- `qChisq(prob, v)` after its argument check (cpp:218-266); it calls `incompleteGamma`
  itself and returns -1 when that reports an error -/
  qChisqCore : α → α → α
  /-- `incompleteBeta(x, alpha, beta)` after its checks and end points (cpp:580-654) -/
  ibCore : α → α → α → α
  /-- `qBeta(prob, alpha, beta)` after its checks and end points (cpp:450-545); it calls `pBeta`
  in a loop and so raises when that raises -/
  qBetaCore : α → α → α → Out α

variable {α : Type} [Scalar α]

open Bpp.PNorm (two half)
def minusOne : α := ofInt (-1)
/-- `.000002` (cpp:215) -/
def chLo : α := PNorm.dy 4722366482869645 71
/-- `.999998` (cpp:215) -/
def chHi : α := PNorm.dy 9007181240342483 53

/-! ## decision tables (the executable predicates of `guards_total_*`; the driver evaluates the
same definitions at `Float` on the implementation's outcome) -/

/-- `incompleteGamma` returns its error value -1 -/
def igSentinel (x a : α) : Bool := ltb x zero || leb a zero
/-- `pGamma` raises -/
def pGammaRaises (a b : α) : Bool := ltb a zero || ltb b zero
/-- `pChisq` raises -/
def pChisqRaises (x v : α) : Bool := !(ltb x zero) && ltb (v / two) zero
/-- `qChisq` returns its error value -1 because of its argument check -/
def qChisqSentinel (p v : α) : Bool := ltb p chLo || gtb p chHi || leb v zero
/-- `incompleteBeta` / `pBeta` raise -/
def ibRaises (x a b : α) : Bool := leb a zero || leb b zero || ltb x zero || gtb x one
/-- `qBeta` raises because of its argument checks -/
def qBetaRaises (p a b : α) : Bool := ltb p zero || gtb p one || ltb a zero || ltb b zero

/-- `RandomTools::incompleteGamma` as in the snapshot (cpp:151-154 before the repair): the
shortcut `x == 0 → 0` came first, so `(0, alpha <= 0)` gave 0 instead of the error value -/
def incompleteGammaOld (K : Kernels α) (x a g : α) : α :=
  if eqb x zero then zero
  else if ltb x zero || leb a zero then minusOne
  else K.igCore x a g

/-- `RandomTools::incompleteGamma` (repaired), cpp:143-155: `x < 0 || alpha <= 0 → -1`, then
`x == 0 → 0`, then the kernel -/
def incompleteGamma (K : Kernels α) (x a g : α) : α :=
  if ltb x zero || leb a zero then minusOne
  else if eqb x zero then zero
  else K.igCore x a g

/-- `RandomTools::pGamma`, RandomTools.h:545-551 -/
def pGamma (K : Kernels α) (x a b : α) : Out α :=
  if ltb a zero then .exc
  else if ltb b zero then .exc
  else if eqb a zero then .val one
  else .val (incompleteGamma K (b * x) a (K.lnGamma a))

/-- `RandomTools::pChisq`, RandomTools.h:516-520 -/
def pChisq (K : Kernels α) (x v : α) : Out α :=
  if ltb x zero then .val zero
  else pGamma K x (v / two) half

/-- `RandomTools::qChisq`, cpp:210-216: the range check, then the AS91 core -/
def qChisq (K : Kernels α) (p v : α) : α :=
  if ltb p chLo || gtb p chHi || leb v zero then minusOne
  else K.qChisqCore p v

/-- `RandomTools::qGamma` as in the snapshot (RandomTools.h:530-533 before the repair):
the error value of `qChisq` is divided by `2*beta` like a quantile -/
def qGammaOld (K : Kernels α) (p a b : α) : α :=
  qChisq K p (two * a) / (two * b)

/-- `RandomTools::qGamma` (repaired): a negative `qChisq` (its error value) is passed through -/
def qGamma (K : Kernels α) (p a b : α) : α :=
  let ch := qChisq K p (two * a)
  if ltb ch zero then ch else ch / (two * b)

/-- `RandomTools::qNorm(prob, mu, sigma)` as in the snapshot (cpp:138-141 before the repair):
the error value -9999 is mapped affinely like a quantile -/
def qNorm3Old (p mu sigma : α) : α := PNorm.qNorm p * sigma + mu

/-- `RandomTools::qNorm(prob, mu, sigma)` (repaired): the error value is passed through -/
def qNorm3 (p mu sigma : α) : α :=
  let z := PNorm.qNorm p
  if eqb z PNorm.qSentinel then z else z * sigma + mu

/-- `RandomTools::incompleteBeta`, cpp:568-578 -/
def incompleteBeta (K : Kernels α) (x a b : α) : Out α :=
  if leb a zero || leb b zero then .exc
  else if ltb x zero || gtb x one then .exc
  else if eqb x zero then .val zero
  else if eqb x one then .val one
  else .val (K.ibCore x a b)

/-- `RandomTools::pBeta`, RandomTools.h:615-618 -/
def pBeta (K : Kernels α) (x a b : α) : Out α := incompleteBeta K x a b

/-- `RandomTools::qBeta`, cpp:439-448 -/
def qBeta (K : Kernels α) (prob a b : α) : Out α :=
  if ltb prob zero || gtb prob one then .exc
  else if ltb a zero || ltb b zero then .exc
  else if eqb prob zero || eqb prob one then .val prob
  else K.qBetaCore prob a b

/-- `RandomTools::lnBeta`, cpp:405-408 -/
def lnBeta (K : Kernels α) (a b : α) : α := K.lnGamma a + K.lnGamma b - K.lnGamma (a + b)

end Bpp.DistGuards
