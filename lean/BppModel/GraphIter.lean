import BppModel.Observer
/-
The iterator objects of GlobalGraph.h:702-908 and AssociationGraphImplObserver.h:1026-1056, 1364-1394
as what they are: a position (`it_`) in an ordered table (`begin_ .. end_`), with the protocol

    start()  it_ = begin_          end()   it_ == end_
    next()   it_++                 *it     it_->first  (or ->second for the edge of a row entry)

`NodesIteratorClass<ALLGRAPHITER>` walks `nodeStructure_`, `EdgesIteratorClass<ALLGRAPHITER>` walks
`edgeStructure_`, the neighbour iterators walk the outgoing / incoming map of one row; their
constructor takes the row through `GlobalGraph::rowOf_` (GlobalGraph.h, as repaired in audit round 2),
which throws the library exception on an absent node: `none` below.  (On the unchanged tree the
constructor dereferenced `find(node) == end()`: `RowQ.iter`'s `ub` in `Graph.lean` is that legacy outcome.)  The observer's iterators
wrap a graph iterator and skip the ids that have no object:

    start()  it_.start(); while (!it_.end() && agio_.getNodeFromGraphid(*it_) == 0) it_.next();
    next()   it_.next();  while (!it_.end() && agio_.getNodeFromGraphid(*it_) == 0) it_.next();
    *it      agio_.getNodeFromGraphid(*it_)

`drain` is the loop every client writes (and the harness runs): `for (it->start(); !it->end();
it->next()) use(**it)`.  `Props/C14Iter.lean` proves that it yields exactly the list queries.
-/
namespace Bpp.Graph

/-- an iterator over an ordered table: the table in iteration order, and what lies from `it_` on -/
structure Cursor (α : Type) where
  table : List α
  rest : List α
deriving Repr

namespace Cursor
variable {α : Type}
/-- a freshly constructed iterator (`it_(begin)`) -/
def mk0 (l : List α) : Cursor α := { table := l, rest := l }
def start (c : Cursor α) : Cursor α := { c with rest := c.table }
def atEnd (c : Cursor α) : Bool := c.rest.isEmpty
/-- `it_++` (past the end: undefined in C++; never done by the loop) -/
def next (c : Cursor α) : Cursor α := { c with rest := c.rest.tail }
/-- `*it`; `none` = dereferencing `end()` -/
def deref (c : Cursor α) : Option α := c.rest.head?

/-- `for (; !it.end(); it.next()) out.push_back(*it)`, at most `fuel` rounds -/
def loop : Nat → Cursor α → List α → List α
  | 0, _, acc => acc
  | fuel + 1, c, acc =>
    if c.atEnd then acc
    else match c.deref with
      | some x => loop fuel c.next (acc ++ [x])
      | none => acc

/-- the whole client loop, `start()` included -/
def drain (c : Cursor α) : List α := loop (c.table.length + 1) c.start []
end Cursor

/-- an iterator of the observer: a graph iterator over ids and the id → object look-up -/
structure OCursor where
  it : Cursor Nat
  obj : Nat → Option Obj

namespace OCursor
/-- `while (!it_.end() && getXFromGraphid(*it_) == 0) it_.next();` (at most `fuel` rounds) -/
def skip (obj : Nat → Option Obj) : Nat → Cursor Nat → Cursor Nat
  | 0, c => c
  | fuel + 1, c =>
    match c.deref with
    | some id => if (obj id).isNone then skip obj fuel c.next else c
    | none => c
def start (c : OCursor) : OCursor := { c with it := skip c.obj (c.it.table.length + 1) c.it.start }
def next (c : OCursor) : OCursor := { c with it := skip c.obj (c.it.table.length + 1) c.it.next }
def atEnd (c : OCursor) : Bool := c.it.atEnd
/-- `*it`: the object of the current id (null if the skipping failed to find one) -/
def deref (c : OCursor) : Option Obj := c.it.deref.bind c.obj

def loop : Nat → OCursor → List Obj → List Obj
  | 0, _, acc => acc
  | fuel + 1, c, acc =>
    if c.atEnd then acc
    else match c.deref with
      | some x => loop fuel c.next (acc ++ [x])
      | none => acc     -- a null object would be printed as null: does not happen (`drain_eq`)

def drain (c : OCursor) : List Obj := loop (c.it.table.length + 1) c.start []
end OCursor

namespace G
def allNodesIter (g : G) : Cursor Nat := Cursor.mk0 (AL.keys g.nodes)
def allEdgesIter (g : G) : Cursor Nat := Cursor.mk0 (AL.keys g.edges)
/-- the four per-node iterators; `none` = the factory raises (the node does not exist) -/
def outNodesIter (g : G) (n : Nat) : Option (Cursor Nat) := (g.rowOf n).map (fun r => Cursor.mk0 (AL.keys r.out))
def inNodesIter (g : G) (n : Nat) : Option (Cursor Nat) := (g.rowOf n).map (fun r => Cursor.mk0 (AL.keys r.inn))
def outEdgesIter (g : G) (n : Nat) : Option (Cursor Nat) := (g.rowOf n).map (fun r => Cursor.mk0 (AL.vals r.out))
def inEdgesIter (g : G) (n : Nat) : Option (Cursor Nat) := (g.rowOf n).map (fun r => Cursor.mk0 (AL.vals r.inn))
end G

namespace World
/-- `allNodesIterator()` / `allEdgesIterator()` of an observer -/
def allNodesIter (w : World) (o : Obs) : OCursor := { it := w.g.allNodesIter, obj := o.nodeFromGid }
def allEdgesIter (w : World) (o : Obs) : OCursor := { it := w.g.allEdgesIter, obj := o.edgeFromGid }
/-- `outgoingNeighborNodesIterator(Nref)` …: `none` = `getNodeGraphid` threw, `some none` = the
graph's iterator constructor raised (an id that is not in the graph: excluded by `OInv`) -/
def nodeIter (w : World) (o : Obs) (a : Obj) (sel : G → Nat → Option (Cursor Nat)) (edges : Bool) : Option (Option OCursor) :=
  (AL.find a o.Ng).map (fun id => (sel w.g id).map (fun c => { it := c, obj := if edges then o.edgeFromGid else o.nodeFromGid }))
end World

end Bpp.Graph
