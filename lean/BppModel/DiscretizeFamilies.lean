import BppModel.Discretize
/-
The continuous families built on `AbstractDiscreteDistribution`:

 * `ExponentialDiscreteDistribution`          (ExponentialDiscreteDistribution.h:56-69, .cpp:18-32)
 * `TruncatedExponentialDiscreteDistribution` (TruncatedExponentialDiscreteDistribution.h:74-105, .cpp:18-53)
 * `UniformDiscreteDistribution`              (UniformDiscreteDistribution.h:49-65, .cpp:16-24,45-46)
 * `GammaDiscreteDistribution`                (GammaDiscreteDistribution.cpp:17-96)
 * `BetaDiscreteDistribution`                 (BetaDiscreteDistribution.cpp:16-69)
 * `GaussianDiscreteDistribution`             (GaussianDiscreteDistribution.cpp:16-70)

For the first three `pProb`, `qProb`, `Expectation` are closed forms and are transcribed; for the
last three they call the special functions of RandomTools (property C08) and stay abstract: the
`oracle` argument of every operation.  What is modelled of every family: constructor (parameter
constraints, domain, comparator precision, scheme), `setParameterValue` → `fireParameterChanged`,
`restrictToConstraint`, and the inherited `setNumberOfCategories`, `setMedian`, `discretize`.
-/
namespace Bpp.Discretize
open Bpp Bpp.Scalar

variable {α : Type} [Scalar α]

/-! ## closed forms -/

/-- ExponentialDiscreteDistribution.h:56-69 -/
def expParent (lam : α) : Parent α where
  P x := Scalar.one - Scalar.exp (-lam * x)
  Q x := -Scalar.log (Scalar.one - x) / lam
  E a := Scalar.one / lam - Scalar.exp (-a * lam) * (a + Scalar.one / lam)

/-- TruncatedExponentialDiscreteDistribution.h:74-97 (`cond = 1 - exp(-lambda * tp)`) -/
def texpParent (lam tp cond : α) : Parent α where
  P x := if Scalar.geb x tp then Scalar.one else (Scalar.one - Scalar.exp (-lam * x)) / cond
  Q x := if Scalar.eqb x Scalar.one then tp else -Scalar.log (Scalar.one - cond * x) / lam
  E a := if Scalar.ltb a tp then (Scalar.one / lam - Scalar.exp (-a * lam) * (a + Scalar.one / lam)) / cond
         else (Scalar.one / lam - Scalar.exp (-tp * lam) * (tp + Scalar.one / lam)) / cond

def texpCond (lam tp : α) : α := Scalar.one - Scalar.exp (-lam * tp)

/-- UniformDiscreteDistribution.h:49-65 -/
def unifParent (mn mx : α) : Parent α where
  Q x := mn + x * (mx - mn)
  P x := if Scalar.leb x mn then Scalar.zero else (x - mn) / (mx - mn)
  E a := if Scalar.leb a mn then Scalar.zero
         else if Scalar.geb a mx then (mx + mn) / two else (a * a - mn * mn) / (mx - mn) / two

/-! ## family state -/

inductive Fam where
  | gamma | beta | gauss | exp | texp | unif
deriving Repr, DecidableEq, Inhabited

def Fam.name : Fam → String
  | .gamma => "gamma" | .beta => "beta" | .gauss => "gauss" | .exp => "exp" | .texp => "texp" | .unif => "unif"

/-- parameters (p1, p2, p3):
gamma (alpha, beta, offset) · beta (alpha, beta, –) · gauss (mu, sigma, –) · exp (lambda, –, –) ·
texp (lambda, tp, cond) · unif (min, max, –) -/
structure FamSt (α : Type) where
  fam : Fam
  dd : DD α
  p1 : α
  p2 : α
  p3 : α
  hasOffset : Bool   -- gamma: the offset is a parameter
  tpTied : Bool      -- texp: the constraint of `tp` is the (live) domain (after a restriction)
deriving Inhabited

/-- the parent the discretisation sees -/
def FamSt.parent (oracle : Parent α) (f : FamSt α) : Parent α :=
  match f.fam with
  | .exp => expParent f.p1
  | .texp => texpParent f.p1 f.p2 f.p3
  | .unif => unifParent f.p1 f.p2
  | _ => oracle

def FamSt.discretize (oracle : Parent α) (f : FamSt α) : Except Err (FamSt α) := do
  let d ← Discretize.discretize (f.parent oracle) f.dd
  return { f with dd := d }

/-- `Parameter` constraints installed by the constructors -/
def geC (lo : α) : Interval α := Interval.halfLine true (.fin lo) true Constants.TINY   -- [lo, +inf[
def gtC (lo : α) : Interval α := Interval.halfLine true (.fin lo) false Constants.TINY  -- ]lo, +inf[

def c005 : α := Gen.gammaMinShape   -- minimumAlpha / minimumBeta defaults (GammaDiscreteDistribution.h), regenerated
def c00001 : α := Gen.betaMinShape  -- BetaDiscreteDistribution.cpp:21,24, regenerated

def freshDD (n : Nat) (prec : α) (scheme : Nat) (dom : Dom α) : DD α :=
  { n := n, dist := [], bounds := [], dom := dom, median := false, scheme := scheme, prec := prec }

/-- the constructors; a parameter outside its constraint is a `ConstraintException` -/
def construct (oracle : Parent α) (fam : Fam) (n : Nat) (a b c : α) (flag : Bool) (scheme : Nat) : Except Err (FamSt α) :=
  match fam with
  | .gamma =>
    if !((geC c005).isCorrect a) || !((geC c005).isCorrect b) then .error .constraint else
    FamSt.discretize oracle
      { fam := .gamma, p1 := a, p2 := b, p3 := c, hasOffset := flag, tpTied := false,
        dd := freshDD n Constants.TINY 1 ((Dom.full).setLowerBound c true) }
  | .beta =>
    if !((geC c00001).isCorrect a) || !((geC c00001).isCorrect b) then .error .constraint else
    FamSt.discretize oracle
      { fam := .beta, p1 := a, p2 := b, p3 := Scalar.zero, hasOffset := false, tpTied := false,
        dd := freshDD n Constants.VERY_TINY scheme (((Dom.full).setLowerBound Scalar.zero true).setUpperBound Scalar.one true) }
  | .gauss =>
    if !((gtC Scalar.zero).isCorrect b) then .error .constraint else
    FamSt.discretize oracle
      { fam := .gauss, p1 := a, p2 := b, p3 := Scalar.zero, hasOffset := false, tpTied := false,
        dd := freshDD n Constants.TINY 1 Dom.full }
  | .exp =>
    if !((geC Scalar.zero).isCorrect a) then .error .constraint else
    FamSt.discretize oracle
      { fam := .exp, p1 := a, p2 := Scalar.zero, p3 := Scalar.zero, hasOffset := false, tpTied := false,
        dd := freshDD n Constants.TINY 1 ((Dom.full).setLowerBound Scalar.zero true) }
  | .texp =>
    -- arguments: lambda = a, tp = b; `tp` is checked first (cpp:24-25)
    if !((geC Scalar.zero).isCorrect b) || !((geC Scalar.zero).isCorrect a) then .error .constraint else
    FamSt.discretize oracle
      { fam := .texp, p1 := a, p2 := b, p3 := texpCond a b, hasOffset := false, tpTied := false,
        dd := freshDD n Constants.TINY 1 (((Dom.full).setLowerBound Scalar.zero true).setUpperBound b false) }
  | .unif =>
    let mn := if Scalar.ltb a b then a else b
    let mx := if Scalar.ltb a b then b else a
    FamSt.discretize oracle
      { fam := .unif, p1 := mn, p2 := mx, p3 := Scalar.zero, hasOffset := false, tpTied := false,
        dd := freshDD n Constants.TINY 1 (((Dom.full).setLowerBound mn false).setUpperBound mx false) }

/-- which parameter a name denotes: 1, 2, 3 = p1, p2, p3 -/
def paramSlot (f : FamSt α) (name : String) : Option Nat :=
  match f.fam, name with
  | .gamma, "alpha" => some 1 | .gamma, "beta" => some 2
  | .gamma, "offset" => if f.hasOffset then some 3 else none
  | .beta, "alpha" => some 1 | .beta, "beta" => some 2
  | .gauss, "mu" => some 1 | .gauss, "sigma" => some 2
  | .exp, "lambda" => some 1
  | .texp, "lambda" => some 1 | .texp, "tp" => some 2
  | _, _ => none

/-- the constraint of a parameter (`none`: unconstrained) -/
def paramConstraint (f : FamSt α) (slot : Nat) : Option (Interval α) :=
  match f.fam, slot with
  | .gamma, 1 => some (geC c005) | .gamma, 2 => some (geC c005)
  | .beta, _ => some (geC c00001)
  | .gauss, 2 => some (gtC Scalar.zero)
  | .exp, _ => some (geC Scalar.zero)
  | .texp, 1 => some (geC Scalar.zero)
  | .texp, 2 => if f.tpTied then some f.dd.dom.toInterval else some (geC Scalar.zero)
  | _, _ => none

def paramValue (f : FamSt α) (slot : Nat) : α :=
  match f.fam, slot with
  | .texp, 1 => f.p1 | .texp, _ => f.p2
  | _, 1 => f.p1 | _, 2 => f.p2 | _, _ => f.p3

/-- the shape / rate of a gamma read back from the parameters (`alpha_ = getParameterValue("alpha")` …) -/
def setShape (f : FamSt α) (slot : Nat) (v : α) : FamSt α :=
  if slot == 1 then { f with p1 := v } else if slot == 2 then { f with p2 := v } else f

/-- `fireParameterChanged` of each family, given the new parameter values -/
def fire (oracle : Parent α) (f : FamSt α) (slot : Nat) (v : α) : Except Err (FamSt α) :=
  match f.fam with
  | .gamma =>
    -- GammaDiscreteDistribution.cpp:68-108 (repaired twice: the lower end follows the offset — when
    -- it is the end of the support or the support starts above it —; an offset that leaves no support
    -- inside the domain is refused: the parameter is restored, the object re-discretised with its
    -- unchanged parameters — nothing changes — and a ConstraintException raised)
    let f1 : FamSt α := setShape f slot v
    if f.hasOffset && slot == 3 && !(Scalar.eqb f.p3 v) then
      if !(Scalar.ltb v f1.dd.dom.hi) then .error .constraint else
      let supportEnd := !f1.dd.dom.inclLo && Scalar.eqb f1.dd.dom.lo f.p3
      let d := if supportEnd || Scalar.geb v f1.dd.dom.lo then f1.dd.dom.setLowerBound v true else f1.dd.dom
      ({ f1 with p3 := v, dd := { f1.dd with dom := d } } : FamSt α).discretize oracle
    else f1.discretize oracle
  | .beta =>
    -- BetaDiscreteDistribution.cpp:36-49
    let f1 : FamSt α := if slot == 1 then { f with p1 := v } else { f with p2 := v }
    -- (repaired: an end is moved only when the domain stays ordered)
    let d1 := if Scalar.leb f1.p1 Scalar.one && Scalar.eqb f1.dd.dom.lo Scalar.zero && Scalar.leb f1.dd.prec f1.dd.dom.hi
              then f1.dd.dom.setLowerBound f1.dd.prec false else f1.dd.dom
    let d2 := if Scalar.leb f1.p2 Scalar.one && Scalar.eqb d1.hi Scalar.one && Scalar.leb d1.lo (Scalar.one - f1.dd.prec)
              then d1.setUpperBound (Scalar.one - f1.dd.prec) false else d1
    ({ f1 with dd := { f1.dd with dom := d2 } } : FamSt α).discretize oracle
  | .gauss =>
    let f1 : FamSt α := if slot == 1 then { f with p1 := v } else { f with p2 := v }
    f1.discretize oracle
  | .exp => ({ f with p1 := v } : FamSt α).discretize oracle
  | .texp =>
    -- TruncatedExponentialDiscreteDistribution.cpp:34-43
    let f1 : FamSt α := if slot == 1 then { f with p1 := v } else { f with p2 := v }
    let f2 : FamSt α := { f1 with p3 := texpCond f1.p1 f1.p2, dd := { f1.dd with dom := f1.dd.dom.setUpperBound f1.p2 false } }
    f2.discretize oracle
  | .unif => .ok f   -- UniformDiscreteDistribution.cpp:45-46: empty

/-- `setParameterValue(name, value)` (AbstractParametrizable.h:64-68, Parameter.cpp:57-67):
an unknown name raises; a value different from the current one is checked against the
constraint; `fireParameterChanged` is then called in every case -/
def rejects (f : FamSt α) (slot : Nat) (v : α) : Bool :=
  match paramConstraint f slot with
  | some c => !(c.isCorrect v)
  | none => false

def setParameterValue (oracle : Parent α) (f : FamSt α) (name : String) (v : α) : Except Err (FamSt α) :=
  match paramSlot f name with
  | none => .error .notfound
  | some slot =>
    if !(Scalar.eqb (paramValue f slot) v) && rejects f slot v
    then .error .constraint
    else fire oracle f slot v

/-- outcome of a state-changing operation: the state afterwards (also when it raised) -/
structure Step (α : Type) where
  st : FamSt α
  err : Option Err

def stepOf (old : FamSt α) (r : Except Err (FamSt α)) : Step α :=
  match r with
  | .ok s => ⟨s, none⟩
  | .error e => ⟨old, some e⟩

/-- `restrictToConstraint(c)`.  The truncated exponential (TruncatedExponentialDiscreteDistribution.cpp:45-55,
repaired) first refuses a constraint that does not accept the current `tp`, then restricts and
ties the constraint of `tp` to the (live) domain. -/
def restrict (oracle : Parent α) (f : FamSt α) (c : Interval α) : Step α :=
  if f.fam == .texp && !(c.isCorrect f.p2) then ⟨f, some .constraint⟩ else
  match restrictToConstraint (f.parent oracle) f.dd c with
  | .error e => ⟨f, some e⟩
  | .ok d =>
    let f1 : FamSt α := { f with dd := d }
    match f.fam with
    | .texp => if d.dom.isCorrect f.p2 then ⟨{ f1 with tpTied := true }, none⟩ else ⟨f1, some .constraint⟩
    | _ => ⟨f1, none⟩

def setN (oracle : Parent α) (f : FamSt α) (n : Nat) : Step α :=
  stepOf f ((setNumberOfCategories (f.parent oracle) f.dd n).map (fun d => { f with dd := d }))

def setMed (oracle : Parent α) (f : FamSt α) (b : Bool) : Step α :=
  stepOf f ((setMedian (f.parent oracle) f.dd b).map (fun d => { f with dd := d }))

def rediscretize (oracle : Parent α) (f : FamSt α) : Step α := stepOf f (f.discretize oracle)

def setP (oracle : Parent α) (f : FamSt α) (name : String) (v : α) : Step α :=
  stepOf f (setParameterValue oracle f name v)

end Bpp.Discretize
