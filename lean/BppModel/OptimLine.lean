import BppModel.OptimOneDim
import BppModel.OptimMulti
import BppModel.Generated.OptimConstants
/-
Model of the optimisation framework (C10), part 4: searching along a direction, and the optimisers
built on it, transcribed in full

  src/Bpp/Numeric/Function/DirectionFunction.{h,cpp}
  src/Bpp/Numeric/Function/OneDimensionOptimizationTools.cpp:173-278   lineMinimization, lineSearch
  src/Bpp/Numeric/Function/PowellMultiDimensions.cpp
  src/Bpp/Numeric/Function/ConjugateGradientMultiDimensions.cpp
  src/Bpp/Numeric/Function/BfgsMultiDimensions.cpp

(the code after the `fix:` commits of findings/C10.json: a `DirectionFunction` counts the evaluations
made through it, `lineMinimization` / `lineSearch` return that count, Powell counts its own
evaluations; BFGS goes back to the point a step started from when the function has increased; every
branch of Powell's `doStep` leaves the function at the optimiser's parameters).

A `DirectionFunction` is a function object wrapped around another one (the optimiser's function:
the same C++ object, held through a `shared_ptr`): its state contains the state of that function,
which the optimiser takes back when the line search returns.  The one-dimensional optimisers of
`OptimOneDim.lean` are written against `FunI`, so Brent's method and the Newton backtracking search
run on `DirFn.iface` unchanged.
-/
namespace Bpp.Optim
open Bpp Scalar

section
variable {α : Type} [Scalar α] {F : Type}

/-! ### DirectionFunction -/

/-- the data members of `DirectionFunction` (DirectionFunction.h:21-27): `function_` (its state),
`params_`, `p_`, `xt_`, `xi_`, and the evaluation counter -/
structure DirFn (F α : Type) where
  inner : F
  params : PList α
  p : PList α
  xt : PList α
  xi : List α
  nbEval : Nat
deriving Inhabited

/-- `DirectionFunction::init(p, xi)` (DirectionFunction.cpp:46-56) after `setConstraintPolicy(pol)`,
on a freshly constructed object (all lists empty).  The optimisers own ONE `DirectionFunction`
(`f1dim_`) for all their searches and all their runs: `DirFn.reinit` below is the same member
function on an object that has been used before, and `line_minimization_reuse` /
`line_search_reuse` (Props/C10History.lean) show that a search on such an object is the search on a
fresh one — which is why the optimisers' models may build a fresh one per search. -/
def DirFn.init (inner : F) (pol : Policy) (p : PList α) (xi : List α) : DirFn F α :=
  let p' := applyPolicy pol p
  { inner := inner, params := [], p := p', xt := p', xi := xi, nbEval := 0 }

/-- `DirectionFunction::init(p, xi)` (DirectionFunction.cpp:46-56) on an object `old` left by earlier
searches — along other directions, with other parameter lists, other constraints, another policy, another
dimension: `p_ = p; xi_ = xi; nbEval_ = 0;` the policy applied to `p_`; **`xt_ = p_`** (line 55: the
working point is rebuilt from the freshly wrapped list, constraints and auto-correcting wrappers
included, at *every* call).  `params_` is the only member that survives; `function_` is the shared
pointer to the optimiser's function (`inner`: its state now). -/
def DirFn.reinit (old : DirFn F α) (inner : F) (pol : Policy) (p : PList α) (xi : List α) : DirFn F α :=
  let p' := applyPolicy pol p
  { old with inner := inner, p := p', xi := xi, nbEval := 0, xt := p' }

/-- `for j < p_.size(): xt_[j].setValue(p_[j].getValue() + x * xi_[j])` (DirectionFunction.cpp:16-20);
`index` stands for reading past the end of `xt_` / `xi_` -/
def dirMove (x : α) : PList α → PList α → List α → Except Exc (PList α)
  | [], xt, _ => .ok xt
  | _ :: _, [], _ => .error .index
  | _ :: _, _ :: _, [] => .error .index
  | pj :: pr, tj :: tr, xj :: xr =>
    match tj.p.setValue (pj.p.value + x * xj) with
    | .error e => .error (excOf e)
    | .ok t' =>
      match dirMove x pr tr xr with
      | .error e => .error e
      | .ok tr' => .ok ({ tj with p := t' } :: tr')

/-- `DirectionFunction::setParameters(params)` (DirectionFunction.cpp:11-23) -/
def DirFn.setParameters (I : FunI F α) (df : DirFn F α) (pl : PList α) : Except (Exc × DirFn F α) (DirFn F α) :=
  let df := { df with params := pl }
  match value0 pl with
  | none => .error (.index, df)
  | some x =>
    match dirMove x df.p df.xt df.xi with
    | .error e => .error (e, df)
    | .ok xt' =>
      let df := { df with xt := xt', nbEval := df.nbEval + 1 }
      match I.setParameters df.inner xt' with
      | .error (e, fn) => .error (e, { df with inner := fn })
      | .ok fn => .ok { df with inner := fn }

/-- a `DirectionFunction` as a `FunctionInterface`: `f(pl)` is `setParameters(pl); getValue()`
(Functions.h:82), `getValue()` is that of the wrapped function, `getParameters()` is `params_`.
It has no derivatives (the one-dimensional optimisers that run on it do not ask for any). -/
def DirFn.iface (I : FunI F α) : FunI (DirFn F α) α :=
  { f := fun df pl =>
      match df.setParameters I pl with
      | .error e => .error e
      | .ok df' => .ok (df', I.value df'.inner),
    value := fun df => I.value df.inner,
    setParameters := fun df pl => df.setParameters I pl,
    getParameters := fun df => df.params,
    d1 := fun _ _ => zero,
    d2 := fun _ _ => zero }

/-- `for j: xi[j] *= xmin; parameters[j].setValue(parameters[j].getValue() + xi[j])`
(OneDimensionOptimizationTools.cpp:207-211, 270-274); `index` stands for reading past the end of `xi` -/
def moveAlong (xmin : α) : PList α → List α → Except Exc (PList α × List α)
  | [], xi => .ok ([], xi)
  | _ :: _, [] => .error .index
  | q :: r, x :: xs =>
    let x' := x * xmin
    match q.p.setValue (q.p.value + x') with
    | .error e => .error (excOf e)
    | .ok p' =>
      match moveAlong xmin r xs with
      | .error e => .error e
      | .ok (r', xs') => .ok ({ q with p := p' } :: r', x' :: xs')

/-- the parameter `Parameter("x", 0.0)` both searches hand to their one-dimensional optimiser -/
def xParam : PList α := [⟨0, ⟨zero, zero, none, false⟩⟩]

/-- the members of a freshly constructed `AbstractOptimizer` with the cap and the stop condition
given (tolerance, burn-in) and the `keep` policy -/
def freshCore (nbEvalMax : Nat) (tolerance : α) (burnin : Nat) : Core α :=
  { params := [], policy := .keep, nbEvalMax := nbEvalMax, nbEval := 0, cur := zero, tol := false, initialized := false,
    tolerance := tolerance, callCount := 0, burnin := burnin, lastF := zero, newF := zero }

/-- `BrentOneDimension bod(f1dim)` with `setTolerance(0.01)`, `setInitialInterval(0., 0.01)`
(OneDimensionOptimizationTools.cpp:184-195) -/
def lineBrent (df : DirFn F α) : St (DirFn F α) (Brent α) α :=
  let iv := orderedInterval (zero : α) OptimConstants.LM_XX
  { core := freshCore 10000 OptimConstants.LM_TOL 3, fn := df,
    ext := { a := zero, b := zero, d := zero, e := zero, fv := zero, fw := zero, fx := zero, tol1 := zero, tol2 := zero,
             v := zero, w := zero, x := zero, xm := zero, xinf := iv.1, xsup := iv.2, inward := false } }

/-- `OneDimensionOptimizationTools::lineMinimization(f1dim, parameters, xi, tolerance, …)`
(OneDimensionOptimizationTools.cpp:175-214); the argument `tolerance` is not used by the code.
Returns the function, `parameters` and `xi` as they are left (both are passed by reference) and the
number of evaluations made. -/
def lineMinimization (I : FunI F α) (fuel : Nat) (fn : F) (parameters : PList α) (xi : List α) :
    Except (Exc × F) (F × PList α × List α × Nat) :=
  let J := DirFn.iface I
  let df := DirFn.init fn .auto parameters xi
  match (brentAlgo J fuel).init (lineBrent df) xParam with
  | .error (e, df) => .error (e, df.inner)
  | .ok bod =>
    match brentOptimize J fuel bod with
    | .error (e, df) => .error (e, df.inner)
    | .ok (bod, _) =>
      match value0 bod.fn.params with
      | none => .error (.index, bod.fn.inner)
      | some xmin =>
        match moveAlong xmin parameters xi with
        | .error e => .error (e, bod.fn.inner)
        | .ok (pl, xi') => .ok (bod.fn.inner, pl, xi', bod.fn.nbEval)

/-- the body of `lineMinimization` from the initialised `DirectionFunction` on
(OneDimensionOptimizationTools.cpp:191-213); also returns the object as the search leaves it -/
def lineMinimizationFrom (I : FunI F α) (fuel : Nat) (df : DirFn F α) (parameters : PList α) (xi : List α) :
    Except (Exc × F) ((F × PList α × List α × Nat) × DirFn F α) :=
  let J := DirFn.iface I
  match (brentAlgo J fuel).init (lineBrent df) xParam with
  | .error (e, df) => .error (e, df.inner)
  | .ok bod =>
    match brentOptimize J fuel bod with
    | .error (e, df) => .error (e, df.inner)
    | .ok (bod, _) =>
      match value0 bod.fn.params with
      | none => .error (.index, bod.fn.inner)
      | some xmin =>
        match moveAlong xmin parameters xi with
        | .error e => .error (e, bod.fn.inner)
        | .ok (pl, xi') => .ok ((bod.fn.inner, pl, xi', bod.fn.nbEval), bod.fn)

/-- `lineMinimization(f1dim, parameters, xi, …)` with the `DirectionFunction` object `old` the caller
has used before (what Powell and the conjugate gradient optimiser do with their `f1dim_`): the same
result as `lineMinimization`, whatever `old` is (`line_minimization_reuse`) -/
def lineMinimizationOn (I : FunI F α) (fuel : Nat) (old : DirFn F α) (fn : F) (parameters : PList α) (xi : List α) :
    Except (Exc × F) ((F × PList α × List α × Nat) × DirFn F α) :=
  lineMinimizationFrom I fuel (DirFn.reinit old fn .auto parameters xi) parameters xi

/-- `slope += xi[i] * gradient[i]` -/
def dotFrom (acc : α) : List α → List α → α
  | x :: xs, g :: gs => dotFrom (acc + x * g) xs gs
  | _, _ => acc

/-- the scaling `test` of `lineSearch` (OneDimensionOptimizationTools.cpp:241-250) -/
def lsTest (test : α) : PList α → List α → α
  | q :: r, x :: xs =>
    let ax := abs q.p.value
    let temp := abs x
    let temp := if gtb ax one then temp / ax else temp
    lsTest (if gtb temp test then temp else test) r xs
  | _, _ => test

/-- `NewtonBacktrackOneDimension nbod(f1dim, slope, test)` with `setTolerance(0.0001)`
(OneDimensionOptimizationTools.cpp:252-259) -/
def lineNBack (df : DirFn F α) (slope test : α) : St (DirFn F α) (NBack α) α :=
  { core := freshCore 10000 OptimConstants.LS_TOL 0, fn := df,
    ext := { fold := zero, f := zero, alam := zero, alamin := zero, alam2 := zero, f2 := zero, slope := slope, test := test } }

/-- `OneDimensionOptimizationTools::lineSearch(f1dim, parameters, xi, gradient, …)`
(OneDimensionOptimizationTools.cpp:218-279) -/
def lineSearch (I : FunI F α) (fuel : Nat) (fn : F) (parameters : PList α) (xi gradient : List α) :
    Except (Exc × F) (F × PList α × List α × Nat) :=
  let J := DirFn.iface I
  let df := DirFn.init fn .auto parameters xi
  let slope := dotFrom zero xi gradient
  let test := lsTest zero parameters xi
  match (nbackAlgo J).init (lineNBack df slope test) xParam with
  | .error (e, df) => .error (e, df.inner)
  | .ok nb =>
    match (nbackAlgo J).optimize fuel nb with
    | .error (e, df) => .error (e, df.inner)
    | .ok (nb, _) =>
      match value0 nb.fn.params with
      | none => .error (.index, nb.fn.inner)
      | some xmin =>
        match moveAlong xmin parameters xi with
        | .error e => .error (e, nb.fn.inner)
        | .ok (pl, xi') => .ok (nb.fn.inner, pl, xi', nb.fn.nbEval)

/-- the body of `lineSearch` from the initialised `DirectionFunction` on
(OneDimensionOptimizationTools.cpp:233-277); also returns the object as the search leaves it -/
def lineSearchFrom (I : FunI F α) (fuel : Nat) (df : DirFn F α) (parameters : PList α) (xi gradient : List α) :
    Except (Exc × F) ((F × PList α × List α × Nat) × DirFn F α) :=
  let J := DirFn.iface I
  let slope := dotFrom zero xi gradient
  let test := lsTest zero parameters xi
  match (nbackAlgo J).init (lineNBack df slope test) xParam with
  | .error (e, df) => .error (e, df.inner)
  | .ok nb =>
    match (nbackAlgo J).optimize fuel nb with
    | .error (e, df) => .error (e, df.inner)
    | .ok (nb, _) =>
      match value0 nb.fn.params with
      | none => .error (.index, nb.fn.inner)
      | some xmin =>
        match moveAlong xmin parameters xi with
        | .error e => .error (e, nb.fn.inner)
        | .ok (pl, xi') => .ok ((nb.fn.inner, pl, xi', nb.fn.nbEval), nb.fn)

/-- `lineSearch(f1dim, parameters, xi, gradient, …)` with the `DirectionFunction` object `old` the caller
has used before (BFGS's `f1dim_`): the same result as `lineSearch` (`line_search_reuse`) -/
def lineSearchOn (I : FunI F α) (fuel : Nat) (old : DirFn F α) (fn : F) (parameters : PList α) (xi gradient : List α) :
    Except (Exc × F) ((F × PList α × List α × Nat) × DirFn F α) :=
  lineSearchFrom I fuel (DirFn.reinit old fn .auto parameters xi) parameters xi gradient

/-- `getGradient(gradient)`: `gradient[i] = getFirstOrderDerivative(getParameters()[i].getName())` for
`i < gradient.size()` (the size given at `doInit`); `none` stands for reading past the end of the
parameter list -/
def gradientOf (I : FunI F α) (fn : F) (pl : PList α) : Nat → Option (List α)
  | 0 => some []
  | n + 1 =>
    match pl with
    | [] => none
    | q :: r =>
      match gradientOf I fn r n with
      | none => none
      | some g => some (I.d1 fn q.name :: g)

/-! ### PowellMultiDimensions -/

structure Powell (α : Type) where
  fp : α
  fret : α
  pt : PList α
  /-- `xi_[i][j]`: row `i` -/
  xi : List (List α)
deriving Inhabited

def Powell.fresh : Powell α := { fp := zero, fret := zero, pt := [], xi := [] }

/-- `PMDStopCondition::isToleranceReached` (PowellMultiDimensions.cpp:14-30) -/
def powellStop (s : St F (Powell α) α) : St F (Powell α) α × Bool :=
  let c := { s.core with callCount := s.core.callCount + 1 }
  let s' := { s with core := c }
  if c.callCount ≤ c.burnin then (s', false)
  else
    let fp := s.ext.fp
    let fret := s.ext.fret
    (s', ltb (ofInt 2 * ntAbs (fp - fret) / (ntAbs fp + ntAbs fret)) c.tolerance)

/-- `PowellMultiDimensions::doInit` (PowellMultiDimensions.cpp:43-62) -/
def powellDoInit (I : FunI F α) (s : St F (Powell α) α) (params : PList α) : Except (Exc × F) (St F (Powell α) α) :=
  let n := params.length
  let xi : List (List α) := (List.range n).map (fun i => (List.range n).map (fun j => if j == i then one else zero))
  match I.f s.fn s.core.params with
  | .error e => .error e
  | .ok (fn, fret) => .ok { s with fn := fn, ext := { s.ext with xi := xi, fret := fret, pt := s.core.params } }

/-- the loop over the directions of `doStep` (PowellMultiDimensions.cpp:75-97); `i` runs over `is` -/
def powellDirs (I : FunI F α) (fuel : Nat) : List Nat → St F (Powell α) α → α → Nat → Except (Exc × F) (St F (Powell α) α × α × Nat)
  | [], s, del, ibig => .ok (s, del, ibig)
  | i :: r, s, del, ibig =>
    -- "Copy the direction": xit[j] = xi_[j][i]
    match s.ext.xi.mapM (fun row => row[i]?) with
    | none => .error (.index, s.fn)
    | some xit =>
      let fptt := s.ext.fret
      match lineMinimization I fuel s.fn s.core.params xit with
      | .error e => .error e
      | .ok (fn, pl, _, k) =>
        let s := { s with fn := fn, core := { s.core with params := pl, nbEval := s.core.nbEval + k } }
        match I.f s.fn s.core.params with
        | .error e => .error e
        | .ok (fn, fret) =>
          let s := { s with fn := fn, core := { s.core with nbEval := s.core.nbEval + 1 }, ext := { s.ext with fret := fret } }
          if gtb fret s.ext.fp then .error (.bpp, s.fn)
          else if gtb (fptt - fret) del then powellDirs I fuel r s (fptt - fret) i
          else powellDirs I fuel r s del ibig

/-- `ptt[j].setValue(2.0 * p[j] - pt_[j]); xit[j] = p[j] - pt_[j]; pt_[j].setValue(p[j])`
(PowellMultiDimensions.cpp:100-105): returns `ptt`, `xit`, `pt_`.  `ptt` is a copy of the optimiser's
list; `index` stands for reading past the end of `pt_`. -/
def powellExtrapolate : PList α → PList α → Except Exc (PList α × List α × PList α)
  | [], pt => .ok ([], [], pt)
  | _ :: _, [] => .error .index
  | q :: r, t :: tr =>
    match q.p.setValue (ofInt 2 * q.p.value - t.p.value) with
    | .error e => .error (excOf e)
    | .ok q' =>
      let x := q.p.value - t.p.value
      match t.p.setValue q.p.value with
      | .error e => .error (excOf e)
      | .ok t' =>
        match powellExtrapolate r tr with
        | .error e => .error e
        | .ok (r', xs, tr') => .ok ({ q with p := q' } :: r', x :: xs, { t with p := t' } :: tr')

/-- `xi_[j][ibig] = xi_[j][n - 1]; xi_[j][n - 1] = xit[j]` for every row `j` (lines 120-124) -/
def powellReplace (ibig n : Nat) : List (List α) → List α → List (List α)
  | row :: rows, x :: xs =>
    let last := row.getD (n - 1) zero
    ((row.set ibig last).set (n - 1) x) :: powellReplace ibig n rows xs
  | rows, _ => rows

/-- `PowellMultiDimensions::doStep` (PowellMultiDimensions.cpp:66-140), repaired: every branch leaves the
function at the optimiser's parameters -/
def powellDoStep (I : FunI F α) (fuel : Nat) (s : St F (Powell α) α) : Except (Exc × F) (St F (Powell α) α × α) :=
  let n := s.core.params.length
  let s := { s with ext := { s.ext with fp := s.ext.fret } }
  match powellDirs I fuel (List.range n) s zero 0 with
  | .error e => .error e
  | .ok (s, del, ibig) =>
    match powellExtrapolate s.core.params s.ext.pt with
    | .error e => .error (e, s.fn)
    | .ok (ptt, xit, pt') =>
      let s := { s with ext := { s.ext with pt := pt' } }
      match I.f s.fn ptt with
      | .error e => .error e
      | .ok (fn, fptt) =>
        let s := { s with fn := fn }
        let fp := s.ext.fp
        let fret := s.ext.fret
        if ltb fptt fp then
          let a := fp - fret - del
          let b := fp - fptt
          let t := ofInt 2 * (fp - ofInt 2 * fret + fptt) * (a * a) - del * (b * b)
          if ltb t zero then
            match lineMinimization I fuel s.fn s.core.params xit with
            | .error e => .error e
            | .ok (fn, pl, xit', k) =>
              let s := { s with fn := fn, core := { s.core with params := pl, nbEval := s.core.nbEval + k } }
              match I.f s.fn s.core.params with
              | .error e => .error e
              | .ok (fn, fret) =>
                let s := { s with fn := fn, core := { s.core with nbEval := s.core.nbEval + 1 }, ext := { s.ext with fret := fret } }
                if gtb fret s.ext.fp then .error (.bpp, s.fn)
                else .ok ({ s with ext := { s.ext with xi := powellReplace ibig n s.ext.xi xit' } }, fret)
          else
            -- (repaired) the direction set is kept: the function, at the extrapolated point, is put back
            match I.setParameters s.fn s.core.params with
            | .error e => .error e
            | .ok fn => .ok ({ s with fn := fn, core := { s.core with nbEval := s.core.nbEval + 1 } }, fret)
        else
          match I.setParameters s.fn s.core.params with
          | .error e => .error e
          | .ok fn => .ok ({ s with fn := fn, core := { s.core with nbEval := s.core.nbEval + 1 } }, fret)

def powellAlgo (I : FunI F α) (fuel : Nat) : Algo F (Powell α) α :=
  { doInit := powellDoInit I,
    doStep := powellDoStep I fuel,
    stopInit := fun s => { s with core := { s.core with callCount := 0 } },
    stop := powellStop,
    value := I.value }

/-- `PowellMultiDimensions::optimize` (PowellMultiDimensions.cpp:138-143): the template's loop, then
the function is evaluated at the optimiser's parameters; `currentValue_` is left as it is -/
def powellOptimize (I : FunI F α) (fuel : Nat) (s : St F (Powell α) α) : Except (Exc × F) (St F (Powell α) α × α) :=
  match (powellAlgo I fuel).optimize fuel s with
  | .error e => .error e
  | .ok (s, _) =>
    match I.f s.fn s.core.params with
    | .error e => .error e
    | .ok (fn, v) => .ok ({ s with fn := fn }, v)

/-! ### ConjugateGradientMultiDimensions -/

structure Cg (α : Type) where
  xi : List α
  h : List α
  g : List α
deriving Inhabited

def Cg.fresh : Cg α := { xi := [], h := [], g := [] }

/-- `ConjugateGradientMultiDimensions::doInit` (ConjugateGradientMultiDimensions.cpp:24-39): the
function is set to the list *given to `init`* -/
def cgDoInit (I : FunI F α) (s : St F (Cg α) α) (params : PList α) : Except (Exc × F) (St F (Cg α) α) :=
  match I.setParameters s.fn params with
  | .error e => .error e
  | .ok fn =>
    match gradientOf I fn s.core.params params.length with
    | none => .error (.index, fn)
    | some grad =>
      let g := grad.map (fun x => -x)
      .ok { s with fn := fn, ext := { xi := g, h := g, g := g } }

/-- `gg += g_[j] * g_[j]; dgg += (xi_[j] + g_[j]) * xi_[j]` (lines 63-69, Polak-Ribière) -/
def cgSums : α → α → List α → List α → α × α
  | gg, dgg, g :: gs, x :: xs => cgSums (gg + g * g) (dgg + (x + g) * x) gs xs
  | gg, dgg, _, _ => (gg, dgg)

/-- `g_[j] = -xi_[j]; xi_[j] = h_[j] = g_[j] + gam * h_[j]` (lines 79-83); returns `g_`, `h_` (= `xi_`) -/
def cgUpdate (gam : α) : List α → List α → List α × List α
  | x :: xs, h :: hs =>
    let g := -x
    let r := cgUpdate gam xs hs
    (g :: r.1, (g + gam * h) :: r.2)
  | _, _ => ([], [])

/-- `ConjugateGradientMultiDimensions::doStep` (ConjugateGradientMultiDimensions.cpp:43-87).
`n = getParameters().size()` bounds the loops; the vectors have the size given at `doInit`, which is
the same. -/
def cgDoStep (I : FunI F α) (fuel : Nat) (s : St F (Cg α) α) : Except (Exc × F) (St F (Cg α) α × α) :=
  match lineMinimization I fuel s.fn s.core.params s.ext.xi with
  | .error e => .error e
  | .ok (fn, pl, xi', k) =>
    let s := { s with fn := fn, core := { s.core with params := pl, nbEval := s.core.nbEval + k }, ext := { s.ext with xi := xi' } }
    match I.f s.fn s.core.params with
    | .error e => .error e
    | .ok (fn, f) =>
      let s := { s with fn := fn }
      if s.core.tol then .ok (s, f)
      else
        match gradientOf I s.fn s.core.params s.ext.xi.length with
        | none => .error (.index, s.fn)
        | some grad =>
          let s := { s with ext := { s.ext with xi := grad } }
          let (gg, dgg) := cgSums zero zero s.ext.g grad
          if eqb gg zero then .ok (s, f)
          else
            let gam := dgg / gg
            if nonFinite gam then .ok (s, f)
            else
              let (g', h') := cgUpdate gam grad s.ext.h
              .ok ({ s with ext := { xi := h', h := h', g := g' } }, f)

def cgAlgo (I : FunI F α) (fuel : Nat) : Algo F (Cg α) α :=
  { doInit := cgDoInit I,
    doStep := cgDoStep I fuel,
    stopInit := fscInit,
    stop := fscStop,
    value := I.value }

/-! ### BfgsMultiDimensions -/

structure Bfgs (α : Type) where
  up : List α
  lo : List α
  p : List α
  gradient : List α
  xi : List α
  hessian : List (List α)
deriving Inhabited

def Bfgs.fresh : Bfgs α := { up := [], lo := [], p := [], gradient := [], xi := [], hessian := [] }

/-- `Up_[i]` / `Lo_[i]` (BfgsMultiDimensions.cpp:53-67): the accepted limit towards `±VERY_BIG`, moved
inwards by `TINY`; an infinite limit (outside C01's model) is `nonfinite` -/
def bfgsBound (q : NP α) (upper : Bool) : Except Exc α :=
  let big : α := OptimConstants.VERY_BIG
  match q.p.constraint with
  | none => .ok (if upper then big else -big)
  | some c =>
    match c.getAcceptedLimit (.fin (if upper then big else -big)) with
    | .fin l => .ok (if upper then l - Constants.TINY else l + Constants.TINY)
    | _ => .error .nonfinite

def bfgsBounds : PList α → Except Exc (List α × List α)
  | [] => .ok ([], [])
  | q :: r =>
    match bfgsBound q true, bfgsBound q false with
    | .ok u, .ok l =>
      match bfgsBounds r with
      | .ok (us, ls) => .ok (u :: us, l :: ls)
      | .error e => .error e
    | .error e, _ => .error e
    | _, .error e => .error e

/-- `BfgsMultiDimensions::doInit` (BfgsMultiDimensions.cpp:34-92): the bounds of the optimiser's own
parameters (repaired), the function set to the list given to `init`, the gradient there, the identity
as inverse Hessian -/
def bfgsDoInit (I : FunI F α) (s : St F (Bfgs α) α) (params : PList α) : Except (Exc × F) (St F (Bfgs α) α) :=
  let n := params.length
  match bfgsBounds (s.core.params.take n) with
  | .error e => .error (e, s.fn)
  | .ok (up, lo) =>
    if up.length != n then .error (.index, s.fn) else
    match I.setParameters s.fn params with
    | .error e => .error e
    | .ok fn =>
      match gradientOf I fn s.core.params n with
      | none => .error (.index, fn)
      | some grad =>
        let hess : List (List α) := (List.range n).map (fun i => (List.range n).map (fun j => if j == i then one else zero))
        .ok { s with fn := fn, ext := { up := up, lo := lo, p := values (s.core.params.take n), gradient := grad,
                                         xi := (List.range n).map (fun _ => zero), hessian := hess } }

/-- `xi_[i] = 0; for j: xi_[i] -= hessian_[i][j] * gradient_[j]` -/
def negRowDot (acc : α) : List α → List α → α
  | h :: hs, g :: gs => negRowDot (acc - h * g) hs gs
  | _, _ => acc

/-- first loop over the bounds of `setDirection` (BfgsMultiDimensions.cpp:237-246): `v` is not reset
between coordinates -/
def bfgsAlpmax : α → α → List α → List α → List α → List α → α
  | v, alpmax, x :: xs, p :: ps, u :: us, l :: ls =>
    let v :=
      if gtb x zero && ltb (p + Constants.TINY * x) u then (u - p) / x
      else if ltb x zero && gtb (p + Constants.TINY * x) l then (l - p) / x
      else v
    bfgsAlpmax v (if ltb v alpmax then v else alpmax) xs ps us ls
  | _, alpmax, _, _, _, _ => alpmax

/-- second loop of `setDirection` (lines 248-256) -/
def bfgsClip (alpmax : α) : List α → List α → List α → List α → List α
  | x :: xs, p :: ps, u :: us, l :: ls =>
    (if geb (p + Constants.TINY * x) u then u - p
     else if leb (p + Constants.TINY * x) l then l - p
     else x * alpmax) :: bfgsClip alpmax xs ps us ls
  | _, _, _, _ => []

/-- `BfgsMultiDimensions::setDirection` (BfgsMultiDimensions.cpp:224-257) -/
def bfgsDirection (g : Bfgs α) : List α :=
  let xi := g.hessian.map (fun row => negRowDot zero row g.gradient)
  let alpmax := bfgsAlpmax one one xi g.p g.up g.lo
  bfgsClip alpmax xi g.p g.up g.lo

/-- `hdg_[i] = 0; for j: hdg_[i] += hessian_[i][j] * dg_[j]` -/
def rowDot (acc : α) : List α → List α → α
  | h :: hs, d :: ds => rowDot (acc + h * d) hs ds
  | _, _ => acc

/-- `fac += dg*xi; fae += dg*hdg; sumdg += dg*dg; sumxi += xi*xi` (lines 184-190) -/
def bfgsSums : α → α → α → α → List α → List α → List α → α × α × α × α
  | fac, fae, sumdg, sumxi, d :: ds, x :: xs, h :: hs =>
    bfgsSums (fac + d * x) (fae + d * h) (sumdg + d * d) (sumxi + x * x) ds xs hs
  | fac, fae, sumdg, sumxi, _, _, _ => (fac, fae, sumdg, sumxi)

/-- the update of the inverse Hessian (lines 192-208): the upper triangle gets the BFGS correction,
the lower one is its mirror image -/
def bfgsHessian (fac fad fae : α) (xi hdg dg : List α) (hess : List (List α)) : List (List α) :=
  let n := hess.length
  let g (l : List α) (i : Nat) : α := l.getD i zero
  let upper (i j : Nat) : α :=
    ((hess.getD i []).getD j zero) + (fac * g xi i * g xi j - fad * g hdg i * g hdg j + fae * g dg i * g dg j)
  (List.range n).map (fun i => (List.range n).map (fun j => if j ≥ i then upper i j else upper j i))

/-- `BfgsMultiDimensions::doStep` (BfgsMultiDimensions.cpp:96-218), repaired: when the function has
increased the optimiser goes back to the point the step started from (`getParameters_()[i].setValue(p_[i])`
for all `i`, then an evaluation there) -/
def bfgsDoStep (I : FunI F α) (fuel : Nat) (s : St F (Bfgs α) α) : Except (Exc × F) (St F (Bfgs α) α × α) :=
  let p := values s.core.params
  let g0 := { s.ext with p := p }
  let xi := bfgsDirection g0
  match lineSearch I fuel s.fn s.core.params xi g0.gradient with
  | .error e => .error e
  | .ok (fn, pl, _, k) =>
    let s := { s with fn := fn, core := { s.core with params := pl, nbEval := s.core.nbEval + k } }
    let xi := (values pl).zip p |>.map (fun ab => ab.1 - ab.2)
    let s := { s with ext := { g0 with xi := xi } }
    match I.f s.fn s.core.params with
    | .error e => .error e
    | .ok (fn, f) =>
      let s := { s with fn := fn }
      if gtb f s.core.cur then
        -- "!!! Function increase !!!" (repaired): back to the point the step started from
        match setAll s.core.params p with
        | .error e => .error (e, s.fn)
        | .ok pl0 =>
          match I.f s.fn pl0 with
          | .error e => .error e
          | .ok (fn, f0) =>
            .ok ({ s with fn := fn, core := { s.core with params := pl0, nbEval := s.core.nbEval + 1, tol := true } }, f0)
      else if s.core.tol then .ok (s, f)
      else
        match gradientOf I s.fn s.core.params s.ext.gradient.length with
        | none => .error (.index, s.fn)
        | some grad =>
          let dg := (grad.zip s.ext.gradient).map (fun ab => ab.1 - ab.2)
          let hdg := s.ext.hessian.map (fun row => rowDot zero row dg)
          let (fac, fae, sumdg, sumxi) := bfgsSums zero zero zero zero dg xi hdg
          let s := { s with ext := { s.ext with gradient := grad } }
          if gtb fac (sqrt (OptimConstants.BFGS_EPS * sumdg * sumxi)) then
            let fac := one / fac
            let fad := one / fae
            let dg' := (xi.zip hdg).map (fun xh => fac * xh.1 - fad * xh.2)
            .ok ({ s with ext := { s.ext with hessian := bfgsHessian fac fad fae xi hdg dg' s.ext.hessian } }, f)
          else .ok (s, f)

def bfgsAlgo (I : FunI F α) (fuel : Nat) : Algo F (Bfgs α) α :=
  { doInit := bfgsDoInit I,
    doStep := bfgsDoStep I fuel,
    stopInit := fscInit,
    stop := fscStop,
    value := I.value }

end
end Bpp.Optim
