import BppModel.Tree
import BppModel.Dag
/-
Copies of the tree and DAG containers (`TreeGraphImpl<GlobalGraph>`, `DAGraphImpl<GlobalGraph>`).
Neither class declares a copy constructor or an assignment operator: the compiler-generated ones
copy / assign the `GlobalGraph` base and then the cached flags, member by member.

* copy construction: `GlobalGraph(const GlobalGraph&)` (GlobalGraph.cpp:30-39): directedness, the two
  id counters, node table, edge table, root; the observer set of the copy is empty (as repaired in
  C14 round 2).  Then `isValid_` (and `isRooted_`) are copied: the flags travel with the tables
  they were computed from.
* assignment: `GlobalGraph::operator=` (:41-69): nothing at all on self-assignment; otherwise the
  same members are overwritten, the target's own observers are told that every former edge and
  node is gone, and — as repaired (findings/C15.json) — `topologyHasChanged_()` is called; then the
  compiler-generated part assigns the flags of the source.
* `GlobalGraph::operator=` reached through the base class (`static_cast<GlobalGraph&>(tree) = graph`,
  or any function that takes a `GlobalGraph&`): only the first half runs, so the flags of the
  container are those `topologyHasChanged_()` leaves: reset.  (The unrepaired code did not call it:
  the container kept answering `isValid() == true` from its cache for tables it had never seen.)

A container is a value here, so "several containers" is a list of slots (`Heap`): an operation on
one slot rewrites that slot only.  That the C++ objects behave like that (no table shared between a
container and its copy) is what the correspondence run checks: the harness prints every live
container after every operation.
-/
namespace Bpp.Graph

namespace T
/-- the compiler-generated copy constructor -/
def copy (t : T) : T := { g := { t.g with pending := [] }, valid := t.valid }
/-- the compiler-generated `operator=` (`self`: source and target are the same object) -/
def assign (dst src : T) (self : Bool) : T := if self then dst else { g := { src.g with pending := [] }, valid := src.valid }
/-- `GlobalGraph::operator=` through the base class, as repaired: the flag is reset -/
def graphAssign (dst : T) (src : G) (self : Bool) : T := if self then dst else { g := { src with pending := [] }, valid := false }
end T

namespace D
def copy (d : D) : D := { g := { d.g with pending := [] }, valid := d.valid, rooted := d.rooted }
def assign (dst src : D) (self : Bool) : D :=
  if self then dst else { g := { src.g with pending := [] }, valid := src.valid, rooted := src.rooted }
def graphAssign (dst : D) (src : G) (self : Bool) : D :=
  if self then dst else { g := { src with pending := [] }, valid := false, rooted := false }
end D

/-- containers side by side -/
structure Heap (α : Type) where
  slots : List (Option α) := []
deriving Repr

namespace Heap
variable {α : Type}

def get (h : Heap α) (k : Nat) : Option α := (h.slots[k]?).join
def set (h : Heap α) (k : Nat) (a : α) : Heap α :=
  { slots := (h.slots ++ List.replicate (k + 1 - h.slots.length) none).set k (some a) }
def single (a : α) : Heap α := { slots := [some a] }

end Heap

/-- histories over several tree containers -/
inductive THOp where
  /-- an operation of `TOp` on container `k` -/
  | op (k : Nat) (o : TOp)
  /-- slot `k` becomes a copy-constructed copy of container `j` -/
  | copy (j k : Nat)
  /-- `*k = *j` -/
  | assign (j k : Nat)
  /-- `static_cast<GlobalGraph&>(*k) = static_cast<const GlobalGraph&>(*j)` -/
  | graphAssign (j k : Nat)
deriving Repr

abbrev TH := Heap T

namespace TH
/-- slots that do not exist make the operation void (the harness answers `bad-slot`) -/
def step (h : TH) : THOp → TH
  | .op k o => match h.get k with | some t => h.set k (t.step o) | none => h
  | .copy j k => match h.get j with | some s => if j = k then h else h.set k s.copy | none => h
  | .assign j k => match h.get j, h.get k with | some s, some d => h.set k (d.assign s (j == k)) | _, _ => h
  | .graphAssign j k => match h.get j, h.get k with | some s, some d => h.set k (d.graphAssign s.g (j == k)) | _, _ => h
def run (h : TH) (ops : List THOp) : TH := ops.foldl step h
def init (rooted : Bool) : TH := Heap.single (T.empty rooted)
end TH

/-- histories over several DAG containers -/
inductive DHOp where
  | op (k : Nat) (o : DOp)
  | copy (j k : Nat)
  | assign (j k : Nat)
  | graphAssign (j k : Nat)
deriving Repr

abbrev DH := Heap D

namespace DH
def step (h : DH) : DHOp → DH
  | .op k o => match h.get k with | some d => h.set k (d.step o) | none => h
  | .copy j k => match h.get j with | some s => if j = k then h else h.set k s.copy | none => h
  | .assign j k => match h.get j, h.get k with | some s, some d => h.set k (d.assign s (j == k)) | _, _ => h
  | .graphAssign j k => match h.get j, h.get k with | some s, some d => h.set k (d.graphAssign s.g (j == k)) | _, _ => h
def run (h : DH) (ops : List DHOp) : DH := ops.foldl step h
def init : DH := Heap.single D.empty
end DH

end Bpp.Graph
