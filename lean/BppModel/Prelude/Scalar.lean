/-
One program text, two interpretations (DESIGN §2.2).

Numeric models are written once, generically over `Scalar α`, and instantiated
 * at `Float` (IEEE binary64, the same libm as the C++): used by the driver, compared
   bit-for-bit with the implementation;
 * at `Rat`  (exact): used by the driver on integer/dyadic inputs, robust to re-association;
 * at `ℝ`    (in BppProofs, noncomputable): what the theorems are about.
Rounding is *not* modelled: theorems speak about the exact-arithmetic semantics of the same
program text.
-/
namespace Bpp

class Scalar (α : Type) extends Add α, Sub α, Mul α, Div α, Neg α, Inhabited α where
  ofInt : Int → α
  /-- literal given as numerator / denominator (denominator > 0) -/
  ofRat : Int → Nat → α
  ltb : α → α → Bool
  leb : α → α → Bool
  eqb : α → α → Bool
  abs : α → α
  exp : α → α
  log : α → α
  sqrt : α → α
  pow : α → α → α
  tanh : α → α
  atanh : α → α
  tan : α → α
  atan : α → α
  cosh : α → α
  sinh : α → α

namespace Scalar
variable {α : Type} [Scalar α]
def zero : α := ofInt 0
def one : α := ofInt 1
def gtb (x y : α) : Bool := ltb y x
def geb (x y : α) : Bool := leb y x
def max (x y : α) : α := if ltb x y then y else x     -- std::max(a,b) = (a<b)?b:a
def min (x y : α) : α := if ltb y x then y else x     -- std::min(a,b) = (b<a)?b:a
end Scalar

instance : Scalar Float where
  ofInt i := Float.ofInt i
  ofRat n d := Float.ofInt n / Float.ofNat d
  ltb x y := x < y
  leb x y := x ≤ y
  eqb x y := x == y
  abs := Float.abs
  exp := Float.exp
  log := Float.log
  sqrt := Float.sqrt
  pow := Float.pow
  tanh := Float.tanh
  atanh := Float.atanh
  tan := Float.tan
  atan := Float.atan
  cosh := Float.cosh
  sinh := Float.sinh

/-- exact instantiation; transcendental functions are not available (return 0): only
arithmetic-only kernels are ever run at `Rat` -/
instance : Scalar Rat where
  ofInt i := (i : Rat)
  ofRat n d := (n : Rat) / (d : Rat)
  ltb x y := decide (x < y)
  leb x y := decide (x ≤ y)
  eqb x y := decide (x = y)
  abs x := if x < 0 then -x else x
  exp _ := 0
  log _ := 0
  sqrt _ := 0
  pow _ _ := 0
  tanh _ := 0
  atanh _ := 0
  tan _ := 0
  atan _ := 0
  cosh _ := 0
  sinh _ := 0

/-! hex <-> Float for the line protocol (doubles travel as 16 hex digits of their bit pattern) -/
namespace Hex
def digit? (c : Char) : Option Nat :=
  if '0' ≤ c ∧ c ≤ '9' then some (c.toNat - '0'.toNat)
  else if 'a' ≤ c ∧ c ≤ 'f' then some (c.toNat - 'a'.toNat + 10)
  else if 'A' ≤ c ∧ c ≤ 'F' then some (c.toNat - 'A'.toNat + 10)
  else none
def toNat? (s : String) : Option Nat :=
  s.toList.foldl (fun acc c => match acc, digit? c with
    | some a, some d => some (a * 16 + d)
    | _, _ => none) (some 0)
def float? (s : String) : Option Float :=
  if s.length != 16 then none else (toNat? s).map (fun n => Float.ofBits n.toUInt64)
def hexDigit (n : Nat) : Char := if n < 10 then Char.ofNat (48 + n) else Char.ofNat (87 + n)
def ofFloat (x : Float) : String :=
  let n := x.toBits.toNat
  String.ofList ((List.range 16).map (fun i => hexDigit ((n >>> (4 * (15 - i))) % 16)))
/-- all NaNs are printed alike -/
def ofFloatCanon (x : Float) : String := if x.isNaN then "nan" else ofFloat x
end Hex

/-- exact value of a finite double as a rational -/
def floatToRat? (x : Float) : Option Rat :=
  if x.isNaN || x.isInf then none else
  let bits := x.toBits.toNat
  let sign : Int := if bits >>> 63 == 1 then -1 else 1
  let e := (bits >>> 52) % 2048
  let m := bits % (2 ^ 52)
  let (mant, ex) : Nat × Int := if e == 0 then (m, -1074) else (m + 2 ^ 52, (e : Int) - 1075)
  let v : Rat := if ex ≥ 0 then ((mant * 2 ^ ex.toNat : Nat) : Rat) else (mant : Rat) / ((2 ^ (-ex).toNat : Nat) : Rat)
  some (sign * v)

end Bpp
