import BppModel.VecTools
/-
Model of the log-domain reductions: `VectorTools::logSumExp` (2 overloads), `logMeanExp`,
`sumExp` (2 overloads), `logNorm` (src/Bpp/Numeric/VectorTools.h:637-753) and
`NumTools::logsum` (src/Bpp/Numeric/NumTools.h:96-101).

The program text is written once over the small interface `LogArith` and read three ways:
 * at `Float` — the driver, bit-for-bit against the library (±inf and NaN natively);
 * at `ℝ` — the exact-arithmetic theorems (no infinities: `isInf = false`);
 * at `Ext ℝ` — reals extended with `+∞`, `-∞` (= log 0) and `NaN` following IEEE-754 for the
   *special* values and exact arithmetic for the finite ones (a finite operation never
   overflows): this is where "the log-sum of two log-zeros is log-zero" is a statement.
-/
namespace Bpp.LogSpace
open Bpp.VecTools (Res Err at? extremum)

class LogArith (α : Type) extends Add α, Sub α, Mul α where
  ofNat : Nat → α
  ltb : α → α → Bool
  eqb : α → α → Bool
  exp : α → α
  log : α → α
  /-- `std::isinf` -/
  isInf : α → Bool

instance : LogArith Float where
  ofNat := Float.ofNat
  ltb x y := x < y
  eqb x y := x == y
  exp := Float.exp
  log := Float.log
  isInf := Float.isInf

section Model
variable {α : Type} [LogArith α]
open LogArith

/-- `NumTools::logsum` before the repair (NumTools.h:96) -/
def logsumOrig (lnx lny : α) : α :=
  if ltb lny lnx then lnx + log (ofNat 1 + exp (lny - lnx))
  else lny + log (ofNat 1 + exp (lnx - lny))

/-- `NumTools::logsum` after the repair: equal arguments (in particular two log-zeros, whose
difference is NaN) are answered `lnx + log 2` -/
def logsum (lnx lny : α) : α :=
  if eqb lnx lny then lnx + log (ofNat 2)
  else if ltb lny lnx then lnx + log (ofNat 1 + exp (lny - lnx))
  else lny + log (ofNat 1 + exp (lnx - lny))

/-- `VectorTools::max` (VectorTools.h:1110) at this interface: `if (v[i] > maxi)` -/
def vmax (v : List α) : Res α := extremum (fun y m => ltb m y) v

/-- the arguments handed to `exp` by the max-shifted sums -/
def shifted (M : α) (v : List α) : List α := v.map (· - M)

/-- `std::accumulate(next(begin), end, exp(v[0]-M), λ y z. y + exp(z-M))`; `v[0]` is a checked read -/
def expSum (M : α) (v : List α) : Res α :=
  match v with
  | [] => .error .ub
  | x0 :: rest => .ok (rest.foldl (fun y z => y + exp (z - M)) (exp (x0 - M)))

/-- `x = v2[0]*exp(v1[0]-M); for (i = 1 …) x += v2[i]*exp(v1[i]-M)`; both `[0]` are checked reads -/
def expSumW (M : α) (v1 v2 : List α) : Res α :=
  match v1, v2 with
  | x0 :: r1, w0 :: r2 =>
    .ok ((List.zip r1 r2).foldl (fun x (p : α × α) => x + p.2 * exp (p.1 - M)) (w0 * exp (x0 - M)))
  | _, _ => .error .ub

/-- `logSumExp(v1)` (VectorTools.h:648) -/
def logSumExp (v : List α) : Res α :=
  if v.length = 1 then at? v 0 else do
    let M ← vmax v
    if isInf M then pure M else do
      let x ← expSum M v
      pure (log x + M)

/-- `logSumExp(v1, v2)` (VectorTools.h:672) -/
def logSumExpW (v1 v2 : List α) : Res α :=
  if v1.length ≠ v2.length then .error .dimension else do
    let M ← vmax v1
    if isInf M then throw .badnumber else do
      let x ← expSumW M v1 v2
      pure (log x + M)

/-- `logMeanExp` (VectorTools.h:697) -/
def logMeanExp (v : List α) : Res α := do
  let l ← logSumExp v
  pure (l - log (ofNat v.length))

/-- `sumExp(v1)` before the repair (VectorTools.h:709): `if (v1.size() == 0) return exp(v1[0])` -/
def sumExpOrig (v : List α) : Res α :=
  if v.length = 0 then do let x ← at? v 0; pure (exp x) else do
    let M ← vmax v
    if isInf M then pure (if ltb M (ofNat 0) then ofNat 0 else M) else do
      let x ← expSum M v
      pure (x * exp M)

/-- `sumExp(v1)` after the repair: the shortcut is for size 1, an empty vector is reported by `max` -/
def sumExp (v : List α) : Res α :=
  if v.length = 1 then do let x ← at? v 0; pure (exp x) else do
    let M ← vmax v
    if isInf M then pure (if ltb M (ofNat 0) then ofNat 0 else M) else do
      let x ← expSum M v
      pure (x * exp M)

/-- `sumExp(v1, v2)` (VectorTools.h:732) -/
def sumExpW (v1 v2 : List α) : Res α :=
  if v1.length ≠ v2.length then .error .dimension
  else if v1.length = 1 then do
    let w ← at? v2 0
    let x ← at? v1 0
    pure (w * exp x)
  else do
    let M ← vmax v1
    if isInf M then throw .badnumber else do
      let x ← expSumW M v1 v2
      pure (x * exp M)

/-- `logNorm` (VectorTools.h:637): `v -= logSumExp(v)` -/
def logNorm (v : List α) : Res (List α) := do
  let l ← logSumExp v
  pure (v.map (· - l))

end Model

/-! ### extended values -/

inductive Ext (α : Type) | fin (x : α) | pinf | ninf | nan
  deriving Repr, Inhabited

namespace Ext
variable {α : Type} [LogArith α]
open LogArith

def neg' (negFin : α → α) : Ext α → Ext α
  | fin x => fin (negFin x) | pinf => ninf | ninf => pinf | nan => nan

def add : Ext α → Ext α → Ext α
  | fin x, fin y => fin (x + y)
  | nan, _ => nan | _, nan => nan
  | pinf, ninf => nan | ninf, pinf => nan
  | pinf, _ => pinf | _, pinf => pinf
  | ninf, _ => ninf | _, ninf => ninf

def sub : Ext α → Ext α → Ext α
  | fin x, fin y => fin (x - y)
  | nan, _ => nan | _, nan => nan
  | pinf, pinf => nan | ninf, ninf => nan
  | pinf, _ => pinf | _, ninf => pinf
  | ninf, _ => ninf | _, pinf => ninf

/-- sign of a finite value: 1, 0, -1 -/
def sgn (x : α) : Int := if ltb (ofNat 0) x then 1 else if ltb x (ofNat 0) then -1 else 0

def infTimes (positive : Bool) (s : Int) : Ext α :=
  if s = 0 then nan else if (s > 0) = positive then pinf else ninf

def mul : Ext α → Ext α → Ext α
  | fin x, fin y => fin (x * y)
  | nan, _ => nan | _, nan => nan
  | pinf, fin y => infTimes true (sgn y) | fin x, pinf => infTimes true (sgn x)
  | ninf, fin y => infTimes false (sgn y) | fin x, ninf => infTimes false (sgn x)
  | pinf, pinf => pinf | ninf, ninf => pinf
  | pinf, ninf => ninf | ninf, pinf => ninf

def lt : Ext α → Ext α → Bool
  | fin x, fin y => ltb x y
  | nan, _ => false | _, nan => false
  | ninf, ninf => false | ninf, _ => true
  | _, ninf => false
  | pinf, _ => false
  | fin _, pinf => true

def beq : Ext α → Ext α → Bool
  | fin x, fin y => eqb x y
  | pinf, pinf => true | ninf, ninf => true
  | _, _ => false

/-- `exp`: a finite argument gives a finite value (no overflow/underflow in this reading) -/
def exp' : Ext α → Ext α
  | fin x => fin (exp x) | pinf => pinf | ninf => fin (ofNat 0) | nan => nan

/-- `log`: `log 0 = -∞`, negative → NaN -/
def log' : Ext α → Ext α
  | fin x => if ltb (ofNat 0) x then fin (log x) else if ltb x (ofNat 0) then nan else ninf
  | pinf => pinf | ninf => nan | nan => nan

def isInf' : Ext α → Bool
  | pinf => true | ninf => true | _ => false

instance : LogArith (Ext α) where
  add := add
  sub := sub
  mul := mul
  ofNat n := fin (ofNat n)
  ltb := lt
  eqb := beq
  exp := exp'
  log := log'
  isInf := isInf'

end Ext

/-- reading a double as an extended value and back (driver: the `Ext Float` run must agree with
the native run whenever no finite operation overflowed) -/
def Ext.ofFloat (x : Float) : Ext Float :=
  if x.isNaN then .nan else if x.isInf then (if x > 0 then .pinf else .ninf) else .fin x
def Ext.toFloat : Ext Float → Float
  | .fin x => x | .pinf => 1.0 / 0.0 | .ninf => -1.0 / 0.0 | .nan => 0.0 / 0.0

end Bpp.LogSpace
