/-
Model of `bpp::ParameterList` (src/Bpp/Numeric/ParameterList.{h,cpp}) and of the
forwarding layer of `bpp::AbstractParametrizable`
(src/Bpp/Numeric/AbstractParametrizable.{h,cpp}).                         (C02)

Core Lean only.  A bug-compatible transcription: every function cites the C++
it transcribes.  Object identity is explicit: parameter objects live in a heap
(`Store`), a list is a `List ObjId` (the `vector<shared_ptr<Parameter>>`), so
that `shareParameter(s)` / `shareSubList` alias objects whereas `addParameter`,
copy construction, assignment and `createSubList` allocate fresh ones.

The parameter record is deliberately minimal (the full `Parameter` /
`IntervalConstraint` model is C01's): name, value, optional interval constraint;
precision is the default 0 (the property says so), listeners are C03's.
-/
namespace Bpp.ParamList

/-! ## Minimal parameter objects -/

/-- an interval end point -/
inductive Bnd where
  | negInf
  | fin (q : Rat)
  | posInf
  deriving DecidableEq, Inhabited

/-- `IntervalConstraint` without precision: `lo`/`hi` with inclusion flags -/
structure Con where
  lo : Bnd
  hi : Bnd
  inclLo : Bool
  inclHi : Bool
  deriving DecidableEq, Inhabited

/-- `b ≤ v` for an extended-real bound `b` and a finite value `v` -/
def Bnd.leV : Bnd → Rat → Bool
  | .negInf, _ => true
  | .fin q, v => decide (q ≤ v)
  | .posInf, _ => false
/-- `b < v` -/
def Bnd.ltV : Bnd → Rat → Bool
  | .negInf, _ => true
  | .fin q, v => decide (q < v)
  | .posInf, _ => false
/-- `v ≤ b` -/
def Bnd.geV : Bnd → Rat → Bool
  | .negInf, _ => false
  | .fin q, v => decide (v ≤ q)
  | .posInf, _ => true
/-- `v < b` -/
def Bnd.gtV : Bnd → Rat → Bool
  | .negInf, _ => false
  | .fin q, v => decide (v < q)
  | .posInf, _ => true

/-- `IntervalConstraint::isCorrect` (Constraints.h:189-193) -/
def Con.accepts (c : Con) (v : Rat) : Bool :=
  (if c.inclLo then c.lo.leV v else c.lo.ltV v) &&
  (if c.inclHi then c.hi.geV v else c.hi.gtV v)

/-- a parameter object: `name_`, `value_`, `constraint_` (`precision_ = 0`) -/
structure Par where
  name : String
  value : Rat
  con : Option Con
  deriving DecidableEq, Inhabited

/-- `hasConstraint() && !getConstraint()->isCorrect(v)` -/
def Par.rejects (p : Par) (v : Rat) : Bool :=
  match p.con with
  | some c => !c.accepts v
  | none => false

/-- the C01 invariant of one object: the stored value is accepted by the constraint -/
def Par.ok (p : Par) : Bool := !p.rejects p.value

inductive Err where
  | constraint   -- ConstraintException
  | notfound     -- ParameterNotFoundException
  | index        -- IndexOutOfBoundsException
  | bpp          -- ParameterException ("already exists")
  deriving DecidableEq, Inhabited

/-- `Parameter::setValue` with `precision_ = 0` (Parameter.cpp:55-65):
`if (abs(value - value_) > 0) { if (constraint_ && !isCorrect) throw; value_ = value; }` -/
def Par.setValue (p : Par) (v : Rat) : Except Err Par :=
  if v = p.value then .ok p
  else if p.rejects v then .error .constraint
  else .ok { p with value := v }

/-! ## Heap of parameter objects -/

abbrev ObjId := Nat

/-- object heap: `cells i` is object `i`; ids `≥ next` have never been allocated -/
structure Store where
  cells : ObjId → Par
  next : Nat

instance : Inhabited Store := ⟨⟨fun _ => default, 0⟩⟩

def Store.empty : Store := ⟨fun _ => ⟨"", 0, none⟩, 0⟩
def Store.get (h : Store) (i : ObjId) : Par := h.cells i
def Store.put (h : Store) (i : ObjId) (p : Par) : Store :=
  { h with cells := fun j => if j = i then p else h.cells j }
/-- `new Parameter(p)` / `p.clone()` -/
def Store.alloc (h : Store) (p : Par) : Store × ObjId :=
  ({ cells := fun j => if j = h.next then p else h.cells j, next := h.next + 1 }, h.next)

/-- result of an operation on (heap, one list) -/
structure LR where
  heap : Store
  list : List ObjId
  err : Option Err := none

/-- result of an operation that only writes the heap -/
structure HR where
  heap : Store
  err : Option Err := none

/-! ## Lookups (ParameterList.cpp:52-114, 208-216, 470-479, 552-560) -/

def nameOf (h : Store) (i : ObjId) : String := (h.get i).name

/-- `getParameterNames()` -/
def names (h : Store) (l : List ObjId) : List String := l.map (nameOf h)

/-- `parameter(name)` / `getParameter(name)`: the first object carrying the name -/
def find? (h : Store) (l : List ObjId) (n : String) : Option ObjId :=
  l.find? (fun i => nameOf h i == n)

/-- `hasParameter(name)` -/
def hasParameter (h : Store) (l : List ObjId) (n : String) : Bool :=
  l.any (fun i => nameOf h i == n)

/-- `whichParameterHasName(name)`: first index, or ParameterNotFoundException -/
def whichParameterHasName (h : Store) (l : List ObjId) (n : String) : Except Err Nat :=
  match l.findIdx? (fun i => nameOf h i == n) with
  | some k => .ok k
  | none => .error .notfound

/-- `getParameterValue(name)` -/
def getParameterValue (h : Store) (l : List ObjId) (n : String) : Except Err Rat :=
  match find? h l n with
  | some i => .ok (h.get i).value
  | none => .error .notfound

/-! ## Adding, sharing, including (ParameterList.cpp:256-324) -/

/-- `addParameter(const Parameter&)` (256-261) and `addParameter(Parameter*)` (265-270):
refused with ParameterException when the name is present, else a fresh object is appended -/
def addParameter (h : Store) (l : List ObjId) (p : Par) : LR :=
  if hasParameter h l p.name then { heap := h, list := l, err := some .bpp }
  else
    let a := h.alloc p
    { heap := a.1, list := l ++ [a.2] }

/-- `setParameterValue(name, value)` (328-332) -/
def setParameterValue (h : Store) (l : List ObjId) (n : String) (v : Rat) : HR :=
  match find? h l n with
  | none => { heap := h, err := some .notfound }
  | some i =>
    match (h.get i).setValue v with
    | .ok p => { heap := h.put i p }
    | .error e => { heap := h, err := some e }

/-- `shareParameter(shared_ptr)` (274-280): a collision turns into a value update,
otherwise the *same object* is appended -/
def shareParameter (h : Store) (l : List ObjId) (i : ObjId) : LR :=
  if hasParameter h l (nameOf h i) then
    let r := setParameterValue h l (nameOf h i) (h.get i).value
    { heap := r.heap, list := l, err := r.err }
  else { heap := h, list := l ++ [i] }

/-- `addParameters(params)` (308-314): stops at the first refused name (earlier ones stay) -/
def addParameters (h : Store) (l : List ObjId) : List ObjId → LR
  | [] => { heap := h, list := l }
  | i :: rest =>
    let r := addParameter h l (h.get i)
    match r.err with
    | some e => { heap := r.heap, list := r.list, err := some e }
    | none => addParameters r.heap r.list rest

/-- `shareParameters(params)` (318-324) -/
def shareParameters (h : Store) (l : List ObjId) : List ObjId → LR
  | [] => { heap := h, list := l }
  | i :: rest =>
    let r := shareParameter h l i
    match r.err with
    | some e => { heap := r.heap, list := r.list, err := some e }
    | none => shareParameters r.heap r.list rest

/-- `includeParameters(params)` (295-304): collision = value update, else a clone is appended -/
def includeParameters (h : Store) (l : List ObjId) : List ObjId → LR
  | [] => { heap := h, list := l }
  | i :: rest =>
    if hasParameter h l (nameOf h i) then
      let r := setParameterValue h l (nameOf h i) (h.get i).value
      match r.err with
      | some e => { heap := r.heap, list := l, err := some e }
      | none => includeParameters r.heap l rest
    else
      let a := h.alloc (h.get i)
      includeParameters a.1 (l ++ [a.2]) rest

/-- does a position other than `index` already carry the name?  (the loop added to
`setParameter` by the repair `fix: ParameterList::setParameter refuses a name ...`) -/
def nameElsewhere (h : Store) (l : List ObjId) (index : Nat) (n : String) : Bool :=
  (l.eraseIdx index).any (fun i => nameOf h i == n)

/-- `setParameter(index, param)` (285-295, repaired code): the slot gets a fresh clone of
`param`; ParameterException when another position already carries `param`'s name -/
def setParameter (h : Store) (l : List ObjId) (index : Nat) (p : Par) : LR :=
  if index ≥ l.length then { heap := h, list := l, err := some .index }
  else if nameElsewhere h l index p.name then { heap := h, list := l, err := some .bpp }
  else
    let a := h.alloc p
    { heap := a.1, list := l.set index a.2 }

/-- `setParameter` as it was before the repair (kept for the witness theorem only) -/
def setParameterUnrepaired (h : Store) (l : List ObjId) (index : Nat) (p : Par) : LR :=
  if index ≥ l.length then { heap := h, list := l, err := some .index }
  else
    let a := h.alloc p
    { heap := a.1, list := l.set index a.2 }

/-! ## Bulk value updates: validate, then apply (ParameterList.cpp:336-447) -/

/-- first pass of `setAllParametersValues` (339-344): iterate over *this* list -/
def checkAll (h : Store) (src : List ObjId) : List ObjId → Option Err
  | [] => none
  | i :: rest =>
    match find? h src (nameOf h i) with
    | none => some .notfound
    | some j => if (h.get i).rejects (h.get j).value then some .constraint else checkAll h src rest

/-- second pass of `setAllParametersValues` (347-351) -/
def applyAll (h : Store) (src : List ObjId) : List ObjId → HR
  | [] => { heap := h }
  | i :: rest =>
    match find? h src (nameOf h i) with
    | none => { heap := h, err := some .notfound }
    | some j =>
      match (h.get i).setValue (h.get j).value with
      | .ok p => applyAll (h.put i p) src rest
      | .error e => { heap := h, err := some e }

/-- `setAllParametersValues(params)` (336-352) -/
def setAllParametersValues (h : Store) (l src : List ObjId) : HR :=
  match checkAll h src l with
  | some e => { heap := h, err := some e }
  | none => applyAll h src l

/-- first pass of `setParametersValues` / `testParametersValues` / `matchParametersValues`
(359-367, 387-395, 417-425): iterate over the *source* -/
def checkSome (h : Store) (l : List ObjId) : List ObjId → Option Err
  | [] => none
  | s :: rest =>
    match find? h l (nameOf h s) with
    | none => checkSome h l rest
    | some t => if (h.get t).rejects (h.get s).value then some .constraint else checkSome h l rest

/-- second pass of `setParametersValues` (371-378) -/
def applySome (h : Store) (l : List ObjId) : List ObjId → HR
  | [] => { heap := h }
  | s :: rest =>
    match find? h l (nameOf h s) with
    | none => applySome h l rest
    | some t =>
      match (h.get t).setValue (h.get s).value with
      | .ok p => applySome (h.put t p) l rest
      | .error e => { heap := h, err := some e }

/-- `setParametersValues(params)` (356-380) -/
def setParametersValues (h : Store) (l src : List ObjId) : HR :=
  match checkSome h l src with
  | some e => { heap := h, err := some e }
  | none => applySome h l src

/-- second pass of `testParametersValues` (398-409) -/
def testSome (h : Store) (l : List ObjId) : List ObjId → Bool
  | [] => false
  | s :: rest =>
    match find? h l (nameOf h s) with
    | none => testSome h l rest
    | some t => (decide ((h.get t).value ≠ (h.get s).value)) || testSome h l rest

/-- `testParametersValues(params)` (384-410) -/
def testParametersValues (h : Store) (l src : List ObjId) : Except Err Bool :=
  match checkSome h l src with
  | some e => .error e
  | none => .ok (testSome h l src)

/-- result of `matchParametersValues`: heap, error, the positions pushed on the out-vector -/
structure MR where
  heap : Store
  err : Option Err := none
  pos : List Nat := []

/-- second pass of `matchParametersValues` (428-446); `pos` is the running source position;
the returned flag `ch` is `positions ≠ []` (both are set in the same branch) -/
def matchSome (h : Store) (l : List ObjId) (pos : Nat) : List ObjId → MR
  | [] => { heap := h }
  | s :: rest =>
    match find? h l (nameOf h s) with
    | none => matchSome h l (pos + 1) rest
    | some t =>
      if (h.get t).value ≠ (h.get s).value then
        match (h.get t).setValue (h.get s).value with
        | .ok p =>
          let r := matchSome (h.put t p) l (pos + 1) rest
          { r with pos := pos :: r.pos }
        | .error e => { heap := h, err := some e }
      else matchSome h l (pos + 1) rest

/-- `matchParametersValues(params, updatedParameters)` (414-447) -/
def matchParametersValues (h : Store) (l src : List ObjId) : MR :=
  match checkSome h l src with
  | some e => { heap := h, err := some e }
  | none => matchSome h l 0 src

/-! ## Whole-parameter assignment (ParameterList.cpp:450-492)
`*p = **it` copies name, value, constraint (Parameter.cpp:39-47); the target was found
by that very name, so its name is unchanged. -/

/-- `setAllParameters(params)` (450-457): not atomic (a missing name raises half-way) -/
def setAllParameters (h : Store) (src : List ObjId) : List ObjId → HR
  | [] => { heap := h }
  | i :: rest =>
    match find? h src (nameOf h i) with
    | none => { heap := h, err := some .notfound }
    | some j => setAllParameters (h.put i (h.get j)) src rest

/-- `setParameters(params)` (460-467): not atomic -/
def setParameters (h : Store) (l : List ObjId) : List ObjId → HR
  | [] => { heap := h }
  | s :: rest =>
    match find? h l (nameOf h s) with
    | none => { heap := h, err := some .notfound }
    | some t => setParameters (h.put t (h.get s)) l rest

/-- `matchParameters(params)` (482-492) -/
def matchParameters (h : Store) (l : List ObjId) : List ObjId → HR
  | [] => { heap := h }
  | s :: rest =>
    match find? h l (nameOf h s) with
    | none => matchParameters h l rest
    | some t => matchParameters (h.put t (h.get s)) l rest

/-! ## Deletion (ParameterList.cpp:495-549) -/

/-- `deleteParameter(name)` (495-506): erases the first entry carrying the name -/
def deleteParameter (h : Store) (l : List ObjId) (n : String) : Except Err (List ObjId) :=
  match l.findIdx? (fun i => nameOf h i == n) with
  | some k => .ok (l.eraseIdx k)
  | none => .error .notfound

/-- `deleteParameters(names, mustExist)` (509-525): not atomic when `mustExist` -/
def deleteParameters (h : Store) (mustExist : Bool) : List ObjId → List String → List ObjId × Option Err
  | l, [] => (l, none)
  | l, n :: rest =>
    match deleteParameter h l n with
    | .ok l' => deleteParameters h mustExist l' rest
    | .error e => if mustExist then (l, some e) else deleteParameters h mustExist l rest

/-- `deleteParameter(index)` (528-533) -/
def deleteParameterIdx (l : List ObjId) (index : Nat) : Except Err (List ObjId) :=
  if index ≥ l.length then .error .index else .ok (l.eraseIdx index)

/-- `std::sort` on `vector<size_t>` (any correct sort gives this result: the order is total) -/
def insertSorted (a : Nat) : List Nat → List Nat
  | [] => [a]
  | b :: t => if a ≤ b then a :: b :: t else b :: insertSorted a t
def sortNat : List Nat → List Nat
  | [] => []
  | a :: t => insertSorted a (sortNat t)

/-- the loop of `deleteParameters(indices)` (540-548) over the sorted indices, largest first -/
def eraseDesc : List ObjId → List Nat → List ObjId × Option Err
  | l, [] => (l, none)
  | l, index :: rest =>
    if index ≥ l.length then (l, some .index) else eraseDesc (l.eraseIdx index) rest

/-- `deleteParameters(indices)` (536-549): sort a copy, erase from the back -/
def deleteParametersIdx (l : List ObjId) (indices : List Nat) : List ObjId × Option Err :=
  eraseDesc l (sortNat indices).reverse

/-! ## Sub-lists and copies (ParameterList.cpp:16-40, 119-204) -/

/-- clone every object of `l` (copy-ctor 16-24, `operator=` 28-40) -/
def cloneAll (h : Store) : List ObjId → Store × List ObjId
  | [] => (h, [])
  | i :: rest =>
    let a := h.alloc (h.get i)
    let r := cloneAll a.1 rest
    (r.1, a.2 :: r.2)

/-- `createSubList(vector<string>)` (119-128): `acc` is the local `pl`; a missing name raises
ParameterNotFoundException, a repeated one ParameterException (through `addParameter`) -/
def createSubListNames (h : Store) (l : List ObjId) (acc : List ObjId) : List String → LR
  | [] => { heap := h, list := acc }
  | n :: rest =>
    match find? h l n with
    | none => { heap := h, list := acc, err := some .notfound }
    | some i =>
      let r := addParameter h acc (h.get i)
      match r.err with
      | some e => { heap := r.heap, list := r.list, err := some e }
      | none => createSubListNames r.heap l r.list rest

/-- `shareSubList(vector<string>)` (132-141) -/
def shareSubListNames (h : Store) (l : List ObjId) (acc : List ObjId) : List String → LR
  | [] => { heap := h, list := acc }
  | n :: rest =>
    match find? h l n with
    | none => { heap := h, list := acc, err := some .notfound }
    | some i =>
      let r := shareParameter h acc i
      match r.err with
      | some e => { heap := r.heap, list := r.list, err := some e }
      | none => shareSubListNames r.heap l r.list rest

/-- `createSubList(vector<size_t>)` (repaired code): out-of-range indices are skipped
silently; an index met twice raises ParameterException through `addParameter` -/
def createSubListIdx (h : Store) (l : List ObjId) (acc : List ObjId) : List Nat → LR
  | [] => { heap := h, list := acc }
  | k :: rest =>
    match l[k]? with
    | none => createSubListIdx h l acc rest
    | some i =>
      let r := addParameter h acc (h.get i)
      match r.err with
      | some e => { heap := r.heap, list := r.list, err := some e }
      | none => createSubListIdx r.heap l r.list rest

/-- `createSubList(vector<size_t>)` as it was before the repair: clones pushed without a
name check (kept for the witness theorem only) -/
def createSubListIdxUnrepaired (h : Store) (l : List ObjId) (acc : List ObjId) : List Nat → LR
  | [] => { heap := h, list := acc }
  | k :: rest =>
    match l[k]? with
    | none => createSubListIdxUnrepaired h l acc rest
    | some i =>
      let a := h.alloc (h.get i)
      createSubListIdxUnrepaired a.1 l (acc ++ [a.2]) rest

/-- `shareSubList(vector<size_t>)` (168-178) -/
def shareSubListIdx (h : Store) (l : List ObjId) (acc : List ObjId) : List Nat → LR
  | [] => { heap := h, list := acc }
  | k :: rest =>
    match l[k]? with
    | none => shareSubListIdx h l acc rest
    | some i =>
      let r := shareParameter h acc i
      match r.err with
      | some e => { heap := r.heap, list := r.list, err := some e }
      | none => shareSubListIdx r.heap l r.list rest

/-- `getCommonParametersWith(params)` (192-204): clones of the entries of `params` whose name
is in `this` (pushed without a name check) -/
def getCommonParametersWith (h0 : Store) (l : List ObjId) (h : Store) : List ObjId → Store × List ObjId
  | [] => (h, [])
  | s :: rest =>
    if hasParameter h0 l (nameOf h0 s) then
      let a := h.alloc (h0.get s)
      let r := getCommonParametersWith h0 l a.1 rest
      (r.1, a.2 :: r.2)
    else getCommonParametersWith h0 l h rest

/-! ## AbstractParametrizable: forwarding + notification (AbstractParametrizable.h:56-83)
`fireParameterChanged(list)` is an abstract recorder: the list handed to it is returned. -/

structure AR where
  heap : Store
  err : Option Err := none
  /-- the argument of `fireParameterChanged`, when it is called -/
  fired : Option (List ObjId) := none
  flag : Bool := false

/-- `setAllParametersValues` (56-60) -/
def apSetAllParametersValues (h : Store) (l src : List ObjId) : AR :=
  let r := setAllParametersValues h l src
  match r.err with
  | some e => { heap := r.heap, err := some e }
  | none => { heap := r.heap, fired := some src }

/-- `setParameterValue(name, value)` (62-66): the list receives `prefix_ + name`, the
notification a fresh one-element sub-list -/
def apSetParameterValue (h : Store) (l : List ObjId) (pre n : String) (v : Rat) : AR :=
  let r := setParameterValue h l (pre ++ n) v
  match r.err with
  | some e => { heap := r.heap, err := some e }
  | none =>
    let s := createSubListNames r.heap l [] [pre ++ n]
    match s.err with
    | some e => { heap := s.heap, err := some e }
    | none => { heap := s.heap, fired := some s.list }

/-- `setParametersValues` (68-72) -/
def apSetParametersValues (h : Store) (l src : List ObjId) : AR :=
  let r := setParametersValues h l src
  match r.err with
  | some e => { heap := r.heap, err := some e }
  | none => { heap := r.heap, fired := some src }

/-- `matchParametersValues` (74-81): notifies with the *shared* sub-list of the source at the
updated positions, only when something changed -/
def apMatchParametersValues (h : Store) (l src : List ObjId) : AR :=
  let r := matchParametersValues h l src
  match r.err with
  | some e => { heap := r.heap, err := some e }
  | none =>
    if r.pos ≠ [] then
      let s := shareSubListIdx r.heap src [] r.pos
      { heap := s.heap, err := s.err, fired := some s.list, flag := true }
    else { heap := r.heap }

def startsWith (s pre : String) : Bool := pre.toList.isPrefixOf s.toList

/-- `setNamespace(prefix)` (AbstractParametrizable.cpp:10-27): rename every parameter -/
def setNamespace (h : Store) (oldPre newPre : String) : List ObjId → Store
  | [] => h
  | i :: rest =>
    let cur := nameOf h i
    let nn := if startsWith cur oldPre then newPre ++ String.ofList (cur.toList.drop oldPre.length)
              else newPre ++ cur
    setNamespace (h.put i { h.get i with name := nn }) oldPre newPre rest

/-! ## Histories: a machine with list registers over one heap

`lists k` is list register `k` (every register exists, initially empty); `pre k` is the
namespace prefix of the `AbstractParametrizable` that owns register `k`. -/

structure State where
  heap : Store
  lists : Nat → List ObjId
  pre : Nat → String

def State.init : State := ⟨Store.empty, fun _ => [], fun _ => ""⟩

def State.setList (s : State) (k : Nat) (l : List ObjId) : State :=
  { s with lists := fun j => if j = k then l else s.lists j }

def State.withHeap (s : State) (h : Store) : State := { s with heap := h }

inductive Op where
  | add (k : Nat) (p : Par)                 -- `L[k].addParameter(Parameter(name, v, con))`
  | addPtr (k : Nat) (p : Par)              -- `L[k].addParameter(new Parameter(...))`
  | addAll (k j : Nat)                      -- `L[k].addParameters(L[j])`
  | share (k j : Nat) (name : String)       -- `L[k].shareParameter(L[j].getParameter(name))`
  | shareAll (k j : Nat)                    -- `L[k].shareParameters(L[j])`
  | incl (k j : Nat)                        -- `L[k].includeParameters(L[j])`
  | setParam (k i : Nat) (p : Par)          -- `L[k].setParameter(i, Parameter(...))`
  | setValue (k : Nat) (name : String) (v : Rat)
  | setAllValues (k j : Nat)                -- `L[k].setAllParametersValues(L[j])`
  | setValues (k j : Nat)                   -- `L[k].setParametersValues(L[j])`
  | testValues (k j : Nat)
  | matchValues (k j : Nat) (withVec : Bool)
  | setAllParams (k j : Nat)
  | setParams (k j : Nat)
  | matchParams (k j : Nat)
  | delName (k : Nat) (name : String)
  | delNames (k : Nat) (names : List String) (mustExist : Bool)
  | delIdx (k i : Nat)
  | delIdxs (k : Nat) (idx : List Nat)
  | subNames (k j : Nat) (names : List String)     -- `L[j] := L[k].createSubList(names)`
  | subName (k j : Nat) (name : String)
  | subIdxs (k j : Nat) (idx : List Nat)
  | subIdx (k j i : Nat)
  | shareSubNames (k j : Nat) (names : List String)
  | shareSubIdxs (k j : Nat) (idx : List Nat)
  | common (k j m : Nat)                    -- `L[m] := L[k].getCommonParametersWith(L[j])`
  | which (k : Nat) (name : String)
  | has (k : Nat) (name : String)
  | names (k : Nat)
  | getValue (k : Nat) (name : String)
  | size (k : Nat)
  | copy (k j : Nat)                        -- `L[j] := ParameterList(L[k])`
  | assign (k j : Nat)                      -- `L[j] = L[k]`
  | reset (k : Nat)
  | apSetAll (k j : Nat)                    -- owner of `L[k]`: `setAllParametersValues(L[j])`
  | apSetValue (k : Nat) (name : String) (v : Rat)
  | apSetValues (k j : Nat)
  | apMatch (k j : Nat)
  | apNamespace (k : Nat) (pre : String)

inductive Out where
  | ok
  | err (e : Err)
  | flag (b : Bool) (pos : Option (List Nat))
  | nat (n : Nat)
  | bool (b : Bool)
  | strs (l : List String)
  | val (q : Rat)
  deriving DecidableEq

structure Ans where
  out : Out
  /-- argument of `fireParameterChanged` when it was called -/
  fired : Option (List ObjId) := none

def Out.ofErr : Option Err → Out
  | none => .ok
  | some e => .err e

def Out.isErr : Out → Bool
  | .err _ => true
  | _ => false

def stepLR (s : State) (k : Nat) (r : LR) : State × Ans :=
  ((s.withHeap r.heap).setList k r.list, ⟨.ofErr r.err, none⟩)

def stepHR (s : State) (r : HR) : State × Ans :=
  (s.withHeap r.heap, ⟨.ofErr r.err, none⟩)

/-- a sub-list function: its result is stored in register `j` unless it raised -/
def stepSub (s : State) (j : Nat) (r : LR) : State × Ans :=
  match r.err with
  | some e => (s.withHeap r.heap, ⟨.err e, none⟩)
  | none => ((s.withHeap r.heap).setList j r.list, ⟨.ok, none⟩)

def stepAR (s : State) (r : AR) (isMatch : Bool) : State × Ans :=
  (s.withHeap r.heap,
   ⟨match r.err with
     | some e => .err e
     | none => if isMatch then .flag r.flag none else .ok, r.fired⟩)

def step (s : State) : Op → State × Ans
  | .add k p | .addPtr k p =>
    -- the `Parameter` constructor raises when the initial value is rejected (Parameter.cpp:24-29)
    if !p.ok then (s, ⟨.err .constraint, none⟩)
    else stepLR s k (addParameter s.heap (s.lists k) p)
  | .addAll k j => stepLR s k (addParameters s.heap (s.lists k) (s.lists j))
  | .share k j n =>
    match find? s.heap (s.lists j) n with
    | none => (s, ⟨.err .notfound, none⟩)
    | some i => stepLR s k (shareParameter s.heap (s.lists k) i)
  | .shareAll k j => stepLR s k (shareParameters s.heap (s.lists k) (s.lists j))
  | .incl k j => stepLR s k (includeParameters s.heap (s.lists k) (s.lists j))
  | .setParam k i p =>
    if !p.ok then (s, ⟨.err .constraint, none⟩)
    else stepLR s k (setParameter s.heap (s.lists k) i p)
  | .setValue k n v => stepHR s (setParameterValue s.heap (s.lists k) n v)
  | .setAllValues k j => stepHR s (setAllParametersValues s.heap (s.lists k) (s.lists j))
  | .setValues k j => stepHR s (setParametersValues s.heap (s.lists k) (s.lists j))
  | .testValues k j =>
    match testParametersValues s.heap (s.lists k) (s.lists j) with
    | .ok b => (s, ⟨.flag b none, none⟩)
    | .error e => (s, ⟨.err e, none⟩)
  | .matchValues k j withVec =>
    let r := matchParametersValues s.heap (s.lists k) (s.lists j)
    (s.withHeap r.heap,
     ⟨match r.err with
       | some e => .err e
       | none => .flag (r.pos ≠ []) (if withVec then some r.pos else none), none⟩)
  | .setAllParams k j => stepHR s (setAllParameters s.heap (s.lists j) (s.lists k))
  | .setParams k j => stepHR s (setParameters s.heap (s.lists k) (s.lists j))
  | .matchParams k j => stepHR s (matchParameters s.heap (s.lists k) (s.lists j))
  | .delName k n =>
    match deleteParameter s.heap (s.lists k) n with
    | .ok l => (s.setList k l, ⟨.ok, none⟩)
    | .error e => (s, ⟨.err e, none⟩)
  | .delNames k ns must =>
    let r := deleteParameters s.heap must (s.lists k) ns
    (s.setList k r.1, ⟨.ofErr r.2, none⟩)
  | .delIdx k i =>
    match deleteParameterIdx (s.lists k) i with
    | .ok l => (s.setList k l, ⟨.ok, none⟩)
    | .error e => (s, ⟨.err e, none⟩)
  | .delIdxs k idx =>
    let r := deleteParametersIdx (s.lists k) idx
    (s.setList k r.1, ⟨.ofErr r.2, none⟩)
  | .subNames k j ns => stepSub s j (createSubListNames s.heap (s.lists k) [] ns)
  | .subName k j n => stepSub s j (createSubListNames s.heap (s.lists k) [] [n])
  | .subIdxs k j idx => stepSub s j (createSubListIdx s.heap (s.lists k) [] idx)
  | .subIdx k j i => stepSub s j (createSubListIdx s.heap (s.lists k) [] [i])
  | .shareSubNames k j ns => stepSub s j (shareSubListNames s.heap (s.lists k) [] ns)
  | .shareSubIdxs k j idx => stepSub s j (shareSubListIdx s.heap (s.lists k) [] idx)
  | .common k j m =>
    let r := getCommonParametersWith s.heap (s.lists k) s.heap (s.lists j)
    ((s.withHeap r.1).setList m r.2, ⟨.ok, none⟩)
  | .which k n =>
    match whichParameterHasName s.heap (s.lists k) n with
    | .ok i => (s, ⟨.nat i, none⟩)
    | .error e => (s, ⟨.err e, none⟩)
  | .has k n => (s, ⟨.bool (hasParameter s.heap (s.lists k) n), none⟩)
  | .names k => (s, ⟨.strs (names s.heap (s.lists k)), none⟩)
  | .getValue k n =>
    match getParameterValue s.heap (s.lists k) n with
    | .ok v => (s, ⟨.val v, none⟩)
    | .error e => (s, ⟨.err e, none⟩)
  | .size k => (s, ⟨.nat (s.lists k).length, none⟩)
  | .copy k j | .assign k j =>
    let r := cloneAll s.heap (s.lists k)
    ((s.withHeap r.1).setList j r.2, ⟨.ok, none⟩)
  | .reset k => (s.setList k [], ⟨.ok, none⟩)
  | .apSetAll k j => stepAR s (apSetAllParametersValues s.heap (s.lists k) (s.lists j)) false
  | .apSetValue k n v => stepAR s (apSetParameterValue s.heap (s.lists k) (s.pre k) n v) false
  | .apSetValues k j => stepAR s (apSetParametersValues s.heap (s.lists k) (s.lists j)) false
  | .apMatch k j => stepAR s (apMatchParametersValues s.heap (s.lists k) (s.lists j)) true
  | .apNamespace k p =>
    ({ s with heap := setNamespace s.heap (s.pre k) p (s.lists k),
              pre := fun j => if j = k then p else s.pre j }, ⟨.ok, none⟩)

/-- run a history -/
def run (s : State) : List Op → State
  | [] => s
  | op :: rest => run (step s op).1 rest

end Bpp.ParamList
