import BppModel.Lap
/-!
# `MatrixTools::lap` (`MatrixTools.h:1267-1569`): the whole routine

A transcription of the Jonker–Volgenant routine as it exists after the `fix:` commits of
`findings/C04.json`, phase by phase and loop by loop, generic over the scalar:

* `colRed`      column reduction                  (`:1310-1334`)
* `redTransfer` reduction transfer                (`:1336-1356`)
* `arrPass` ×2  augmenting row reduction          (`:1358-1442`)
* `augment`     augmentation of every free row    (`:1444-1557`): `djLoop` (Dijkstra search,
  `:1463-1538`), `priceUpdate` (`:1540-1545`), `flipLoop` (`:1547-1556`)
* `finish`      dual variables `u` and the cost   (`:1559-1568`)

Conventions.
* `std::vector`s are functions `Nat → β` together with the common length `dim = n` (the local ones
  are constructed with `dim` elements, `:1299-1308`; the caller's `rowSol`, `colSol`, `u`, `v` are
  resized to `dim` on entry, `:1289-1293` — `Lap.lap` at the end of this file); an access
  whose index is *data dependent* (read from `free`, `colList`, `pred`, `rowSol`, `colSol`, or a
  counter that is not the variable of a `for` loop bounded by `dim`) is checked and yields the
  outcome `Err.ub` when it is `≥ n`.  Accesses indexed by the variable of a `for (x = …; x < dim; …)`
  loop are in range by the loop condition and are not checked.  `assignCost(i, j)` is `c i j`, with
  the same rule.
* `rowSol`, `colSol` are `vector<int>`: values are `Int`; `static_cast<size_t>(x)` is `szOfInt x`
  (a negative `x` becomes `2^64 + x`), `static_cast<int>(j)` for `j < dim` is `j` (assumes
  `dim < 2^31`).  `matches` is a `vector<short>`: the model counts in `Nat` and reads the counter
  through `toShort` (wrap-around at `2^15`, as g++ does).
* The three loops without a `for` header (`while (k < previousNumFree)`, `do … while
  (!unassignedFound)`, `do … while (i != freeRow)`) take an explicit `fuel`; `Err.fuel` = the loop
  would run longer.  Every loop gets the whole `fuel` for itself.
* `min = -log(0)` / `uSubMin = -log(0)` (`+inf`) is the sentinel `none`; a comparison with it is
  `ExtCmp.ltPosInf`; arithmetic on it (`v[j1] - min` when no column was smaller than `+inf`) is the
  outcome `Err.inf` (impossible for finite costs and `dim > 1`).
* Variables that the C++ leaves uninitialised until their first assignment: `j2` (carried over from
  one row scan to the next, `none` until first assigned; use while `none` = `Err.ub`), `last`,
  `min`, `endOfPath` (assigned on the first pass through the `do` loop because `up == low == 0`
  there; `endOfPath` is the `some` of `found`).
-/
namespace Bpp.Mx.Lap
open Bpp Bpp.Mx

/-- `static_cast<size_t>(x)` for an `int` -/
def szOfInt (x : Int) : Nat := (x % (2 ^ 64 : Int)).toNat

/-- the value of a `short` counter after `m` increments from 0 -/
def toShort (m : Nat) : Int := (((m + 32768) % 65536 : Nat) : Int) - 32768

/-- `f[i] = x` -/
def upd {β : Type} (f : Nat → β) (i : Nat) (x : β) : Nat → β := fun j => if j = i then x else f j

/-- a checked read `f[i]` of a vector of length `n` -/
def rd {β : Type} (n : Nat) (f : Nat → β) (i : Nat) : Res β := if i < n then .ok (f i) else .error .ub

/-- a checked write `f[i] = x` -/
def wr {β : Type} (n : Nat) (f : Nat → β) (i : Nat) (x : β) : Res (Nat → β) :=
  if i < n then .ok (upd f i x) else .error .ub

section Full
variable {α : Type} [Scalar α] [ExtCmp α]
open Scalar

/-- `x < m` where `m` may be the sentinel `+inf` -/
def ltExt (x : α) (m : Option α) : Bool :=
  match m with
  | none => ExtCmp.ltPosInf x
  | some y => ltb x y

/-! ## column reduction (`:1310-1334`) -/

structure CR (α : Type) where
  rowSol : Nat → Int
  colSol : Nat → Int
  v : Nat → α
  /-- `matches` -/
  mt : Nat → Nat

/-- the iteration `j = n - t` of `for (j = dim; j > 0; j--)`, acting on column `j - 1 = n - 1 - t` -/
def colRedStep (n : Nat) (c : Nat → Nat → α) (t : Nat) (s : CR α) : CR α :=
  let j := n - 1 - t
  let im := colMinRow n c j
  let m := s.mt im + 1
  if toShort m = 1 then
    { rowSol := upd s.rowSol im (j : Int), colSol := upd s.colSol j (im : Int), v := upd s.v j (c im j), mt := upd s.mt im m }
  else
    { rowSol := s.rowSol, colSol := upd s.colSol j (-1), v := upd s.v j (c im j), mt := upd s.mt im m }

def colRed (n : Nat) (c : Nat → Nat → α) (s : CR α) : CR α :=
  (List.range n).foldl (fun s t => colRedStep n c t s) s

/-! ## reduction transfer (`:1336-1356`) -/

structure RT (α : Type) where
  v : Nat → α
  free : Nat → Nat
  numFree : Nat

/-- row `i` of the reduction transfer -/
def rtStep (n : Nat) (c : Nat → Nat → α) (rowSol : Nat → Int) (mt : Nat → Nat) (i : Nat) (s : RT α) : Res (RT α) :=
  if toShort (mt i) = 0 then
    -- free[numFree++] = i
    match wr n s.free s.numFree i with
    | .ok fr => .ok { s with free := fr, numFree := s.numFree + 1 }
    | .error e => .error e
  else if toShort (mt i) = 1 ∧ n > 1 then
    let j1 := szOfInt (rowSol i)
    match transferMin n c s.v i j1 with
    | none => .error .inf
    | some m =>
      match rd n s.v j1 with
      | .ok x => .ok { s with v := upd s.v j1 (x - m) }
      | .error e => .error e
  else .ok s

def redTransfer (n : Nat) (c : Nat → Nat → α) (rowSol : Nat → Int) (mt : Nat → Nat) (s : RT α) : Res (RT α) :=
  loopM n (rtStep n c rowSol mt) s

/-! ## the state shared by the later phases -/

structure Core (α : Type) where
  rowSol : Nat → Int
  colSol : Nat → Int
  v : Nat → α
  free : Nat → Nat
  numFree : Nat
  /-- the function-scope variable `j2` (`none` = not yet assigned) -/
  j2 : Option Nat

/-! ## augmenting row reduction (`:1358-1442`) -/

/-- the two smallest reduced costs of a row -/
structure Scan2 (α : Type) where
  uMin : α
  j1 : Nat
  uSub : Option α
  j2 : Option Nat

/-- column `j = t + 1` of the scan (`:1380-1398`) -/
def scan2Step (c : Nat → Nat → α) (v : Nat → α) (i : Nat) (s : Scan2 α) (t : Nat) : Scan2 α :=
  let j := t + 1
  let h := c i j - v j
  if ltExt h s.uSub then
    if geb h s.uMin then { s with uSub := some h, j2 := some j }
    else { uMin := h, j1 := j, uSub := some s.uMin, j2 := some s.j1 }
  else s

def scan2 (n : Nat) (c : Nat → Nat → α) (v : Nat → α) (i : Nat) (_j2 : Option Nat) : Scan2 α :=
  -- `j1 = j2 = 0;` (since the repair of `findings/C04.json`; `_j2` = the value the variable held)
  (List.range (n - 1)).foldl (scan2Step c v i) { uMin := c i 0 - v 0, j1 := 0, uSub := none, j2 := some 0 }

structure Arr (α : Type) extends Core α where
  k : Nat
  prev : Nat
  /-- `rowScans` -/
  cnt : Nat

/-- one pass through the body of `while (k < previousNumFree)` (`:1373-1439`).  `cut rowScans k` is
the second conjunct of `if (uMin < uSubMin && rowScans < k * dim)` (`:1427`), a parameter so that
the text before the repair (`cut = true`, `arrCutOrig`) shares the transcription. -/
def arrStep (n : Nat) (c : Nat → Nat → α) (cut : Nat → Nat → Bool) (s : Arr α) : Res (Arr α) :=
  match rd n s.free s.k with                                   -- i = free[k]; k++
  | .error e => .error e
  | .ok i =>
    if ¬ i < n then .error .ub else                            -- assignCost(i, 0)
    let sc := scan2 n c s.v i s.j2
    let lt := ltExt sc.uMin sc.uSub                            -- uMin < uSubMin
    let i0 := s.colSol sc.j1
    -- the branch `:1401-1415`: new prices, the column taken, the row that loses it
    let br : Res ((Nat → α) × Nat × Int) :=
      if lt then
        match sc.uSub with
        | none => .error .inf
        | some us => .ok (upd s.v sc.j1 (s.v sc.j1 - (us - sc.uMin)), sc.j1, i0)
      else if i0 ≥ 0 then
        match sc.j2 with
        | none => .error .ub
        | some j2 => match rd n s.colSol j2 with
          | .ok i0' => .ok (s.v, j2, i0')
          | .error e => .error e
      else .ok (s.v, sc.j1, i0)
    match br with
    | .error e => .error e
    | .ok (v', j1, i0) =>
      let rowSol' := upd s.rowSol i (j1 : Int)
      let colSol' := upd s.colSol j1 (i : Int)
      if i0 ≥ 0 then
        if lt && cut (s.cnt + 1) (s.k + 1) then
          -- free[--k] = i0   (k was incremented above: the slot is `s.k`)
          .ok { s with rowSol := rowSol', colSol := colSol', v := v', j2 := sc.j2, free := upd s.free s.k (szOfInt i0),
                       cnt := s.cnt + 1 }
        else
          -- free[numFree++] = i0
          match wr n s.free s.numFree (szOfInt i0) with
          | .ok fr => .ok { s with rowSol := rowSol', colSol := colSol', v := v', j2 := sc.j2, free := fr,
                                   numFree := s.numFree + 1, k := s.k + 1, cnt := s.cnt + 1 }
          | .error e => .error e
      else .ok { s with rowSol := rowSol', colSol := colSol', v := v', j2 := sc.j2, k := s.k + 1, cnt := s.cnt + 1 }

/-- `rowScans < k * dim` (`:1427`) -/
def arrCut (n : Nat) : Nat → Nat → Bool := fun cnt k => decide (cnt < k * n)

/-- the text before the repair: `if (uMin < uSubMin)` -/
def arrCutOrig : Nat → Nat → Bool := fun _ _ => true

/-- `while (k < previousNumFree) { … }` -/
def arrLoop (n : Nat) (c : Nat → Nat → α) (cut : Nat → Nat → Bool) : Nat → Arr α → Res (Arr α)
  | 0, s => if s.k < s.prev then .error .fuel else .ok s
  | fuel + 1, s =>
    if s.k < s.prev then
      match arrStep n c cut s with
      | .ok s' => arrLoop n c cut fuel s'
      | .error e => .error e
    else .ok s

/-- one pass of the `do … while (loopcnt < 2)`: `k = 0; previousNumFree = numFree; numFree = 0;
rowScans = 0; while …` -/
def arrPass (fuel n : Nat) (c : Nat → Nat → α) (cut : Nat → Nat → Bool) (s : Core α) : Res (Core α) :=
  match arrLoop n c cut fuel { s with numFree := 0, k := 0, prev := s.numFree, cnt := 0 } with
  | .ok a => .ok a.toCore
  | .error e => .error e

/-! ## augmentation (`:1444-1557`) -/

/-- the state of the shortest-path search for one free row -/
structure Dj (α : Type) where
  d : Nat → α
  pred : Nat → Nat
  colList : Nat → Nat
  low : Nat
  up : Nat
  last : Nat
  min : α
  /-- `unassignedFound` with `endOfPath` -/
  found : Option Nat

/-- the scan for the columns of minimal `d` (`:1472-1487`), one `k` -/
structure MinSc (α : Type) where
  colList : Nat → Nat
  up : Nat
  min : α

def minStep (n : Nat) (d : Nat → α) (low k : Nat) (s : MinSc α) : Res (MinSc α) :=
  let j := s.colList k
  match rd n d j with
  | .error e => .error e
  | .ok h =>
    if leb h s.min then
      let up1 := if ltb h s.min then low else s.up
      let min1 := if ltb h s.min then h else s.min
      -- colList[k] = colList[up]; colList[up++] = j
      match rd n s.colList up1 with
      | .error e => .error e
      | .ok x => .ok { colList := upd (upd s.colList k x) up1 j, up := up1 + 1, min := min1 }
    else .ok s

/-- the check for an unassigned column among `colList[low..up-1]` (`:1491-1499`), one `k` -/
def unasgStep (n : Nat) (colSol : Nat → Int) (colList : Nat → Nat) (k : Nat) (f : Option Nat) : Res (Option Nat) :=
  match f with
  | some e => .ok (some e)                                     -- after `break`
  | none =>
    match rd n colSol (colList k) with
    | .error e => .error e
    | .ok x => if x < 0 then .ok (some (colList k)) else .ok none

/-- the relaxation through row `i` (`:1510-1535`), one `k` -/
structure Rx (α : Type) where
  d : Nat → α
  pred : Nat → Nat
  colList : Nat → Nat
  up : Nat
  found : Option Nat

def relaxStep (n : Nat) (c : Nat → Nat → α) (colSol : Nat → Int) (v : Nat → α) (i : Nat) (h min : α) (k : Nat)
    (s : Rx α) : Res (Rx α) :=
  match s.found with
  | some _ => .ok s                                            -- after `break`
  | none =>
    let j := s.colList k
    if ¬ j < n then .error .ub else                            -- assignCost(i, j), v[j], d[j]
    let v2 := c i j - v j - h
    if ltb v2 (s.d j) then
      let pred' := upd s.pred j i
      if eqb v2 min then
        if colSol j < 0 then .ok { s with pred := pred', found := some j }
        else
          match rd n s.colList s.up with
          | .error e => .error e
          | .ok x => .ok { s with pred := pred', colList := upd (upd s.colList k x) s.up j, up := s.up + 1, d := upd s.d j v2 }
      else .ok { s with pred := pred', d := upd s.d j v2 }
    else .ok s

/-- `if (up == low) { … }` (`:1465-1500`): the columns of minimal distance are collected in
`colList[low..up-1]` and searched for an unassigned one.  (Inside the branch `up` equals `low`: the
scan `for (k = up; …)` after `up++` is written with `low + 1`.) -/
def djScan (n : Nat) (colSol : Nat → Int) (s : Dj α) : Res (Dj α) :=
  if s.up = s.low then
    -- last = low; min = d[colList[up++]]
    match rd n s.colList s.up with
    | .error e => .error e
    | .ok j0 =>
      match rd n s.d j0 with
      | .error e => .error e
      | .ok m0 =>
        match loopM (n - (s.low + 1)) (fun t st => minStep n s.d s.low (s.low + 1 + t) st) { colList := s.colList, up := s.low + 1, min := m0 } with
        | .error e => .error e
        | .ok st =>
          match loopM (st.up - s.low) (fun t f => unasgStep n colSol st.colList (s.low + t) f) none with
          | .error e => .error e
          | .ok f => .ok { s with last := s.low, colList := st.colList, up := st.up, min := st.min, found := f }
  else .ok s

/-- `if (!unassignedFound) { … }` (`:1502-1536`): the next column of the list is scanned, the
distances of the columns not yet on the list are updated through its row -/
def djRelax (n : Nat) (c : Nat → Nat → α) (colSol : Nat → Int) (v : Nat → α) (s : Dj α) : Res (Dj α) :=
  -- j1 = colList[low]; low++; i = colSol[j1]; h = assignCost(i, j1) - v[j1] - min
  match rd n s.colList s.low with
  | .error e => .error e
  | .ok j1 =>
    match rd n colSol j1 with
    | .error e => .error e
    | .ok i0 =>
      let i := szOfInt i0
      if ¬ i < n then .error .ub else
      let h := c i j1 - v j1 - s.min
      match loopM (n - s.up) (fun t st => relaxStep n c colSol v i h s.min (s.up + t) st)
          { d := s.d, pred := s.pred, colList := s.colList, up := s.up, found := none } with
      | .error e => .error e
      | .ok r => .ok { s with low := s.low + 1, d := r.d, pred := r.pred, colList := r.colList, up := r.up, found := r.found }

/-- one pass through the body of `do { … } while (!unassignedFound)` (`:1465-1536`) -/
def djIter (n : Nat) (c : Nat → Nat → α) (colSol : Nat → Int) (v : Nat → α) (s : Dj α) : Res (Dj α) :=
  match djScan n colSol s with
  | .error e => .error e
  | .ok s =>
    match s.found with
    | some _ => .ok s
    | none => djRelax n c colSol v s

/-- `do { … } while (!unassignedFound)`; returns the final state and `endOfPath` -/
def djLoop (n : Nat) (c : Nat → Nat → α) (colSol : Nat → Int) (v : Nat → α) : Nat → Dj α → Res (Dj α × Nat)
  | 0, _ => .error .fuel
  | fuel + 1, s =>
    match djIter n c colSol v s with
    | .error e => .error e
    | .ok s' =>
      match s'.found with
      | some e => .ok (s', e)
      | none => djLoop n c colSol v fuel s'

/-- `for (k = 0; k < last; k++) { j1 = colList[k]; v[j1] = v[j1] + d[j1] - min; }` -/
def priceStep (n : Nat) (s : Dj α) (k : Nat) (v : Nat → α) : Res (Nat → α) :=
  let j1 := s.colList k
  if j1 < n then .ok (upd v j1 (v j1 + s.d j1 - s.min)) else .error .ub

def priceUpdate (n : Nat) (s : Dj α) (v : Nat → α) : Res (Nat → α) := loopM s.last (priceStep n s) v

/-- `do { i = pred[endOfPath]; colSol[endOfPath] = i; j1 = endOfPath; endOfPath = rowSol[i];
rowSol[i] = j1; } while (i != freeRow)` -/
def flipLoop (n : Nat) (pred : Nat → Nat) (freeRow : Nat) : Nat → (Nat → Int) → (Nat → Int) → Nat → Res ((Nat → Int) × (Nat → Int))
  | 0, _, _, _ => .error .fuel
  | fuel + 1, rowSol, colSol, e =>
    match rd n pred e with
    | .error er => .error er
    | .ok i =>
      match rd n rowSol i with
      | .error er => .error er
      | .ok r =>
        let colSol' := upd colSol e (i : Int)
        let rowSol' := upd rowSol i (e : Int)
        if i ≠ freeRow then flipLoop n pred freeRow fuel rowSol' colSol' (szOfInt r)
        else .ok (rowSol', colSol')

/-- the start of the search for `freeRow` (`:1451-1462`); `minInit` stands for the value the
variable `min` happens to hold (it is assigned before it is read) -/
def djInit (c : Nat → Nat → α) (v : Nat → α) (freeRow : Nat) (minInit : α) : Dj α :=
  { d := fun j => c freeRow j - v j, pred := fun _ => freeRow, colList := fun j => j,
    low := 0, up := 0, last := 0, min := minInit, found := none }

/-- the body of `for (f = 0; f < numFree; f++)` (`:1447-1556`) -/
def augmentRow (fuel n : Nat) (c : Nat → Nat → α) (f : Nat) (s : Core α) : Res (Core α) :=
  match rd n s.free f with
  | .error e => .error e
  | .ok freeRow =>
    if ¬ freeRow < n then .error .ub else                      -- assignCost(freeRow, j)
    match djLoop n c s.colSol s.v fuel (djInit c s.v freeRow zero) with
    | .error e => .error e
    | .ok (dj, e) =>
      match priceUpdate n dj s.v with
      | .error er => .error er
      | .ok v' =>
        match flipLoop n dj.pred freeRow fuel s.rowSol s.colSol e with
        | .error er => .error er
        | .ok (rs, cs) => .ok { s with rowSol := rs, colSol := cs, v := v' }

def augment (fuel n : Nat) (c : Nat → Nat → α) (s : Core α) : Res (Core α) :=
  loopM s.numFree (augmentRow fuel n c) s

/-! ## the answer (`:1559-1568`) -/

structure Full (α : Type) where
  rowSol : Nat → Int
  colSol : Nat → Int
  u : Nat → α
  v : Nat → α
  cost : α

structure Fin_ (α : Type) where
  u : Nat → α
  cost : α

def finishStep (n : Nat) (c : Nat → Nat → α) (rowSol : Nat → Int) (v : Nat → α) (i : Nat) (s : Fin_ α) : Res (Fin_ α) :=
  let j := szOfInt (rowSol i)
  if j < n then .ok { u := upd s.u i (c i j - v j), cost := s.cost + c i j } else .error .ub

def finish (n : Nat) (c : Nat → Nat → α) (u0 : Nat → α) (s : Core α) : Res (Full α) :=
  match loopM n (finishStep n c s.rowSol s.v) { u := u0, cost := zero } with
  | .error e => .error e
  | .ok r => .ok { rowSol := s.rowSol, colSol := s.colSol, u := r.u, v := s.v, cost := r.cost }

/-- the state after the column reduction, the reduction transfer and the two passes of the
augmenting row reduction -/
def phaseA (fuel n : Nat) (c : Nat → Nat → α) (cut : Nat → Nat → Bool) (rowSol0 colSol0 : Nat → Int) (v0 : Nat → α) : Res (Core α) :=
  let cr := colRed n c { rowSol := rowSol0, colSol := colSol0, v := v0, mt := fun _ => 0 }
  match redTransfer n c cr.rowSol cr.mt { v := cr.v, free := fun _ => 0, numFree := 0 } with
  | .error e => .error e
  | .ok rt =>
    let s0 : Core α := { rowSol := cr.rowSol, colSol := cr.colSol, v := rt.v, free := rt.free, numFree := rt.numFree, j2 := none }
    match arrPass fuel n c cut s0 with
    | .error e => .error e
    | .ok s1 => arrPass fuel n c cut s1

/-- the routine with the condition for continuing a chain of re-assignments as a parameter -/
def lapFullG (fuel n : Nat) (c : Nat → Nat → α) (cut : Nat → Nat → Bool) (rowSol0 colSol0 : Nat → Int) (u0 v0 : Nat → α) : Res (Full α) :=
  match phaseA fuel n c cut rowSol0 colSol0 v0 with
  | .error e => .error e
  | .ok s =>
    match augment fuel n c s with
    | .error e => .error e
    | .ok s' => finish n c u0 s'

/-- **`MatrixTools::lap`** on an `n × n` cost matrix `c`, the output vectors holding `rowSol0`,
`colSol0`, `u0`, `v0` on entry -/
def lapFull (fuel n : Nat) (c : Nat → Nat → α) (rowSol0 colSol0 : Nat → Int) (u0 v0 : Nat → α) : Res (Full α) :=
  lapFullG fuel n c (arrCut n) rowSol0 colSol0 u0 v0

/-- the routine before the repair of the unbounded chain of re-assignments (`findings/C04.json`) -/
def lapFullOrig (fuel n : Nat) (c : Nat → Nat → α) (rowSol0 colSol0 : Nat → Int) (u0 v0 : Nat → α) : Res (Full α) :=
  lapFullG fuel n c arrCutOrig rowSol0 colSol0 u0 v0

/-! ## the routine on its actual arguments (`:1268-1294`)

`lap(assignCost, rowSol, colSol, u, v)` takes the cost matrix as a `Matrix<Scalar>&` of any storage
class and the four output vectors by reference, with whatever lengths the caller gave them.  It
raises `bpp::Exception` for a non-square matrix (`:1274-1276`) and for a NaN or infinite cost
(`:1278-1287`), and (since the repair recorded in
`findings/C04.json`) resizes the four vectors to `dim` (`:1289-1293`: `std::vector::resize` keeps the
first `dim` elements and value-initialises new ones), so that every index `< dim` used by the phases
above is inside them.  `assignCost(i, j)` is `A.entry i j`: for a store satisfying the class
invariant and `i, j < dim` that is what `operator()` returns (`Store.get_eq_entry`); all row and
column indices handed to it are `< dim` (loop variables, or data checked by `rd`/`wr`/`¬ i < n`). -/

/-- the output vectors as the caller gets them back -/
structure LapOut (α : Type) where
  rowSol : Array Int
  colSol : Array Int
  u : Array α
  v : Array α
  cost : α

/-- the first `n` entries of the answer, as vectors of length `n` -/
def LapOut.ofFull (n : Nat) (a : Full α) : LapOut α :=
  { rowSol := Array.ofFn (n := n) fun i => a.rowSol i.val, colSol := Array.ofFn (n := n) fun i => a.colSol i.val,
    u := Array.ofFn (n := n) fun i => a.u i.val, v := Array.ofFn (n := n) fun i => a.v i.val, cost := a.cost }

/-- **`MatrixTools::lap`** as called: cost matrix of any storage class, output vectors of any length -/
def lap (fuel : Nat) (A : Store α) (rowSol colSol : Array Int) (u v : Array α) : Res (LapOut α) :=
  if A.ncols ≠ A.nrows then .error .bpp else
  -- `if (!std::isfinite(assignCost(r, c))) throw Exception(…)` for every entry
  if !(allLt A.nrows fun i => allLt A.nrows fun j => ExtCmp.gtNegInf (A.entry i j) && ExtCmp.ltPosInf (A.entry i j)) then .error .bpp else
  -- rowSol.resize(dim); colSol.resize(dim); u.resize(dim); v.resize(dim);
  match lapFull fuel A.nrows (fun i j => A.entry i j) (fun i => rowSol.getD i 0) (fun i => colSol.getD i 0)
      (fun i => u.getD i zero) (fun i => v.getD i zero) with
  | .error e => .error e
  | .ok a => .ok (LapOut.ofFull A.nrows a)

end Full
end Bpp.Mx.Lap
