import BppModel.Prelude.Scalar
/-
Model of src/Bpp/Numeric/Prob/Simplex.{h,cpp} (Simplex, OrderedSimplex), generic over `Scalar`.

Bug-compatible transcription of the code that exists (line numbers = Simplex.cpp unless
stated otherwise).  The parameter layer is modelled minimally: the parameters theta1..theta(n-1)
are a `List α` (position i = "theta(i+1)") that all carry the same interval constraint,
`]0,1[` or `[0,1]` (`allowNull`).  What is kept of Parameter / ParameterList:
  * `Parameter::Parameter(name, value, constraint)` (Parameter.cpp:34-43, after the C01 `fix:`
    "Parameter constructor checks the initial value against the constraint"): the initial value
    is stored directly and tested against the constraint whatever it is (`mkParam`; a value 0 or
    NaN under `]0,1[` raises ConstraintException -- the constructor formerly went through
    `setValue` from 0 and accepted them);
  * `ParameterList::matchParametersValues` (ParameterList.cpp:414-447): first tests every value
    against the constraint (ConstraintException, nothing changed), then assigns the values that
    differ; `AbstractParametrizable::matchParametersValues` (AbstractParametrizable.h:76-83)
    calls `fireParameterChanged` only if at least one value differed;
  * `AbstractParametrizable::setParameterValue` (h:58-62): `Parameter::setValue`, then always
    `fireParameterChanged`.
Not modelled IN THIS FILE: names/namespaces, aliasing, listeners, `valpha_` (the ratio cache of
method 2 is rewritten completely by `fireParameterChanged` before it is read), per-parameter
constraints, copies: see `BppModel/SimplexObj.lean`, of which the objects of this file are the
projection (`C19.value_model_is_projection`).
-/
namespace Bpp.Simplex
open Bpp Scalar

variable {α : Type} [Scalar α]

/-- outcomes other than normal return -/
inductive Err where
  | sum          -- `Exception("... Probabilities must equal 1")`, `DimensionException` -> exc:bpp
  | constraint   -- `ConstraintException`                                     -> exc:constraint
  | notfound     -- `ParameterNotFoundException`                              -> exc:notfound
  | ub           -- the C++ indexes a vector out of bounds (undefined)        -> never generated
deriving DecidableEq, Repr, Inhabited

def Err.show : Err → String
  | .sum => "exc:bpp" | .constraint => "exc:constraint" | .notfound => "exc:notfound" | .ub => "ub"

/-- `NumConstants::SMALL()` = 1e-6, `TINY()` = 1e-12 (NumConstants.h:45-46) -/
def SMALL : α := ofRat 1 1000000
def TINY : α := ofRat 1 1000000000000

/-- `VectorTools::sum` (VectorTools.h:587): `s = 0; for x : v  s += x` -/
def vsum (l : List α) : α := l.foldl (· + ·) zero

/-- `IntervalConstraint::isCorrect` (Constraints.h:189) for `PROP_CONSTRAINT_IN = [0,1]`
(allowNull) and `PROP_CONSTRAINT_EX = ]0,1[` (Parameter.cpp:120-121) -/
def inConstraint (allowNull : Bool) (v : α) : Bool :=
  if allowNull then geb v zero && leb v one else gtb v zero && ltb v one

/-- `new Parameter(name, v, pc)` (Parameter.cpp:34-43); precision is 0 -/
def mkParam (allowNull : Bool) (v : α) : Except Err α :=
  if inConstraint allowNull v then .ok v else .error .constraint

/-! ### method 1: global ratio -/

/-- :36-40, :105-109, :224-228   `theta_i = p[i] / y;  y -= p[i]`   for i < dim-1 -/
def paramsGlobal : List α → α → List α
  | [], _ => []
  | [_], _ => []
  | p :: q :: rest, y => (p / y) :: paramsGlobal (q :: rest) (y - p)

/-- :142-148   `p[i] = th * x;  x *= 1 - th`,  last `p[dim-1] = x` -/
def probsGlobal : List α → α → List α
  | [], x => [x]
  | th :: rest, x => (th * x) :: probsGlobal rest (x * (one - th))

/-! ### method 2: local ratio -/

/-- :43-46, :231-234   `theta_i = p[i] / (p[i] + p[i+1])` -/
def paramsLocal : List α → List α
  | [] => []
  | [_] => []
  | p :: q :: rest => (p / (p + q)) :: paramsLocal (q :: rest)

/-- :151-155   `valpha_[i] = (1 - th) / th` -/
def alphas (θ : List α) : List α := θ.map (fun th => (one - th) / th)

/-- :156-164   `th = 1; v[0] = 1; th *= alpha_i; v[i+1] = th`  (called with c = 1) -/
def rawLocal : List α → α → List α
  | [], c => [c]
  | al :: rest, c => c :: rawLocal rest (c * al)

/-- :158-164  `x = 1.0;  x += v[i+1]` -/
def normLocal (raw : List α) : α := raw.tail.foldl (· + ·) one

/-- :151-175 -/
def probsLocal (dim : Nat) (θ : List α) : List α :=
  let raw := rawLocal (alphas θ) one
  let x := normLocal raw
  if gtb x TINY then raw.map (fun v => v / x)
  else raw.map (fun _ => one / ofInt dim)

/-! ### method 3: binary coding.  `size_t` / `int` bit manipulation over `Nat`. -/

/-- `while (o) { l++; o = o >> 1; }`  (:57-61, :181-185, :242-246): rank of the strongest bit -/
def bitLen (o : Nat) : Nat :=
  if h : o = 0 then 0 else bitLen (o >>> 1) + 1
termination_by o
decreasing_by
  rw [Nat.shiftRight_eq_div_pow]; exact Nat.div_lt_self (Nat.pos_of_ne_zero h) (by decide)

def allOnes64 : Nat := 0xFFFFFFFFFFFFFFFF

/-- `k & ~(1 << b)` on a 64-bit `size_t`; `1 << b` is an `int` shift, so the C++ is defined for
`b ≤ 30` only (for those the sign-extended complement is `allOnes64 ^^^ (1 <<< b)`) -/
def clearBit (k b : Nat) : Nat := k &&& (allOnes64 ^^^ (1 <<< b))

/-- value of "theta<k>" in the parameter list; k = 0 or k ≥ dim would be a
ParameterNotFoundException — `binWalk` never asks for those (Lemmas: `binWalk_congr`) -/
def lookup (θ : List α) (k : Nat) : α :=
  if k = 0 then default else θ.getD (k - 1) default

/-- :188-201, one probability.  `ld` counts down; `k` keeps the `ld` low bits of `i`.
```
while (ld) { if (k >> (ld-1)) x *= theta_k;
             else if ((k + (1 << (ld-1))) < dim_) x *= 1 - theta_{k + (1 << (ld-1))};
             k &= ~(1 << (--ld)); }
``` -/
def binWalk (dim : Nat) (θ : Nat → α) : Nat → Nat → α → α
  | 0, _, x => x
  | ld + 1, k, x =>
    let x' := if k >>> ld ≠ 0 then x * θ k
              else if k + (1 <<< ld) < dim then x * (one - θ (k + (1 <<< ld)))
              else x
    binWalk dim θ ld (clearBit k ld) x'

/-- :179-203 -/
def probsBinaryF (dim : Nat) (θ : Nat → α) : List α :=
  (List.range dim).map (fun i => binWalk dim θ (bitLen dim) i one)

def probsBinary (dim : Nat) (θ : List α) : List α := probsBinaryF dim (lookup θ)

/-- :63-77, :248-262   the loop over `j` (fuel = number of iterations still allowed by
`while (j < dim_)`), `li2` = bit length of i, `pi` = i without its strongest bit.
```
while (j < dim_) { t = (j << li2) + pi; if (t >= dim_) break; else i0 += p[t];
                   t += (1 << (li2-1)); if (t < dim_) i1 += p[t]; j++; }
``` -/
def binAcc (dim : Nat) (p : Nat → α) (li2 pi : Nat) : Nat → Nat → α → α → α × α
  | 0, _, i0, i1 => (i0, i1)
  | fuel + 1, j, i0, i1 =>
    let t := (j <<< li2) + pi
    if t ≥ dim then (i0, i1)
    else
      let i0 := i0 + p t
      let t' := t + (1 <<< (li2 - 1))
      let i1 := if t' < dim then i1 + p t' else i1
      binAcc dim p li2 pi fuel (j + 1) i0 i1

/-- :53-79, :238-264   theta_i for 1 ≤ i < dim -/
def thetaBinary (dim : Nat) (p : Nat → α) (i : Nat) : α :=
  let li2 := bitLen i
  let pi := clearBit i (li2 - 1)
  let r := binAcc dim p li2 pi dim 0 zero zero
  r.2 / (r.1 + r.2)

def paramsBinaryF (dim : Nat) (p : Nat → α) : List α :=
  (List.range (dim - 1)).map (fun i => thetaBinary dim p (i + 1))

/-- `p[t]`, only ever read with t < dim = length (guards `t >= dim_` / `t < dim_`) -/
def nth (p : List α) (t : Nat) : α := p.getD t default

def paramsBinary (p : List α) : List α := paramsBinaryF p.length (nth p)

/-! ### the object -/

structure St (α : Type) where
  dim : Nat
  method : Nat
  allowNull : Bool
  params : List α
  probs : List α
deriving Repr, Inhabited

/-- parameters from probabilities, the `switch (method_)` of :33-81 and :221-266
(`probas` has at least `dim` entries; only the first `dim` are read) -/
def paramsOf (method : Nat) (p : List α) : List α :=
  match method with
  | 1 => paramsGlobal p one
  | 2 => paramsLocal p
  | 3 => paramsBinary p
  | _ => []

/-- probabilities from parameters, the `switch (method_)` of `fireParameterChanged` :138-205;
`none`: no case of the switch applies, `vProb_` is left as it is -/
def probsOf (method dim : Nat) (θ : List α) : Option (List α) :=
  match method with
  | 1 => some (probsGlobal θ one)
  | 2 => some (probsLocal dim θ)
  | 3 => some (probsBinary dim θ)
  | _ => none

/-- `Simplex::fireParameterChanged` :132-206 -/
def fire (s : St α) : St α :=
  if s.dim = 0 then s else
  match probsOf s.method s.dim s.params with
  | some p => { s with probs := p }
  | none => s

/-- `matchParametersValues(pl)` where `pl` holds a value for every parameter
(ParameterList.cpp:414-447, AbstractParametrizable.h:76-83) -/
def matchParams (s : St α) (θ : List α) : Except Err (St α) :=
  if θ.all (inConstraint s.allowNull) then
    let changed := (List.zip s.params θ).any (fun (c, v) => !(eqb c v))
    if changed then .ok (fire { s with params := θ }) else .ok s
  else .error .constraint

/-- `setParameterValue("theta<i>", v)` (AbstractParametrizable.h:58-62, ParameterList.cpp
setParameterValue -> Parameter::setValue :55-64), 1 ≤ i -/
def setOne (s : St α) (i : Nat) (v : α) : Except Err (St α) :=
  if i = 0 ∨ s.params.length < i then .error .notfound
  else
    let cur := s.params.getD (i - 1) default
    if gtb (abs (v - cur)) zero then
      if inConstraint s.allowNull v then .ok (fire { s with params := s.params.set (i - 1) v })
      else .error .constraint
    else .ok (fire s)

/-- the sum test of :21-23 and :214-216 -/
def sumOk (probas : List α) : Bool := !(gtb (abs (one - vsum probas)) SMALL)

/-- `Simplex::Simplex(const std::vector<double>& probas, method, allowNull)` :12-82 -/
def construct (probas : List α) (method : Nat) (allowNull : Bool) : Except Err (St α) :=
  if probas.length = 0 then .ok ⟨0, method, allowNull, [], []⟩
  else if !(sumOk probas) then .error .sum
  else do
    let θ ← (paramsOf method probas).mapM (mkParam allowNull)
    .ok ⟨probas.length, method, allowNull, θ, probas⟩

/-- `Simplex::setFrequencies` :209-269 -/
def setFrequencies (s : St α) (probas : List α) : Except Err (St α) :=
  if s.dim = 0 then .ok s
  else if !(sumOk probas) then .error .sum
  -- size test (fourth repair: `DimensionException`, a bpp::Exception; before, a shorter vector was read
  -- out of bounds and of a longer one the first `dim_` entries were used)
  else if probas.length ≠ s.dim then .error .sum
  else matchParams s (paramsOf s.method (probas.take s.dim))

/-- `Simplex::Simplex(size_t dim, method, allowNull)` :84-130 -/
def constructDim (dim method : Nat) (allowNull : Bool) : Except Err (St α) :=
  if dim = 0 then .ok ⟨0, method, allowNull, [], []⟩
  else
    let u : List α := List.replicate dim (one / ofInt dim)
    let half : α := ofRat 1 2
    match method with
    | 1 => do
      let θ ← (paramsGlobal u one).mapM (mkParam allowNull)
      .ok ⟨dim, method, allowNull, θ, u⟩
    | 2 => do
      let θ ← (List.replicate (dim - 1) half).mapM (mkParam allowNull)
      .ok ⟨dim, method, allowNull, θ, u⟩
    | 3 => do
      let θ ← (List.replicate (dim - 1) half).mapM (mkParam allowNull)
      setFrequencies ⟨dim, method, allowNull, θ, u⟩ u
    | _ => .ok ⟨dim, method, allowNull, [], u⟩

/-! ### OrderedSimplex -/

/-- Simplex.h:190-195 and :288-293  `x = 0; for (i = dim; i > 0; i--) { x += probs[i-1] / (int)i;
v[i-1] = x; }` — `i` is the 1-based index of the head -/
def orderedValues : List α → Nat → List α
  | [], _ => []
  | p :: rest, i =>
    let vs := orderedValues rest (i + 1)
    let x := vs.headD zero + p / ofInt i      -- x of the previous iteration (0 at the start)
    x :: vs

/-- :303-308  `vprob[i] = (i+1) * (v[i] - v[i+1])`,  `vprob[dim-1] = dim * v[dim-1]` -/
def orderedToProbs : List α → Nat → List α
  | [], _ => []
  | [v], i => [ofInt i * v]
  | v :: w :: rest, i => (ofInt i * (v - w)) :: orderedToProbs (w :: rest) (i + 1)

structure OSt (α : Type) where
  base : St α
  values : List α
deriving Repr, Inhabited

/-- `OrderedSimplex::fireParameterChanged` :281-294 applied after a base-class update -/
def oRefresh (b : St α) : OSt α := ⟨b, orderedValues b.probs 1⟩

/-- `OrderedSimplex(size_t dim, ...)` Simplex.h:184-196 -/
def oConstructDim (dim method : Nat) (allowNull : Bool) : Except Err (OSt α) := do
  let b ← constructDim (α := α) dim method allowNull
  .ok (oRefresh b)

/-- `OrderedSimplex::setFrequencies` :296-310 (after the repair: `vValues_` is assigned once the
base class has accepted the vector; before, it was assigned first and survived a rejection).
`changed` in the base class means `OrderedSimplex::fireParameterChanged` ran and recomputed
`vValues_`, which the final assignment then overwrites with the argument.  Second repair: the
empty vector returns at once (before, `dim - 1` wrapped around and `vValues[0]` was read). -/
def oSetFrequencies (s : OSt α) (v : List α) : Except Err (OSt α) :=
  if v.length = 0 then .ok s                       -- `if (dim == 0) return;` (second repair)
  else if v.length ≠ s.base.dim then .error .sum   -- `DimensionException` (third repair), a bpp::Exception
  else do
    let b ← setFrequencies s.base (orderedToProbs v 1)
    .ok ⟨b, v⟩

/-- `OrderedSimplex::setFrequencies` as it was before the repair (kept for the witness theorem
`C19.ordered_setFrequencies_orig_keeps_rejected`): `vValues_ = vValues` came first, so a vector
rejected by the base class stayed in the object; on success `fireParameterChanged` (if a
parameter changed) recomputed `vValues_` from the probabilities.  Returns the object after the
call and the exception, if any. -/
def oSetFrequenciesOrig (s : OSt α) (v : List α) : OSt α × Option Err :=
  -- (a vector of another size is not described here: `SimplexObj.Obj.oSetFrequenciesUnchecked`)
  if v.length = 0 ∨ v.length ≠ s.base.dim then (s, some .ub)
  else
    match setFrequencies s.base (orderedToProbs v 1) with
    | .error e => (⟨s.base, v⟩, some e)
    | .ok b =>
      let changed := (List.zip s.base.params b.params).any (fun (c, w) => !(eqb c w))
      (if changed then oRefresh b else ⟨b, v⟩, none)

/-- `OrderedSimplex(const std::vector<double>& probas, ...)` :274-279 -/
def oConstruct (v : List α) (method : Nat) (allowNull : Bool) : Except Err (OSt α) := do
  let b ← constructDim (α := α) v.length method allowNull
  oSetFrequencies ⟨b, v⟩ v

def oMatchParams (s : OSt α) (θ : List α) : Except Err (OSt α) := do
  let b ← matchParams s.base θ
  -- fire ran iff something changed; when nothing changed the object is untouched
  let changed := (List.zip s.base.params θ).any (fun (c, v) => !(eqb c v))
  .ok (if changed then oRefresh b else s)

def oSetOne (s : OSt α) (i : Nat) (v : α) : Except Err (OSt α) := do
  let b ← setOne s.base i v
  .ok (oRefresh b)

end Bpp.Simplex
