import BppModel.Prelude.Scalar
/-!
# Model of the randomised code of bpp-core, *given the primitive draws*   (C18)

Sources (library worktree, after the `fix:` commits listed in `findings/C18.json`):
  * `src/Bpp/Numeric/Random/RandomTools.h`    pickOne (4 overloads), getSample (2), pickFromCumSum
  * `src/Bpp/Numeric/Random/RandomTools.cpp`  randMultinomial
  * `src/Bpp/Numeric/Random/ContingencyTableGenerator.cpp`  rcont2 (AS159)
  * `src/Bpp/Numeric/Stat/ContingencyTableTest.cpp`  permutation p-value
  * `src/Bpp/Numeric/Prob/AbstractDiscreteDistribution.cpp`  rand()
  * `src/Bpp/Numeric/Hmm/AbstractHmmTransitionMatrix.cpp`  sample()

The model is nondeterministic in the sense of DESIGN §2.4: every function takes the results of
the primitive draws (`giveIntRandomNumberBetweenZeroAndEntry`, `giveRandomNumberBetweenZeroAndEntry`)
as an *input*; where the code hands the generator to a standard algorithm (`std::shuffle`) the
input is any result the algorithm's specification allows (a permutation); where the choice
depends on floating-point comparisons we do not model (`rcont2`) the input is the chosen value
and the model checks that the loops can stop there.

Numeric code is generic over `Scalar` (Float in the driver, ℝ in the theorems).
-/
namespace Bpp.Rand
open Bpp

/-- outcomes other than a value -/
inductive Err
  | empty      -- EmptyVectorException
  | index      -- IndexOutOfBoundsException
  | bpp        -- any other bpp::Exception
  | ub         -- undefined behaviour in the C++ (out-of-bounds read, `back()` of an empty vector)
  | starved    -- the supplied draw sequence is too short (not an outcome of the code)
  | unreachable -- the supplied choice is not one the code can make (not an outcome of the code)
  deriving DecidableEq, Repr, Inhabited

abbrev R := Except Err

/-! ## the primitives' contracts (what the standard library promises; trusted) -/

/-- `giveIntRandomNumberBetweenZeroAndEntry(entry)` returns `r` with `r < entry`
(`std::uniform_int_distribution(0, entry-1)`); `entry = 0` throws. RandomTools.h:103-110 -/
def ValidInt (entry r : Nat) : Prop := r < entry

/-! ## unweighted picks   RandomTools.h:190-227 -/
section Pick
variable {τ : Type}

/-- `v[pos] = v.back(); v.pop_back();` -/
def swapPop (v : List τ) (pos : Nat) : List τ :=
  match v.getLast? with
  | none => []
  | some b => (v.set pos b).dropLast

/-- `T pickOne(std::vector<T>& v, bool replace)`; `pos` is the integer draw with entry `v.size()`.
Returns the element and the vector afterwards. RandomTools.h:190-206 -/
def pickOne (v : List τ) (replace : Bool) (pos : Nat) : R (τ × List τ) :=
  if v.isEmpty then .error .empty
  else match v[pos]? with
    | none => .error .ub
    | some e => if replace then .ok (e, v) else .ok (e, swapPop v pos)

/-- `T pickOne(const std::vector<T>& v)`  RandomTools.h:218-225 -/
def pickOneConst (v : List τ) (pos : Nat) : R τ :=
  if v.isEmpty then .error .empty
  else match v[pos]? with
    | none => .error .ub
    | some e => .ok e

/-- the loop `for i < vout.size(): vout[i] = pickOne(vin)`; `draws` = the successive integer draws -/
def sampleRepl (vin : List τ) : Nat → List Nat → R (List τ)
  | 0, _ => .ok []
  | k + 1, draws =>
    if vin.isEmpty then .error .empty
    else match draws with
      | [] => .error .starved
      | d :: ds =>
        match pickOneConst vin d with
        | .error e => .error e
        | .ok x => match sampleRepl vin k ds with
          | .error e => .error e
          | .ok r => .ok (x :: r)

/-- `vout[i] = vin[hat[i]]` for `i < k` -/
def selectBy (vin : List τ) : List Nat → R (List τ)
  | [] => .ok []
  | h :: hs =>
    match vin[h]? with
    | none => .error .ub
    | some x => match selectBy vin hs with
      | .error e => .error e
      | .ok r => .ok (x :: r)

/-- `void getSample(const std::vector<T>& vin, std::vector<T>& vout, bool replace)` with
`k = vout.size()`.  `draws`: the integer draws (used when `replace`); `hat`: the content of the
vector `hat` after `std::shuffle` (used when `!replace`; any permutation of `0..n-1`).
RandomTools.h:246-269 -/
def getSample (vin : List τ) (k : Nat) (replace : Bool) (draws : List Nat) (hat : List Nat) : R (List τ) :=
  if vin.length < k && !replace then .error .index
  else if replace then sampleRepl vin k draws
  else selectBy vin (hat.take k)

/-- the law of an unweighted pick given its integer draw: the element at the position the draw
designates (the draw itself is uniform on `0..n-1` by the primitive's contract) -/
def lawPickAt [BEq τ] (v : List τ) (pos : Nat) (e : τ) : Bool := v[pos]? == some e

/-- every element of an unweighted sample with replacement is the source element at the position
its own integer draw designates -/
def lawSampleUnif [BEq τ] (vin : List τ) : List Nat → List τ → Bool
  | [], [] => true
  | d :: ds, x :: xs => lawPickAt vin d x && lawSampleUnif vin ds xs
  | _, _ => false

end Pick

/-! ## weighted picks   RandomTools.h:288-344 -/
section Weighted
variable {α : Type} [Scalar α] {τ : Type}

/-- `std::partial_sum` continuing from the running sum `acc` -/
def cumSumFrom (acc : α) : List α → List α
  | [] => []
  | y :: ys => (acc + y) :: cumSumFrom (acc + y) ys

/-- `VectorTools::cumSum` (`std::partial_sum`): the first element is copied -/
def cumSum : List α → List α
  | [] => []
  | x :: xs => x :: cumSumFrom x xs

/-- `sumw /= sumw.back()` — `back()` of an empty vector is undefined -/
def normalize (s : List α) : R (List α) :=
  match s.getLast? with
  | none => .error .ub
  | some b => .ok (s.map (· / b))

/-- first index `i` (counted from `i0`) with `prob < s[i]` -/
def searchLt (prob : α) : List α → Nat → Option Nat
  | [], _ => none
  | s :: ss, i => if Scalar.ltb prob s then some i else searchLt prob ss (i + 1)

/-- first index `i` (counted from `i0`) with `prob <= s[i]` -/
def searchLe (prob : α) : List α → Nat → Option Nat
  | [], _ => none
  | s :: ss, i => if Scalar.leb prob s then some i else searchLe prob ss (i + 1)

/-- `pos = n-1; for i < n: if (prob < sumw[i]) {pos = i; break;}` — reading `sumw[i]` beyond its
size is undefined -/
def weightedPos (n : Nat) (sumw : List α) (prob : α) : R Nat :=
  match searchLt prob (sumw.take n) 0 with
  | some i => .ok i
  | none => if sumw.length < n then .error .ub else .ok (n - 1)

/-- the position chosen by the weighted `pickOne` overloads among `n` elements:
`sumw = cumSum(w); sumw /= sumw.back(); prob = U(0,1); first i < n with prob < sumw[i], else n-1` -/
def weightedIndex (n : Nat) (w : List α) (prob : α) : R Nat :=
  match normalize (cumSum w) with
  | .error e => .error e
  | .ok sumw => weightedPos n sumw prob

/-- `T pickOne(std::vector<T>& v, std::vector<double>& w, bool replace)`; `prob` is the uniform
draw with entry 1.  RandomTools.h:288-317 -/
def pickOneW (v : List τ) (w : List α) (replace : Bool) (prob : α) : R (τ × List τ × List α) :=
  if v.isEmpty then .error .empty
  else match weightedIndex v.length w prob with
    | .error e => .error e
    | .ok pos =>
      match v[pos]? with
      | none => .error .ub
      | some e =>
        if replace then .ok (e, v, w)
        else if pos < w.length then .ok (e, swapPop v pos, swapPop w pos)
        else .error .ub

/-- `T pickOne(const std::vector<T>& v, const std::vector<double>& w)`  RandomTools.h:333-352 -/
def pickOneWConst (v : List τ) (w : List α) (prob : α) : R τ :=
  match pickOneW v w true prob with
  | .error e => .error e
  | .ok (e, _, _) => .ok e

/-- `for i < k: vout[i] = vin[pickOne(hat, w)]` -/
def sampleWRepl (vin : List τ) (hat : List Nat) (w : List α) : Nat → List α → R (List τ)
  | 0, _ => .ok []
  | k + 1, draws =>
    if hat.isEmpty then .error .empty
    else match draws with
      | [] => .error .starved
      | d :: ds =>
        match pickOneWConst hat w d with
        | .error e => .error e
        | .ok h =>
          match vin[h]? with
          | none => .error .ub
          | some x => match sampleWRepl vin hat w k ds with
            | .error e => .error e
            | .ok r => .ok (x :: r)

/-- `for i < k: vout[i] = vin[pickOne(hat, w2, false)]`; returns the picked *positions* -/
def pickPositionsNoRepl : List Nat → List α → Nat → List α → R (List Nat)
  | _, _, 0, _ => .ok []
  | hat, w2, k + 1, draws =>
    if hat.isEmpty then .error .empty
    else match draws with
      | [] => .error .starved
      | d :: ds =>
        match pickOneW hat w2 false d with
        | .error e => .error e
        | .ok (h, hat', w2') =>
          match pickPositionsNoRepl hat' w2' k ds with
          | .error e => .error e
          | .ok r => .ok (h :: r)

/-- weighted `getSample(vin, w, vout, replace)`, `k = vout.size()`; `draws` = the uniform draws.
RandomTools.h:395-417 -/
def getSampleW (vin : List τ) (w : List α) (k : Nat) (replace : Bool) (draws : List α) : R (List τ) :=
  if vin.length < k && !replace then .error .index
  else
    let hat := List.range vin.length
    if replace then sampleWRepl vin hat w k draws
    else match pickPositionsNoRepl hat w k draws with
      | .error e => .error e
      | .ok ps => selectBy vin ps

/-! ### the law of a weighted pick as an executable predicate

"Follows the given weights" for one pick: the element returned is the one whose *weight interval*,
normalised by the total `S = Σw`, contains the uniform draw `u`:
`c_{i-1}/S ≤ u < c_i/S` with `c = cumSum w`, `c_{-1} = 0`.  The intervals of the positions partition
`[0, 1)` and the one of position `i` has length `wᵢ/S` (`BppProofs/Props/C18.lean`:
`inWeightInterval_iff`, `weighted_pick_interval_length`), so a sampler all of whose picks satisfy
this predicate on uniform draws follows the weights.  The predicate does not search: it is a
specification, evaluated by the driver on the implementation's recorded draws and proved of the
model for all draws. -/

/-- `u` lies in the weight interval of position `i` -/
def inWeightInterval (w : List α) (u : α) (i : Nat) : Bool :=
  let c := cumSum w
  match c.getLast?, c[i]? with
  | some S, some ci =>
    match i with
    | 0 => Scalar.leb (Scalar.ofInt 0 / S) u && Scalar.ltb u (ci / S)
    | j + 1 =>
      match c[j]? with
      | some p => Scalar.leb (p / S) u && Scalar.ltb u (ci / S)
      | none => false
  | _, _ => false

/-- the assumptions under which "follows the weights" means something: non-negative weights with a
positive total -/
def weightsOk (w : List α) : Bool :=
  w.all (fun x => Scalar.leb (Scalar.ofInt 0) x) &&
  (match (cumSum w).getLast? with
   | some S => Scalar.ltb (Scalar.ofInt 0) S
   | none => false)

/-- `x` is the element (of `v`, with weights `w`) whose weight interval contains `u` -/
def lawElem [BEq τ] (v : List τ) (w : List α) (u : α) (x : τ) : Bool :=
  (List.range v.length).any (fun i => v[i]? == some x && inWeightInterval w u i)

/-- every element of a weighted sample *with* replacement is the element whose weight interval
contains its own uniform draw (one draw per element, in order) -/
def lawSampleRepl [BEq τ] (v : List τ) (w : List α) : List α → List τ → Bool
  | [], [] => true
  | u :: us, x :: xs => lawElem v w u x && lawSampleRepl v w us xs
  | _, _ => false

/-- the same *without* replacement: each element is the one whose interval — among the elements
still present, with their weights, in the order the code keeps them (`swapPop`) — contains its draw -/
def lawSampleNoRepl [BEq τ] : List α → List τ → List τ → List α → Bool
  | [], [], _, _ => true
  | u :: us, x :: xs, v, w =>
    (List.range v.length).any (fun i =>
      v[i]? == some x && inWeightInterval w u i && lawSampleNoRepl us xs (swapPop v i) (swapPop w i))
  | _, _, _, _ => false

/-- number of strictly positive weights (a weighted sample without replacement of at most this
size never meets an all-zero remainder) -/
def nPositive (w : List α) : Nat := (w.filter (fun x => Scalar.ltb (Scalar.ofInt 0) x)).length

/-- `size_t pickFromCumSum(const std::vector<double>& w)` (after `fix:` 57b79ce: an empty vector
raises; before, `w.size()-1` wrapped and `w[0]` was read).  RandomTools.h:364-377 -/
def pickFromCumSum (w : List α) (prob : α) : R Nat :=
  if w.isEmpty then .error .empty
  else match searchLe prob w.dropLast 0 with
    | some i => .ok i
    | none => .ok (w.length - 1)

/-- the law of `pickFromCumSum` as a predicate on (cumulative vector, draw, returned index): every
earlier entry is `< u`, and the index is the last one or `u ≤ w[p]` — for a non-decreasing `w` this is
`w[p-1] < u ≤ w[p]` -/
def cumSumPickOk (w : List α) (u : α) (p : Nat) : Bool :=
  match w[p]? with
  | none => false
  | some x => (w.take p).all (fun y => Scalar.ltb y u) && (p + 1 == w.length || Scalar.leb u x)

/-- `r` falls on step `j` of the running sums `c` (inverse-cdf draws: `randMultinomial`,
`AbstractDiscreteDistribution::rand`): `c[j-1] < r ≤ c[j]`, closed at the bottom for `j = 0` -/
def inCdfStep (c : List α) (r : α) (j : Nat) : Bool :=
  match c[j]? with
  | none => false
  | some cj =>
    Scalar.leb r cj &&
    (match j with
     | 0 => true
     | i + 1 => match c[i]? with
       | some ci => Scalar.ltb ci r
       | none => false)

/-- the unrepaired `pickFromCumSum` on an empty vector: `while (pos < w.size() - 1)` with
`w.size() - 1 = 2^64-1`, first iteration reads `w[0]` -/
def pickFromCumSumUnrepaired (w : List α) (prob : α) : R Nat :=
  if w.isEmpty then .error .ub
  else pickFromCumSum w prob

/-! ## multinomial by inverse cdf   RandomTools.cpp:13-38 -/

/-- `VectorTools::sum`: `T s = 0; for x: s += x` -/
def sumFromZero (l : List α) : α := l.foldl (· + ·) (Scalar.ofInt 0)

/-- the inner loop for one draw `r`: `cumprob += probs[j]/s; if (r <= cumprob) state = j`;
`none` when no state is found (the code then stores `probs.size()`) -/
def invCdf (s r : α) : α → List α → Nat → Option Nat
  | _, [], _ => none
  | cum, p :: ps, j =>
    let cum' := cum + p / s
    if Scalar.leb r cum' then some j else invCdf s r cum' ps (j + 1)

def multinomialState (probs : List α) (r : α) : Nat :=
  match invCdf (sumFromZero probs) r (Scalar.ofInt 0) probs 0 with
  | some j => j
  | none => probs.length

/-- the loop of `randMultinomial(n, probs)`: the `n` states; `draws` = the uniform draws -/
def multinomialLoop (probs : List α) : Nat → List α → R (List Nat)
  | 0, _ => .ok []
  | _ + 1, [] => .error .starved
  | n + 1, r :: rs =>
    match multinomialLoop probs n rs with
    | .error e => .error e
    | .ok l => .ok (multinomialState probs r :: l)

/-- the guard `if (n > 0 && !(s > 0)) throw Exception(…)` (RandomTools.cpp:16-17, added by the
`fix:` recorded in findings/C18.json: without a positive sum the probabilities cannot be scaled,
every comparison `r <= cumprob` is false (0/0) and the code answered the out-of-range state
`probs.size()` although the documentation promises `0 … x-1`) -/
def multinomialRaises (probs : List α) (n : Nat) : Bool :=
  n != 0 && !(Scalar.ltb (Scalar.ofInt 0) (sumFromZero probs))

/-- `randMultinomial(n, probs)` (repaired) -/
def randMultinomial (probs : List α) (n : Nat) (draws : List α) : R (List Nat) :=
  if multinomialRaises probs n then .error .bpp else multinomialLoop probs n draws

/-- … before the repair: the loop alone -/
def randMultinomialUnrepaired (probs : List α) (n : Nat) (draws : List α) : R (List Nat) :=
  multinomialLoop probs n draws

/-- the running sums `cumprob` of `randMultinomial`: `cumprob += probs[j] / s` from 0 -/
def multinomialCums (probs : List α) : List α :=
  cumSumFrom (Scalar.ofInt 0) (probs.map (· / sumFromZero probs))

/-- the law of one multinomial state given its draw: state `j < k` iff `r` falls on step `j` of the
running sums of `probs/Σprobs`; the "not found" state `k` iff `r` is above all of them -/
def multinomialLawOk (probs : List α) (r : α) (j : Nat) : Bool :=
  if j = probs.length then (multinomialCums probs).all (fun c => !(Scalar.leb r c))
  else inCdfStep (multinomialCums probs) r j

/-- how often each state `0..k` (state `k = probs.size()` is the "not found" value) occurs -/
def counts (k : Nat) (states : List Nat) : List Nat :=
  (List.range (k + 1)).map (fun j => states.count j)

/-! ## the discrete draw of a distribution   AbstractDiscreteDistribution.cpp:167-181 -/

/-- `for (cat, p) in distribution_ (ascending): cumprob += p; if (r <= cumprob) return cat;`
`return -1.` -/
def dRandFrom (r : α) : α → List (α × α) → α
  | _, [] => Scalar.ofInt (-1)
  | cum, (c, p) :: rest =>
    let cum' := cum + p
    if Scalar.leb r cum' then c else dRandFrom r cum' rest

def dRand (dist : List (α × α)) (r : α) : α := dRandFrom r (Scalar.ofInt 0) dist

/-- the law of the discrete draw: `x` is the category on whose step of the cumulative
probabilities the draw `r` falls -/
def dRandLawOk (dist : List (α × α)) (r : α) (x : α) : Bool :=
  (List.range dist.length).any (fun i =>
    (match dist[i]? with | some cp => Scalar.eqb cp.1 x | none => false) &&
    inCdfStep (cumSumFrom (Scalar.ofInt 0) (dist.map (·.2))) r i)

/-! ## first / next state of a hidden Markov chain   AbstractHmmTransitionMatrix.cpp:48-91 -/

/-- `for i < n: prob -= p[i]; if (prob < 0) {state = i; break;}` -/
def subtractSearch : α → List α → Nat → Option Nat
  | _, [], _ => none
  | prob, p :: ps, i =>
    let prob' := prob - p
    if Scalar.ltb prob' (Scalar.ofInt 0) then some i else subtractSearch prob' ps (i + 1)

/-- one state of the chain: `for i < n: prob -= p[i]; if (prob < 0) {state = i; break;}`; `dflt` is
what the variable holds when the loop finds nothing: `some 0` for the first state (`sta = 0`),
`none` for the following ones (`stb` is uninitialised: reading it is undefined) -/
def hmmState (p : List α) (prob : α) (dflt : Option Nat) : R Nat :=
  match subtractSearch prob p 0 with
  | some i => .ok i
  | none => match dflt with
    | some d => .ok d
    | none => .error .ub

/-- the running remainders of the subtractive search: `rem_j = u - p_0 - … - p_j` (the arithmetic of the code) -/
def remainders : α → List α → List α
  | _, [] => []
  | prob, q :: qs => (prob - q) :: remainders (prob - q) qs

/-- the law of one state of the chain as a predicate on (row, draw, state): `rem_i < 0` and no earlier
remainder is — for a non-negative row: `Σ_{j<i} p_j ≤ u < Σ_{j≤i} p_j` (`hmm_step_law`) -/
def hmmStepOk (p : List α) (u : α) (i : Nat) : Bool :=
  let r := remainders u p
  match r[i]? with
  | none => false
  | some ri => Scalar.ltb ri (Scalar.ofInt 0) && (r.take i).all (fun x => !(Scalar.ltb x (Scalar.ofInt 0)))

/-- the first state: as above, or the initial value `sta = 0` when no remainder is negative -/
def hmmFirstOk (eq : List α) (u : α) (s : Nat) : Bool :=
  hmmStepOk eq u s || (s == 0 && (remainders u eq).all (fun x => !(Scalar.ltb x (Scalar.ofInt 0))))

/-- every following state lies on the step of its own draw within the transition row of its predecessor -/
def hmmChainOk (rows : List (List α)) : Nat → List α → List Nat → Bool
  | _, [], [] => true
  | prev, u :: us, s :: ss =>
    (match rows[prev]? with
     | some row => hmmStepOk row u s
     | none => false) && hmmChainOk rows s us ss
  | _, _, _ => false

/-- the law of a sampled chain given its draws (one per state) -/
def hmmSampleLawOk (eq : List α) (rows : List (List α)) : List α → List Nat → Bool
  | [], [] => true
  | u :: us, s :: ss => hmmFirstOk eq u s && hmmChainOk rows s us ss
  | _, _ => false

/-- the states after the first one; `row s` is the transition row of state `s` -/
def hmmChain (rows : List (List α)) : Nat → Nat → List α → R (List Nat)
  | _, 0, _ => .ok []
  | _, _ + 1, [] => .error .starved
  | sta, k + 1, u :: us =>
    match rows[sta]? with
    | none => .error .ub
    | some row =>
      match hmmState row u none with
      | .error e => .error e
      | .ok stb =>
        match hmmChain rows stb k us with
        | .error e => .error e
        | .ok l => .ok (stb :: l)

/-- `AbstractHmmTransitionMatrix::sample(size)` given the equilibrium frequencies, the transition
matrix and the uniform draws -/
def hmmSample (eq : List α) (rows : List (List α)) (size : Nat) (draws : List α) : R (List Nat) :=
  match size, draws with
  | 0, _ => .ok []
  | _ + 1, [] => .error .starved
  | k + 1, u :: us =>
    match hmmState eq u (some 0) with
    | .error e => .error e
    | .ok sta =>
      match hmmChain rows sta k us with
      | .error e => .error e
      | .ok l => .ok (sta :: l)

end Weighted

/-! ## random contingency tables: the integer book-keeping of `rcont2` (AS159)
ContingencyTableGenerator.cpp:55-175.

All quantities are `size_t` in the C++.  The model computes in `Int` and makes the places where
the unsigned arithmetic could matter explicit:
  * an index into `fact_` (size `ntot+1`) outside `0..ntot` is `Err.ub`;
  * `ii = ib - id` is legitimately negative in AS159 (R uses `int`); the C++ wraps, and only uses
    `ii + nlm`, whose true value is shown to be `≥ 0`, so the wrap is benign;
  * products `(id-nlm)*(ia-nlm)` and `nll*(ii+nll)` are only tested against 0; with all totals
    `< 2^32` the wrapped product is 0 iff the integer product is (assumption, stated in props).
The float-dependent part (which cell value the inverse-cdf walk stops at) is abstracted: the
model takes the value as an input and checks it is one the increment / decrement loops can
reach from the starting value. -/
section Rcont2

/-- the starting value `nlm = (size_t)(ia * (id / ie) + 0.5)` in exact arithmetic (after `fix:`
f276286), i.e. `⌊ia·id/ie + 1/2⌋`.  `ie > 0` here. -/
def startCell (ia id ie : Int) : Int := (2 * ia * id + ie) / (2 * ie)

/-- the unrepaired line `nlm = ia * (size_t)(id / ie + 0.5)`: the cast applies to
`id/ie + 0.5 ∈ [0.5, 1.5]`, giving 0 or 1 -/
def startCellUnrepaired (ia id ie : Int) : Int := ia * ((2 * id + ie) / (2 * ie))

/-- can the increment loop (`++nlm` while `(id-nlm)*(ia-nlm) ≠ 0`) take `nlm` from `a` up by `n` steps? -/
def canIncr (ia id : Int) : Int → Nat → Bool
  | _, 0 => true
  | a, n + 1 => decide ((id - a) * (ia - a) ≠ 0) && canIncr ia id (a + 1) n

/-- can the decrement loop (`--nll` while `nll*(ii+nll) ≠ 0`) take `nll` from `a` down by `n` steps? -/
def canDecr (ii : Int) : Int → Nat → Bool
  | _, 0 => true
  | a, n + 1 => decide (a * (ii + a) ≠ 0) && canDecr ii (a - 1) n

/-- `v` is a value the walk started at `start` can stop at -/
def canReach (ia id ii start v : Int) : Bool :=
  if start ≤ v then canIncr ia id start (v - start).toNat else canDecr ii start (start - v).toNat

/-- are all reads `fact_[·]` at the starting value within `0..ntot`? -/
def factReadsOk (ntot ia ib ic id ie ii nlm : Int) : Bool :=
  [ia, ib, ic, id, ie, nlm, id - nlm, ia - nlm, ii + nlm].all (fun i => decide (0 ≤ i) && decide (i ≤ ntot))

structure RowOut where
  cells : List Int      -- table(l, 0..nc_1-1)
  jwork : List Int      -- jwork_ afterwards
  ia : Int              -- what is left of the row total: table(l, nc_1)
  ib : Int              -- the variable `ib` afterwards
  deriving Repr, DecidableEq

/-- the loop over `m` for one row.  `jwork`: remaining column totals (first `nc_1` columns, from
column `m` on), `picks`: the chosen cell values, aligned with `jwork`.
`start` is the starting-value function (repaired or unrepaired code). -/
def rowLoop (start : Int → Int → Int → Int) (ntot : Int) : Int → Int → Int → List Int → List Int → R RowOut
  | ia, _, ib, [], _ => .ok ⟨[], [], ia, ib⟩
  | ia, ic, _, id :: rest, picks =>
    let ie := ic
    let ic' := ic - id
    let ib' := ie - ia
    let ii := ib' - id
    if ie = 0 then
      -- row is full: zero entries, `ia = 0; break;`
      .ok ⟨(id :: rest).map (fun _ => 0), id :: rest, 0, ib'⟩
    else
      let s := start ia id ie
      if !factReadsOk ntot ia ib' ic' id ie ii s then .error .ub
      else match picks with
        | [] => .error .starved
        | v :: ps =>
          if !canReach ia id ii s v then .error .unreachable
          else match rowLoop start ntot (ia - v) ic' ib' rest ps with
            | .error e => .error e
            | .ok o => .ok ⟨v :: o.cells, (id - v) :: o.jwork, o.ia, o.ib⟩

structure TabOut where
  rows : List (List Int)   -- the first `nr_1` rows, complete (last column included)
  jwork : List Int
  ib : Int
  deriving Repr, DecidableEq

/-- the loop over `l` (all rows but the last).  `jc`: total of the rows not yet generated. -/
def rowsLoop (start : Int → Int → Int → Int) (ntot : Int) : Int → Int → List Int → List Int → List (List Int) → R TabOut
  | _, ib, jwork, [], _ => .ok ⟨[], jwork, ib⟩
  | jc, ib, jwork, ia :: rowsRest, picks =>
    match rowLoop start ntot ia jc ib jwork (picks.headD []) with
    | .error e => .error e
    | .ok o =>
      match rowsLoop start ntot (jc - ia) o.ib o.jwork rowsRest picks.tail with
      | .error e => .error e
      | .ok t => .ok ⟨(o.cells ++ [o.ia]) :: t.rows, t.jwork, t.ib⟩

/-- `ContingencyTableGenerator(nrowt, ncolt)` followed by `rcont2()`.  `picks[l][m]`: the value
chosen for cell `(l, m)`, `l < nrow-1`, `m < ncol-1`. -/
def rcont2With (start : Int → Int → Int → Int) (nrowt ncolt : List Nat) (picks : List (List Int)) : R (List (List Int)) :=
  if nrowt.length < 2 || ncolt.length < 2 then .error .bpp
  else if nrowt.sum != ncolt.sum then .error .bpp
  else
    let ntot : Int := nrowt.sum
    let rowsI : List Int := nrowt.map Int.ofNat
    let colsI : List Int := ncolt.map Int.ofNat
    match rowsLoop start ntot ntot 0 colsI.dropLast rowsI.dropLast picks with
    | .error e => .error e
    | .ok t =>
      -- last row: jwork_, and `table(nr_1, nc_1) = ib - table(nr_1, nc_1 - 1)`
      .ok (t.rows ++ [t.jwork ++ [t.ib - t.jwork.getLastD 0]])

def rcont2 := rcont2With startCell
def rcont2Unrepaired := rcont2With startCellUnrepaired

def colSums (nc : Nat) (t : List (List Int)) : List Int :=
  t.foldr (fun row acc => List.zipWith (· + ·) row acc) (List.replicate nc 0)

/-- the predicate of `rcont2_margins`: shape, non-negative entries, row and column totals -/
def marginsOk (nrowt ncolt : List Nat) (t : List (List Int)) : Bool :=
  t.length == nrowt.length
  && t.all (fun row => row.length == ncolt.length && row.all (fun x => decide (0 ≤ x)))
  && t.map List.sum == nrowt.map Int.ofNat
  && colSums ncolt.length t == ncolt.map Int.ofNat

end Rcont2

/-! ## permutation p-value   ContingencyTableTest.cpp:78-99 -/
section PValue
variable {α : Type} [Scalar α]

/-- `count` = number of simulated statistics `>=` the observed one -/
def countGe (stat : α) (sims : List α) : Nat := (sims.filter (fun s => Scalar.geb s stat)).length

/-- `pvalue_ = (double)(count + 1) / (double)(nbPermutations + 1)` -/
def pvalueOfCount (count nb : Nat) : α := Scalar.ofInt ((count + 1 : Nat) : Int) / Scalar.ofInt ((nb + 1 : Nat) : Int)

/-- the p-value given the simulated statistics (one per permutation) -/
def permPValue (stat : α) (sims : List α) : α := pvalueOfCount (countGe stat sims) sims.length

/-- the body of the Monte-Carlo loop, `iters` times:
`table_rep = ctgen.rcont2(); stat_rep = …; if (stat_rep >= statistic_) count++;`
`sims` is the stream of the statistics of the successive random tables (one per call of `rcont2`,
as long as the caller likes); returns the final `count`.  ContingencyTableTest.cpp:81-97 -/
def mcCount (stat : α) : Nat → List α → Nat → R Nat
  | 0, _, count => .ok count
  | _ + 1, [], _ => .error .starved
  | n + 1, s :: ss, count => mcCount stat n ss (if Scalar.geb s stat then count + 1 else count)

/-- how often the body of `for (unsigned int k = 0; k OP nbPermutations; ++k)` runs, for the
comparison operator `OP` found in the source (`Generated.comparisons`, site
`ContingencyTableTest.loop`; ContingencyTableTest.cpp:81) -/
def loopIterations (op : String) (nb : Nat) : Option Nat :=
  if op = "<" then some nb else if op = "<=" then some (nb + 1) else none

/-- the Monte-Carlo branch of the constructor (`nbPermutations > 0`), transcribed:
`count = 0; for (k = 0; k OP nb; ++k) {…}; pvalue_ = (double)(count + 1) / (double)(nb + 1)` -/
def mcPValueWith (op : String) (stat : α) (nb : Nat) (sims : List α) : R α :=
  match loopIterations op nb with
  | none => .error .unreachable
  | some iters =>
    match mcCount stat iters sims 0 with
    | .error e => .error e
    | .ok count => .ok (pvalueOfCount count nb)

/-- … with the operator the source has (`source_comparisons` proves it is `<`) -/
def mcPValue (stat : α) (nb : Nat) (sims : List α) : R α := mcPValueWith "<" stat nb sims

end PValue

/-! ## executable predicates evaluated on the implementation's answers (the theorems of
`BppProofs/Props/C18.lean` are about exactly these, via the lemmas in `Lemmas/Rand.lean`) -/
section Predicates
variable {τ : Type} [DecidableEq τ]

/-- `out` can be obtained by selecting pairwise distinct positions of `src`
(multiset inclusion): remove the elements of `out` one by one -/
def subMultiset : List τ → List τ → Bool
  | [], _ => true
  | x :: xs, src => src.contains x && subMultiset xs (src.erase x)

/-- `a` is a rearrangement of `b` -/
def isPermOf (a b : List τ) : Bool := a.length == b.length && subMultiset a b

/-- every element of `out` occurs in `src` -/
def allFrom (out src : List τ) : Bool := out.all (fun x => src.contains x)

end Predicates

/-- are the states `0..k` and do the counts add up to `n` -/
def countsOk (k n : Nat) (states : List Nat) : Bool :=
  states.all (fun s => decide (s ≤ k)) && (counts k states).sum == n

/-! ## the one-line sampler wrappers as data (filled by `tools/gen_randwrappers.py` from
RandomTools.h / RandomTools.cpp / the distribution headers into `Generated/RandWrappers.lean`) -/

/-- argument expressions of the wrappers -/
inductive Expr
  | var (name : String)
  | lit (num : Int) (den : Nat)
  | sqrt (e : Expr)
  | add (a b : Expr)
  | sub (a b : Expr)
  | mul (a b : Expr)
  | div (a b : Expr)
  deriving DecidableEq, Repr, Inhabited

/-- what the generator is handed to -/
inductive StdFamily
  | normal        -- std::normal_distribution(mean, stddev)
  | gamma         -- std::gamma_distribution(shape, scale)
  | exponential   -- std::exponential_distribution(rate)
  | uniformReal   -- std::uniform_real_distribution(a, b)
  | bernoulli     -- std::bernoulli_distribution(p)
  | quantileOfUniform (fn : String)   -- fn(U(0,1), args...): inverse-cdf sampling through the library's own quantile function
  deriving DecidableEq, Repr, Inhabited

structure Wrapper where
  name : String            -- `<function>/<arity>`
  params : List String
  family : StdFamily
  args : List Expr
  deriving DecidableEq, Repr

/-- `randC()` of a distribution class: which RandomTools wrapper it calls, with which expressions
of the class' parameters -/
structure RandC where
  dist : String
  callee : String
  args : List Expr
  /-- what is added to the callee's result (`+ offset_`, `+ min_`); `.lit 0 1` when nothing is -/
  shift : Expr
  deriving DecidableEq, Repr

/-- canonical parametrisation of a law (the one of Mathlib's `gaussianReal μ v`, `expMeasure r`,
`gammaMeasure a r`): normal (mean, variance); exponential (rate); gamma (shape, rate);
beta (alpha, beta); uniform (lo, hi); bernoulli (p) -/
inductive LawFam | normal | exponential | gamma | beta | uniform | bernoulli
  deriving DecidableEq, Repr, Inhabited

structure LawS where
  fam : LawFam
  params : List Expr
  /-- location: the law is that of `loc + X`, `X` following `fam params` -/
  loc : Expr
  deriving DecidableEq, Repr

/-- parameters that the theorems restrict to non-negative values: the only rewriting rule of
`Expr.norm` that is not an identity of the field of reals is `√x · √x = x`, applied to these only -/
def nonnegParams : List String := ["variance"]

namespace Expr
def one : Expr := .lit 1 1
def zero : Expr := .lit 0 1

/-- syntactic simplifications that are identities on positive reals (soundness:
`BppProofs/Lemmas/Rand.lean`, `eval_norm`) -/
def norm : Expr → Expr
  | .mul a b =>
    match norm a, norm b with
    | .sqrt (.var x), .sqrt (.var y) => if x = y ∧ x ∈ nonnegParams then .var x else .mul (.sqrt (.var x)) (.sqrt (.var y))
    | a', b' => .mul a' b'
  | .div a b =>
    match norm a, norm b with
    | a', .lit 1 1 => a'
    | .lit 1 1, .div (.lit 1 1) y => y
    | a', b' => .div a' b'
  | .sqrt a => .sqrt (norm a)
  | .add a b =>
    match norm a, norm b with
    | .lit 0 1, b' => b'                                   -- 0 + b = b
    | a', .lit 0 1 => a'                                   -- a + 0 = a
    | .sub x y, b' => if y = b' then x else .add (.sub x y) b'   -- (x - y) + y = x
    | a', b' => .add a' b'
  | .sub a b => .sub (norm a) (norm b)
  | e => e

def subst (σ : String → Option Expr) : Expr → Expr
  | .var n => (σ n).getD (.var n)
  | .lit n d => .lit n d
  | .sqrt a => .sqrt (subst σ a)
  | .add a b => .add (subst σ a) (subst σ b)
  | .sub a b => .sub (subst σ a) (subst σ b)
  | .mul a b => .mul (subst σ a) (subst σ b)
  | .div a b => .div (subst σ a) (subst σ b)
end Expr

/-- the law of the standard-library family applied to these argument expressions
(cppreference / ISO C++ [rand.dist]: normal(mean, stddev); gamma(shape α, scale β);
exponential(rate λ); uniform_real(a, b); bernoulli(p)) -/
def stdLawS : StdFamily → List Expr → Option LawS
  | .normal, [m, sd] => some ⟨.normal, [m, .mul sd sd], Expr.zero⟩
  | .gamma, [k, scale] => some ⟨.gamma, [k, .div Expr.one scale], Expr.zero⟩
  | .exponential, [rate] => some ⟨.exponential, [rate], Expr.zero⟩
  | .uniformReal, [a, b] => some ⟨.uniform, [a, b], Expr.zero⟩
  | .bernoulli, [p] => some ⟨.bernoulli, [p], Expr.zero⟩
  | .quantileOfUniform "qBeta", [a, b] => some ⟨.beta, [a, b], Expr.zero⟩   -- qBeta(p, α, β) inverts pBeta(x, α, β)
  | _, _ => none

/-- hand-written table: the law that the library's own cumulative functions mean by the wrapper's
parameter names (`pNorm(x, mu, sigma)`, `pGamma(x, alpha, beta) = incompleteGamma(beta*x, alpha)`:
beta is a rate; `pBeta(x, alpha, beta)`; exponential with mean `mean`: rate `1/mean`,
`ExponentialDiscreteDistribution::pProb = 1 - exp(-lambda x)` with `lambda = 1/mean`) -/
def libLawS : String → Option LawS
  | "giveRandomNumberBetweenZeroAndEntry/1" => some ⟨.uniform, [.lit 0 1, .var "entry"], Expr.zero⟩
  | "flipCoin/1" => some ⟨.bernoulli, [.var "prob"], Expr.zero⟩
  | "randGaussian/2" => some ⟨.normal, [.var "mean", .var "variance"], Expr.zero⟩
  | "randGamma/1" => some ⟨.gamma, [.var "alpha", Expr.one], Expr.zero⟩
  | "randGamma/2" => some ⟨.gamma, [.var "alpha", .var "beta"], Expr.zero⟩
  | "randBeta/2" => some ⟨.beta, [.var "alpha", .var "beta"], Expr.zero⟩
  | "randExponential/1" => some ⟨.exponential, [.div Expr.one (.var "mean")], Expr.zero⟩
  | _ => none

/-- hand-written table: the law of each distribution class according to its own `pProb`
(`GammaDiscreteDistribution::pProb = pGamma(x, alpha_, beta_)`, `Gaussian…::pProb = pNorm(x, mu_, sigma_)`,
`Exponential…::pProb = 1 - exp(-lambda_ x)`, `Beta…::pProb = pBeta(x, alpha_, beta_)`,
`Gamma…::pProb = pGamma(x - offset_, alpha_, beta_)`: location `offset`,
`Uniform…::pProb = (x - min_) / (max_ - min_)`);
the restriction to the bounds (rejection loop `while (!intMinMax_->isCorrect(x))`, the truncation
point of the truncated exponential) is not part of the table -/
def distLawS : String → Option LawS
  | "Gamma" => some ⟨.gamma, [.var "alpha", .var "beta"], .var "offset"⟩
  | "Gaussian" => some ⟨.normal, [.var "mu", .mul (.var "sigma") (.var "sigma")], Expr.zero⟩
  | "Exponential" => some ⟨.exponential, [.var "lambda"], Expr.zero⟩
  | "TruncatedExponential" => some ⟨.exponential, [.var "lambda"], Expr.zero⟩
  | "Beta" => some ⟨.beta, [.var "alpha", .var "beta"], Expr.zero⟩
  | "Uniform" => some ⟨.uniform, [.var "min", .var "max"], Expr.zero⟩
  | _ => none

def LawS.norm (l : LawS) : LawS := ⟨l.fam, l.params.map Expr.norm, Expr.norm l.loc⟩
def LawS.subst (σ : String → Option Expr) (l : LawS) : LawS := ⟨l.fam, l.params.map (Expr.subst σ), Expr.subst σ l.loc⟩

/-- the law of `e + X` when `X` follows `l`: location families absorb the shift in their own
parameters (uniform: both end points; normal: the mean), the others in `loc` -/
def LawS.shift (e : Expr) (l : LawS) : LawS :=
  match l.fam, l.params with
  | .uniform, [a, b] => ⟨.uniform, [.add a e, .add b e], l.loc⟩
  | .normal, [m, v] => ⟨.normal, [.add m e, v], l.loc⟩
  | _, _ => ⟨l.fam, l.params, .add l.loc e⟩

/-- decidable form of `wrapper_conventions` for one wrapper -/
def wrapperOk (w : Wrapper) : Bool :=
  match stdLawS w.family w.args, libLawS w.name with
  | some a, some b => decide (a.norm = b.norm)
  | _, _ => false

/-- the law a `randC` draws from: the callee's library law with the call's arguments substituted -/
def randCLawS (ws : List Wrapper) (r : RandC) : Option LawS :=
  match ws.find? (fun w => w.name == r.callee), libLawS r.callee with
  | some w, some l => some ((l.subst (fun n => ((w.params.zip r.args).find? (fun p => p.1 == n)).map (·.2))).shift r.shift)
  | _, _ => none

def randCOk (ws : List Wrapper) (r : RandC) : Bool :=
  match randCLawS ws r, distLawS r.dist with
  | some a, some b => decide (a.norm = b.norm)
  | _, _ => false

end Bpp.Rand
