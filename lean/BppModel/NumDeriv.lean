import BppModel.Prelude.Scalar
/-
Model of the numerical-derivative wrappers (C12):
  src/Bpp/Numeric/Function/NumericalDerivative.h            (AbstractNumericalDerivative)
  src/Bpp/Numeric/Function/TwoPointsNumericalDerivative.cpp
  src/Bpp/Numeric/Function/ThreePointsNumericalDerivative.cpp
  src/Bpp/Numeric/Function/FivePointsNumericalDerivative.cpp
together with the little of Parameter / ParameterList / AbstractParametrizable the wrappers use
(minimal own model: name, value, precision, optional interval constraint).

Transcription of the code that exists (after the `fix:` commits listed in findings/C12.json):
statement order, the probe / retry loops with their one-sided fallbacks, the "also reset previous
parameter" sub-list trick, the cross-derivative block, which exception escapes where.  Generic
over `[Scalar α]`: `Float` and `Rat` in the driver, `ℝ` in the theorems.

The wrapped function is abstract: `f : List α → α` on the vector of its parameter values (in the
order of its own parameter list); every evaluation is logged (`Fn.log`).  Exceptions are an
explicit outcome next to the state (side effects made before a throw persist, as in C++).
-/
namespace Bpp.NumDeriv
open Bpp Scalar

abbrev Name := Nat

/-- what a call can end with besides returning: the exception classes the code distinguishes
(`ConstraintException` is the only one the retry loops catch), an out-of-range index (never
reached, kept explicit instead of a default value) and a non-terminating `while` (h = 0). -/
inductive Exc | constraint | notfound | bpp | index | hang
deriving DecidableEq, Repr, Inhabited

/-- `IntervalConstraint`; `none` = infinite bound -/
structure Interval (α : Type) where
  lo : Option α
  hi : Option α
  inclLo : Bool
  inclHi : Bool

/-- `Parameter`: name, value, precision, constraint -/
structure Param (α : Type) where
  name : Name
  value : α
  prec : α
  con : Option (Interval α)

section
variable {α : Type} [Scalar α]

def neb (x y : α) : Bool := !(eqb x y)

/-- `IntervalConstraint::isCorrect` (Constraints.h:189) -/
def Interval.isCorrect (c : Interval α) (v : α) : Bool :=
  (match c.lo with
   | none => true
   | some l => if c.inclLo then geb v l else gtb v l) &&
  (match c.hi with
   | none => true
   | some u => if c.inclHi then leb v u else ltb v u)

/-- `hasConstraint() && !getConstraint()->isCorrect(v)` -/
def Param.violates (p : Param α) (v : α) : Bool :=
  match p.con with
  | none => false
  | some c => !c.isCorrect v

/-- `Parameter::setValue` (Parameter.cpp:56): nothing happens within half the precision;
otherwise the constraint is checked before the value is stored. -/
def Param.setValue (p : Param α) (v : α) : Except Exc (Param α) :=
  if gtb (abs (v - p.value)) (p.prec / ofInt 2) then
    if p.violates v then .error .constraint else .ok { p with value := v }
  else .ok p

/-! ### ParameterList -/
abbrev PList (α : Type) := List (Param α)

def has (l : PList α) (n : Name) : Bool := l.any (fun p => p.name == n)
/-- `ParameterList::parameter(name)`: the first parameter with that name -/
def find? (l : PList α) (n : Name) : Option (Param α) := l.find? (fun p => p.name == n)

def values (l : PList α) : List α := l.map (·.value)

/-- `createSubList(vector<string>)` (ParameterList.cpp:119): `parameter(name)` may throw
ParameterNotFoundException, `addParameter` throws ParameterException on a duplicate name. -/
def subNamesGo (l : PList α) : PList α → List Name → Except Exc (PList α)
  | acc, [] => .ok acc
  | acc, n :: ns =>
    match find? l n with
    | none => .error .notfound
    | some p => if has acc n then .error .bpp else subNamesGo l (acc ++ [p]) ns
def subNames (l : PList α) (ns : List Name) : Except Exc (PList α) := subNamesGo l [] ns

/-- `createSubList(size_t)` (ParameterList.cpp:182): empty when out of range -/
def subIdx (l : PList α) (k : Nat) : PList α :=
  match l[k]? with
  | some p => [p]
  | none => []

/-- `parameter(name).setValue(v)` on the first parameter with that name -/
def setValueOf : PList α → Name → α → Except Exc (PList α)
  | [], _, _ => .error .notfound
  | p :: r, n, v =>
    if p.name == n then
      match p.setValue v with
      | .ok p' => .ok (p' :: r)
      | .error e => .error e
    else
      match setValueOf r n v with
      | .ok r' => .ok (p :: r')
      | .error e => .error e

/-- first loop of `ParameterList::setParametersValues` / `matchParametersValues`
(ParameterList.cpp:359, 417): is some value of `pl` refused by the constraint of the parameter of
`own` with the same name? -/
def anyViolation (own pl : PList α) : Bool :=
  pl.any (fun q => match find? own q.name with
    | some p => p.violates q.value
    | none => false)

/-- second loop of `ParameterList::setParametersValues` (ParameterList.cpp:369) -/
def setLoop : PList α → PList α → Except Exc (PList α)
  | own, [] => .ok own
  | own, q :: qs =>
    if has own q.name then
      match setValueOf own q.name q.value with
      | .ok own' => setLoop own' qs
      | .error e => .error e
    else setLoop own qs

/-- second loop of `ParameterList::matchParametersValues` (ParameterList.cpp:430): only
parameters whose value differs are set; returns whether there was one. -/
def matchLoop : PList α → PList α → Bool → Except Exc (PList α × Bool)
  | own, [], ch => .ok (own, ch)
  | own, q :: qs, ch =>
    match find? own q.name with
    | none => matchLoop own qs ch
    | some p =>
      if neb p.value q.value then
        match setValueOf own q.name q.value with
        | .ok own' => matchLoop own' qs true
        | .error e => .error e
      else matchLoop own qs ch

/-! ### The wrapped function
an `AbstractParametrizable` whose `setParameters` is `matchParametersValues` (as in
test/PolynomialFunction.h and the harness) and whose `fireParameterChanged` evaluates `f` at the
current point, logs the point and, when they are enabled, refreshes the analytical derivatives. -/
structure Fn (α : Type) where
  params : PList α
  fval : α
  /-- evaluation points, most recent first -/
  log : List (List α)
  /-- 0: FunctionInterface, 1: FirstOrderDerivable, 2: SecondOrderDerivable -/
  kind : Nat
  en1 : Bool
  en2 : Bool
  /-- the point at which the cached analytical first (second) order derivatives were computed -/
  pt1 : List α
  pt2 : List α

def Fn.fire (f : List α → α) (fn : Fn α) : Fn α :=
  let pt := values fn.params
  { fn with fval := f pt, log := pt :: fn.log,
            pt1 := if fn.en1 then pt else fn.pt1,
            pt2 := if fn.en2 then pt else fn.pt2 }

/-- `AbstractParametrizable::matchParametersValues` (AbstractParametrizable.h:76) -/
def Fn.matchPV (f : List α → α) (fn : Fn α) (pl : PList α) : Fn α × Option Exc × Bool :=
  if anyViolation fn.params pl then (fn, some .constraint, false)
  else
    match matchLoop fn.params pl false with
    | .error e => (fn, some e, false)
    | .ok (own, ch) =>
      let fn' := { fn with params := own }
      if ch then (fn'.fire f, none, true) else (fn', none, false)

/-- the wrapped function's `setParameters` -/
def Fn.setParameters (f : List α → α) (fn : Fn α) (pl : PList α) : Fn α × Option Exc :=
  let r := fn.matchPV f pl
  (r.1, r.2.1)

/-- `AbstractParametrizable::setParametersValues` (AbstractParametrizable.h:70) -/
def Fn.setParametersValues (f : List α → α) (fn : Fn α) (pl : PList α) : Fn α × Option Exc :=
  if anyViolation fn.params pl then (fn, some .constraint)
  else
    match setLoop fn.params pl with
    | .error e => (fn, some e)
    | .ok own => (({ fn with params := own } : Fn α).fire f, none)

/-- first loop of `ParameterList::setAllParametersValues` (ParameterList.cpp:339) -/
def allCheck (own pl : PList α) : Option Exc :=
  own.findSome? (fun p => match find? pl p.name with
    | none => some Exc.notfound
    | some q => if p.violates q.value then some Exc.constraint else none)

/-- second loop of `ParameterList::setAllParametersValues` (ParameterList.cpp:348) -/
def allSet : PList α → PList α → Except Exc (PList α)
  | [], _ => .ok []
  | p :: r, pl =>
    match find? pl p.name with
    | none => .error .notfound
    | some q =>
      match p.setValue q.value with
      | .error e => .error e
      | .ok p' =>
        match allSet r pl with
        | .error e => .error e
        | .ok r' => .ok (p' :: r')

/-- `AbstractParametrizable::setAllParametersValues` (AbstractParametrizable.h:58) -/
def Fn.setAllParametersValues (f : List α → α) (fn : Fn α) (pl : PList α) : Fn α × Option Exc :=
  match allCheck fn.params pl with
  | some e => (fn, some e)
  | none =>
    match allSet fn.params pl with
    | .error e => (fn, some e)
    | .ok own => (({ fn with params := own } : Fn α).fire f, none)

/-- `AbstractParametrizable::setParameterValue` (AbstractParametrizable.h:64) -/
def Fn.setParameterValue (f : List α → α) (fn : Fn α) (n : Name) (v : α) : Fn α × Option Exc :=
  match setValueOf fn.params n v with
  | .error e => (fn, some e)
  | .ok own => (({ fn with params := own } : Fn α).fire f, none)

/-- `getParameterValue(name)` -/
def Fn.valueOf (fn : Fn α) (n : Name) : Except Exc α :=
  match find? fn.params n with
  | some p => .ok p.value
  | none => .error .notfound

/-! ### The wrapper -/
inductive Scheme | two | three | five
deriving DecidableEq, Repr, Inhabited

/-- a stored derivative: `none` is the NaN the code writes as `log(-1)` -/
abbrev DVal (α : Type) := Option α

structure W (α : Type) where
  scheme : Scheme
  h : α
  vars : List Name
  der1 : List (DVal α)
  der2 : List (DVal α)
  cross : List (List (DVal α))
  c1 : Bool
  c2 : Bool
  cx : Bool
  /-- `f1_ f2_ f3_` (the values that survive a call; `getValue()` is f1_ / f2_ / f3_ for the two- /
  three- / five-point scheme) -/
  f1 : α
  f2 : α
  f3 : α
  fn : Fn α

/-- `NumConstants::VERY_BIG()` = 1.7E+23 -/
def veryBig : α := ofRat 170000000000000000000000 1

/-- `(abs(f) >= NumConstants::VERY_BIG()) || std::isnan(f)` -/
def tooBig (x : α) : Bool := geb (abs x) veryBig || neb x x

def resize {β : Type} (l : List β) (n : Nat) (z : β) : List β :=
  l.take n ++ List.replicate (n - l.length) z

/-- `setParametersToDerivate` (NumericalDerivative.h:125): `vector::resize` keeps what is there -/
def W.setVars (w : W α) (vs : List Name) : W α :=
  let n := vs.length
  { w with vars := vs,
           der1 := resize w.der1 n (some zero),
           der2 := resize w.der2 n (some zero),
           cross := (resize w.cross n []).map (fun row => resize row n (some zero)) }

/-- `index_.find(name)`: the map was filled in increasing `i`, so the last position wins -/
def idxGo : List Name → Name → Nat → Option Nat → Option Nat
  | [], _, _, acc => acc
  | v :: vs, n, i, acc => idxGo vs n (i + 1) (if v == n then some i else acc)
def idx (vars : List Name) (n : Name) : Option Nat := idxGo vars n 0 none

/-- `function1_` / `function2_` enable switches: only a wrapped function of the right kind has them -/
def Fn.enable1 (fn : Fn α) (b : Bool) : Fn α := if fn.kind ≥ 1 then { fn with en1 := b } else fn
def Fn.enable2 (fn : Fn α) (b : Bool) : Fn α := if fn.kind ≥ 2 then { fn with en2 := b } else fn

/-! #### the difference formulas, as written in the sources -/

/-- Two:93  `(f2_ - f1_) / h` -/
def d1Two (f1 f2 h : α) : α := (f2 - f1) / h
/-- Three:137  `(f1_ - f3_) / (hf1 - hf3)` -/
def d1Three (f1 f3 hf1 hf3 : α) : α := (f1 - f3) / (hf1 - hf3)
/-- Three:138  `((f1_ - f2_) / hf1 - (f3_ - f2_) / hf3) * 2 / (hf1 - hf3)` -/
def d2Three (f1 f2 f3 hf1 hf3 : α) : α := ((f1 - f2) / hf1 - (f3 - f2) / hf3) * ofInt 2 / (hf1 - hf3)
/-- Three:202  `((f22_ - f21_) - (f12_ - f11_)) / (4 * h1 * h2)` -/
def crossThree (f11 f12 f21 f22 h1 h2 : α) : α := ((f22 - f21) - (f12 - f11)) / (ofInt 4 * h1 * h2)
/-- Five:63  `(f1_ - 8. * f2_ + 8. * f4_ - f5_) / (12. * h)` -/
def d1Five (f1 f2 f4 f5 h : α) : α := (f1 - ofInt 8 * f2 + ofInt 8 * f4 - f5) / (ofInt 12 * h)
/-- Five:64  `(-f1_ + 16. * f2_ - 30. * f3_ + 16. * f4_ - f5_) / (12. * h * h)` -/
def d2Five (f1 f2 f3 f4 f5 h : α) : α := (-f1 + ofInt 16 * f2 - ofInt 30 * f3 + ofInt 16 * f4 - f5) / (ofInt 12 * h * h)
/-- Five:75 / Five:90  `(f3_ - f2_) / h`, `(f4_ - f3_) / h` -/
def d1Side (fa fb h : α) : α := (fa - fb) / h
/-- Five:76 / Five:91  `(f3_ - 2. * f2_ + f1_) / (h * h)`, `(f5_ - 2. * f4_ + f3_) / (h * h)` -/
def d2Side (fa fb fc h : α) : α := (fa - ofInt 2 * fb + fc) / (h * h)

/-! #### probing (two- and three-point schemes) -/

/-- result of one pass through a `try` body -/
structure Att (α : Type) where
  fn : Fn α
  p : PList α
  /-- the value assigned to `f1_`/`f2_`/`f3_` if the assignment was reached -/
  fv : Option α
  ok : Bool

/-- the body of the `try` blocks at Two:66-77, Three:68-79 and Three:106-117:
```
p[0].setValue(x);  function_->setParameters(p);  p = p.createSubList(0);
fk_ = function_->getValue();  if (too big or NaN) throw ConstraintException
```
`ok = false` stands for "a ConstraintException was thrown" (nothing else can be thrown here). -/
def attempt (f : List α → α) (fn : Fn α) (p : PList α) (x : α) : Att α :=
  match p with
  | [] => ⟨fn, p, none, false⟩       -- p[0] of an empty list: never reached (p has 1 or 2 elements)
  | p0 :: rest =>
    match p0.setValue x with
    | .error _ => ⟨fn, p, none, false⟩
    | .ok p0' =>
      let p' := p0' :: rest
      match fn.setParameters f p' with
      | (fn', some _) => ⟨fn', p', none, false⟩
      | (fn', none) =>
        if tooBig fn'.fval then ⟨fn', [p0'], some fn'.fval, false⟩
        else ⟨fn', [p0'], some fn'.fval, true⟩

/-- result of a `while (hf == 0) { try … catch … }` loop -/
structure Retry (α : Type) where
  fn : Fn α
  p : PList α
  h : α
  /-- last value assigned to the `f` slot, if any -/
  fv : Option α
  /-- `hf` : the step that worked, `none` when the loop gave up (`hf` still 0) -/
  hf : Option α
  /-- `hang`: the `while` never ends (h = 0); otherwise an exception thrown by the reset in the
  give-up branch (it is thrown inside the handler, so it escapes) -/
  exc : Option Exc

/-- the retry loops (Two:64-91, Three:66-93, Three:104-127).  `n` = tries left (10 at the start);
`resetPrev` is the fix of the give-up path in the first loop: the previous parameter, which is
still displaced in `function_`, is reset before giving up. -/
def retry (f : List α → α) (resetPrev : Bool) : Nat → Fn α → PList α → α → α → Option α → Retry α
  | 0, fn, p, _, h, fv => ⟨fn, p, h, fv, none, none⟩
  | n + 1, fn, p, value, h, fv =>
    let a := attempt f fn p (value + h)
    let fv' := match a.fv with
      | some v => some v
      | none => fv
    if a.ok then
      -- hf = h; the loop ends iff hf != 0
      if eqb h zero then ⟨a.fn, a.p, h, fv', none, some .hang⟩ else ⟨a.fn, a.p, h, fv', some h, none⟩
    else if n = 0 then
      -- ++nbtry == 10: give up
      if resetPrev && decide (a.p.length > 1) then
        let r := a.fn.setParameters f (subIdx a.p 1)
        ⟨r.1, a.p, h, fv', none, r.2⟩
      else ⟨a.fn, a.p, h, fv', none, none⟩
    else
      let h' := if ltb h zero then -h else h / (-(ofInt 2))
      retry f resetPrev n a.fn a.p value h' fv'

/-- state of the `for` loop over `variables_` -/
structure Loop (α : Type) where
  w : W α
  p : PList α
  lastVar : Option Name

/-- beginning of a loop iteration (Two:39-61, Three:41-63), after the `hasParameter` test:
the sub-list `{var, lastVar}` (or `{var}` the first time), the current value and the step. -/
def prepare (params : PList α) (hh : α) (lp : Loop α) (var : Name) : Except Exc (PList α × α × α) :=
  let names := match lp.lastVar with
    | none => [var]
    | some l => [var, l]
  match subNames params names with
  | .error e => .error e
  | .ok p =>
    match lp.w.fn.valueOf var with
    | .error e => .error e
    | .ok value =>
      match p with
      | [] => .error .index
      | p0 :: _ =>
        let h := -(one + abs value) * hh
        let h := if ltb (abs h) p0.prec then (if ltb h zero then -p0.prec else p0.prec) else h
        .ok (p, value, h)

def setAt {β : Type} (l : List β) (i : Nat) (v : β) : List β := l.set i v

/-- one iteration of the two-point loop (Two:37-94) -/
def step2 (f : List α → α) (params : PList α) (lp : Loop α) (i : Nat) (var : Name) : Loop α × Option Exc :=
  if !has params var then (lp, none) else
  match prepare params lp.w.h lp var with
  | .error e => (lp, some e)
  | .ok (p, value, h) =>
    let r := retry f true 10 lp.w.fn p value h none
    let f2 := match r.fv with
      | some v => v
      | none => lp.w.f2
    let w := { lp.w with fn := r.fn, f2 := f2 }
    if r.exc.isSome then ({ w := w, p := r.p, lastVar := some var }, r.exc) else
    -- Two:93  der1_[i] = (hf2 == 0) ? log(-1) : (f2_ - f1_) / h
    let d : DVal α := match r.hf with
      | none => none
      | some _ => some (d1Two w.f1 f2 r.h)
    let w := { w with der1 := setAt w.der1 i d }
    ({ w := w, p := r.p, lastVar := some var }, none)

/-- one iteration of the three-point loop (Three:39-140) -/
def step3 (f : List α → α) (params : PList α) (lp : Loop α) (i : Nat) (var : Name) : Loop α × Option Exc :=
  if !has params var then (lp, none) else
  match prepare params lp.w.h lp var with
  | .error e => (lp, some e)
  | .ok (p, value, h) =>
    let r1 := retry f true 10 lp.w.fn p value h none
    let f1 := match r1.fv with
      | some v => v
      | none => lp.w.f1
    let w := { lp.w with fn := r1.fn, f1 := f1 }
    if r1.exc.isSome then ({ w := w, p := r1.p, lastVar := some var }, r1.exc) else
    match r1.hf with
    | none =>
      let w := { w with der1 := setAt w.der1 i none, der2 := setAt w.der2 i none }
      ({ w := w, p := r1.p, lastVar := some var }, none)
    | some hf1 =>
      let h3 := if ltb r1.h zero then -r1.h else r1.h / ofInt 2
      let r3 := retry f false 10 w.fn r1.p value h3 none
      let f3 := match r3.fv with
        | some v => v
        | none => w.f3
      let w := { w with fn := r3.fn, f3 := f3 }
      if r3.exc.isSome then ({ w := w, p := r3.p, lastVar := some var }, r3.exc) else
      match r3.hf with
      | none =>
        let w := { w with der1 := setAt w.der1 i none, der2 := setAt w.der2 i none }
        ({ w := w, p := r3.p, lastVar := some var }, none)
      | some hf3 =>
        let d1 := d1Three w.f1 w.f3 hf1 hf3
        let d2 := d2Three w.f1 w.f2 w.f3 hf1 hf3
        let w := { w with der1 := setAt w.der1 i (some d1), der2 := setAt w.der2 i (some d2) }
        ({ w := w, p := r3.p, lastVar := some var }, none)

/-- `p[0].setValue(x); function_->setParameters(p); fk_ = function_->getValue();` of the five-point
scheme (`p` keeps its two elements); `none` = a ConstraintException was thrown -/
def probe5 (f : List α → α) (fn : Fn α) (p : PList α) (x : α) : Fn α × PList α × Option α :=
  match p with
  | [] => (fn, p, none)
  | p0 :: rest =>
    match p0.setValue x with
    | .error _ => (fn, p, none)
    | .ok p0' =>
      let p' := p0' :: rest
      match fn.setParameters f p' with
      | (fn', some _) => (fn', p', none)
      | (fn', none) => (fn', p', some fn'.fval)

/-- outcome of a branch of the five-point iteration: the derivatives, or "a ConstraintException
was thrown" -/
abbrev Br (α : Type) := Fn α × PList α × Option (α × α)

/-- inner `try` (Five:51-65): central approximation, `f1` is the value at `value - 2h` -/
def central5 (f : List α → α) (fn : Fn α) (p : PList α) (value h f1 f3 : α) : Br α :=
  let two : α := ofInt 2
  match probe5 f fn p (value + two * h) with
  | (fn, p, none) => (fn, p, none)
  | (fn, p, some f5) =>
    match probe5 f fn p (value - h) with
    | (fn, p, none) => (fn, p, none)
    | (fn, p, some f2) =>
      match probe5 f fn p (value + h) with
      | (fn, p, none) => (fn, p, none)
      | (fn, p, some f4) =>
        (fn, p, some (d1Five f1 f2 f4 f5 h, d2Five f1 f2 f3 f4 f5 h))

/-- inner `catch` (Five:66-77): right limit raised, backward approximation -/
def backward5 (f : List α → α) (fn : Fn α) (p : PList α) (value h f3 : α) : Br α :=
  let two : α := ofInt 2
  match probe5 f fn p (value - h) with
  | (fn, p, none) => (fn, p, none)
  | (fn, p, some f2) =>
    match probe5 f fn p (value - two * h) with
    | (fn, p, none) => (fn, p, none)
    | (fn, p, some f1) => (fn, p, some (d1Side f3 f2 h, d2Side f3 f2 f1 h))

/-- outer `catch`, its `try` (Five:82-92): left limit raised, forward approximation -/
def forward5 (f : List α → α) (fn : Fn α) (p : PList α) (value h f3 : α) : Br α :=
  let two : α := ofInt 2
  match probe5 f fn p (value + h) with
  | (fn, p, none) => (fn, p, none)
  | (fn, p, some f4) =>
    match probe5 f fn p (value + two * h) with
    | (fn, p, none) => (fn, p, none)
    | (fn, p, some f5) => (fn, p, some (d1Side f4 f3 h, d2Side f5 f4 f3 h))

/-- the nested `try`s of Five:46-101: a ConstraintException in the central branch leads to the
backward branch, one in the backward branch (which is inside the outer `try`) or at the first
probe to the forward branch, one in the forward branch to the give-up handler (`none`). -/
def probes5 (f : List α → α) (fn : Fn α) (p : PList α) (value h f3 : α) : Br α :=
  let two : α := ofInt 2
  match probe5 f fn p (value - two * h) with
  | (fn, p, none) => forward5 f fn p value h f3
  | (fn, p, some f1) =>
    match central5 f fn p value h f1 f3 with
    | (fn, p, some d) => (fn, p, some d)
    | (fn, p, none) =>
      match backward5 f fn p value h f3 with
      | (fn, p, some d) => (fn, p, some d)
      | (fn, p, none) => forward5 f fn p value h f3

/-- one iteration of the five-point loop (Five:24-102) -/
def step5 (f : List α → α) (params : PList α) (lp : Loop α) (i : Nat) (var : Name) : Loop α × Option Exc :=
  if !has params var then (lp, none) else
  let names := match lp.lastVar with
    | none => [var]
    | some l => [var, l]
  match subNames params names with
  | .error e => (lp, some e)
  | .ok p =>
    match lp.w.fn.valueOf var with
    | .error e => (lp, some e)
    | .ok value =>
      let w := lp.w
      let h := (one + abs value) * w.h
      match probes5 f w.fn p value h w.f3 with
      | (fn, p, some (d1, d2)) =>
        ({ w := { w with fn := fn, der1 := setAt w.der1 i (some d1), der2 := setAt w.der2 i (some d2) },
           p := p, lastVar := some var }, none)
      | (fn, p, none) =>
        -- Five:93-100 (fix): no room on either side.  The previous parameter, which may still be
        -- displaced in `function_`, is reset (an exception thrown there, inside the handler,
        -- escapes), then the NaN marker is stored as in the two- and three-point schemes.
        let r := if decide (p.length > 1) then fn.setParameters f (subIdx p 1) else (fn, none)
        match r.2 with
        | some e => ({ w := { w with fn := r.1 }, p := p, lastVar := some var }, some e)
        | none =>
          ({ w := { w with fn := r.1, der1 := setAt w.der1 i none, der2 := setAt w.der2 i none },
             p := p, lastVar := some var }, none)

/-- the `for` loop over `variables_`, leaving at the first exception -/
def loopGo (step : Loop α → Nat → Name → Loop α × Option Exc) : List Name → Nat → Loop α → Loop α × Option Exc
  | [], _, lp => (lp, none)
  | v :: vs, i, lp =>
    match step lp i v with
    | (lp', some e) => (lp', some e)
    | (lp', none) => loopGo step vs (i + 1) lp'

/-- `function2_` is null in the two-point scheme (it has no SecondOrderDerivable constructor) -/
def W.enable2 (w : W α) (b : Bool) : Fn α :=
  if w.scheme = .two then w.fn else w.fn.enable2 b

/-! #### cross derivatives (three-point scheme) -/

/-- `q.setValue(x); function_->setParameters({q}); getValue()`; `none` = ConstraintException -/
def setEval (f : List α → α) (fn : Fn α) (q : Param α) (x : α) : Fn α × Option (Param α × α) :=
  match q.setValue x with
  | .error _ => (fn, none)
  | .ok q' =>
    match fn.setParameters f [q'] with
    | (fn', some _) => (fn', none)
    | (fn', none) => (fn', some (q', fn'.fval))

structure CLoop (α : Type) where
  w : W α
  l1 : Name
  l2 : Name

def setAt2 {β : Type} (m : List (List β)) (i j : Nat) (v : β) : List (List β) :=
  match m[i]? with
  | some row => m.set i (row.set j v)
  | none => m

/-- the `catch` of the cross-derivative block (Three:204-213, with the fix): the analytical
derivatives of the wrapped function are switched back on, the wrapped function is sent back to
`parameters`, then the ConstraintException is rethrown as a plain Exception; an exception thrown by
`function_->setParameters(parameters)`, inside the handler, escapes instead. -/
def crossFail (f : List α → α) (params : PList α) (cl : CLoop α) (fn : Fn α) : CLoop α × Option Exc :=
  let r := ((fn.enable1 cl.w.c1).enable2 cl.w.c2).setParameters f params
  ({ cl with w := { cl.w with fn := r.1 } }, some (match r.2 with
    | some e => e
    | none => .bpp))

/-- one pair of the cross-derivative block (Three:159-216).  A ConstraintException anywhere in the
four probes ends in `crossFail`. -/
def crossPair (f : List α → α) (params : PList α) (cl : CLoop α) (i j : Nat) (var1 var2 : Name) : CLoop α × Option Exc :=
  let vars := [var1, var2]
    ++ (if cl.l1 != var1 && cl.l1 != var2 then [cl.l1] else [])
    ++ (if cl.l2 != var1 && cl.l2 != var2 && cl.l2 != cl.l1 then [cl.l2] else [])
  match subNames params vars with
  | .error e => (cl, some e)
  | .ok p =>
    match p with
    | p0 :: p1 :: rest =>
      let w := cl.w
      let value1 := p0.value
      let value2 := p1.value
      let h1 := (one + abs value1) * w.h
      let h2 := (one + abs value2) * w.h
      let fail (fn : Fn α) : CLoop α × Option Exc := crossFail f params cl fn
      match p0.setValue (value1 - h1) with
      | .error _ => fail w.fn
      | .ok p0a =>
        match p1.setValue (value2 - h2) with
        | .error _ => fail w.fn
        | .ok p1a =>
          match w.fn.setParameters f (p0a :: p1a :: rest) with
          | (fn, some _) => fail fn
          | (fn, none) =>
            let f11 := fn.fval
            match setEval f fn p1a (value2 + h2) with
            | (fn, none) => fail fn
            | (fn, some (p1b, f12)) =>
              match setEval f fn p0a (value1 + h1) with
              | (fn, none) => fail fn
              | (fn, some (_, f22)) =>
                match setEval f fn p1b (value2 - h2) with
                | (fn, none) => fail fn
                | (fn, some (_, f21)) =>
                  let c := crossThree f11 f12 f21 f22 h1 h2
                  ({ w := { w with fn := fn, cross := setAt2 w.cross i j (some c) }, l1 := var1, l2 := var2 }, none)
    | _ => (cl, some .index)

/-- inner `for (j …)` (Three:152-217) -/
def crossRow (f : List α → α) (params : PList α) (i : Nat) (var1 : Name) : List Name → Nat → CLoop α → CLoop α × Option Exc
  | [], _, cl => (cl, none)
  | var2 :: vs, j, cl =>
    if j = i then
      match cl.w.der2[i]? with
      | none => (cl, some .index)
      | some d => crossRow f params i var1 vs (j + 1) { cl with w := { cl.w with cross := setAt2 cl.w.cross i j d } }
    else if !has params var2 then crossRow f params i var1 vs (j + 1) cl
    else
      match crossPair f params cl i j var1 var2 with
      | (cl', some e) => (cl', some e)
      | (cl', none) => crossRow f params i var1 vs (j + 1) cl'

/-- outer `for (i …)` (Three:147-218) -/
def crossGo (f : List α → α) (params : PList α) (all : List Name) : List Name → Nat → CLoop α → CLoop α × Option Exc
  | [], _, cl => (cl, none)
  | var1 :: vs, i, cl =>
    if !has params var1 then crossGo f params all vs (i + 1) cl
    else
      match crossRow f params i var1 all 0 cl with
      | (cl', some e) => (cl', some e)
      | (cl', none) => crossGo f params all vs (i + 1) cl'

/-! #### updateDerivatives -/

def nanAll (w : W α) : W α :=
  { w with der1 := w.der1.map (fun _ => none), der2 := w.der2.map (fun _ => none) }

/-- end of the computing branch (Two:95-99, Three:221-227, Five:103-109): switch the analytical
derivatives of the wrapped function back on and "reset the last parameter"; `all` (three-point
scheme with cross derivatives) resets the whole list instead. -/
def finish (f : List α → α) (params : PList α) (lastVar : Option Name) (all : Bool) (w : W α) : W α × Option Exc :=
  let fn := ({ w with fn := w.fn.enable1 w.c1 } : W α).enable2 w.c2
  match lastVar with
  | none => ({ w with fn := fn }, none)
  | some l =>
    if all then
      let r := fn.setParameters f params
      ({ w with fn := r.1 }, r.2)
    else
      match subNames params [l] with
      | .error e => ({ w with fn := fn }, some e)
      | .ok q =>
        let r := fn.setParameters f q
        ({ w with fn := r.1 }, r.2)

/-- `TwoPointsNumericalDerivative::updateDerivatives` (Two:10-112) -/
def update2 (f : List α → α) (w : W α) (params : PList α) : W α × Option Exc :=
  if w.c1 && decide (w.vars.length > 0) then
    let fn := w.fn.enable1 false
    match fn.setParameters f params with
    | (fn, some e) => ({ w with fn := fn }, some e)
    | (fn, none) =>
      let w := { w with fn := fn, f1 := fn.fval }
      -- Two:20-31: NaN everywhere, analytical derivatives of the wrapped function switched back on
      if tooBig w.f1 then (nanAll { w with fn := w.fn.enable1 w.c1 }, none) else
      match loopGo (step2 f params) w.vars 0 { w := w, p := [], lastVar := none } with
      | (lp, some e) => (lp.w, some e)
      | (lp, none) => finish f params lp.lastVar false lp.w
  else
    let fn := w.fn.enable1 w.c1
    let fn := ({ w with fn := fn } : W α).enable2 w.c2
    match fn.setParameters f params with
    | (fn, some e) => ({ w with fn := fn }, some e)
    | (fn, none) => ({ w with fn := fn, f1 := fn.fval }, none)

/-- `ThreePointsNumericalDerivative::updateDerivatives` (Three:10-240) -/
def update3 (f : List α → α) (w : W α) (params : PList α) : W α × Option Exc :=
  if w.c1 && decide (w.vars.length > 0) then
    let fn := (w.fn.enable1 false).enable2 false
    match fn.setParameters f params with
    | (fn, some e) => ({ w with fn := fn }, some e)
    | (fn, none) =>
      let w := { w with fn := fn, f2 := fn.fval }
      -- Three:20-33: NaN everywhere, analytical derivatives of the wrapped function switched back on
      if tooBig w.f2 then (nanAll { w with fn := (w.fn.enable1 w.c1).enable2 w.c2 }, none) else
      match loopGo (step3 f params) w.vars 0 { w := w, p := [], lastVar := none } with
      | (lp, some e) => (lp.w, some e)
      | (lp, none) =>
        if lp.w.cx then
          match lp.lastVar with
          | none =>
            -- no variable of `variables_` is in `parameters`: the block does nothing
            finish f params lp.lastVar true lp.w
          | some l =>
            match crossGo f params lp.w.vars lp.w.vars 0 { w := lp.w, l1 := l, l2 := l } with
            | (cl, some e) => (cl.w, some e)
            | (cl, none) => finish f params lp.lastVar true cl.w
        else finish f params lp.lastVar false lp.w
  else
    let fn := (w.fn.enable1 w.c1).enable2 w.c2
    match fn.setParameters f params with
    | (fn, some e) => ({ w with fn := fn }, some e)
    | (fn, none) => ({ w with fn := fn, f2 := fn.fval }, none)

/-- `FivePointsNumericalDerivative::updateDerivatives` (Five:10-122) -/
def update5 (f : List α → α) (w : W α) (params : PList α) : W α × Option Exc :=
  if w.c1 && decide (w.vars.length > 0) then
    let fn := (w.fn.enable1 false).enable2 false
    match fn.setParameters f params with
    | (fn, some e) => ({ w with fn := fn }, some e)
    | (fn, none) =>
      let w := { w with fn := fn, f3 := fn.fval }
      match loopGo (step5 f params) w.vars 0 { w := w, p := [], lastVar := none } with
      | (lp, some e) => (lp.w, some e)
      | (lp, none) => finish f params lp.lastVar false lp.w
  else
    let fn := (w.fn.enable1 w.c1).enable2 w.c2
    match fn.setParameters f params with
    | (fn, some e) => ({ w with fn := fn }, some e)
    | (fn, none) => ({ w with fn := fn, f3 := fn.fval }, none)

def W.update (f : List α → α) (w : W α) (params : PList α) : W α × Option Exc :=
  match w.scheme with
  | .two => update2 f w params
  | .three => update3 f w params
  | .five => update5 f w params

/-- `getValue()` of the wrapper -/
def W.value (w : W α) : α :=
  match w.scheme with
  | .two => w.f1
  | .three => w.f2
  | .five => w.f3

/-! #### entry points (NumericalDerivative.h:198-231; `df`/`d2f` of Functions.h:138, 193, 220 are
`setParameters` followed by a getter: composed in the driver) -/
inductive Entry (α : Type)
  | setParameters (pl : PList α)
  | setAll (pl : PList α)
  | setOne (n : Name) (v : α)
  | setVals (pl : PList α)
  | matchPV (pl : PList α)
  | f (pl : PList α)

/-- the call forwarded to the wrapped function; the list then handed to `updateDerivatives`
(`none`: the forwarded call raised) and the Boolean `matchParametersValues` returns -/
def Fn.forward (f : List α → α) (fn : Fn α) : Entry α → Fn α × Option Exc × Bool
  | .setParameters pl | .f pl => let r := fn.setParameters f pl; (r.1, r.2, false)
  | .setAll pl => let r := fn.setAllParametersValues f pl; (r.1, r.2, false)
  | .setOne n v => let r := fn.setParameterValue f n v; (r.1, r.2, false)
  | .setVals pl => let r := fn.setParametersValues f pl; (r.1, r.2, false)
  | .matchPV pl => fn.matchPV f pl

def Entry.list (fn : Fn α) : Entry α → Except Exc (PList α)
  | .setParameters pl | .f pl | .setAll pl | .setVals pl | .matchPV pl => .ok pl
  | .setOne n _ => subNames fn.params [n]

/-- an entry point of the wrapper: forward, then `updateDerivatives` -/
def W.call (f : List α → α) (w : W α) (e : Entry α) : W α × Option Exc × Bool :=
  match w.fn.forward f e with
  | (fn, some x, b) => ({ w with fn := fn }, some x, b)
  | (fn, none, b) =>
    match e.list fn with
    | .error x => ({ w with fn := fn }, some x, b)
    | .ok pl =>
      let r := ({ w with fn := fn } : W α).update f pl
      (r.1, r.2, b)

/-! #### reading derivatives (NumericalDerivative.h:146-189), delegation -/

/-- analytical derivatives of the wrapped function, by position in its own parameter list -/
structure Deriv (α : Type) where
  d1 : Nat → List α → α
  d2 : Nat → List α → α
  dx : Nat → Nat → List α → α

def posOf (l : PList α) (n : Name) : Option Nat :=
  let k := l.findIdx (fun p => p.name == n)
  if k < l.length then some k else none

/-- the wrapped function's own `getFirstOrderDerivative` (harness: raises unless enabled and known) -/
def Fn.getD1 (D : Deriv α) (fn : Fn α) (n : Name) : Except Exc α :=
  if !fn.en1 then .error .bpp else
  match posOf fn.params n with
  | none => .error .bpp
  | some k => .ok (D.d1 k fn.pt1)
def Fn.getD2 (D : Deriv α) (fn : Fn α) (n : Name) : Except Exc α :=
  if !fn.en2 then .error .bpp else
  match posOf fn.params n with
  | none => .error .bpp
  | some k => .ok (D.d2 k fn.pt2)
def Fn.getDX (D : Deriv α) (fn : Fn α) (n m : Name) : Except Exc α :=
  if !fn.en2 then .error .bpp else
  match posOf fn.params n, posOf fn.params m with
  | some k, some l => .ok (D.dx k l fn.pt2)
  | _, _ => .error .bpp

/-- what a getter hands out: a stored numerical value (possibly the NaN marker) or a delegated one -/
def W.getD1 (D : Deriv α) (w : W α) (n : Name) : Except Exc (DVal α) :=
  match idx w.vars n with
  | some i =>
    if w.c1 then
      match w.der1[i]? with
      | some d => .ok d
      | none => .error .index
    else if w.fn.kind ≥ 1 then (w.fn.getD1 D n).map some else .error .bpp
  | none => if w.fn.kind ≥ 1 then (w.fn.getD1 D n).map some else .error .bpp

def W.getD2 (D : Deriv α) (w : W α) (n : Name) : Except Exc (DVal α) :=
  if w.scheme = .two then .error .bpp else
  match idx w.vars n with
  | some i =>
    if w.c2 then
      match w.der2[i]? with
      | some d => .ok d
      | none => .error .index
    else if w.fn.kind ≥ 2 then (w.fn.getD2 D n).map some else .error .bpp
  | none => if w.fn.kind ≥ 2 then (w.fn.getD2 D n).map some else .error .bpp

def W.getDX (D : Deriv α) (w : W α) (n m : Name) : Except Exc (DVal α) :=
  if w.scheme ≠ .three then .error .bpp else
  match idx w.vars n, idx w.vars m with
  | some i, some j =>
    if w.cx then
      match w.cross[i]? with
      | some row =>
        match row[j]? with
        | some d => .ok d
        | none => .error .index
      | none => .error .index
    else if w.fn.kind ≥ 2 then (w.fn.getDX D n m).map some else .error .bpp
  | _, _ => if w.fn.kind ≥ 2 then (w.fn.getDX D n m).map some else .error .bpp

end
end Bpp.NumDeriv
