import BppModel.Dag
import BppModel.TreeObsCopy
import BppModel.ObserverExt
/-
Model of the object-level wrappers of src/Bpp/Graph/AssociationDAGraphImplObserver.h
(`AssociationDAGlobalGraphObserver<N, E>`): the DAG container of `BppModel/Dag.lean` watched by the
observers of `BppModel/Observer.lean`.  A `DW` is a `World` (graph + observers) plus the two cached
flags of the DAG container.  Every wrapper is `getNodeGraphid` (throws for an unknown object), the
container call, and `getNodesFromGraphid` on the answer (ids without object are skipped).

`addFather(node, father, edgeObject)` (:271) / `addSon(node, son, edgeObject)` (:293) with an edge object
try the id-level call with `getEdgeGraphid(edgeObject)` and fall back to the observer's `link` in the
`catch`: for an unknown object `getEdgeGraphid` throws; for a known one the id exists in the graph and
`GlobalGraph::link(a, b, id)` throws "already existing edgeId" — either way, and also for unknown node
objects, what runs in the end is `link(father, son, edgeObject)` of the base observer, with nothing
changed before.  Without edge object: the id-level `addFather` / `addSon` of the container.
-/
namespace Bpp.Graph

structure DW where
  w : World
  valid : Bool := false
  rooted : Bool := false
deriving DecidableEq, Repr

namespace DW
open TW (WRes)

/-- `AssociationDAGraphImplObserver()` (:37): a directed graph -/
def init : DW := { w := World.init true }

def toD (dw : DW) : D := { g := dw.w.g, valid := dw.valid, rooted := dw.rooted }

/-- a graph-level mutator: notifications are delivered, both flags are reset when a primitive ran -/
def liftW {α : Type} (dw : DW) (r : GOut α) : GOut α × DW :=
  let p := dw.w.graphOp r
  let keep : Bool := match r with
    | .ok _ _ => false
    | .exc g' => decide (g' = dw.w.g)
  (p.1, { w := p.2, valid := keep && dw.valid, rooted := keep && dw.rooted })

def unit {α : Type} (r : GOut α × DW) : GOut Unit × DW := (r.1.forget, r.2)

def andThen {α β : Type} (r : GOut α × DW) (f : α → DW → GOut β × DW) : GOut β × DW :=
  match r.1 with
  | .ok a _ => f a r.2
  | .exc g => (.exc g, r.2)

def touch (r : GOut Unit × DW) : GOut Unit × DW :=
  match r.1 with
  | .ok _ _ => (r.1, { r.2 with valid := false, rooted := false })
  | .exc _ => r

def ofG (r : GOut Unit × DW) : WRes × DW :=
  match r.1 with
  | .ok _ _ => (.ok, r.2)
  | .exc _ => (.exc .bpp, r.2)

/-- an operation of the base observer (`World.*`) that runs a primitive of the graph when it succeeds -/
def ofO (dw : DW) (r : OOut Unit) : WRes × DW :=
  match r with
  | .ok _ w' => (.ok, { w := w', valid := false, rooted := false })
  | .exc k w' => (.exc k, { w := w', valid := decide (w'.g = dw.w.g) && dw.valid, rooted := decide (w'.g = dw.w.g) && dw.rooted })
  | .ub => (.ub, dw)

def createNode (dw : DW) (k : Nat) (a : Obj) : WRes × DW := dw.ofO (dw.w.createNode k a)
def link (dw : DW) (k : Nat) (a b : Obj) (x : Option Obj) : WRes × DW := dw.ofO (dw.w.link k a b x)
def unlink (dw : DW) (k : Nat) (a b : Obj) : WRes × DW := dw.ofO (dw.w.unlink k a b)
def deleteNode (dw : DW) (k : Nat) (a : Obj) : WRes × DW := dw.ofO (dw.w.deleteNode k a)

/-- `setRoot(nodeObject)` (AssociationGraphImplObserver.h:718, inherited) -/
def setRootObj (dw : DW) (k : Nat) (a : Obj) : WRes × DW := dw.ofO (dw.w.setRootObj k a)

/-- the ids of two node objects; `none` = `getNodeGraphid` throws -/
def ids2 (dw : DW) (k : Nat) (a b : Obj) : Option (Option (Nat × Nat)) :=
  match dw.w.getObs k with
  | none => none
  | some o =>
    match AL.find a o.Ng, AL.find b o.Ng with
    | some ia, some ib => some (some (ia, ib))
    | _, _ => some none

/-- `addFather(nodeObject, fatherObject, edgeObject)` (:271) -/
def addFather (dw : DW) (k : Nat) (n f : Obj) (x : Option Obj) : WRes × DW :=
  match x with
  | some _ => dw.link k f n x
  | none =>
    match dw.ids2 k n f with
    | none => (.ub, dw)
    | some none => (.exc .bpp, dw)
    | some (some (inn, ifa)) => ofG (touch (unit (dw.liftW (dw.w.g.link ifa inn))))

/-- `addSon(nodeObject, sonObject, edgeObject)` (:293) -/
def addSon (dw : DW) (k : Nat) (n s : Obj) (x : Option Obj) : WRes × DW :=
  match x with
  | some _ => dw.link k n s x
  | none =>
    match dw.ids2 k n s with
    | none => (.ub, dw)
    | some none => (.exc .bpp, dw)
    | some (some (inn, is)) => ofG (touch (unit (dw.liftW (dw.w.g.link inn is))))

/-- `DAGraphImpl::removeSon` with the observers told -/
def removeSonG (dw : DW) (n s : Nat) : GOut Unit × DW := unit (dw.liftW (dw.w.g.unlink n s))

/-- `DAGraphImpl::removeFather` (DAGraphImpl.h:303) with the observers told -/
def removeFatherG (dw : DW) (n f : Nat) : GOut Unit × DW :=
  match RowQ.nbIn (dw.w.g.rowOf n) with
  | none => (.exc dw.w.g, dw)
  | some c =>
    let d1 : DW := if c = 1 then { dw with rooted := false } else dw
    unit (d1.liftW (d1.w.g.unlink f n))

/-- `removeSon(nodeObject, sonObject)` (:259) -/
def removeSon (dw : DW) (k : Nat) (n s : Obj) : WRes × DW :=
  match dw.ids2 k n s with
  | none => (.ub, dw)
  | some none => (.exc .bpp, dw)
  | some (some (inn, is)) => ofG (dw.removeSonG inn is)

/-- `removeFather(nodeObject, fatherObject)` (:242) -/
def removeFather (dw : DW) (k : Nat) (n f : Obj) : WRes × DW :=
  match dw.ids2 k n f with
  | none => (.ub, dw)
  | some none => (.exc .bpp, dw)
  | some (some (inn, ifa)) => ofG (dw.removeFatherG inn ifa)

/-- `removeSons(nodeObject)` (:251) / `removeFathers(nodeObject)` (:233): the removed nodes as objects, read
from the maps as they are after the removals -/
def removeAll (dw : DW) (k : Nat) (a : Obj) (fathers : Bool) : Option (List Obj) × WRes × DW :=
  match dw.w.getObs k with
  | none => (none, .ub, dw)
  | some o =>
    match AL.find a o.Ng with
    | none => (none, .exc .bpp, dw)
    | some ia =>
      match (if fathers then dw.w.g.inNeighbors ia else dw.w.g.outNeighbors ia) with
      | none => (none, .exc .bpp, dw)
      | some l =>
        let r := l.foldl (fun acc s => andThen acc (fun _ d' => if fathers then d'.removeFatherG ia s else d'.removeSonG ia s)) (.ok () dw.w.g, dw)
        match r.1 with
        | .ok _ _ =>
          match r.2.w.getObs k with
          | some o' => (some (o'.nodesFromGids l), .ok, r.2)
          | none => (none, .ub, r.2)
        | .exc _ => (none, .exc .bpp, r.2)

/-- `rootAt(nodeObject)` (:134): the container's `rootAt`; no notification is involved -/
def rootAt (dw : DW) (k : Nat) (a : Obj) : TRes (WRes × DW) :=
  match dw.w.getObs k with
  | none => .ok (.ub, dw)
  | some o =>
    match AL.find a o.Ng with
    | none => .ok (.exc .bpp, dw)
    | some ia =>
      match dw.toD.rootAt ia with
      | .ok r =>
        .ok ((match r.1 with | .ok _ _ => WRes.ok | .exc _ => WRes.exc .bpp),
             { w := { dw.w with g := r.2.g }, valid := r.2.valid, rooted := r.2.rooted })
      | .exc => .exc
      | .fuel => .fuel
      | .ub => .ub

/-- `isValid()` (:99) -/
def isValid (dw : DW) : TRes Bool × DW :=
  let r := dw.toD.isValid
  (r.1, { dw with valid := r.2.valid })

/-- `isRooted()` (:108) -/
def isRooted (dw : DW) : Bool × DW :=
  let r := dw.toD.isRooted
  (r.1, { dw with rooted := r.2.rooted })

/-- the copy constructor (:55) / `clone()` (:89) / `operator=` (:74): the base class's (C14) -/
def ofObsOnly (dw : DW) (r : OOut Unit) : WRes × DW :=
  match r with
  | .ok _ w' => (.ok, { dw with w := w' })
  | .exc k w' => (.exc k, { dw with w := w' })
  | .ub => (.ub, dw)
def copyObs (dw : DW) (j k : Nat) : WRes × DW := dw.ofObsOnly (dw.w.copy j k)
def cloneObs (dw : DW) (j k : Nat) : WRes × DW := dw.ofObsOnly (dw.w.clone j k)
def assignObs (dw : DW) (j k : Nat) : WRes × DW := dw.ofObsOnly (dw.w.assign j k)

/-! ### queries through objects -/

/-- `getFathers(nodeObject)` (:119) / `getSons(nodeObject)` (:156) -/
def fathersObj (dw : DW) (o : Obs) (a : Obj) : Option (List Obj) := World.nodeQuery dw.w o a (fun g n => g.inNeighbors n) false
def sonsObj (dw : DW) (o : Obs) (a : Obj) : Option (List Obj) := World.nodeQuery dw.w o a (fun g n => g.outNeighbors n) false
/-- `getNumberOfFathers` (:203) / `getNumberOfSons` (:213) / `hasFather` (:142) -/
def nbFathersObj (dw : DW) (o : Obs) (a : Obj) : Option Nat := (AL.find a o.Ng).bind (fun ia => RowQ.nbIn (dw.w.g.rowOf ia))
def nbSonsObj (dw : DW) (o : Obs) (a : Obj) : Option Nat := (AL.find a o.Ng).bind (fun ia => RowQ.nbOut (dw.w.g.rowOf ia))
/-- `getSon(edgeObject)` (:172) / `getFatherOfEdge(edgeObject)` (:188): `some none` = the node has no object -/
def sonOfEdge (dw : DW) (o : Obs) (x : Obj) : Option (Option Obj) := (World.edgeEnds dw.w o x).map (·.2)
def fatherOfEdge (dw : DW) (o : Obs) (x : Obj) : Option (Option Obj) := (World.edgeEnds dw.w o x).map (·.1)
/-- `getLeavesUnderNode(nodeObject)` (:224) -/
def leavesUnderObj (dw : DW) (o : Obs) (a : Obj) : TRes (List Obj) :=
  match AL.find a o.Ng with
  | none => .exc
  | some ia => TW.showIds o.nodesFromGids (dw.toD.leavesUnderQ ia)
/-- `getBelowNodes` (:348) / `getBelowEdges` (:353); `mustBeValid_` may write the cache -/
def belowObj (dw : DW) (o : Obs) (a : Obj) (edges : Bool) : TRes (List Obj) × DW :=
  match AL.find a o.Ng with
  | none => (.exc, dw)
  | some ia =>
    let r := dw.toD.getBelow edges ia
    (TW.showIds (if edges then o.edgesFromGids else o.nodesFromGids) r.1, { dw with valid := r.2.valid })

end DW

inductive DWOp where
  | createNode (k : Nat) (a : Obj)
  | link (k : Nat) (a b : Obj) (x : Option Obj)
  | unlink (k : Nat) (a b : Obj)
  | deleteNode (k : Nat) (a : Obj)
  | addFather (k : Nat) (n f : Obj) (x : Option Obj)
  | addSon (k : Nat) (n s : Obj) (x : Option Obj)
  | removeFather (k : Nat) (n f : Obj)
  | removeSon (k : Nat) (n s : Obj)
  | removeFathers (k : Nat) (n : Obj)
  | removeSons (k : Nat) (n : Obj)
  | rootAt (k : Nat) (a : Obj)
  | isValid | isRooted
  | copy (j k : Nat) | clone (j k : Nat) | assign (j k : Nat)
  | setRoot (k : Nat) (a : Obj)
deriving Repr

namespace DW
def step (dw : DW) : DWOp → DW
  | .createNode k a => (dw.createNode k a).2
  | .link k a b x => (dw.link k a b x).2
  | .unlink k a b => (dw.unlink k a b).2
  | .deleteNode k a => (dw.deleteNode k a).2
  | .addFather k n f x => (dw.addFather k n f x).2
  | .addSon k n s x => (dw.addSon k n s x).2
  | .removeFather k n f => (dw.removeFather k n f).2
  | .removeSon k n s => (dw.removeSon k n s).2
  | .removeFathers k n => (dw.removeAll k n true).2.2
  | .removeSons k n => (dw.removeAll k n false).2.2
  | .rootAt k a => match dw.rootAt k a with | .ok r => r.2 | _ => dw
  | .isValid => dw.isValid.2
  | .isRooted => dw.isRooted.2
  | .copy j k => (dw.copyObs j k).2
  | .clone j k => (dw.cloneObs j k).2
  | .assign j k => (dw.assignObs j k).2
  | .setRoot k a => (dw.setRootObj k a).2
def run (dw : DW) (ops : List DWOp) : DW := ops.foldl step dw
end DW

end Bpp.Graph
