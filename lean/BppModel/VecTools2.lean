import BppModel.VecTools
/-
Round 2 of the C07 model: every public routine of src/Bpp/Numeric/VectorTools.h,
src/Bpp/Numeric/VectorTools.cpp and the scalar helpers of src/Bpp/Numeric/NumTools.h that round 1
left outside the model (see props/C07.inventory.md for the complete table).

Same conventions as `BppModel/VecTools.lean`: bug-compatible transcription, `v[i]` not bounded by
its loop is a checked read (`Err.ub`), documented exceptions are explicit outcomes, numeric
routines are generic over `[Scalar α]`.
-/
namespace Bpp.VecTools

section Numeric2
variable {α : Type} [Scalar α]
open Scalar

/-! ### compound operators with a constant (VectorTools.h:275-318), `fill` (VectorTools.h:374) -/

/-- `v &= c` (VectorTools.h:276) and `fill(v, value)` (VectorTools.h:375): every element becomes `c` -/
def fillC (v : List α) (_c : α) : List α := v.map (fun _ => _c)

/-- `v += c`, `v -= c`, `v *= c`, `v /= c` (VectorTools.h:285-318): `x op= c` for each element -/
def addCeq (v : List α) (c : α) : List α := v.map (· + c)
def subCeq (v : List α) (c : α) : List α := v.map (· - c)
def mulCeq (v : List α) (c : α) : List α := v.map (· * c)
def divCeq (v : List α) (c : α) : List α := v.map (· / c)

/-! ### element-wise functions (VectorTools.h:777-862, 1313) -/

/-- `log(v)` (VectorTools.h:778) -/
def vlog (v : List α) : List α := v.map log
/-- `log(v, base)` (VectorTools.h:795): `std::log(v1[i]) / std::log(base)` -/
def vlogBase (v : List α) (base : α) : List α := v.map (fun x => log x / log base)
/-- `exp(v)` (VectorTools.h:809) -/
def vexp (v : List α) : List α := v.map exp
/-- `cos(v)`, `sin(v)`, `log10(v)` (VectorTools.h:817-838): the libm function is a parameter
(`Scalar` has no `cos`/`sin`/`log10`) -/
def vmap (f : α → α) (v : List α) : List α := v.map f
/-- `sqr(v)` (VectorTools.h:849): `NumTools::sqr` = `a * a` -/
def vsqr (v : List α) : List α := v.map (fun x => x * x)
/-- `pow(v, b)` (VectorTools.h:857) -/
def vpow (v : List α) (b : α) : List α := v.map (fun x => pow x b)
/-- `abs(v)` (VectorTools.h:1314): `std::abs` -/
def vabs (v : List α) : List α := v.map abs

/-! ### NumTools scalar helpers (NumTools.h:31-81, 109-132) -/

/-- `NumTools::abs` (NumTools.h:31): `a < 0 ? -a : a` -/
def ntAbs (a : α) : α := if ltb a zero then -a else a
/-- `NumTools::sign` (NumTools.h:42): `a < 0 ? -1 : (a == 0 ? 0 : 1)` -/
def ntSign (a : α) : α := if ltb a zero then ofInt (-1) else if eqb a zero then ofInt 0 else ofInt 1
/-- `NumTools::max` (NumTools.h:53): `a > b ? a : b` -/
def ntMax (a b : α) : α := if gtb a b then a else b
/-- `NumTools::min` (NumTools.h:64): `a < b ? a : b` -/
def ntMin (a b : α) : α := if ltb a b then a else b
/-- `NumTools::sign(a, b)` (NumTools.h:73): `abs(a) * sign(b)` -/
def ntSign2 (a b : α) : α := ntAbs a * ntSign b
/-- `NumTools::sqr` (NumTools.h:81) -/
def ntSqr (a : α) : α := a * a
/-- `NumTools::swap` (NumTools.h:109) -/
def ntSwap {β : Type} (a b : β) : β × β := (b, a)
/-- `NumTools::shift(a, b, c)` (NumTools.h:116): `a = b; b = c` -/
def ntShift3 {β : Type} (_a b c : β) : β × β := (b, c)
/-- `NumTools::shift(a, b, c, d)` (NumTools.h:121): `a = b; b = c; c = d` -/
def ntShift4 {β : Type} (_a _b c d : β) : β × β × β := (_b, c, d)

/-- `NumTools::fact` (NumTools.h:128) on a non-negative whole number `n`:
`(n == 0) ? 1 : n * fact(n - 1)` -/
def factNat : Nat → α
  | 0 => ofInt 1
  | n + 1 => ofInt ((n + 1 : Nat) : Int) * factNat n

/-- `NumTools::logFact` (NumTools.h:132): `(n == 0) ? 0 : log(n) + logFact(n - 1)` -/
def logFactNat : Nat → α
  | 0 => ofInt 0
  | n + 1 => log (ofInt ((n + 1 : Nat) : Int)) + logFactNat n

/-- `fact(x)` / `logFact(x)` for a scalar: `whole? x` reads `x` as a non-negative whole number.
For any other argument the recursion `fact(n-1)` never meets `n == 0`: it does not terminate
(stack exhaustion) — outcome `Err.ub`. -/
def ntFact (whole? : α → Option Nat) (x : α) : Res α :=
  match whole? x with
  | some n => .ok (factNat n)
  | none => .error .ub
def ntLogFact (whole? : α → Option Nat) (x : α) : Res α :=
  match whole? x with
  | some n => .ok (logFactNat n)
  | none => .error .ub

/-- `fact(v)` (VectorTools.h:841) -/
def vfact (whole? : α → Option Nat) (v : List α) : Res (List α) := v.mapM (ntFact whole?)

/-! ### Kronecker product, weighted cosine (VectorTools.h:1010, 1084) -/

/-- `kroneckerMult` (VectorTools.h:1010): `v3[i*n2+j] = v1[i]*v2[j]` -/
def kroneckerMult (v1 v2 : List α) : List α := v1.flatMap (fun a => v2.map (fun b => a * b))

/-- weighted `cos` (VectorTools.h:1084); the numerator is evaluated first -/
def cosW (v1 v2 w : List α) : Res α := do
  let s ← scalarW v1 v2 w
  let n1 ← normW v1 w
  let n2 ← normW v2 w
  pure (s / (n1 * n2))

/-! ### histogram helpers (VectorTools.cpp:18, VectorTools.h:559) -/

/-- `breaks(v, n)` (VectorTools.cpp:18): `n` points `lo + part*i` followed by `hi`, with
`part = (hi - lo)/n` (`n` converted to double; for `n = 0` the quotient is never used) -/
def breaks (v : List α) (n : Nat) : Res (List α) := do
  let r ← range v
  let part := (r.2 - r.1) / ofInt (n : Int)
  pure ((List.range n).map (fun (i : Nat) => r.1 + part * ofInt (i : Int)) ++ [r.2])

/-- `nclassScott` (VectorTools.h:559): `(size_t) ceil(r / (3.5 * sd(v) * pow(n, -1./3)))`.
`ceilNat` is `ceil` followed by the conversion to `size_t`, which is undefined for a NaN or a
value out of range (`none`): a constant sample or a single element gives `0/0`. -/
def nclassScott (ceilNat : α → Option Nat) (v : List α) : Res Nat := do
  let r ← range v
  let rr := r.2 - r.1
  let n : α := ofInt (v.length : Int)
  let s ← sd v true
  let h := ofRat 35 10 * s * pow n (Neg.neg (ofInt 1) / ofInt 3)
  match ceilNat (rr / h) with
  | some k => .ok k
  | none => .error .ub

/-! ### entropy and mutual information of a continuous sample (VectorTools.h:1675, 1713)

The kernel density estimate (`AdaptiveKernelDensityEstimation`, another class) is a parameter:
the routines are modelled *given* the densities `kd.kDensity(x_i)` at the sample points. -/

/-- `shannonContinuous` (VectorTools.h:1675): `s += log(kd(x_i))/log(base)`; `-s / n` -/
def shannonContinuousOf (dens : List α) (n : Nat) (base : α) : α :=
  (Neg.neg (dens.foldl (fun s d => s + log d / log base) zero)) / ofInt (n : Int)

/-- `miContinuous` (VectorTools.h:1713): `s += log(kd12_i/(kd1_i*kd2_i))/log(base)`; `s / n`;
DimensionException for samples of different lengths (`n1`, `n2`) -/
def miContinuousOf (n1 n2 : Nat) (d12 d1 d2 : List α) (base : α) : Res α :=
  if n1 ≠ n2 then .error .dimension else
    .ok ((zipWith3 (fun a b c => (a, b, c)) d12 d1 d2).foldl
      (fun s (t : α × α × α) => s + log (t.1 / (t.2.1 * t.2.2)) / log base) zero / ofInt (n1 : Int))

/-! ### default arguments (declarations in VectorTools.h) -/

/-- `bool unbiased = true` (VectorTools.h: cov, weighted cov, var, weighted var, sd, weighted sd) -/
def dfltUnbiased : Bool := true
/-- `bool normalizeWeights = true` (VectorTools.h: weighted mean, center, cov, var, sd, cor) -/
def dfltNormalizeWeights : Bool := true
/-- `double base = 2.7182818` (VectorTools.h: shannon, shannonDiscrete, miDiscrete,
shannonContinuous, miContinuous) — the literal, not `e` -/
def dfltBase : α := ofRat 27182818 10000000

end Numeric2

/-! ### set-like helpers, second part (VectorTools.h:509-534, 1747-1984); `==`, `<` are parameters -/
section Sets2
variable {β : Type} (eq lt : β → β → Bool)

/-- `extract(v1, v2)` (VectorTools.h:509): `v[i] = v1[v2[i]]`, an unguarded read -/
def extract (v : List β) (pos : List Nat) : Res (List β) := pos.mapM (at? v)

/-- `countValues` (VectorTools.h:526): `c[x]++` into a `std::map<T, size_t>` (a missing key is
value-initialised to 0 by `operator[]`) -/
def bump : Option Nat → Nat
  | some c => c + 1
  | none => 1
def countValues (v : List β) : List (β × Nat) :=
  v.foldl (fun m x => mapUpdate lt x bump m) []

/-- the push-back-if-absent loop shared by `vectorUnion` (both overloads) and `extend` -/
def pushNew (u : List β) (v : List β) : List β := vectorUnionOrig eq u v

/-- `vectorUnion(vector of vectors)` (VectorTools.h:1846): starts from the empty vector -/
def vectorUnionList (vs : List (List β)) : List β := vs.foldl (pushNew eq) []

/-- `extend(vec1, vec2)` (VectorTools.h:1958): the same loop, in place -/
def extend (v1 v2 : List β) : List β := pushNew eq v1 v2

/-- the inner loop of `vectorIntersection(vector of vectors)` (VectorTools.h:1900-1903):
`for (j = 1; test && j < size; j++) if (!contains(vecElementL[j], it)) test = false` over the
vectors after the first -/
def inAll : List (List β) → β → Bool
  | [], _ => true
  | v :: vs, x => if !(contains eq v x) then false else inAll vs x

/-- `vectorIntersection(vector of vectors)` (VectorTools.h:1892) -/
def vectorIntersectionList (vs : List (List β)) : List β :=
  match vs with
  | [] => []
  | [v] => v
  | v :: rest => v.filter (fun x => inAll eq rest x)

/-- `vectorIntersection<T,U>(vec1, vec2)` (VectorTools.h:1877) → `contains<U,T>(vec2, it)`
(VectorTools.h:1790): the element of the *first* vector is cast to the type of the second
(`it == (U)el`) -/
def vectorIntersectionTU {γ : Type} (cast : β → γ) (eqU : γ → γ → Bool) (v1 : List β) (v2 : List γ) : List β :=
  v1.filter (fun x => contains eqU v2 (cast x))

/-- `contains<T,U>(vec, el)` (VectorTools.h:1790): `it == (T)el` -/
def containsU {γ : Type} (cast : γ → β) (v : List β) (el : γ) : Bool := contains eq v (cast el)

/-- `append(vec1, vec2)` (VectorTools.h:1915) -/
def append2 (v1 v2 : List β) : List β := v1 ++ v2
/-- `prepend(vec1, vec2)` (VectorTools.h:1926): `vec2` goes in front -/
def prepend (v1 v2 : List β) : List β := v2 ++ v1

/-- `rep(vec, n)` (VectorTools.h:1973): `v[i] = vec[i % vec.size()]` for `i < vec.size()*n`
(for an empty `vec` the loop is empty, the modulus is never evaluated) -/
def rep (v : List β) (n : Nat) : Res (List β) :=
  if n = 1 then .ok v
  else if n = 0 then .ok []
  else (List.range (v.length * n)).mapM (fun i => at? v (i % v.length))

/-- `haveSameElements(std::vector<T>&, std::vector<T>&)` (VectorTools.h:1766): the non-const
overload sorts its arguments in place (unless the sizes differ); answer, `v1`, `v2` afterwards -/
def haveSameElementsInPlace (v1 v2 : List β) : Bool × List β × List β :=
  if v1.length ≠ v2.length then (false, v1, v2)
  else
    let s1 := v1.mergeSort (leOfLt lt); let s2 := v2.mergeSort (leOfLt lt)
    (listEq eq s1 s2, s1, s2)

/-- `diff(v1, v2, v3)` (VectorTools.h:1996) with all its effects: `v1`, `v2` sorted in place and
the difference *appended* to what `v3` held -/
def diff3 (v1 v2 v3 : List β) : List β × List β × List β :=
  (v1.mergeSort (leOfLt lt), v2.mergeSort (leOfLt lt), v3 ++ diff eq lt v1 v2)

/-- `containsAll(v1, v2)` (VectorTools.h:1808) with its effect: both vectors sorted in place -/
def containsAllInPlace (v1 v2 : List β) : Bool × List β × List β :=
  (containsAll eq lt v1 v2, v1.mergeSort (leOfLt lt), v2.mergeSort (leOfLt lt))

/-- `resize2` … `resize4` (VectorTools.h:336-370) through `std::vector::resize`: truncate or pad
with value-initialised elements -/
def resizeTo {γ : Type} (dflt : γ) (l : List γ) (n : Nat) : List γ :=
  l.take n ++ List.replicate (n - l.length) dflt
def resize2 {γ : Type} (z : γ) (vv : List (List γ)) (n1 n2 : Nat) : List (List γ) :=
  (resizeTo [] vv n1).map (fun v => resizeTo z v n2)
def resize3 {γ : Type} (z : γ) (vvv : List (List (List γ))) (n1 n2 n3 : Nat) : List (List (List γ)) :=
  (resizeTo [] vvv n1).map (fun vv => resize2 z vv n2 n3)
def resize4 {γ : Type} (z : γ) (v4 : List (List (List (List γ)))) (n1 n2 n3 n4 : Nat) :
    List (List (List (List γ))) :=
  (resizeTo [] v4 n1).map (fun vvv => resize3 z vvv n2 n3 n4)

end Sets2

/-! ## Specifications (round 2) -/
namespace Spec
variable {β : Type}

/-- the elements of `l` in the order of their first occurrence -/
def firstOcc (eq : β → β → Bool) : List β → List β
  | [] => []
  | x :: xs => x :: (firstOcc eq xs).filter (fun y => !(eq y x))

/-- `n` copies of `v` one after the other -/
def repeatList (v : List β) (n : Nat) : List β := (List.replicate n v).flatten

section
variable {α : Type} [Scalar α]
open Scalar
/-- weighted covariance for the four combinations of the options: with `wn` the weights actually
used (`w/Σw` when `normalizeWeights`), `m₁ = Σ aᵢ·wnᵢ`, `m₂ = Σ bᵢ·wnᵢ`:
`x = Σ (aᵢ-m₁)(bᵢ-m₂)·wnᵢ`, divided by `1 - Σ wnᵢ²` when `unbiased` -/
def covW (a b w : List α) (unbiased normalizeWeights : Bool) : α :=
  let wn := if normalizeWeights then w.map (· / Spec.sum w) else w
  let m1 := Spec.dot a wn
  let m2 := Spec.dot b wn
  let x := Spec.dotW (a.map (· - m1)) (b.map (· - m2)) wn
  if unbiased then x / (one - Spec.dot wn wn) else x
end

end Spec

/-! executable predicates of the round-2 theorems (evaluated by the driver on the implementation's
answers) -/
section Pred2
variable {β : Type}

/-- `r` is the union of the vectors of `vs`: their elements in the order of first occurrence -/
def IsUnionList (eq : β → β → Bool) (vs : List (List β)) (r : List β) : Prop :=
  listEq eq r (Spec.firstOcc eq vs.flatten) = true

instance (eq : β → β → Bool) (vs : List (List β)) (r : List β) : Decidable (IsUnionList eq vs r) := by
  unfold IsUnionList; infer_instance

/-- `r` is the intersection of the vectors of `vs`: the elements of the first vector (order and
multiplicities kept) that occur in every other vector; empty for an empty list -/
def IsInterList (eq : β → β → Bool) (vs : List (List β)) (r : List β) : Prop :=
  match vs with
  | [] => r.isEmpty = true
  | v :: rest => listEq eq r (v.filter (fun x => rest.all (fun u => contains eq u x))) = true

instance (eq : β → β → Bool) (vs : List (List β)) (r : List β) : Decidable (IsInterList eq vs r) := by
  unfold IsInterList; split <;> infer_instance

end Pred2

end Bpp.VecTools
