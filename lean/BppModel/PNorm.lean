import BppModel.Prelude.Scalar
/-!
# The normal cdf and quantile of `RandomTools`  (src/Bpp/Numeric/Random/RandomTools.cpp)

`pNorm(x)`  : RandomTools.cpp:276-403  (Cody 1969 rational approximations as in R's `pnorm`)
`qNorm(p)`  : RandomTools.cpp:122-136  (Odeh & Evans 1974, AS70)

A literal, bug-compatible transcription, generic over `[Scalar α]`; the same operations in the
same order as the C++ (the driver instantiates it at `Float` and compares bit for bit).
`exp` and `trunc` are *parameters* of `pNorm` (`ex`, `tr`): the theorems hold for every `exp`
(under the hypotheses they state), the driver passes `Float.exp` and C's `trunc`.

Numeric literals are given as the exact value of the `double` the compiler produces for the
decimal literal in the source (`dy n k = n / 2^k`), the decimal text is kept in the comment.
-/
namespace Bpp.PNorm
open Scalar
variable {α : Type} [Scalar α]

/-- the dyadic rational `n / 2^k` (exactly representable: `|n| < 2^53`) -/
def dy (n : Int) (k : Nat) : α := ofRat n (2 ^ k)

def half : α := ofRat 1 2
def two : α := ofInt 2
def sixteen : α := ofInt 16
def thirtyTwo : α := ofInt 32

/-! constant tables, RandomTools.cpp:278-326 -/
def a0 : α := dy 5033340116989939 51   -- 2.2352520354606839287
def a1 : α := dy 5665677198722487 45   -- 161.02823106855587881
def a2 : α := dy 4695748016471409 42   -- 1067.6894854603709582
def a3 : α := dy 1247600811881659 36   -- 18154.981253343561249
def a4 : α := dy 4732911241172193 56   -- 0.065682337918207449113
def b0 : α := dy 3321586410576239 46   -- 47.20258190468824187
def b1 : α := dy 1073231707490999 40   -- 976.09855173777669322
def b2 : α := dy 705125892199865 36   -- 10260.932208618978205
def b3 : α := dy 6254542941030317 37   -- 45507.789335026729956
def c0 : α := dy 3593345690365491 53   -- 0.39894151208813466764
def c1 : α := dy 2500384381492737 48   -- 8.8831497943883759412
def c2 : α := dy 1644986491068505 44   -- 93.506656132177855979
def c3 : α := dy 2626822455284273 42   -- 597.27027639480026226
def c4 : α := dy 1371386540475515 39   -- 2494.5375852903726711
def c5 : α := dy 7529665029589207 40   -- 6848.1904505362823326
def c6 : α := dy 199332033886331 34   -- 11602.651437647350124
def c7 : α := dy 2705544853421639 38   -- 9842.7148383839780218
def c8 : α := dy 6507391862396949 79   -- 1.0765576773720192317e-8
def d0 : α := dy 6267515498700699 48   -- 22.266688044328115691
def d1 : α := dy 8281975521529319 45   -- 235.38790178262499861
def d2 : α := dy 6682293350123967 42   -- 1519.377599407554805
def d3 : α := dy 7130946761563431 40   -- 6485.558298266760755
def d4 : α := dy 5117009369212579 38   -- 18615.571640885098091
def d5 : α := dy 2398375208585027 36   -- 34900.952721145977266
def d6 : α := dy 1337006252284921 35   -- 38912.003286093271411
def d7 : α := dy 5411089706868577 38   -- 19685.429676859990727
def p0 : α := dy 1944641115066503 53   -- 0.21589853405795699
def p1 : α := dy 1147527643855717 53   -- 0.1274011611602473639
def p2 : α := dy 3204441252247613 57   -- 0.022235277870649807
def p3 : α := dy 6556061356937099 62   -- 0.001421619193227893466
def p4 : α := dy 8592604055585923 68   -- 2.9112874951168792e-5
def p5 : α := dy 3325233399511661 57   -- 0.02307344176494017303
def q0 : α := dy 5783793290445019 52   -- 1.28426009614491121
def q1 : α := dy 8435029756997805 54   -- 0.468238212480865118
def q2 : α := dy 4754946449878073 56   -- 0.0659881378689285515
def q3 : α := dy 8721612140281319 61   -- 0.00378239633202758244
def q4 : α := dy 5384616069610193 66   -- 7.29751555083966205e-5
/-- `eps = 1e-20` (:331) -/
def eps : α := dy 6646139978924579 119
/-- `0.67448975` (:334) -/
def cut1 : α := dy 3037631786765219 52
/-- `37.5193` (:373, used negated) -/
def lowCut : α := dy 2640186023425029 46
/-- `8.2924` (:373) -/
def upCut : α := dy 583525774218861 46
/-- `M_PI` = 3.14159265358979323846 as a double -/
def mPi : α := dy 884279719003555 48
/-- `sqrt(32)` (:353) -/
def cut2 : α := sqrt thirtyTwo
/-- `1 / sqrt(2 * M_PI)` (:384) -/
def invSqrt2Pi : α := one / sqrt (two * mPi)

/-! ### first range, `|x| <= 0.67448975`  (:334-352) -/
/-- `xnum` after the loop :341-345 (started from `a[4]*xsq`) -/
def cNum (xsq : α) : α := (((a4 * xsq + a0) * xsq + a1) * xsq + a2) * xsq
/-- `xden` after the loop :341-345 (started from `xsq`) -/
def cDen (xsq : α) : α := (((xsq + b0) * xsq + b1) * xsq + b2) * xsq

def central (x : α) : α :=
  let y := abs x
  let xnum : α := if gtb y eps then cNum (x * x) else zero
  let xden : α := if gtb y eps then cDen (x * x) else zero
  let temp := x * (xnum + a3) / (xden + b3)
  half + temp

/-! ### second range, `0.67448975 < |x| <= sqrt(32)`  (:353-372) -/
def mNum (y : α) : α :=
  (((((((c8 * y + c0) * y + c1) * y + c2) * y + c3) * y + c4) * y + c5) * y + c6) * y
def mDen (y : α) : α :=
  (((((((y + d0) * y + d1) * y + d2) * y + d3) * y + d4) * y + d5) * y + d6) * y

/-- the lower-tail value computed at :357-368 from `y = |x|` -/
def middleTail (ex tr : α → α) (y : α) : α :=
  let temp := (mNum y + c7) / (mDen y + d7)
  let xsq := tr (y * sixteen) / sixteen
  let del := (y - xsq) * (y + xsq)
  ex (-xsq * xsq * half) * ex (-del * half) * temp

def middle (ex tr : α → α) (x : α) : α :=
  let cum := middleTail ex tr (abs x)
  if gtb x zero then one - cum else cum

/-! ### third range, `sqrt(32) < |x|`, `-37.5193 < x < 8.2924`  (:373-393) -/
def tNum (xsq : α) : α := ((((p5 * xsq + p0) * xsq + p1) * xsq + p2) * xsq + p3) * xsq
def tDen (xsq : α) : α := ((((xsq + q0) * xsq + q1) * xsq + q2) * xsq + q3) * xsq

/-- `temp` at :384 -/
def tailTemp (x : α) : α :=
  let xsq := one / (x * x)
  let temp := xsq * (tNum xsq + p4) / (tDen xsq + q4)
  (invSqrt2Pi - temp) / abs x

/-- the tail value computed at :375-389 (note: uses `x`, not `|x|`, in `trunc` and `del`) -/
def farTail (ex tr : α → α) (x : α) : α :=
  let temp := tailTemp x
  let xsq := tr (x * sixteen) / sixteen
  let del := (x - xsq) * (x + xsq)
  ex (-xsq * xsq * half) * ex (-del * half) * temp

def far (ex tr : α → α) (x : α) : α :=
  let cum := farTail ex tr x
  if gtb x zero then one - cum else cum

/-- `RandomTools::pNorm(double x)`, RandomTools.cpp:276-403 -/
def pNorm (ex tr : α → α) (x : α) : α :=
  let y := abs x
  if leb y cut1 then central x
  else if leb y cut2 then middle ex tr x
  else if ltb (-lowCut) x && ltb x upCut then far ex tr x
  else if gtb x zero then one else zero

/-- `RandomTools::pNorm(double x, double mu, double sigma)`, RandomTools.cpp:270-273 -/
def pNorm3 (ex tr : α → α) (x mu sigma : α) : α := pNorm ex tr ((x - mu) / sigma)

/-! ## `qNorm`  (RandomTools.cpp:122-141) -/
def qa0 : α := dy (-5804823426298423) 54   -- -.322232431088
def qa1 : α := ofInt (-1)
def qa2 : α := dy (-3082642684901539) 53   -- -.342242088547
def qa3 : α := dy (-367910240942723) 54    -- -.0204231210245
def qa4 : α := dy (-3347288700652849) 66   -- -.453642210148e-4
def qb0 : α := dy 1789702796688853 54   -- .0993484626060
def qb1 : α := dy 5301471483116847 53   -- .588581570495
def qb2 : α := dy 1195938677603349 51   -- .531103462366
def qb3 : α := dy 932585170308077 53    -- .103537752850
def qb4 : α := dy 1111436524841137 58   -- .0038560700634
/-- `1e-20` (:130) -/
def qEps : α := dy 6646139978924579 119
/-- the error value `-9999` (:131) -/
def qSentinel : α := ofInt (-9999)

/-- `p1` at :129 -/
def qP1 (p : α) : α := if ltb p half then p else one - p

/-- `z` at :133-134 as a function of `p1` -/
def qZ (p1 : α) : α :=
  let y := sqrt (log (one / (p1 * p1)))
  y + ((((y * qa4 + qa3) * y + qa2) * y + qa1) * y + qa0) /
      ((((y * qb4 + qb3) * y + qb2) * y + qb1) * y + qb0)

/-- `qNorm` returns its error value -9999 (decision table of `guards_total_qNorm`) -/
def qNormSentinel (p : α) : Bool := ltb (qP1 p) qEps

/-- `RandomTools::qNorm(double prob)`, RandomTools.cpp:122-136 -/
def qNorm (p : α) : α :=
  let p1 := qP1 p
  if ltb p1 qEps then qSentinel
  else
    let z := qZ p1
    if ltb p half then -z else z

/-- C's `trunc` on doubles -/
def truncFloat (y : Float) : Float := if y < 0 then Float.ceil y else Float.floor y

end Bpp.PNorm
