import BppModel.Text.Ub
import BppModel.Text.Number
/-
UB-aware model of `TextTools` (src/Bpp/Text/TextTools.cpp) for C16.

Functions built from `<algorithm>` calls over `[begin, end)` only (no index arithmetic) are pure
list functions; the ones that compute indices / iterators (`resizeLeft`, `split`, both
`removeSubstrings`) go through the UB-aware primitives of `Ub.lean`.
`std::isspace/toupper/tolower/isdigit` are the "C" locale tables of glibc, which are defined for
every `char` value (-128..255): bytes ≥ 0x80 are neither space nor letter.
The code is the one *after* the repairs `fix: TextTools::split with chunk size 0 divided by zero`
and `fix: removeSubstrings with exceptions computed i - pos below zero …`; the code as found is
kept as `…Old` for the witness theorems.
-/
namespace Bpp.Text.U
open Bpp.Text

/-! ## character utilities (TextTools.cpp:20-127) -/

def toUpperC (c : Char) : Char := if 'a' ≤ c ∧ c ≤ 'z' then Char.ofNat (c.toNat - 32) else c
def toLowerC (c : Char) : Char := if 'A' ≤ c ∧ c ≤ 'Z' then Char.ofNat (c.toNat + 32) else c
def isNewLine (c : Char) : Bool := c == '\n' || c == '\r'

/-- :29 -/
def toUpper (s : Str) : Str := s.map toUpperC
/-- :41 -/
def toLower (s : Str) : Str := s.map toLowerC
/-- :57 -/
def removeWhiteSpaces (s : Str) : Str := s.filter (fun c => !isSpace c)
/-- :108 -/
def removeNewLines (s : Str) : Str := s.filter (fun c => !isNewLine c)
/-- :120 -/
def removeLastNewLines (s : Str) : Str := (s.reverse.dropWhile isNewLine).reverse
/-- :389 -/
def removeChar (s : Str) (c : Char) : Str := s.filter (fun d => d != c)

/-! ## number recognisers (TextTools.cpp:135-232)

`isDecimalNumber` / `isDecimalInteger` index with `s[0]` after `isEmpty(s)` returned false
(so `size ≥ 1`) and with `s[i]`, `s[i+1]` for `i < size` (`s[size]` is the NUL of a
`std::string`): no access can be out of range, the list transcription `Number.decLoop` of C17
(pattern match on the rest of the string) is the UB-aware model as it stands. -/

/-- outcome of `toDouble` (:227): the value is C17's business -/
def toDoubleClass (dec sci : Char) (s : Str) : R Unit :=
  if Number.isDecimalNumber dec sci s then .ok () else .error .bpp
/-- outcome of `toInt` (:218-256, after the repair "fix: TextTools::toInt ignored the exponent it
accepts"): the library's exception when the text is not an integer numeral or its value does not fit
an `int`.  The conversion reads `s[i]` for `i ≤ size` only (`s[size]` is the NUL) and computes in a
`long long` that saturates at 2^31 + 1 (the exponent at 11): no index out of range, no overflow;
C17's `Number.toInt` is that computation. -/
def toIntClass (sci : Char) (s : Str) : R Unit :=
  match Number.toInt sci s with
  | some _ => .ok ()
  | none => .error .bpp

/-! ## fixed width (TextTools.cpp:236-269) -/

/-- :236 `result.reserve(newSize)` throws `std::length_error` beyond `max_size()` -/
def resizeRight (s : Str) (newSize : Nat) (fill : Char) : R Str :=
  if newSize > maxStr then .error .std
  else if newSize > s.length then .ok (s ++ List.replicate (newSize - s.length) fill)
  else .ok (s.take newSize)                                     -- copy_n(begin, newSize), newSize ≤ size

/-- :254 -/
def resizeLeft (s : Str) (newSize : Nat) (fill : Char) : R Str :=
  if newSize > maxStr then .error .std
  else if newSize > s.length then .ok (List.replicate (newSize - s.length) fill ++ s)
  else range s (toPtrdiff (wsub s.length newSize)) s.length    -- :266 begin() + (size - newSize) .. end()

/-! ## split (TextTools.cpp:273-288) -/

/-- the loop :281-284, `i` from `i0` while `i < nbCopied` (`k` = iterations left) -/
def splitLoop (s : Str) (n : Nat) : Nat → Nat → R (List Str)
  | 0, _ => .ok []
  | k + 1, i => do
    let c ← range s (toPtrdiff (wmul i n)) (toPtrdiff (wmul (i + 1) n))
    let rest ← splitLoop s n k (i + 1)
    pure (c :: rest)

/-- `TextTools::split(s, n)`; `n` is a `size_t` -/
def split (s : Str) (n : Nat) : R (List Str) :=
  if n = 0 then .error .bpp                                     -- the repair
  else do
    let nbChunks := wsub (wadd s.length n) 1 / n                -- IntegerTools::divideUp
    let nbCopied := s.length / n                                -- IntegerTools::divideDown
    let v ← splitLoop s n nbCopied 0
    if v.length < nbChunks then do
      let last ← range s (toPtrdiff (wmul v.length n)) s.length
      pure (v ++ [last])
    else pure v

/-- the code as found: `n / 0` -/
def splitOld (s : Str) (n : Nat) : R (List Str) :=
  if n = 0 then .error .ub else split s n

/-! ## block removal (TextTools.cpp:292-385) -/

/-- :292 three-argument overload; `depth` is a `size_t` that cannot wrap (one increment per
character read) -/
def removeSubstrings3 (b e : Char) : Nat → Str → R Str
  | _, [] => .ok []
  | depth, c :: rest =>
    if c == b then removeSubstrings3 b e (depth + 1) rest
    else if c == e then
      if depth == 0 then .error .bpp else removeSubstrings3 b e (depth - 1) rest
    else if depth == 0 then (removeSubstrings3 b e depth rest).map (c :: ·)
    else removeSubstrings3 b e depth rest

/-- `hasSubstring` (:430): `std::search(...) != s.end()` — an empty pattern is found at `begin()`,
which differs from `end()` only when `s` is not empty -/
def hasSubstring (s pat : Str) : Bool :=
  if pat.isEmpty then !s.isEmpty else (find pat s).isSome

/-- the scan of one exception list (:337-350 / :359-371): is one of the exceptions present around
position `i`?  `guarded` = the repaired test `pos <= i`. -/
def exceptHit (guarded : Bool) (s : Str) (mark : Char) (i : Nat) : List Str → R Bool
  | [] => .ok false
  | x :: xs =>
    match findChar mark x with                                  -- exceptions[j].find(mark)
    | none => exceptHit guarded s mark i xs
    | some pos =>
      if guarded && !(decide (pos ≤ i)) then exceptHit guarded s mark i xs
      else
        let left := wsub i pos
        let right := wsub (wadd i x.length) pos
        if decide (right < wsub s.length 1) then do             -- `&&` evaluates substr only then
          let sub ← substr s left right
          if hasSubstring sub x then pure true else exceptHit guarded s mark i xs
        else exceptHit guarded s mark i xs

structure Rm5 where
  t : Str
  blockCount : Int
  begPos : Nat

/-- one round of the `for` loop :331-382 -/
def rm5Step (guarded : Bool) (s : Str) (b e : Char) (xb xe : List Str) (st : Rm5) (i : Nat) : R Rm5 := do
  let current ← strAt s i
  if current == b then do
    let ex ← exceptHit guarded s b i xb
    if !ex then do
      let bc ← intRes (st.blockCount + 1)                       -- blockCount++ (int)
      let piece ← substr s st.begPos (wsub i st.begPos)
      pure { st with blockCount := bc, t := st.t ++ piece }
    else pure st
  else if current == e && decide (st.blockCount > 0) then do
    let _ ← exceptHit guarded s e i xe                           -- the result is not used (:359-371 only breaks)
    let bc ← intRes (st.blockCount - 1)
    if bc == 0 then pure { st with blockCount := bc, begPos := i + 1 }
    else if bc < 0 then .error .bpp
    else pure { st with blockCount := bc }
  else pure st

/-- :321 five-argument overload -/
def removeSubstrings5G (guarded : Bool) (s : Str) (b e : Char) (xb xe : List Str) : R Str := do
  let st ← (List.range s.length).foldlM (rm5Step guarded s b e xb xe) { t := [], blockCount := 0, begPos := 0 }
  let tail ← substrFrom s st.begPos
  pure (st.t ++ tail)

def removeSubstrings5 := removeSubstrings5G true
/-- the code as found (no `pos <= i` test) -/
def removeSubstrings5Old := removeSubstrings5G false

/-! ## searching (TextTools.cpp:398-460) -/

/-- :398 `count` = `countSub` of StrLite (overlapping occurrences; `size` for the empty pattern) -/
def count (s pat : Str) : Nat := countSub pat s

/-- :412 -/
def startsWith (s pat : Str) : Bool := if s.length < pat.length then false else isPrefix pat s
/-- :421 -/
def endsWith (s pat : Str) : Bool := if s.length < pat.length then false else isPrefix pat.reverse s.reverse

/-- the loop of `replaceAll` (:444-458): `skip` characters of a matched query are still to be
passed over -/
def replaceGo (q r : Str) : Nat → Str → Str
  | _, [] => []
  | k + 1, _ :: s => replaceGo q r k s
  | 0, c :: s => if isPrefix q (c :: s) then r ++ replaceGo q r (q.length - 1) s else c :: replaceGo q r 0 s

/-- :437 -/
def replaceAll (target q r : Str) : Str := if q.isEmpty then target else replaceGo q r 0 target

end Bpp.Text.U
