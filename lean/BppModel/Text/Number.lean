import BppModel.Text.StrLite
/-
Model of the number recognisers and conversions of TextTools
(src/Bpp/Text/TextTools.cpp:133-232, TextTools.h:113-150), as repaired by the commit
"fix: isDecimalNumber/isDecimalInteger require at least one mantissa digit".
The code as found is kept below (`…Old`) for the witness theorems.

`toDouble`/`toInt` call the recogniser and then `fromString<T>` = `istringstream >> T`.
The stream extraction of libstdc++ (`num_get::_M_extract_float/_M_extract_int` + `strtod`) is
modelled by `streamDouble`/`streamInt`; the value of a double is a `Rat` *before* the final
decimal→binary rounding, which is libc's and is not modelled.
-/
namespace Bpp.Text.Number
open Bpp.Text

/-! ## recognisers (repaired code) -/

/-- loop of `isDecimalNumber` (TextTools.cpp:146-173) from index `i` on; the list is `s[i..]`,
`sep`/`sciN`/`dig` are `sepCount`/`sciCount`/`digitCount`. -/
def decLoop (dec sci : Char) (sep sciN dig : Nat) : Str → Bool
  | [] => decide (0 < dig)                                   -- :173 return digitCount > 0
  | c :: rest =>
    if c == dec then                                          -- :149
      if 1 < sep + 1 || 1 < sciN then false else decLoop dec sci (sep + 1) sciN dig rest
    else if c == sci then                                     -- :151
      if dig == 0 then false                                  -- :154
      else match rest with
        | [] => false                                         -- :156 i == size-1
        | c2 :: rest2 =>
          let sep' := if sep == 0 then 1 else sep             -- :163
          if c2 == '-' || c2 == '+' then                      -- :159 i++
            if rest2.isEmpty then false                                     -- :161 i == size-1
            else if 1 < sep' || 1 < sciN + 1 then false else decLoop dec sci sep' (sciN + 1) dig rest2
          else
            if 1 < sep' || 1 < sciN + 1 then false else decLoop dec sci sep' (sciN + 1) dig (c2 :: rest2)
    else if !isDigit c then false                             -- :166
    else if 1 < sep || 1 < sciN then false else decLoop dec sci sep sciN (dig + 1) rest
termination_by s => s.length

/-- TextTools::isDecimalNumber(s, dec, scientificNotation) -/
def isDecimalNumber (dec sci : Char) (s : Str) : Bool :=
  if isEmptyStr s then false
  else match s with
    | '-' :: r => decLoop dec sci 0 0 0 r
    | _ => decLoop dec sci 0 0 0 s

/-- loop of `isDecimalInteger` (TextTools.cpp:186-213) -/
def intLoop (sci : Char) (sciN dig : Nat) : Str → Bool
  | [] => decide (0 < dig)
  | c :: rest =>
    if c == sci then
      if dig == 0 then false
      else match rest with
        | [] => false
        | c2 :: rest2 =>
          if c2 == '-' then false                             -- "Not an integer then!"
          else if c2 == '+' then
            if rest2.isEmpty then false
            else if 1 < sciN + 1 then false else intLoop sci (sciN + 1) dig rest2
          else if 1 < sciN + 1 then false else intLoop sci (sciN + 1) dig (c2 :: rest2)
    else if !isDigit c then false
    else if 1 < sciN then false else intLoop sci sciN (dig + 1) rest
termination_by s => s.length

/-- TextTools::isDecimalInteger(s, scientificNotation) -/
def isDecimalInteger (sci : Char) (s : Str) : Bool :=
  if isEmptyStr s then false
  else match s with
    | '-' :: r => intLoop sci 0 0 r
    | _ => intLoop sci 0 0 s

/-! ## values -/

def digitVal (c : Char) : Nat := c.toNat - 48
/-- value of a digit string, most significant digit first -/
def digitsVal (ds : Str) : Nat := ds.foldl (fun a c => 10 * a + digitVal c) 0

/-- `10^e` for an integer `e` -/
def pow10 (e : Int) : Rat :=
  if 0 ≤ e then ((10 ^ e.toNat : Nat) : Rat) else 1 / ((10 ^ (-e).toNat : Nat) : Rat)

/-- value of sign, integer digits, fraction digits, exponent sign, exponent digits -/
def mkValue (neg : Bool) (ip fp : Str) (eneg : Bool) (eds : Str) : Rat :=
  let m : Rat := ((digitsVal (ip ++ fp) : Nat) : Rat) / ((10 ^ fp.length : Nat) : Rat)
  let e : Int := if eneg then - (digitsVal eds : Int) else (digitsVal eds : Int)
  (if neg then -m else m) * pow10 e

/-- exponent part of the stream extraction: optional sign, digits (`strtod` needs at least one) -/
def streamExpVal (neg : Bool) (ip fp : Str) (r : Str) : Rat :=
  match r with
  | '-' :: t => if (t.takeWhile isDigit).isEmpty then 0 else mkValue neg ip fp true (t.takeWhile isDigit)
  | '+' :: t => if (t.takeWhile isDigit).isEmpty then 0 else mkValue neg ip fp false (t.takeWhile isDigit)
  | _ => if (r.takeWhile isDigit).isEmpty then 0 else mkValue neg ip fp false (r.takeWhile isDigit)

def streamTail (neg : Bool) (ip fp s3 : Str) : Rat :=
  if ip.isEmpty && fp.isEmpty then 0                      -- no mantissa digit: strtod fails
  else match s3 with
    | [] => mkValue neg ip fp false []
    | c :: r => if c == 'e' || c == 'E' then streamExpVal neg ip fp r else mkValue neg ip fp false []

def streamUnsigned (neg : Bool) (s1 : Str) : Rat :=
  match s1.dropWhile isDigit with
  | [] => streamTail neg (s1.takeWhile isDigit) [] []
  | c :: r =>
    if c == '.' then streamTail neg (s1.takeWhile isDigit) (r.takeWhile isDigit) (r.dropWhile isDigit)
    else streamTail neg (s1.takeWhile isDigit) [] (c :: r)

/-- `istringstream >> double` on the "C" locale up to rounding: libstdc++ accumulates
`[+-]? digit* ('.' digit*)? ([eE] [+-]? digit*)?` (the exponent only after a mantissa digit),
hands it to `strtod`, and stores 0 when `strtod` does not consume all of it ("", "-", ".",
"1e", "1e+"). -/
def streamDouble (s : Str) : Rat :=
  match s with
  | '-' :: r => streamUnsigned true r
  | '+' :: r => streamUnsigned false r
  | _ => streamUnsigned false s

def intMax : Int := 2147483647
def intMin : Int := -2147483648
def clampInt (v : Int) : Int := if v < intMin then intMin else if intMax < v then intMax else v

def streamIntUnsigned (neg : Bool) (s1 : Str) : Int :=
  if (s1.takeWhile isDigit).isEmpty then 0
  else clampInt (if neg then - (digitsVal (s1.takeWhile isDigit) : Int) else (digitsVal (s1.takeWhile isDigit) : Int))

/-- `istringstream >> int`: sign, decimal digits; 0 when there is no digit; the nearest limit
on overflow (C++11 `num_get`). -/
def streamInt (s : Str) : Int :=
  match s with
  | '-' :: r => streamIntUnsigned true r
  | '+' :: r => streamIntUnsigned false r
  | _ => streamIntUnsigned false s

/-- the translation of the caller's characters to the stream's (TextTools.cpp:231-238) -/
def trChar (dec sci : Char) (c : Char) : Char := if c == dec then '.' else if c == sci then 'e' else c

/-- TextTools::toDouble (TextTools.cpp:227-240), after the repair "fix: TextTools::toDouble validated
with the caller's decimal separator / exponent character but converted with a stream that only
knows '.' and 'e'": `none` = Exception -/
def toDouble (dec sci : Char) (s : Str) : Option Rat :=
  if isDecimalNumber dec sci s then some (streamDouble (s.map (trChar dec sci))) else none

/-- the code before that repair: the accepted text went to the stream as it was -/
def toDoubleNoTr (dec sci : Char) (s : Str) : Option Rat :=
  if isDecimalNumber dec sci s then some (streamDouble s) else none

/-- `-INT_MIN`: the `long long` of `toInt` saturates at `lim + 1` -/
def toIntLim : Nat := 2147483648

/-- `m = m * 10 + d; if (m > lim) m = lim + 1;` -/
def satStep (m d : Nat) : Nat := if m * 10 + d > toIntLim then toIntLim + 1 else m * 10 + d

/-- the mantissa loop (TextTools.cpp:229-234): up to the exponent mark or the end; returns the
saturated mantissa and what is left (starting at the mark) -/
def satMant (sci : Char) : Nat → Str → Nat × Str
  | m, [] => (m, [])
  | m, c :: r => if c == sci then (m, c :: r) else satMant sci (satStep m (digitVal c)) r

/-- the exponent loop (:240-245): saturates at 11 -/
def satExp : Nat → Str → Nat
  | e, [] => e
  | e, c :: r => satExp (if e * 10 + digitVal c > 10 then 11 else e * 10 + digitVal c) r

/-- the scaling loop (:246-251): `e` multiplications by 10, none when the mantissa is 0 -/
def satMul : Nat → Nat → Nat
  | 0, m => m
  | e + 1, m => if m == 0 then m else satMul e (if m * 10 > toIntLim then toIntLim + 1 else m * 10)

/-- `if (s[i] == '+') ++i;` (:238) -/
def skipPlus : Str → Str
  | '+' :: t => t
  | r => r

/-- the exponent part (:235-252) on what the mantissa loop left: nothing, or the mark and the exponent -/
def scaleByExp (m : Nat) : Str → Nat
  | [] => m
  | _ :: r => satMul (satExp 0 (skipPlus r)) m

/-- TextTools::toInt (TextTools.cpp:218-256), after the repair "fix: TextTools::toInt ignored the
exponent it accepts": the value of the accepted numeral (mantissa times power of ten), an Exception
(`none`) when it is not accepted or does not fit an `int` -/
def toInt (sci : Char) (s : Str) : Option Int :=
  if !isDecimalInteger sci s then none
  else
    let neg := s.head? == some '-'
    let body := if neg then s.drop 1 else s
    let mr := satMant sci 0 body
    let m := scaleByExp mr.1 mr.2
    if (if neg then decide (m > toIntLim) else decide (m ≥ toIntLim)) then none
    else some (if neg then - (m : Int) else (m : Int))

/-- the code before that repair: `istringstream >> int`, which stops at the exponent mark and
clamps to the range -/
def toIntOld (sci : Char) (s : Str) : Option Int :=
  if isDecimalInteger sci s then some (streamInt s) else none

/-! ## `toString(int)` (`ostringstream << int`) -/

def digitChar (d : Nat) : Char := Char.ofNat (48 + d)

/-- decimal digits, most significant first -/
def natDigits (n : Nat) : Str :=
  if _h : n < 10 then [digitChar n] else natDigits (n / 10) ++ [digitChar (n % 10)]
termination_by n
decreasing_by omega

def intToString (n : Int) : Str :=
  if n < 0 then '-' :: natDigits n.natAbs else natDigits n.natAbs

/-! ## the strict decimal grammar -/

def AllDigits (l : Str) : Prop := ∀ c ∈ l, isDigit c = true

/-- the parts of a decimal numeral:  `-`? ip (`dec` fp)? (`sci` [+-]? digits)?  -/
structure DecParts where
  neg : Bool
  ip : Str
  hasDec : Bool
  fp : Str
  /-- exponent: optional sign character and digits -/
  ex : Option (Option Char × Str)

namespace DecParts
def render (dec sci : Char) (p : DecParts) : Str :=
  (if p.neg then ['-'] else []) ++ p.ip ++ (if p.hasDec then dec :: p.fp else [])
    ++ (match p.ex with
        | none => []
        | some (sg, ds) => sci :: (sg.toList ++ ds))

def WF (p : DecParts) : Prop :=
  AllDigits p.ip ∧ AllDigits p.fp ∧ (p.ip ≠ [] ∨ p.fp ≠ []) ∧ (p.hasDec = false → p.fp = []) ∧
  (match p.ex with
   | none => True
   | some (sg, ds) => (sg = none ∨ sg = some '-' ∨ sg = some '+') ∧ AllDigits ds ∧ ds ≠ [])

/-- the value the grammar assigns -/
def value (p : DecParts) : Rat :=
  match p.ex with
  | none => mkValue p.neg p.ip p.fp false []
  | some (sg, ds) => mkValue p.neg p.ip p.fp (sg == some '-') ds
end DecParts

/-- `s ∈ Decimal`: the strict decimal grammar with separator `dec` and exponent mark `sci` -/
def Decimal (dec sci : Char) (s : Str) : Prop := ∃ p : DecParts, p.WF ∧ s = p.render dec sci

/-- integers:  `-`? digits+ (`sci` `+`? digits+)?  -/
structure IntParts where
  neg : Bool
  ip : Str
  /-- exponent: explicit plus sign?, digits -/
  ex : Option (Bool × Str)

namespace IntParts
def render (sci : Char) (p : IntParts) : Str :=
  (if p.neg then ['-'] else []) ++ p.ip
    ++ (match p.ex with
        | none => []
        | some (plus, ds) => sci :: ((if plus then ['+'] else []) ++ ds))
def WF (p : IntParts) : Prop :=
  AllDigits p.ip ∧ p.ip ≠ [] ∧
  (match p.ex with
   | none => True
   | some (_, ds) => AllDigits ds ∧ ds ≠ [])
/-- the value the grammar assigns (unbounded) -/
def value (p : IntParts) : Int :=
  let m : Int := if p.neg then - (digitsVal p.ip : Int) else (digitsVal p.ip : Int)
  match p.ex with
  | none => m
  | some (_, ds) => m * (10 ^ digitsVal ds : Nat)
end IntParts

def DecInteger (sci : Char) (s : Str) : Prop := ∃ p : IntParts, p.WF ∧ s = p.render sci


/-! ## executable form of the grammars (the oracle the driver evaluates on the implementation's
answers; `Lemmas/Number.lean` proves `parseDecimal s = some p ↔ p.WF ∧ s = p.render`) -/

/-- exponent after the exponent mark: optional sign, then one or more digits to the end -/
def parseExp (r : Str) : Option (Option Char × Str) :=
  match r with
  | '-' :: t => if !t.isEmpty && t.all isDigit then some (some '-', t) else none
  | '+' :: t => if !t.isEmpty && t.all isDigit then some (some '+', t) else none
  | _ => if !r.isEmpty && r.all isDigit then some (none, r) else none

def parseTail (sci : Char) (neg : Bool) (ip : Str) (hasDec : Bool) (fp s3 : Str) : Option DecParts :=
  if ip.isEmpty && fp.isEmpty then none
  else match s3 with
    | [] => some ⟨neg, ip, hasDec, fp, none⟩
    | c :: r => if c == sci then (parseExp r).map (fun e => ⟨neg, ip, hasDec, fp, some e⟩) else none

def parseUnsigned (dec sci : Char) (neg : Bool) (s1 : Str) : Option DecParts :=
  match s1.dropWhile isDigit with
  | [] => parseTail sci neg (s1.takeWhile isDigit) false [] []
  | c :: r =>
    if c == dec then parseTail sci neg (s1.takeWhile isDigit) true (r.takeWhile isDigit) (r.dropWhile isDigit)
    else parseTail sci neg (s1.takeWhile isDigit) false [] (c :: r)

def parseDecimal (dec sci : Char) (s : Str) : Option DecParts :=
  match s with
  | '-' :: r => parseUnsigned dec sci true r
  | _ => parseUnsigned dec sci false s

def parseIntExp (r : Str) : Option (Bool × Str) :=
  match r with
  | '+' :: t => if !t.isEmpty && t.all isDigit then some (true, t) else none
  | _ => if !r.isEmpty && r.all isDigit then some (false, r) else none

def parseIntUnsigned (sci : Char) (neg : Bool) (s1 : Str) : Option IntParts :=
  if (s1.takeWhile isDigit).isEmpty then none
  else match s1.dropWhile isDigit with
    | [] => some ⟨neg, s1.takeWhile isDigit, none⟩
    | c :: r => if c == sci then (parseIntExp r).map (fun e => ⟨neg, s1.takeWhile isDigit, some e⟩) else none

def parseInteger (sci : Char) (s : Str) : Option IntParts :=
  match s with
  | '-' :: r => parseIntUnsigned sci true r
  | _ => parseIntUnsigned sci false s

/-- the characters `dec`, `sci` are usable: distinct, not digits, not signs -/
def SaneChars (dec sci : Char) : Prop :=
  dec ≠ sci ∧ isDigit dec = false ∧ isDigit sci = false ∧ dec ≠ '-' ∧ dec ≠ '+' ∧ sci ≠ '-' ∧ sci ≠ '+'
  ∧ isSpace dec = false ∧ isSpace sci = false

/-! ## the code as found (before the fix): no digit count -/

def decLoopOld (dec sci : Char) (sep sciN : Nat) : Str → Bool
  | [] => true
  | c :: rest =>
    if c == dec then
      if 1 < sep + 1 || 1 < sciN then false else decLoopOld dec sci (sep + 1) sciN rest
    else if c == sci then
      match rest with
        | [] => false
        | c2 :: rest2 =>
          let sep' := if sep == 0 then 1 else sep
          if c2 == '-' || c2 == '+' then
            if rest2.isEmpty then false
            else if 1 < sep' || 1 < sciN + 1 then false else decLoopOld dec sci sep' (sciN + 1) rest2
          else
            if 1 < sep' || 1 < sciN + 1 then false else decLoopOld dec sci sep' (sciN + 1) (c2 :: rest2)
    else if !isDigit c then false
    else if 1 < sep || 1 < sciN then false else decLoopOld dec sci sep sciN rest
termination_by s => s.length

def isDecimalNumberOld (dec sci : Char) (s : Str) : Bool :=
  if isEmptyStr s then false
  else match s with
    | '-' :: r => decLoopOld dec sci 0 0 r
    | _ => decLoopOld dec sci 0 0 s

def toDoubleOld (dec sci : Char) (s : Str) : Option Rat :=
  if isDecimalNumberOld dec sci s then some (streamDouble s) else none

end Bpp.Text.Number
