import BppModel.Text.TokenizerU
/-
C17, tokenizer round trips: the executable predicates of `Props/C17Tokenizer.lean` and
`Props/C17Nested.lean`, over the UB-aware models of `TokenizerU.lean`
(StringTokenizer.cpp:10-86, NestedStringTokenizer.cpp:16-112).  The driver evaluates the same
predicates on the tokens / recorded separators / unparsed text the implementation returns.
-/
namespace Bpp.Text.RT
open Bpp.Text Bpp.Text.U

/-- `t0 ++ s0 ++ t1 ++ s1 ++ …`: the tokens re-joined with the recorded separators (a last
separator without a following token is kept: it is the run of trailing delimiters) -/
def interleave : List Str → List Str → Str
  | [], _ => []
  | t :: ts, [] => t ++ interleave ts []
  | t :: ts, sp :: ss => t ++ sp ++ interleave ts ss

/-- is `c` one of the delimiter characters -/
def inSet (d : Str) (c : Char) : Bool := d.contains c

/-- `s` without its trailing delimiter characters -/
def dropLastSet (d s : Str) : Str := (s.reverse.dropWhile (inSet d)).reverse

/-- `s` without leading and trailing delimiter characters -/
def stripSet (d s : Str) : Str := dropLastSet d (s.dropWhile (inSet d))

/-- what `unparseRemainingTokens` of a fresh non-solid tokenizer must return: the input without
the leading delimiters, and (when empty tokens are not allowed) without the trailing ones -/
def unparseSpec (d : Str) (solid allowEmpty : Bool) (s : Str) : Str :=
  if solid then s
  else if allowEmpty then s.dropWhile (inSet d)
  else stripSet d s

/-- `d ++ d ++ … ++ d` (`m` times) -/
def repeatStr (d : Str) : Nat → Str
  | 0 => []
  | m + 1 => d ++ repeatStr d m

/-- `sp` is `d` repeated at least once -/
def isRepeat (d sp : Str) : Bool :=
  !sp.isEmpty && !d.isEmpty && sp == repeatStr d (sp.length / d.length)

/-- the separators recorded by the constructor: non-solid: non-empty runs of delimiter characters
(exactly one when empty tokens are allowed); solid: the delimiter, repeated when empty tokens are
not allowed -/
def splitOk (d : Str) (solid allowEmpty : Bool) (sp : Str) : Bool :=
  if solid then (if allowEmpty then sp == d else isRepeat d sp)
  else !sp.isEmpty && sp.all (inSet d) && (!allowEmpty || sp.length == 1)

/-- the tokens: non-solid: free of delimiter characters (and non-empty unless empty tokens are
allowed); solid: the delimiter does not occur in a token -/
def tokenOk (d : Str) (solid allowEmpty : Bool) (t : Str) : Bool :=
  if solid then (find d t).isNone
  else t.all (fun c => !inSet d c) && (allowEmpty || !t.isEmpty)

/-- **the round-trip law of the StringTokenizer constructor** on (`tokens_`, `splits_`) and the
text `u` returned by `unparseRemainingTokens()` of the fresh object:
* re-joining the tokens with the recorded separators gives back the input from the first token on
  (everything in solid mode; after the leading delimiters otherwise),
* `u` is the input (solid) / the input without leading (and, unless empty tokens are allowed,
  trailing) delimiters,
* there is a separator between two tokens, at most one more (the trailing delimiters),
* tokens and separators are what they should be (`tokenOk`, `splitOk`). -/
def ctorRtOk (s d : Str) (solid allowEmpty : Bool) (tokens splits : List Str) (u : Str) : Bool :=
  let lead := if solid then [] else s.takeWhile (inSet d)
  (lead ++ interleave tokens splits == s)
  && (u == unparseSpec d solid allowEmpty s)
  && (tokens.length == splits.length + 1
      || (!solid && !allowEmpty && tokens.length == splits.length)
      || (!solid && tokens.isEmpty && splits.isEmpty))
  && tokens.all (tokenOk d solid allowEmpty)
  && splits.all (splitOk d solid allowEmpty)

/-- the tokenizer after `k` calls of `nextToken()` -/
def advance (t : Tokenizer) (k : Nat) : Tokenizer := { t with pos := t.pos + k }

/-- `k` calls of `nextToken()`: the tokens returned and the object afterwards -/
def nextN : Nat → Tokenizer → R (List Str × Tokenizer)
  | 0, t => .ok ([], t)
  | k + 1, t => do
    let (tok, t') ← t.nextToken
    let (toks, t'') ← nextN k t'
    pure (tok :: toks, t'')

/-- what has been consumed by `k` calls of `nextToken()`: the first `k` tokens, each with the
separator that follows it -/
def consumed : Nat → List Str → List Str → Str
  | 0, _, _ => []
  | _ + 1, [], _ => []
  | k + 1, t :: ts, [] => t ++ consumed k ts []
  | k + 1, t :: ts, sp :: ss => t ++ sp ++ consumed k ts ss

/-- **unparse after `k` tokens were read**: what was consumed followed by what
`unparseRemainingTokens()` returns now is what it returned at the start -/
def advanceRtOk (tokens splits : List Str) (k : Nat) (u0 uk : Str) : Bool :=
  if k < tokens.length then consumed k tokens splits ++ uk == u0 else uk.isEmpty

/-! ## NestedStringTokenizer -/

/-- +1 on the opening bracket, -1 on the closing one -/
def delta (o c : Char) (x : Char) : Int := (if x == o then 1 else 0) - (if x == c then 1 else 0)

/-- opening minus closing brackets of a text -/
def depth (o c : Char) : Str → Int
  | [] => 0
  | x :: r => delta o c x + depth o c r

/-- no delimiter character of the text is at bracket depth 0 (`dep` = depth at the start) -/
def noTopDelim (d : Str) (o c : Char) : Int → Str → Bool
  | _, [] => true
  | dep, x :: r => (!inSet d x || dep != 0) && noTopDelim d o c (dep + delta o c x) r

/-- **the round-trip law of the NestedStringTokenizer constructor** (any bracket strings), on
(`tokens_`, `splits_`) and the text `u` of `unparseRemainingTokens()`: the same law as for the
plain tokenizer without empty tokens — re-joining the tokens with the recorded separators gives
back the input after its leading delimiters (all of it in solid mode), `u` is the input without
leading / trailing delimiters (the input itself in solid mode); separators are non-empty runs of
delimiter characters (the delimiter string in solid mode); tokens are not empty (non-solid) -/
def nestedRtOk (s d : Str) (solid : Bool) (tokens splits : List Str) (u : Str) : Bool :=
  let lead := if solid then [] else s.takeWhile (inSet d)
  (lead ++ interleave tokens splits == s)
  && (u == unparseSpec d solid false s)
  && (tokens.length == splits.length + 1 || (!solid && tokens.length == splits.length))
  && splits.all (fun sp => if solid then sp == d else !sp.isEmpty && sp.all (inSet d))
  && (solid || tokens.all (fun t => !t.isEmpty))

/-- single-character brackets that are not delimiters -/
def saneBrackets (op en d : Str) : Option (Char × Char) :=
  match op, en with
  | [o], [c] => if d.contains o || d.contains c then none else some (o, c)
  | _, _ => none

/-- **nested tokenising never splits inside brackets**: every token has as many opening as closing
brackets (so every cut is at depth 0), and in non-solid mode it cuts at every delimiter of depth 0
(every delimiter character inside a token is at non-zero depth) -/
def nestedDepthOk (d : Str) (o c : Char) (solid : Bool) (tokens : List Str) : Bool :=
  tokens.all (fun t => depth o c t == 0 && (solid || noTopDelim d o c 0 t))

end Bpp.Text.RT
