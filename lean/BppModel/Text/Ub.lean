import BppModel.Text.StrLite
/-
UB-aware `std::string` / container primitives for the C16 models (DESIGN.md §2.3).

A C++ call can end in four ways that the property distinguishes:
  * it returns a value                                         `.ok v`
  * it throws the library's exception (`bpp::Exception`)       `.error .bpp`
  * it throws another `std::exception` (`std::out_of_range` of `substr`, `std::length_error`)
                                                               `.error .std`
  * its behaviour is undefined (index / iterator out of range, `back()` of an empty container,
    signed overflow, division by zero)                         `.error .ub`
  * it does not return (a loop of the model ran out of fuel)   `.error .hang`
No primitive below has a default value: what is undefined in C++ is `.error .ub` here.

Strings are `List Char` (bytes 0..255).  `std::string::npos` is `none` in the results of the
`find` family (a `std::string` is shorter than `max_size() = 2^62-1`, so a found index never
equals `npos = 2^64-1`); where the code computes with a possibly-`npos` value it goes through
`toSz` and the modulo-2^64 operations `wadd` / `wsub`.
-/
namespace Bpp.Text.U
open Bpp.Text

inductive Err where
  | ub | std | bpp | hang
  deriving DecidableEq, Repr, Inhabited

abbrev R (α : Type) := Except Err α

/-- the property's predicate on one call: it returned or raised the library's exception -/
def safe {α : Type} : R α → Bool
  | .ok _ => true
  | .error .bpp => true
  | .error _ => false

def lift {α : Type} : Option α → R α
  | some a => .ok a
  | none => .error .bpp

/-! ### `size_t` arithmetic -/

def SZ : Nat := 18446744073709551616
def npos : Nat := 18446744073709551615
def toSz : Option Nat → Nat
  | none => npos
  | some k => k
def wadd (a b : Nat) : Nat := (a + b) % SZ
def wsub (a b : Nat) : Nat := (a + (SZ - b % SZ)) % SZ
def wmul (a b : Nat) : Nat := (a * b) % SZ
/-- `static_cast<ptrdiff_t>(x)` (two's complement) -/
def toPtrdiff (x : Nat) : Int := if x % SZ < 9223372036854775808 then ((x % SZ : Nat) : Int) else ((x % SZ : Nat) : Int) - 18446744073709551616

/-- `std::string::max_size()` of libstdc++ (x86-64) -/
def maxStr : Nat := 4611686018427387903
/-- every `std::string` satisfies this -/
def StrOk (s : Str) : Prop := s.length ≤ maxStr
instance (s : Str) : Decidable (StrOk s) := by unfold StrOk; infer_instance
def intMax : Int := 2147483647
def intMin : Int := -2147483648
/-- the result of an `int` operation: UB outside the range -/
def intRes (v : Int) : R Int := if intMin ≤ v ∧ v ≤ intMax then .ok v else .error .ub

/-! ### element access -/

/-- `s[i]` (`std::string::operator[]`): `s[size()]` is the terminating NUL, beyond is undefined -/
def strAt (s : Str) (i : Nat) : R Char :=
  if h : i < s.length then .ok s[i]
  else if i = s.length then .ok (Char.ofNat 0)
  else .error .ub

/-- `v[i]` of a `std::vector` / `std::deque`: undefined when `i ≥ size()` -/
def vecAt {α : Type} (v : List α) (i : Nat) : R α :=
  if h : i < v.length then .ok v[i] else .error .ub

/-- `v.back()`: undefined on an empty container -/
def vecBack {α : Type} : List α → R α
  | [] => .error .ub
  | [a] => .ok a
  | _ :: b :: r => vecBack (b :: r)

/-! ### `substr`, iterators, `erase` -/

/-- `s.substr(pos, n)`: throws `std::out_of_range` when `pos > size()` -/
def substr (s : Str) (pos n : Nat) : R Str :=
  if pos ≤ s.length then .ok ((s.drop pos).take n) else .error .std

/-- `s.substr(pos)` -/
def substrFrom (s : Str) (pos : Nat) : R Str :=
  if pos ≤ s.length then .ok (s.drop pos) else .error .std

/-- `std::string(s.begin() + a, s.begin() + b)`: both iterators must lie in `[begin, end]` and
be ordered -/
def range (s : Str) (a b : Int) : R Str :=
  if 0 ≤ a ∧ a ≤ b ∧ b ≤ (s.length : Int) then .ok ((s.drop a.toNat).take (b.toNat - a.toNat))
  else .error .ub

/-- `s.erase(s.begin() + a, s.begin() + b)` -/
def eraseRange (s : Str) (a b : Int) : R Str :=
  if 0 ≤ a ∧ a ≤ b ∧ b ≤ (s.length : Int) then .ok (s.take a.toNat ++ s.drop b.toNat)
  else .error .ub

/-! ### the `find` family (total in C++: any `pos` is allowed) -/

/-- index of the first character satisfying `p` -/
def findIdx (p : Char → Bool) : Str → Option Nat
  | [] => none
  | c :: s => if p c then some 0 else (findIdx p s).map (· + 1)

/-- … at an index `≥ pos` -/
def findIdxFrom (p : Char → Bool) (s : Str) (pos : Nat) : Option Nat :=
  (findIdx p (s.drop pos)).map (· + pos)

/-- index of the last character satisfying `p` -/
def findLastIdx (p : Char → Bool) : Str → Option Nat
  | [] => none
  | c :: s =>
    match findLastIdx p s with
    | some k => some (k + 1)
    | none => if p c then some 0 else none

/-- `s.find_first_of(set, pos)` -/
def findFirstOf (set s : Str) (pos : Nat) : Option Nat := findIdxFrom (fun c => set.contains c) s pos
/-- `s.find_first_not_of(set, pos)` -/
def findFirstNotOf (set s : Str) (pos : Nat) : Option Nat := findIdxFrom (fun c => !set.contains c) s pos
/-- `s.find_last_of(set)` -/
def findLastOf (set s : Str) : Option Nat := findLastIdx (fun c => set.contains c) s

/-! ### facts about the primitives used by the definitions and the proofs (core Lean only) -/

theorem findIdx_lt {p : Char → Bool} {s : Str} {k : Nat} (h : findIdx p s = some k) : k < s.length := by
  induction s generalizing k with
  | nil => simp [findIdx] at h
  | cons c s ih =>
    simp only [findIdx] at h
    split at h
    · cases h; simp
    · cases h' : findIdx p s with
      | none => simp [h'] at h
      | some j =>
        simp only [h', Option.map_some, Option.some.injEq] at h
        have := ih h'
        simp only [List.length_cons]; omega

theorem findIdxFrom_bounds {p : Char → Bool} {s : Str} {pos k : Nat} (h : findIdxFrom p s pos = some k) :
    pos ≤ k ∧ k < s.length := by
  unfold findIdxFrom at h
  cases h' : findIdx p (s.drop pos) with
  | none => simp [h'] at h
  | some j =>
    simp only [h', Option.map_some, Option.some.injEq] at h
    have := findIdx_lt h'
    simp only [List.length_drop] at this
    omega

theorem findLastIdx_lt {p : Char → Bool} {s : Str} {k : Nat} (h : findLastIdx p s = some k) : k < s.length := by
  induction s generalizing k with
  | nil => simp [findLastIdx] at h
  | cons c s ih =>
    simp only [findLastIdx] at h
    cases h' : findLastIdx p s with
    | some j =>
      simp only [h', Option.some.injEq] at h
      have := ih h'
      simp only [List.length_cons]; omega
    | none =>
      simp only [h'] at h
      split at h
      · cases h; simp
      · cases h

end Bpp.Text.U
