import BppModel.Text.Ub
import BppModel.Text.Number
import BppModel.Text.TextToolsU
/-
UB-aware model of the number recognisers `TextTools::isDecimalNumber(s, dec, sci)`
(src/Bpp/Text/TextTools.cpp:135-176) and `TextTools::isDecimalInteger(s, sci)` (:180-214), and of
`TextTools::toDouble` (:260-275) up to the stream extraction.

C17's `Number.decLoop` / `Number.intLoop` transcribe the same loops by pattern matching on the rest of
the text, where an access out of range cannot be expressed.  Here the loops run on an index `i` and
read `s[i]`, `s[i + 1]` through `strAt` (`s[size]` is the terminating NUL, beyond is `.error .ub`),
compare `i` with `s.size() - 1` computed in `size_t` (`wsub`), and take fuel.
`Props/C16Recog.lean` proves that the two agree on every text: no access out of range, the loop ends.
The counters `sepCount`, `sciCount`, `digitCount` are `size_t` incremented at most once per
character read: they cannot wrap.  `std::isdigit(char)` is the glibc "C" table, defined for every
`char` value (a negative argument is formally undefined in ISO C; trusted base).
-/
namespace Bpp.Text.U
open Bpp.Text

/-- the `for` loop :146-173 from index `i` -/
def decLoopU (dec sci : Char) (s : Str) : Nat → Nat → Nat → Nat → Nat → R Bool
  | 0, _, _, _, _ => .error .hang
  | fuel + 1, i, sep, sciN, dig =>
    if i < s.length then do
      let c ← strAt s i                                            -- :148
      if c == dec then                                             -- :149
        if 1 < sep + 1 || 1 < sciN then .ok false                  -- :170
        else decLoopU dec sci s fuel (i + 1) (sep + 1) sciN dig
      else if c == sci then do                                     -- :151
        if dig == 0 then .ok false                                 -- :154
        else if i == wsub s.length 1 then .ok false                -- :156
        else do
          let c2 ← strAt s (i + 1)                                 -- :158
          let i' := if c2 == '-' || c2 == '+' then i + 1 else i    -- :159-160
          if i' == wsub s.length 1 then .ok false                  -- :161
          else
            let sep' := if sep == 0 then 1 else sep                -- :163
            if 1 < sep' || 1 < sciN + 1 then .ok false             -- :170
            else decLoopU dec sci s fuel (i' + 1) sep' (sciN + 1) dig
      else if !isDigit c then .ok false                            -- :166
      else if 1 < sep || 1 < sciN then .ok false                   -- :170
      else decLoopU dec sci s fuel (i + 1) sep sciN (dig + 1)
    else .ok (decide (0 < dig))                                    -- :173

/-- `TextTools::isDecimalNumber(s, dec, scientificNotation)` -/
def isDecimalNumberU (dec sci : Char) (s : Str) : R Bool :=
  if isEmptyStr s then .ok false                                   -- :137
  else do
    let c0 ← strAt s 0                                             -- :144
    decLoopU dec sci s (s.length + 1) (if c0 == '-' then 1 else 0) 0 0 0

/-- the `for` loop :190-212 of `isDecimalInteger` from index `i` -/
def intLoopU (sci : Char) (s : Str) : Nat → Nat → Nat → Nat → R Bool
  | 0, _, _, _ => .error .hang
  | fuel + 1, i, sciN, dig =>
    if i < s.length then do
      let c ← strAt s i
      if c == sci then do
        if dig == 0 then .ok false
        else if i == wsub s.length 1 then .ok false
        else do
          let c2 ← strAt s (i + 1)
          if c2 == '-' then .ok false                              -- :200 "Not an integer then!"
          else
            let i' := if c2 == '+' then i + 1 else i
            if i' == wsub s.length 1 then .ok false
            else if 1 < sciN + 1 then .ok false
            else intLoopU sci s fuel (i' + 1) (sciN + 1) dig
      else if !isDigit c then .ok false
      else if 1 < sciN then .ok false
      else intLoopU sci s fuel (i + 1) sciN (dig + 1)
    else .ok (decide (0 < dig))

/-- `TextTools::isDecimalInteger(s, scientificNotation)` -/
def isDecimalIntegerU (sci : Char) (s : Str) : R Bool :=
  if isEmptyStr s then .ok false
  else do
    let c0 ← strAt s 0
    intLoopU sci s (s.length + 1) (if c0 == '-' then 1 else 0) 0 0

/-- `TextTools::toDouble(s, dec, sci)` (:260-275) up to the stream: the recogniser, the exception,
the translation loop `for (auto& c : t)` (a range-for over the copy: no index), then
`fromString<double>(t)` = `istringstream >> double`, which is NOT modelled here (libstdc++'s
extraction: trusted base; its value is C17's `Number.streamDouble`).  Outcome only. -/
def toDoubleU (dec sci : Char) (s : Str) : R Unit := do
  let ok ← isDecimalNumberU dec sci s
  if !ok then .error .bpp else pure ()

end Bpp.Text.U
