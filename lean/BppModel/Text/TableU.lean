import BppModel.Text.TokenizerU
/-
UB-aware model of the delimited-table reader DataTable::read
(src/Bpp/Numeric/DataTable.cpp:554-627) with the pieces it uses: FileTools::getNextLine
(src/Bpp/Io/FileTools.cpp:111-121) over an `istringstream`, StringTokenizer(line, sep, false,
true), and the name / dimension checks of setColumnNames (:277), addRow (:503, :529),
setRowNames (:231), getColumn (:316), deleteColumn (:365).
The table is kept row-wise (`rows`, every row has `nCol` cells — the C++ keeps columns); only what
decides the outcome of `read` is modelled (names, dimensions, the cells of the column that becomes
row names).  After the repair
  fix: DataTable::read dereferenced begin() of the empty token list of a separator-only line
-/
namespace Bpp.Text.U
open Bpp.Text

/-- an `istringstream`: the characters not yet read and the `eofbit` -/
structure Stream where
  rest : Str
  eof : Bool
  deriving Repr, DecidableEq

/-- `getline(in, temp, '\n')`: up to the next newline (consumed), or everything that is left and
`eofbit` -/
def getline (st : Stream) : Str × Stream :=
  match findChar '\n' st.rest with
  | some k => (st.rest.take k, ⟨st.rest.drop (k + 1), st.eof⟩)
  | none => (st.rest, ⟨[], true⟩)

/-- the loop of getNextLine (FileTools.cpp:116-119) -/
def nextLineLoop : Nat → Stream → Str → R (Str × Stream)
  | 0, _, _ => .error .hang
  | fuel + 1, st, temp =>
    if !st.eof && isEmptyStr temp then
      let (t, st') := getline st
      nextLineLoop fuel st' t
    else .ok (temp, st)

/-- FileTools::getNextLine: the next line that is not blank (or the last one read) -/
def getNextLine (st : Stream) : R (Str × Stream) :=
  if st.eof then .ok ([], st) else nextLineLoop (st.rest.length + 2) st []

structure Tbl where
  nCol : Nat
  colNames : List Str
  rowNames : List Str
  rows : List (List Str)
  deriving Repr, DecidableEq

/-- VectorTools::isUnique -/
def uniq : List Str → Bool
  | [] => true
  | a :: r => !r.contains a && uniq r

/-- :277 -/
def setColumnNames (t : Tbl) (names : List Str) : R Tbl :=
  if !uniq names then .error .bpp
  else if names.length != t.nCol then .error .bpp
  else .ok { t with colNames := names }

/-- :503 -/
def addRow (t : Tbl) (row : List Str) : R Tbl :=
  if t.rowNames.length != 0 then .error .bpp
  else if row.length != t.nCol then .error .bpp
  else .ok { t with rows := t.rows ++ [row] }

/-- :529 -/
def addRowNamed (t : Tbl) (name : Str) (row : List Str) : R Tbl :=
  if t.rowNames.length == 0 && t.rows.length != 0 then .error .bpp
  else if row.length != t.nCol then .error .bpp
  else if decide (t.rows.length > 0) && t.rowNames.contains name then .error .bpp
  else .ok { t with rowNames := t.rowNames ++ [name], rows := t.rows ++ [row] }

/-- `vector<string>(v.begin() + 1, v.end())`: `begin() + 1` is not an iterator of an empty
container -/
def vecTail {α : Type} : List α → R (List α)
  | [] => .error .ub
  | _ :: r => .ok r

/-- the line loop :596-612; `fixed` = with the empty-token-list test -/
def readRows (fixed hasRowNames : Bool) (sep : Str) : Nat → Stream → Tbl → R Tbl
  | 0, _, _ => .error .hang
  | fuel + 1, st, t => do
    let (line, st) ← getNextLine st
    if isEmptyStr line then pure t
    else do
      let tk ← mkTokenizer line sep false true                     -- :598
      if hasRowNames then
        if fixed && tk.tokens.isEmpty then .error .bpp             -- the repair
        else do
          let name ← vecAt tk.tokens 0                             -- :601 *begin()
          let row ← vecTail tk.tokens                              -- :602 begin() + 1
          let t ← addRowNamed t name row
          readRows fixed hasRowNames sep fuel st t
      else do
        let t ← addRow t tk.tokens                                 -- :608
        readRows fixed hasRowNames sep fuel st t

/-- the cells of column `k` -/
def column (rows : List (List Str)) (k : Nat) : R (List Str) := rows.mapM (fun r => vecAt r k)

/-- DataTable::read(in, sep, header, rowNames); returns (number of rows, number of columns) -/
def readTableG (fixed : Bool) (text sep : Str) (header : Bool) (rowNames : Int) : R (Nat × Nat) := do
  let st : Stream := ⟨text, false⟩
  let (firstLine, st) ← getNextLine st                             -- :556
  let st1 ← mkTokenizer firstLine sep false true
  let row1 := st1.tokens
  let (secondLine, st) ← getNextLine st                            -- :559
  let st2 ← mkTokenizer secondLine sep false true
  let row2 := st2.tokens
  let nCol := row1.length
  let t0 : Tbl := ⟨nCol, [], [], []⟩
  let (t, hasRowNames) ←
    if row1.length == row2.length then do                          -- :565
      let t ← if header then setColumnNames t0 row1 else addRow t0 row1
      let t ← addRow t row2
      pure (t, false)
    else if row1.length == wsub row2.length 1 then do              -- :579
      let t ← setColumnNames t0 row1
      let name ← vecAt row2 0                                      -- :583 *row2.begin()
      let row ← vecTail row2
      let t ← addRowNamed t name row
      pure (t, true)
    else .error .bpp                                               -- :588 DimensionException
  let t ← readRows fixed hasRowNames sep (text.length + 2) st t
  if rowNames > -1 then                                            -- :616
    if rowNames.toNat ≥ t.nCol then .error .bpp
    else do
      let col ← column t.rows rowNames.toNat
      if !uniq col then .error .bpp                                -- setRowNames
      else pure (t.rows.length, t.nCol - 1)                        -- deleteColumn
  else pure (t.rows.length, t.nCol)

def readTable := readTableG true
def readTableOld := readTableG false

end Bpp.Text.U
