import BppModel.Text.StrLite
/-
Model of KeyvalTools (src/Bpp/Text/KeyvalTools.cpp:14-158) with the two tokenizers it uses in
their non-solid mode without empty tokens:
  StringTokenizer(s, delimiters)                      src/Bpp/Text/StringTokenizer.cpp:15-36
  NestedStringTokenizer(s, "(", ")", delimiters)      src/Bpp/Text/NestedStringTokenizer.cpp:20-65
(the full tokenizers, every option combination, belong to the C16 models).
`none` = the library throws (KeyvalException / Exception).
A `std::map<string,string>` is an association list sorted by key, without duplicate keys.
-/
namespace Bpp.Text.Keyval
open Bpp.Text

/-- prepend a character to the first token -/
def pushFront (c : Char) : List Str → List Str
  | t :: ts => (c :: t) :: ts
  | [] => [[c]]

/-- StringTokenizer, non-solid, no empty tokens: maximal runs of non-delimiters -/
def tokenize (isD : Char → Bool) : Str → List Str
  | [] => []
  | c :: rest =>
    if isD c then tokenize isD rest
    else match rest with
      | [] => [[c]]
      | d :: _ => if isD d then [c] :: tokenize isD rest else pushFront c (tokenize isD rest)

def delta (c : Char) : Int := if c == '(' then 1 else if c == ')' then -1 else 0

/-- NestedStringTokenizer("(", ")"), non-solid: a token ends at a delimiter only when the count
`blocks` of `(` minus `)` seen since the token began is 0 (`blocks` is an `int`, it may be
negative); inside a block delimiters are kept; the end of the string inside a block throws.
`inTok` = a token has been started. -/
def nested (isD : Char → Bool) : Bool → Int → Str → Option (List Str)
  | false, _, [] => some []
  | true, b, [] => if b == 0 then some [[]] else none           -- "Unclosed block."
  | false, b, c :: rest =>
    if isD c then nested isD false b rest                       -- find_first_not_of(delimiters)
    else (nested isD true (delta c) rest).map (pushFront c)
  | true, b, c :: rest =>
    if isD c then
      if b == 0 then (nested isD false 0 rest).map ([] :: ·)    -- tokens_.push_back(cache + token)
      else (nested isD true b rest).map (pushFront c)           -- cache += token + delimiter
    else (nested isD true (b + delta c) rest).map (pushFront c)

def tokensOf (split : Str) (nestedMode : Bool) (s : Str) : Option (List Str) :=
  if nestedMode then nested (fun c => split.contains c) false 0 s
  else some (tokenize (fun c => split.contains c) s)

/-- KeyvalTools::singleKeyval (KeyvalTools.cpp:14-21).  `desc.find(split)`, but the value starts
at `i + 1` whatever the length of `split` (bug-compatible). -/
def singleKeyval (desc split : Str) : Option (Str × Str) :=
  match find split desc with
  | none => none
  | some i => some (desc.take i, desc.drop (i + 1))

/-- the loop merging `=` tokens (KeyvalTools.cpp:35-55): `acc` is `tokens` reversed -/
def mergeEq : List Str → List Str → Option (List Str)
  | [], acc => some acc.reverse
  | tok :: rest, acc =>
    if tok == ['='] then
      match acc, rest with
      | [], _ => none                                  -- '=' without argument name
      | _, [] => none                                  -- '=' without argument value
      | last :: acc', nxt :: rest' =>
        if nxt == ['='] then none                     -- double '='
        else mergeEq rest' ((last ++ '=' :: nxt) :: acc')
    else mergeEq rest (tok :: acc)

abbrev Map := List (Str × Str)

def strLt : Str → Str → Bool
  | [], [] => false
  | [], _ :: _ => true
  | _ :: _, [] => false
  | a :: s, b :: t => if a.toNat < b.toNat then true else if b.toNat < a.toNat then false else strLt s t

/-- `m[k] = v` on a sorted association list -/
def mapInsert (k v : Str) : Map → Map
  | [] => [(k, v)]
  | (k', v') :: m =>
    if k == k' then (k, v) :: m
    else if strLt k k' then (k, v) :: (k', v') :: m
    else (k', v') :: mapInsert k v m

def mapFind (k : Str) : Map → Option Str
  | [] => none
  | (k', v') :: m => if k == k' then some v' else mapFind k m

/-- one round of the final loop of multipleKeyvals (KeyvalTools.cpp:56-62) -/
def kvStep (m : Map) (tok : Str) : Option Map :=
  match singleKeyval tok ['='] with
  | none => none
  | some (k, v) => some (mapInsert (trim k) (trim v) m)

/-- KeyvalTools::multipleKeyvals (KeyvalTools.cpp:23-64); `m0` is the map passed in -/
def multipleKeyvals (desc : Str) (m0 : Map) (split : Str) (nestedMode : Bool) : Option Map :=
  match tokensOf split nestedMode desc with
  | none => none
  | some toks =>
    match mergeEq toks [] with
    | none => none
    | some toks' =>
      toks'.foldlM kvStep m0

/-- the common head of changeKeyvals / parseProcedure (KeyvalTools.cpp:68-84, 134-151):
`none` = throws, `some none` = no parenthesis at all, `some (some (name, inner))` otherwise -/
def splitProcedure (desc : Str) : Option (Option (Str × Str)) :=
  match findChar '(' desc, findLastChar ')' desc with
  | none, none => some none
  | none, some _ => none                                 -- missing opening parenthesis
  | some b, e? =>
    -- `desc.substr(end + 1)` with end = npos is the whole string
    let after := match e? with
      | some e => desc.drop (e + 1)
      | none => desc
    if !isEmptyStr after then none                       -- extra characters after ')'
    else match e? with
      | none => none                                     -- unreachable: `after` contains '('
      | some e =>
        -- substr(begin + 1, end - begin - 1); end < begin cannot pass the test above
        some (some (removeFirstWS (desc.take b), (desc.drop (b + 1)).take (e - b - 1)))

/-- KeyvalTools::parseProcedure (KeyvalTools.cpp:134-158) on an empty argument map -/
def parseProcedure (desc : Str) : Option (Str × Map) :=
  match splitProcedure desc with
  | none => none
  | some none => some (desc, [])
  | some (some (name, inner)) =>
    match multipleKeyvals inner [] [','] true with
    | none => none
    | some m => some (name, m)

/-- one round of the final loop of changeKeyvals (KeyvalTools.cpp:113-127); the state is
(`it == tokens.begin()`, `newDesc`) -/
def chgStep (newkv : Map) (split : Str) (st : Bool × Str) (tok : Str) : Option (Bool × Str) :=
  match singleKeyval tok ['='] with
  | none => none
  | some (k, _) =>
    let key := trim k
    let sep := if st.1 then [] else split
    match mapFind key newkv with
    | some nv => some (false, st.2 ++ sep ++ key ++ '=' :: nv)
    | none => some (false, st.2 ++ sep ++ tok)

/-- KeyvalTools::changeKeyvals (KeyvalTools.cpp:66-132) -/
def changeKeyvals (desc : Str) (newkv : Map) (split : Str) (nestedMode : Bool) : Option Str :=
  match splitProcedure desc with
  | none => none
  | some none => some desc
  | some (some (name, inner)) =>
    match tokensOf split nestedMode inner with
    | none => none
    | some toks =>
      match mergeEq toks [] with
      | none => none
      | some toks' =>
        (toks'.foldlM (chgStep newkv split) (true, name ++ ['('])).map (fun (st : Bool × Str) => st.2 ++ [')'])

/-- a procedure written out: `name(k1=v1,k2=v2,…)` -/
def renderArgs : List (Str × Str) → Str
  | [] => []
  | [(k, v)] => k ++ '=' :: v
  | (k, v) :: rest => k ++ '=' :: v ++ ',' :: renderArgs rest

def render (name : Str) (kvs : List (Str × Str)) : Str := name ++ '(' :: renderArgs kvs ++ [')']

/-! ### the side conditions of the round-trip theorems (decidable; the driver evaluates them) -/

def structural (c : Char) : Bool := c == ',' || c == '=' || c == '(' || c == ')'

/-- every `,` of the text is inside parentheses, and the parentheses count is 0 at the end
(`d` = count so far) -/
def depthOk : Int → Str → Bool
  | d, [] => d == 0
  | d, c :: r => if c == ',' then d != 0 && depthOk d r else depthOk (d + delta c) r

/-- a procedure name: no parenthesis, no leading white space -/
def NameOk (name : Str) : Bool := name.all (fun c => c != '(' && c != ')') && (removeFirstWS name == name)
/-- a key: no structural character, no surrounding white space -/
def KeyOk (k : Str) : Bool := k.all (fun c => !structural c) && (trim k == k)
/-- a value: no surrounding white space; commas only inside balanced parentheses (any depth) -/
def ValOk (v : Str) : Bool := depthOk 0 v && (trim v == v)
def PairOk (kv : Str × Str) : Bool := KeyOk kv.1 && ValOk kv.2 && !(kv.1.isEmpty && kv.2.isEmpty)

def mapOfList (kvs : List (Str × Str)) : Map := kvs.foldl (fun m kv => mapInsert kv.1 kv.2 m) []

/-- the argument list after substitution of the keys present in `newkv` -/
def substArgs (newkv : Map) (kvs : List (Str × Str)) : List (Str × Str) :=
  kvs.map (fun kv => match mapFind kv.1 newkv with
    | some nv => (kv.1, nv)
    | none => kv)

end Bpp.Text.Keyval
