import BppModel.Text.StrLite
import BppModel.Text.Keyval
/-
Model of AttributesTools::resolveVariables (src/Bpp/Utils/AttributesTools.cpp:135-180) with the
default marks `$`, `(`, `)`.  The map is an association list with distinct keys, visited in list
order (the driver builds it sorted, as `std::map` iterates).  The `while` loop of the code has no
bound: the model takes `fuel` (substitutions allowed per entry) and reports `diverge` when it runs
out — `Props/C17Vars.lean` shows when that cannot happen and exhibits a map on which it always does.
-/
namespace Bpp.Text.Vars
open Bpp.Text Bpp.Text.Keyval

inductive Outcome where
  | ok (m : Map)
  | exc            -- "Syntax error, variable name is not closed."
  | diverge        -- out of fuel
  deriving Repr, DecidableEq

inductive Res where
  | done (v : Str)
  | exc
  | diverge
  deriving Repr, DecidableEq

def mapSet (k v : Str) : Map → Map
  | [] => []
  | (k', v') :: m => if k' == k then (k', v) :: m else (k', v') :: mapSet k v m

/-- the `while (index1 != npos)` loop for the entry `key` whose current value is `value`;
`am` is the map (its entry for `key` is kept equal to `value` by the code, :172-173) -/
def resolveOne (am : Map) (key : Str) : Nat → Str → Res
  | fuel, value =>
    match find ['$', '('] value with                       -- :145 / :174
    | none => .done value
    | some index1 =>
      match fuel with
      | 0 => .diverge
      | fuel' + 1 =>
        match findFrom [')'] value index1 with             -- :148
        | none => .exc                                     -- :177
        | some index2 =>
          let varName := (value.drop (index1 + 2)).take (index2 - index1 - 2)   -- :151
          let found := if varName == key then some value else mapFind varName am   -- :152
          let varValue := match found with
            | none => []                                   -- undefined: ignored
            | some vv => if vv == value then [] else vv    -- :162 "cyclic": ignored
          resolveOne am key fuel' (value.take index1 ++ varValue ++ value.drop (index2 + 1))   -- :171

/-- the `for` loop over the entries (:142): `keys` are the entries still to visit -/
def resolveKeys (fuel : Nat) : List Str → Map → Outcome
  | [], am => .ok am
  | k :: ks, am =>
    match mapFind k am with
    | none => resolveKeys fuel ks am                        -- cannot happen (keys come from the map)
    | some v =>
      match resolveOne am k fuel v with
      | .done v' => resolveKeys fuel ks (mapSet k v' am)
      | .exc => .exc
      | .diverge => .diverge

def resolveVariables (fuel : Nat) (am : Map) : Outcome := resolveKeys fuel (am.map (·.1)) am

/-! ### structured values: text free of `$`, and references `$(name)` -/

inductive Seg where
  | lit (s : Str)
  | ref (n : Str)
  deriving Repr, DecidableEq

def renderSeg : Seg → Str
  | .lit s => s
  | .ref n => '$' :: '(' :: (n ++ [')'])

def renderSegs (segs : List Seg) : Str := segs.flatMap renderSeg

/-- parse a value into segments; `none` when a `$` is not the start of a closed reference with a
clean name (no `$`, `(`, `)`) -/
def parseSegs : Nat → Str → Option (List Seg)
  | 0, _ => none
  | fuel + 1, s =>
    match s with
    | [] => some []
    | '$' :: '(' :: rest =>
      let name := rest.takeWhile (fun c => c != ')')
      match rest.dropWhile (fun c => c != ')') with
      | [] => none
      | _ :: after =>
        if name.any (fun c => c == '$' || c == '(') then none
        else (parseSegs fuel after).map (Seg.ref name :: ·)
    | '$' :: _ => none
    | _ =>
      let txt := s.takeWhile (fun c => c != '$')
      (parseSegs fuel (s.dropWhile (fun c => c != '$'))).map (Seg.lit txt :: ·)

/-- definitions in structured form -/
abbrev SEnv := List (Str × List Seg)

def slookup (env : SEnv) (k : Str) : Option (List Seg) :=
  match env with
  | [] => none
  | (k', segs) :: rest => if k == k' then some segs else slookup rest k

def renderEnv (env : SEnv) : Map := env.map (fun e => (e.1, renderSegs e.2))

/-- every reference can be followed to the end within `n` levels (no cycle is reachable) -/
def okAt (env : SEnv) : Nat → List Seg → Bool
  | 0, segs => segs.all (fun s => match s with
      | .lit _ => true
      | .ref b => (slookup env b).isNone)
  | n + 1, segs => segs.all (fun s => match s with
      | .lit _ => true
      | .ref b => match slookup env b with
        | none => true
        | some segs' => okAt env n segs')

/-- expansion to depth `n`: an undefined reference is the empty string -/
def expand (env : SEnv) : Nat → List Seg → Str
  | 0, segs => segs.flatMap (fun s => match s with
      | .lit t => t
      | .ref _ => [])
  | n + 1, segs => segs.flatMap (fun s => match s with
      | .lit t => t
      | .ref b => match slookup env b with
        | none => []
        | some segs' => expand env n segs')

def cleanName (n : Str) : Bool := n.all (fun c => c != '$' && c != '(' && c != ')')
def cleanText (t : Str) : Bool := t.all (fun c => c != '$')
def segOk : Seg → Bool
  | .lit t => cleanText t
  | .ref n => cleanName n

def distinctKeys : SEnv → Bool
  | [] => true
  | (k, _) :: rest => (slookup rest k).isNone && distinctKeys rest

/-- the side conditions of `resolve_fixed_point`, decidable: distinct keys, well-formed
segments, no reachable cycle -/
def AcyclicOk (env : SEnv) : Bool :=
  distinctKeys env && env.all (fun e => e.2.all segOk) && env.all (fun e => okAt env env.length e.2)

/-- the fixed point the theorem promises -/
def resolved (env : SEnv) : Map := env.map (fun e => (e.1, expand env env.length e.2))

end Bpp.Text.Vars
