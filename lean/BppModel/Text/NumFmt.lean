import BppModel.Text.Number
/-
C17, "numbers formatted with sufficient precision parse back to the same value":
`TextTools::toString(double, precision)` (src/Bpp/Text/TextTools.h:127-133) is
`ostringstream << setprecision(precision) << d` in the default float field, i.e. the conversion
`%.{P}g` of C (P = max(precision, 1)) applied to the exact value of the double:

  * the value is rounded to P significant decimal digits (glibc: correctly, ties to even):
    `N · 10^(X-P+1)` with `10^(P-1) ≤ N < 10^P`;
  * if `-4 ≤ X < P` the fixed notation with `P-1-X` decimals is used, otherwise the scientific
    notation `d.ddd e±XX` (at least two exponent digits);
  * trailing zeros of the fraction are removed, and the decimal point with them.

A finite double is given by its sign and the rational |d| (exact: a double is a dyadic rational).
`fmtParts` builds the numeral as parts of the strict decimal grammar of `Number.lean`, so that
what `toDouble` makes of the text is a theorem (`Props/C17Number.lean`).
Not modelled: inf / nan (not numbers of the grammar), a negative precision.
-/
namespace Bpp.Text.NumFmt
open Bpp.Text Bpp.Text.Number

/-- round to the nearest integer, ties to even (`a ≥ 0`) -/
def roundHalfEven (a : Rat) : Nat :=
  let f := a.floor.toNat
  let r := a - (f : Rat)
  if r < 1 / 2 then f else if 1 / 2 < r then f + 1 else if f % 2 == 0 then f else f + 1

/-- the decimal exponent of `a > 0`: the `X` with `10^X ≤ a < 10^(X+1)` -/
def decExp (a : Rat) : Int :=
  let dn : Int := (natDigits a.num.toNat).length
  let dd : Int := (natDigits a.den).length
  if pow10 (dn - dd) ≤ a then dn - dd else dn - dd - 1

/-- the rounding of `a > 0` to `P` significant digits: the digits `N` and the exponent `X` of the
first one -/
def roundSig (P : Nat) (a : Rat) : Nat × Int :=
  let X := decExp a
  let N := roundHalfEven (a / pow10 (X - ((P : Int) - 1)))
  if N == 10 ^ P then (10 ^ (P - 1), X + 1) else (N, X)

/-- without the trailing zeros -/
def stripZeros (l : Str) : Str := (l.reverse.dropWhile (· == '0')).reverse

/-- `%.{P}g` of `±a`, `a ≥ 0`, as parts of the decimal grammar -/
def fmtParts (prec : Nat) (neg : Bool) (a : Rat) : DecParts :=
  let P := if prec == 0 then 1 else prec
  if a == 0 then ⟨neg, ['0'], false, [], none⟩
  else
    let (N, X) := roundSig P a
    let ds := natDigits N                                   -- P digits
    if X < -4 || (P : Int) ≤ X then
      -- scientific notation
      let fp := stripZeros (ds.drop 1)
      let e := natDigits X.natAbs
      let e2 := if e.length < 2 then '0' :: e else e
      ⟨neg, ds.take 1, !fp.isEmpty, fp, some (some (if X < 0 then '-' else '+'), e2)⟩
    else if 0 ≤ X then
      let fp := stripZeros (ds.drop (X.toNat + 1))
      ⟨neg, ds.take (X.toNat + 1), !fp.isEmpty, fp, none⟩
    else
      let fp := stripZeros (List.replicate ((-X).toNat - 1) '0' ++ ds)
      ⟨neg, ['0'], !fp.isEmpty, fp, none⟩

/-- `TextTools::toString(d, precision)` for a finite double `d = ±a` -/
def toStringPrec (prec : Nat) (neg : Bool) (a : Rat) : Str := (fmtParts prec neg a).render '.' 'e'

/-- the value the text denotes: `±N · 10^(X-P+1)` -/
def roundedValue (prec : Nat) (neg : Bool) (a : Rat) : Rat :=
  let P := if prec == 0 then 1 else prec
  if a == 0 then 0
  else
    let (N, X) := roundSig P a
    (if neg then -1 else 1) * (N : Rat) * pow10 (X - ((P : Int) - 1))

/-- the rounding has exactly `P` digits (`10^(P-1) ≤ N < 10^P`): true of every positive `a`; the
driver evaluates it with the other predicates -/
def digitsOk (prec : Nat) (a : Rat) : Bool :=
  let P := if prec == 0 then 1 else prec
  a == 0 || (natDigits (roundSig P a).1).length == P

/-- `a` has at most `P` significant decimal digits (nothing is lost by the formatting) -/
def fitsPrec (prec : Nat) (a : Rat) : Bool :=
  let P := if prec == 0 then 1 else prec
  a == 0 || (a / pow10 (decExp a - ((P : Int) - 1))).den == 1

end Bpp.Text.NumFmt
