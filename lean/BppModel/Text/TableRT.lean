import BppModel.Text.TableU
/-
C17, "a table written as delimited text reads back with identical shape, names and cells":
DataTable::write (src/Bpp/Numeric/DataTable.cpp:630-658) at the textual layer, and the reader
DataTable::read (:554-627) of `TableU.lean` extended to return the table it builds (names and
cells; `TableU.readTable` only returns the dimensions — `Props/C17Table.lean` proves it is the
shape of what `readTableFull` returns).
A table is `TableU.Tbl`, row-wise: `nCol`, `colNames` (`[]` = no column names, as
`hasColumnNames()` is `colNames_.size() != 0`), `rowNames` (`[]` = none), `rows`.
-/
namespace Bpp.Text.RT
open Bpp.Text Bpp.Text.U

/-- `out << a[0]; for (i = 1; i < n; i++) out << sep << a[i];` -/
def joinSep (sep : Str) : List Str → Str
  | [] => []
  | [a] => a
  | a :: b :: r => a ++ sep ++ joinSep sep (b :: r)

/-- the header line (:636-646), without the newline -/
def headerLine (t : Tbl) (sep : Str) (alignHeaders : Bool) : Str :=
  (if alignHeaders && t.rowNames.length != 0 then sep else []) ++ joinSep sep t.colNames

/-- the lines of the rows (:648-657) -/
def rowLines (sep : Str) : Bool → List Str → List (List Str) → R (List Str)
  | _, _, [] => .ok []
  | false, names, row :: rows => do
    let rest ← rowLines sep false names rows
    pure (joinSep sep row :: rest)
  | true, [], _ :: _ => .error .ub           -- rowNames_[i] past its size (the class invariant excludes it)
  | true, name :: names, row :: rows => do
    let rest ← rowLines sep true names rows
    pure ((name ++ sep ++ joinSep sep row) :: rest)

/-- the lines DataTable::write produces -/
def tableLines (t : Tbl) (sep : Str) (alignHeaders : Bool) : R (List Str) :=
  if t.nCol == 0 then .ok []                                       -- :633
  else do
    let rows ← rowLines sep (t.rowNames.length != 0) t.rowNames t.rows
    pure ((if t.colNames.length != 0 then [headerLine t sep alignHeaders] else []) ++ rows)

/-- every line is followed by `endl` -/
def unlines : List Str → Str
  | [] => []
  | l :: r => l ++ '\n' :: unlines r

/-- DataTable::write(data, out, sep, alignHeaders): the text written -/
def writeTable (t : Tbl) (sep : Str) (alignHeaders : Bool) : R Str := do
  let ls ← tableLines t sep alignHeaders
  pure (unlines ls)

/-! ## the reader, returning the table -/

/-- the dispatch :565-588 on the token lists of the first two lines -/
def tblInit' (header : Bool) (row1 row2 : List Str) : R (Tbl × Bool) :=
  let t0 : Tbl := ⟨row1.length, [], [], []⟩
  if row1.length == row2.length then do
    let t ← if header then setColumnNames t0 row1 else addRow t0 row1
    let t ← addRow t row2
    pure (t, false)
  else if row1.length == wsub row2.length 1 then do
    let t ← setColumnNames t0 row1
    let name ← vecAt row2 0
    let row ← vecTail row2
    let t ← addRowNamed t name row
    pure (t, true)
  else .error .bpp

/-- the end of `read` :616-625: `setRowNames(getColumn(k)); deleteColumn(k)` -/
def finishFull (rowNames : Int) (t : Tbl) : R Tbl :=
  if rowNames > -1 then
    if rowNames.toNat ≥ t.nCol then .error .bpp
    else do
      let col ← column t.rows rowNames.toNat
      if !uniq col then .error .bpp                                -- setRowNames :233
      else pure { nCol := t.nCol - 1,
                  colNames := if t.colNames.length != 0 then t.colNames.eraseIdx rowNames.toNat else [],
                  rowNames := col,
                  rows := t.rows.map (fun r => r.eraseIdx rowNames.toNat) }
  else pure t

/-- DataTable::read(in, sep, header, rowNames): the table -/
def readTableFull (text sep : Str) (header : Bool) (rowNames : Int) : R Tbl := do
  let (firstLine, st) ← getNextLine ⟨text, false⟩
  let st1 ← mkTokenizer firstLine sep false true
  let (secondLine, st) ← getNextLine st
  let st2 ← mkTokenizer secondLine sep false true
  let (t, hasRowNames) ← tblInit' header st1.tokens st2.tokens
  let t ← readRows true hasRowNames sep (text.length + 2) st t
  finishFull rowNames t

/-- what `TableU.readTable` reports of it -/
def shape (t : Tbl) : Nat × Nat := (t.rows.length, t.nCol)

/-! ## the side conditions of the round trip (decidable; the driver evaluates them) -/

/-- an item (cell or name) is free of the separator character and of newlines -/
def itemOk (c : Char) (x : Str) : Bool := x.all (fun ch => ch != c && ch != '\n')

/-- a written line reads back as its items: the first item is not empty (the reader skips leading
separators) and the line is not blank (the reader skips blank lines and stops at one) -/
def lineOk (c : Char) (items : List Str) : Bool :=
  (match items with
   | [] => false
   | a :: _ => !a.isEmpty)
  && !isEmptyStr (joinSep [c] items)

/-- the class invariant of DataTable (what its constructors and setters guarantee) -/
def tblInv (t : Tbl) : Bool :=
  t.rows.all (fun r => r.length == t.nCol)
  && (t.colNames.length == 0 || (t.colNames.length == t.nCol && uniq t.colNames))
  && (t.rowNames.length == 0 || (t.rowNames.length == t.rows.length && uniq t.rowNames))

/-- the lines as lists of items -/
def rowItems : Bool → List Str → List (List Str) → List (List Str)
  | false, _, rows => rows
  | true, name :: names, row :: rows => (name :: row) :: rowItems true names rows
  | true, _, _ => []

def lineItems (t : Tbl) : List (List Str) :=
  (if t.colNames.length != 0 then [t.colNames] else []) ++ rowItems (t.rowNames.length != 0) t.rowNames t.rows

/-- **the side conditions of the round trip** for a table `t` written with the separator `[c]`:
the class invariant; the separator is not the newline; at least one column; every item is free of
the separator and of newlines; every line starts with a non-empty item and is not blank; the text
has at least two lines -/
def RtWFcore (t : Tbl) (c : Char) : Bool :=
  tblInv t && c != '\n' && t.nCol != 0
  && (lineItems t).all (fun l => l.all (itemOk c) && lineOk c l)
  && decide (2 ≤ (lineItems t).length)

/-- … for `read(in, sep, header = hasColumnNames, rowNames = -1)`: moreover row names only together
with column names (a first line one item shorter than the second is how the reader recognises row
names) -/
def RtWF (t : Tbl) (c : Char) : Bool :=
  RtWFcore t c && (t.rowNames.length == 0 || t.colNames.length != 0)

/-- how the table is read back: `header` = it has column names; the column of row names is given
explicitly (`rowNames = 0`) when there is no header line to recognise it from -/
def readBack (t : Tbl) (text sep : Str) : R Tbl :=
  readTableFull text sep (t.colNames.length != 0)
    (if t.rowNames.length != 0 && t.colNames.length == 0 then 0 else -1)

/-- building the table through the public interface (`DataTable(nCol)`, `setColumnNames`,
`addRow`): the class invariant is checked there -/
def buildTbl (nCol : Nat) (colNames : List Str) (rows : List (Option Str × List Str)) : R Tbl := do
  let t0 : Tbl := ⟨nCol, [], [], []⟩
  let t ← if colNames.length != 0 then setColumnNames t0 colNames else pure t0
  rows.foldlM (fun t r => match r.1 with
    | some name => addRowNamed t name r.2
    | none => addRow t r.2) t

end Bpp.Text.RT
