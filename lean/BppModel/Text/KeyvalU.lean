import BppModel.Text.TokenizerU
import BppModel.Text.Keyval
import BppModel.Text.Glob
/-
UB-aware model of KeyvalTools (src/Bpp/Text/KeyvalTools.cpp) and of the wildcard matchers
(src/Bpp/App/ApplicationTools.cpp:28-95, src/Bpp/Numeric/ParameterList.cpp:220-252) on top of
the UB-aware tokenizers.  The association-list map (`Keyval.Map`, `mapInsert`, `mapFind`) is the
one of the C17 model.  `singleKeyval` is the code after the repair
  fix: singleKeyval with an empty separator called substr(1) on an empty description
-/
namespace Bpp.Text.U
open Bpp.Text Bpp.Text.Keyval

/-- KeyvalTools::singleKeyval (KeyvalTools.cpp:14-23) -/
def singleKeyvalG (fixed : Bool) (desc split : Str) : R (Str × Str) :=
  if fixed && split.isEmpty then .error .bpp                       -- the repair
  else match find split desc with                                  -- :16
    | none => .error .bpp                                          -- :17 KeyvalException
    | some i => do
      let key ← substr desc 0 i                                    -- :19
      let val ← substrFrom desc (wadd i 1)                         -- :20  (i + 1 whatever |split|)
      pure (key, val)

def singleKeyval := singleKeyvalG true
def singleKeyvalOld := singleKeyvalG false

/-- the token loop :35-55 of multipleKeyvals / :93-111 of changeKeyvals: merges `=` tokens.
`acc` = `tokens` (in order). -/
def mergeLoop : Nat → Tokenizer → List Str → R (List Str)
  | 0, _, _ => .error .hang
  | fuel + 1, st, acc =>
    if !st.hasMoreToken then .ok acc
    else do
      let (token, st) ← st.nextToken
      if token == ['='] then
        if acc.length == 0 then .error .bpp                        -- '=' without argument name
        else if !st.hasMoreToken then .error .bpp                  -- '=' without argument value
        else do
          let (nxt, st) ← st.nextToken
          if nxt == ['='] then .error .bpp                         -- double '='
          else do
            let last ← vecAt acc (wsub acc.length 1)               -- tokens[tokens.size() - 1]
            mergeLoop fuel st (acc.take (acc.length - 1) ++ [last ++ '=' :: nxt])
      else mergeLoop fuel st (acc ++ [token])

def mkKvTokenizer (desc split : Str) (nested : Bool) : R Tokenizer :=
  if nested then mkNested desc ['('] [')'] split false              -- :26
  else mkTokenizer desc split false false                           -- :28

/-- one round of the final loop :56-62 -/
def kvStepU (m : Map) (tok : Str) : R Map := do
  let (k, v) ← singleKeyval tok ['=']
  pure (mapInsert (trim k) (trim v) m)

/-- KeyvalTools::multipleKeyvals (:25-66) -/
def multipleKeyvals (desc : Str) (m0 : Map) (split : Str) (nested : Bool) : R Map := do
  let st ← mkKvTokenizer desc split nested
  let toks ← mergeLoop (st.tokens.length + 1) st []
  toks.foldlM kvStepU m0

/-- the common head of changeKeyvals (:70-86) / parseProcedure (:138-153):
`.ok none` = no parenthesis at all -/
def splitProcedure (desc : Str) : R (Option (Str × Str)) :=
  let b := findFirstOf ['('] desc 0
  let e := findLastOf [')'] desc
  match b, e with
  | none, none => .ok none
  | none, some _ => .error .bpp                                    -- missing opening parenthesis
  | some bi, _ => do
    let after ← substrFrom desc (wadd (toSz e) 1)                  -- desc.substr(end + 1)
    if !isEmptyStr after then .error .bpp                          -- extra characters
    else do
      let nm ← substr desc 0 bi
      let inner ← substr desc (wadd bi 1) (wsub (wsub (toSz e) bi) 1)
      pure (some (removeFirstWS nm, inner))

/-- KeyvalTools::parseProcedure (:136-160) on an empty argument map -/
def parseProcedure (desc : Str) : R (Str × Map) := do
  match ← splitProcedure desc with
  | none => pure (desc, [])
  | some (name, inner) =>
    let m ← multipleKeyvals inner [] [','] true
    pure (name, m)

/-- one round of the final loop of changeKeyvals (:113-127) -/
def chgStepU (newkv : Map) (split : Str) (st : Bool × Str) (tok : Str) : R (Bool × Str) := do
  let (k, _) ← singleKeyval tok ['=']
  let key := trim k
  let sep := if st.1 then [] else split
  match mapFind key newkv with
  | some nv => pure (false, st.2 ++ sep ++ key ++ '=' :: nv)
  | none => pure (false, st.2 ++ sep ++ tok)

/-- KeyvalTools::changeKeyvals (:68-134) -/
def changeKeyvals (desc : Str) (newkv : Map) (split : Str) (nested : Bool) : R Str := do
  match ← splitProcedure desc with
  | none => pure desc
  | some (name, inner) =>
    let st ← mkKvTokenizer inner split nested
    let toks ← mergeLoop (st.tokens.length + 1) st []
    let r ← toks.foldlM (chgStepU newkv split) (true, name ++ ['('])
    pure (r.2 ++ [')'])

/-! ## wildcard matcher (three identical copies in the library) -/

/-- the `while (flag && stj.hasMoreToken())` loop: `none` = `flag` became false -/
def matchLoopU (name : Str) : Nat → Tokenizer → Nat → Str → R (Option (Nat × Str))
  | 0, _, _, _ => .error .hang
  | fuel + 1, stj, pos1, g =>
    if !stj.hasMoreToken then .ok (some (pos1, g))
    else do
      let (g', stj) ← stj.nextToken
      match findFrom g' name pos1 with                             -- name.find(g, pos1), any pos1
      | none => pure none
      | some pos2 => matchLoopU name fuel stj (wadd pos2 g'.length) g'

/-- one name against the pattern (ApplicationTools.cpp:34-56) -/
def matcherU (pattern name : Str) : R Bool := do
  let stj ← mkTokenizer pattern ['*'] true false
  let (g, stj) ← stj.nextToken
  let pos1 := wadd (toSz (find g name)) g.length                   -- pos1 = find; pos1 += g.length()
  let flag := (find g name == some 0) && !( !stj.hasMoreToken && name != g)
  if !flag then pure false
  else
    match ← matchLoopU name (stj.tokens.length + 1) stj pos1 g with
    | none => pure false
    | some (p1, gl) =>
      pure (gl.length == 0 || p1 == name.length ||
        toSz (rfind gl name) == wsub name.length gl.length)

end Bpp.Text.U
