/-
Small `List Char` string primitives used by the C17 models (Number, Glob, Keyval, Vars).
Strings are lists of ASCII characters; `std::string::npos` is `none`.
(The C16 models own the full `std::string` library; this file only has what C17 needs.)
-/
namespace Bpp.Text

abbrev Str := List Char

/-- `std::isspace` in the "C" locale -/
def isSpace (c : Char) : Bool :=
  c == ' ' || c == '\t' || c == '\n' || c == '\x0b' || c == '\x0c' || c == '\r'

/-- `std::isdigit` -/
def isDigit (c : Char) : Bool := decide ('0' ≤ c) && decide (c ≤ '9')

/-- TextTools::isEmpty (TextTools.cpp:20): every character is white space -/
def isEmptyStr (s : Str) : Bool := s.all isSpace

/-- TextTools::removeFirstWhiteSpaces (TextTools.cpp:69) -/
def removeFirstWS (s : Str) : Str := s.dropWhile isSpace

/-- TextTools::removeLastWhiteSpaces (TextTools.cpp:79) -/
def removeLastWS (s : Str) : Str := (s.reverse.dropWhile isSpace).reverse

/-- TextTools::removeSurroundingWhiteSpaces (TextTools.cpp:90) -/
def trim (s : Str) : Str := removeLastWS (removeFirstWS s)

/-- `pat` is a prefix of `s` -/
def isPrefix : Str → Str → Bool
  | [], _ => true
  | _ :: _, [] => false
  | a :: p, b :: s => a == b && isPrefix p s

/-- `s.find(pat)` from the start: index of the first occurrence -/
def find (pat : Str) : Str → Option Nat
  | [] => if pat.isEmpty then some 0 else none
  | c :: s =>
    if isPrefix pat (c :: s) then some 0
    else (find pat s).map (· + 1)

/-- `s.find(pat, pos)`: first occurrence at an index `≥ pos` (`pos ≤ size`; a larger `pos` gives npos) -/
def findFrom (pat s : Str) (pos : Nat) : Option Nat :=
  if pos ≤ s.length then (find pat (s.drop pos)).map (· + pos) else none

/-- `s.rfind(pat)`: index of the last occurrence -/
def rfind (pat : Str) : Str → Option Nat
  | [] => if pat.isEmpty then some 0 else none
  | c :: s =>
    match rfind pat s with
    | some k => some (k + 1)
    | none => if isPrefix pat (c :: s) then some 0 else none

/-- `s.find_first_of(c)` for a one-character set -/
def findChar (c : Char) : Str → Option Nat
  | [] => none
  | d :: s => if d == c then some 0 else (findChar c s).map (· + 1)

/-- `s.find_last_of(c)` for a one-character set -/
def findLastChar (c : Char) : Str → Option Nat
  | [] => none
  | d :: s =>
    match findLastChar c s with
    | some k => some (k + 1)
    | none => if d == c then some 0 else none

/-- TextTools::count (TextTools.cpp:388): number of (possibly overlapping) occurrences of a
non-empty pattern.  (For the empty pattern `std::search` finds a match at every position, the
loop runs `size` times: modelled as `size`.) -/
def countSub (pat : Str) : Str → Nat
  | [] => 0
  | c :: s => (if isPrefix pat (c :: s) then 1 else 0) + countSub pat s

/-! ### hex transport of strings (line protocol) -/

def hexVal (c : Char) : Option Nat :=
  if '0' ≤ c ∧ c ≤ '9' then some (c.toNat - 48)
  else if 'a' ≤ c ∧ c ≤ 'f' then some (c.toNat - 87)
  else none

def unhexAux : List Char → Option Str
  | [] => some []
  | a :: b :: rest =>
    match hexVal a, hexVal b, unhexAux rest with
    | some x, some y, some r => some (Char.ofNat (16 * x + y) :: r)
    | _, _, _ => none
  | _ => none

/-- "-" is the empty string -/
def unhex (t : String) : Option Str :=
  if t == "-" then some [] else unhexAux t.toList

def hexDigit (n : Nat) : Char := if n < 10 then Char.ofNat (48 + n) else Char.ofNat (87 + n)

def hex (s : Str) : String :=
  if s.isEmpty then "-"
  else String.ofList (s.flatMap (fun c => [hexDigit (c.toNat / 16), hexDigit (c.toNat % 16)]))

end Bpp.Text
