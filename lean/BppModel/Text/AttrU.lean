import BppModel.Text.KeyvalU
import BppModel.Text.Vars
/-
UB-aware model of AttributesTools (src/Bpp/Utils/AttributesTools.cpp): removeComments (:186-211),
the cleaning + continuation-joining + parsing loops of getAttributesMap (:51-96; this is the line
loop behind getAttributesMapFromFile), resolveVariables (:137-182, any mark characters), of the
FileTools path helpers (src/Bpp/Io/FileTools.cpp:41-101) and of
IntervalConstraint::readDescription (src/Bpp/Numeric/Constraints.h:250-269).
After the repairs
  fix: AttributesTools::removeComments never returned for marks that start with one another
  fix: getAttributesMap read past the last line when it ends with a continuation mark
  fix: getAttributesMap read arg[size() - 1] of a joined line that became empty
  fix: FileTools::getParent of a path without separator erased from begin() - 1
-/
namespace Bpp.Text.U
open Bpp.Text Bpp.Text.Keyval

/-! ## removeComments -/

/-- the `do … while (last != npos)` loop; `last` is the value kept from the previous round -/
def rmCommentsLoop (b e : Str) : Nat → Str → Nat → R Str
  | 0, _, _ => .error .hang
  | fuel + 1, r, last =>
    match findFrom b r last with                                   -- :194 r.find(begin, last)
    | none => .ok r                                                -- :196
    | some first =>
      match findFrom e r first with                                -- :198 r.find(end, first)
      | none => eraseRange r (toPtrdiff first) r.length            -- :201, then `while` ends
      | some last' => do
        let r' ← eraseRange r (toPtrdiff first) (toPtrdiff last')  -- :205
        rmCommentsLoop b e fuel r' last'

/-- the code as found: no test of the marks -/
def removeCommentsOld (s b e : Str) : R Str := rmCommentsLoop b e (s.length + 2) s 0

/-- AttributesTools::removeComments(s, begin, end) (private; called with the three pairs below).
After the repair "fix: AttributesTools::removeComments never returned for marks that start with one
another": `begin.compare(0, end.size(), end) == 0` = `end` is a prefix of `begin`, and conversely
(an empty mark is a prefix of every mark) -/
def removeComments (s b e : Str) : R Str :=
  if isPrefix e b || isPrefix b e then .error .bpp
  else rmCommentsLoop b e (s.length + 2) s 0

/-- the cleaning of one line (:59-64) -/
def cleanLine (line : Str) : R Str := do
  let a ← removeComments line ['#'] ['\n']
  let a ← removeComments a ['/', '/'] ['\n']
  let a ← removeComments a ['/', '*'] ['*', '/']
  pure (removeWhiteSpaces a)

/-! ## getAttributesMap -/

/-- the `while (arg[arg.size() - 1] == '\\')` loop (:72-80); returns the joined line and `i`.
`mode` 0 = code as found, 1 = after the first repair (`if (i < size)`), 2 = after both. -/
def joinLoop (mode : Nat) (argv2 : List Str) : Nat → Str → Nat → R (Str × Nat)
  | 0, _, _ => .error .hang
  | fuel + 1, arg, i =>
    if mode ≥ 2 && arg.isEmpty then .ok (arg, i)                   -- `!arg.empty() &&`
    else do
      let c ← strAt arg (wsub arg.length 1)                        -- arg[arg.size() - 1]
      if c != '\\' then pure (arg, i)
      else do
        let i := i + 1
        let head ← substr arg 0 (wsub arg.length 1)
        let arg ←
          if mode ≥ 1 then
            (if i < argv2.length then do let nxt ← vecAt argv2 i; pure (head ++ nxt) else pure head)
          else do let nxt ← vecAt argv2 i; pure (head ++ nxt)
        joinLoop mode argv2 fuel arg i

/-- every round of `joinLoop` removes one `\\` from the text still to be read (`arg` and the lines
after `i`): the number of rounds is at most the total number of characters -/
def joinFuel (argv2 : List Str) : Nat := (argv2.map List.length).sum + 2

/-- the parsing loop :67-95: `for (i = 0; i < argv.size(); i++)` -/
def parseLoop (mode : Nat) (argv2 : List Str) (delim : Str) : Nat → Nat → Map → R Map
  | 0, _, _ => .error .hang
  | fuel + 1, i, am =>
    if i < argv2.length then do
      let arg ← vecAt argv2 i
      if arg.isEmpty then parseLoop mode argv2 delim fuel (i + 1) am        -- :70 continue
      else do
        let (arg, i) ← joinLoop mode argv2 (joinFuel argv2) arg i
        match findFrom delim arg 0 with                                      -- :82
        | none => parseLoop mode argv2 delim fuel (i + 1) am                 -- warning, ignored
        | some limit => do
          let name ← range arg 0 (toPtrdiff limit)                           -- :90
          let value ← range arg (toPtrdiff (wadd limit delim.length)) arg.length   -- :91
          parseLoop mode argv2 delim fuel (i + 1) (mapInsert name value am)
    else .ok am

def getAttributesMapG (mode : Nat) (argv : List Str) (delim : Str) : R Map := do
  let argv2 ← argv.mapM cleanLine
  parseLoop mode argv2 delim (argv2.length + 2) 0 []

/-- AttributesTools::getAttributesMap(argv, delimiter) -/
def getAttributesMap := getAttributesMapG 2
def getAttributesMapOld := getAttributesMapG 0

/-! ## resolveVariables (any mark characters) -/

/-- the `while (index1 != npos)` loop for the entry `key` (:146-180); as in the C17 model the
entry's own value is `value` (the code keeps `it->second == value`) -/
def resolveOneU (code beg en : Char) (am : Map) (key : Str) : Nat → Str → R Str
  | 0, _ => .error .hang
  | fuel + 1, value =>
    match find [code, beg] value with                              -- :145 / :176
    | none => .ok value
    | some index1 =>
      match findFrom [en] value index1 with                        -- :148
      | none => .error .bpp                                        -- :179
      | some index2 => do
        let varName ← substr value (wadd index1 2) (wsub (wsub index2 index1) 2)   -- :151
        let found := if varName == key then some value else mapFind varName am
        let varValue := match found with
          | none => []
          | some vv => if vv == value then [] else vv
        let pre ← substr value 0 index1                            -- :172
        let post ← substrFrom value (wadd index2 1)
        resolveOneU code beg en am key fuel (pre ++ varValue ++ post)

def resolveKeysU (code beg en : Char) (fuel : Nat) : List Str → Map → R Map
  | [], am => .ok am
  | k :: ks, am =>
    match mapFind k am with
    | none => resolveKeysU code beg en fuel ks am
    | some v => do
      let v' ← resolveOneU code beg en am k fuel v
      resolveKeysU code beg en fuel ks (Vars.mapSet k v' am)

/-- AttributesTools::resolveVariables(am, varCode, varBeg, varEnd); `fuel` = substitutions allowed
per entry -/
def resolveVariablesU (code beg en : Char) (fuel : Nat) (am : Map) : R Map :=
  resolveKeysU code beg en fuel (am.map (·.1)) am

/-! ## FileTools path helpers -/

/-- FileTools::getFileName (FileTools.cpp:41-57) -/
def getFileName (path : Str) (dirSep : Char) : R Str :=
  let en := toPtrdiff (toSz (findLastOf ['.'] path))               -- :43
  let bg := toPtrdiff (wadd (toSz (findLastOf [dirSep] path)) 1)   -- :44
  if bg > en then .ok []                                           -- :47
  else do
    let r ← eraseRange path en path.length                         -- :52
    eraseRange r 0 bg                                              -- :53

/-- FileTools::getParent (:72-85); `fixed` = with the `npos` test -/
def getParentG (fixed : Bool) (path : Str) (dirSep : Char) : R Str :=
  let pos := findLastOf [dirSep] path
  if fixed && pos.isNone then .ok []
  else eraseRange path (toPtrdiff (toSz pos)) path.length

def getParent := getParentG true
def getParentOld := getParentG false

/-- FileTools::getExtension (:89-93) -/
def getExtension (path : Str) : R Str :=
  substrFrom path (wadd (toSz (findLastOf ['.'] path)) 1)

/-! ## IntervalConstraint::readDescription -/

/-- the bounds as text: `-inf` / `+inf` / `inf` or a number accepted by `toDouble` -/
def boundOk (lower : Bool) (t : Str) : R Unit :=
  if lower then (if t == "-inf".toList then .ok () else toDoubleClass '.' 'e' t)
  else (if t == "+inf".toList || t == "inf".toList then .ok () else toDoubleClass '.' 'e' t)

/-- Constraints.h:250-269: returns (inclLowerBound, inclUpperBound, lower text, upper text) -/
def readDescription (desc : Str) : R (Bool × Bool × Str × Str) :=
  let pdp := findFrom [';'] desc 0
  let dc := findFirstOf ['[', ']'] desc 1
  match dc, pdp with
  | none, _ => .error .bpp
  | _, none => .error .bpp
  | some dc, some pdp => do
    let c0 ← strAt desc 0
    if (c0 != ']' && c0 != '[') || decide (pdp ≥ dc) then .error .bpp
    else do
      let deb ← substr desc 1 (wsub pdp 1)
      let fin ← substr desc (wadd pdp 1) (wsub (wsub dc pdp) 1)
      let cdc ← strAt desc dc
      let _ ← boundOk true (trim deb)
      let _ ← boundOk false (trim fin)
      pure (c0 == '[', cdc == ']', trim deb, trim fin)

end Bpp.Text.U
