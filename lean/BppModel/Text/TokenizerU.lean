import BppModel.Text.Ub
import BppModel.Text.TextToolsU
/-
UB-aware model of StringTokenizer (src/Bpp/Text/StringTokenizer.cpp:15-84, StringTokenizer.h) and
NestedStringTokenizer (src/Bpp/Text/NestedStringTokenizer.cpp:16-119), every option combination.

The constructors are loops over string positions with `substr` calls at computed positions; the
model keeps the positions (`index`, `newIndex`), calls the UB-aware `substr`, and takes fuel for
the `while` loops (`.error .hang` when it runs out; `Props/C16Tokenizer.lean` proves it never
does with the fuel `size + 2` the entry points pass).
The code is the one after the repairs
  fix: unparseRemainingTokens of a tokenizer without token read tokens_[0] (size() - 1 underflow)
  fix: StringTokenizer / NestedStringTokenizer with an empty solid delimiter never terminated
  fix: StringTokenizer::getToken read tokens_[pos] without checking pos
  fix: NestedStringTokenizer never recorded its separators … (`splits_` is filled; the stub
       `unparseRemainingTokens() { return ""; }` that hid the base method is gone)
The code as found is kept (`…Old`, `mkNestedNoSplits`) for the witness theorems.
-/
namespace Bpp.Text.U
open Bpp.Text

/-- the object: `tokens_`, `splits_`, `currentPosition_` -/
structure Tokenizer where
  tokens : List Str
  splits : List Str
  pos : Nat
  deriving Repr, DecidableEq

/-- non-solid branch (StringTokenizer.cpp:17-35): the `while (index != npos)` loop entered with a
valid `index` -/
def nsLoop (s d : Str) (allowEmpty : Bool) : Nat → Nat → R (List Str × List Str)
  | 0, _ => .error .hang
  | fuel + 1, index =>
    match findFirstOf d s index with                               -- :20
    | some newIndex => do
      let t ← substr s index (wsub newIndex index)                 -- :23
      let index' : Option Nat :=
        if !allowEmpty then findFirstNotOf d s newIndex            -- :25
        else some (wadd newIndex 1)                                -- :27
      let sp ← substr s newIndex (wsub (toSz index') newIndex)     -- :28
      match index' with
      | none => pure ([t], [sp])
      | some i => do
        let (ts, ss) ← nsLoop s d allowEmpty fuel i
        pure (t :: ts, sp :: ss)
    | none => do
      let t ← substrFrom s index                                   -- :32
      pure ([t], [])

/-- the inner loop :47-48 skipping repeated delimiters -/
def skipSolid (s d : Str) : Nat → Nat → R Nat
  | 0, _ => .error .hang
  | fuel + 1, index => do
    let nxt ← substr s index d.length
    if nxt == d then skipSolid s d fuel (wadd index d.length) else pure index

/-- solid branch (:38-61): the `while (index != npos)` loop -/
def solidLoop (s d : Str) (allowEmpty : Bool) : Nat → Nat → R (List Str × List Str)
  | 0, _ => .error .hang
  | fuel + 1, index =>
    match findFrom d s index with                                  -- :41 s.find(delimiters, index)
    | some newIndex => do
      let t ← substr s index (wsub newIndex index)                 -- :44
      let index' ←
        if !allowEmpty then skipSolid s d (s.length + 2) (wadd newIndex d.length)   -- :47-49
        else pure (wadd newIndex d.length)                         -- :52
      let sp ← substr s newIndex (wsub index' newIndex)            -- :53
      let (ts, ss) ← solidLoop s d allowEmpty fuel index'
      pure (t :: ts, sp :: ss)
    | none => do
      let t ← substrFrom s index                                   -- :57
      pure ([t], [])

def loopFuel (s : Str) : Nat := s.length + 2

/-- `StringTokenizer(s, delimiters, solid, allowEmptyTokens)`; `fixed` = with the empty-solid-
delimiter repair -/
def mkTokenizerG (fixed : Bool) (s d : Str) (solid allowEmpty : Bool) : R Tokenizer :=
  if !solid then
    match findFirstNotOf d s 0 with                                -- :18
    | none => .ok ⟨[], [], 0⟩
    | some index => do
      let (ts, ss) ← nsLoop s d allowEmpty (loopFuel s) index
      pure ⟨ts, ss, 0⟩
  else if fixed && d.isEmpty then .error .bpp                      -- the repair
  else do
    let (ts, ss) ← solidLoop s d allowEmpty (loopFuel s) 0
    pure ⟨ts, ss, 0⟩

def mkTokenizer := mkTokenizerG true
def mkTokenizerOld := mkTokenizerG false

namespace Tokenizer

/-- StringTokenizer.h:51 -/
def hasMoreToken (t : Tokenizer) : Bool := t.pos < t.tokens.length
/-- StringTokenizer.h:44 -/
def nextToken (t : Tokenizer) : R (Str × Tokenizer) :=
  if !t.hasMoreToken then .error .bpp
  else do
    let tok ← vecAt t.tokens t.pos
    pure (tok, { t with pos := t.pos + 1 })
/-- StringTokenizer.h:61 -/
def numberOfRemainingTokens (t : Tokenizer) : Nat := wsub t.tokens.length t.pos
/-- StringTokenizer.h:71 after the repair `fix: StringTokenizer::getToken read tokens_[pos] without
checking pos` -/
def getToken (t : Tokenizer) (pos : Nat) : R Str :=
  if pos ≥ t.tokens.length then .error .bpp else vecAt t.tokens pos
/-- the code as found -/
def getTokenOld (t : Tokenizer) (pos : Nat) : R Str := vecAt t.tokens pos

/-- StringTokenizer.cpp:65-72: `for (i = size; i > currentPosition_; i--) if (tokens_[i-1] == "") erase` -/
def rmEmptyLoop (pos : Nat) : Nat → List Str → R (List Str)
  | 0, toks => .ok toks
  | i + 1, toks =>
    if i + 1 > pos then do
      let tk ← vecAt toks i
      rmEmptyLoop pos i (if tk.isEmpty then toks.eraseIdx i else toks)
    else .ok toks

def removeEmptyTokens (t : Tokenizer) : R Tokenizer := do
  let toks ← rmEmptyLoop t.pos t.tokens.length t.tokens
  pure { t with tokens := toks }

/-- the loop :77-80 from `i` while `i < bound` (`k` iterations left) -/
def unparseLoop (t : Tokenizer) : Nat → Nat → R Str
  | 0, _ => .ok []
  | k + 1, i => do
    let a ← vecAt t.tokens i
    let b ← vecAt t.splits i
    let rest ← unparseLoop t k (i + 1)
    pure (a ++ b ++ rest)

/-- StringTokenizer.cpp:74-84 after the repair: `for (i = pos; i + 1 < size; ++i)` -/
def unparseRemainingTokens (t : Tokenizer) : R Str := do
  let body ← unparseLoop t (t.tokens.length - (t.pos + 1)) t.pos
  if t.numberOfRemainingTokens > 0 then do
    let last ← vecBack t.tokens
    pure (body ++ last)
  else pure body

/-- the code as found: `i < tokens_.size() - 1` in `size_t` -/
def unparseRemainingTokensOld (t : Tokenizer) : R Str := do
  let bound := wsub t.tokens.length 1
  let body ← unparseLoop t (bound - t.pos) t.pos
  if t.numberOfRemainingTokens > 0 then do
    let last ← vecBack t.tokens
    pure (body ++ last)
  else pure body

end Tokenizer

/-- the class invariant every constructor establishes and every method keeps: the cursor is within
the token list, there is a split for every token but the last, the token count is a `size_t` -/
structure Tokenizer.WF (t : Tokenizer) : Prop where
  pos_le : t.pos ≤ t.tokens.length
  splits : t.tokens.length ≤ t.splits.length + 1
  size : t.tokens.length < SZ

/-! ## NestedStringTokenizer -/

/-- `blocks += (int)count(token, open) - (int)count(token, end)` (:32): UB on `int` overflow -/
def blocksUpd (blocks : Int) (token op en : Str) : R Int :=
  intRes (blocks + ((count token op : Nat) : Int) - ((count token en : Nat) : Int))

/-- non-solid branch (NestedStringTokenizer.cpp:22-66); the two nested `while` loops are one
recursion on (`index`, `newIndex`, `blocks`, `cache`); returns (`tokens_`, `splits_`) -/
def nestNs (s op en d : Str) : Nat → Nat → Option Nat → Int → Str → R (List Str × List Str)
  | 0, _, _, _, _ => .error .hang
  | fuel + 1, index, some newIndex, blocks, cache => do
    let token ← substr s index (wsub newIndex index)               -- :31
    let blocks' ← blocksUpd blocks token op en
    if blocks' == 0 then do
      let index' := findFirstNotOf d s newIndex                    -- :38
      let sp ← substr s newIndex (wsub (toSz index') newIndex)     -- :39 splits_.push_back (the repair)
      match index' with
      | none => pure ([cache ++ token], [sp])
      | some i => do
        let (ts, ss) ← nestNs s op en d fuel i (findFirstOf d s i) 0 []
        pure ((cache ++ token) :: ts, sp :: ss)
    else do
      let piece ← substr s index (wadd (wsub newIndex index) 1)    -- :45
      let index' := wadd newIndex 1
      nestNs s op en d fuel index' (findFirstOf d s index') blocks' (cache ++ piece)
  | _ + 1, index, none, blocks, cache => do
    let token ← substrFrom s index                                 -- :52
    let blocks' ← blocksUpd blocks token op en
    if blocks' == 0 then pure ([cache ++ token], []) else .error .bpp   -- :62 "Unclosed block."

/-- solid branch (:70-114) -/
def nestSolid (s op en d : Str) : Nat → Nat → Option Nat → Int → Str → R (List Str × List Str)
  | 0, _, _, _, _ => .error .hang
  | fuel + 1, index, some newIndex, blocks, cache => do
    let token ← substr s index (wsub newIndex index)               -- :79
    let blocks' ← blocksUpd blocks token op en
    if blocks' == 0 then do
      let i := wadd newIndex d.length                              -- :86
      let (ts, ss) ← nestSolid s op en d fuel i (findFrom d s i) 0 []
      pure ((cache ++ token) :: ts, d :: ss)                       -- :87 splits_.push_back(delimiters)
    else do
      let piece ← substr s index (wadd (wsub newIndex index) 1)    -- :93
      let index' := wadd newIndex 1
      nestSolid s op en d fuel index' (findFrom d s index') blocks' (cache ++ piece)
  | _ + 1, index, none, blocks, cache => do
    let token ← substrFrom s index                                 -- :100
    let blocks' ← blocksUpd blocks token op en
    if blocks' == 0 then pure ([cache ++ token], []) else .error .bpp   -- :110

/-- `NestedStringTokenizer(s, open, end, delimiters, solid)` -/
def mkNestedG (fixed : Bool) (s op en d : Str) (solid : Bool) : R Tokenizer :=
  if !solid then
    match findFirstNotOf d s 0 with
    | none => .ok ⟨[], [], 0⟩
    | some index => do
      let (ts, ss) ← nestNs s op en d (loopFuel s) index (findFirstOf d s index) 0 []
      pure ⟨ts, ss, 0⟩
  else if fixed && d.isEmpty then .error .bpp                      -- the repair
  else do
    let (ts, ss) ← nestSolid s op en d (loopFuel s) 0 (findFrom d s 0) 0 []
    pure ⟨ts, ss, 0⟩

def mkNested := mkNestedG true
/-- the code as found as far as the empty solid delimiter is concerned -/
def mkNestedOld := mkNestedG false
/-- the constructor before the repair `fix: NestedStringTokenizer never recorded its separators …`:
the same tokens, `splits_` left empty -/
def mkNestedNoSplits (s op en d : Str) (solid : Bool) : R Tokenizer :=
  (mkNested s op en d solid).map (fun t => { t with splits := [] })

/-! ## method scripts (the histories the property quantifies over) -/

inductive Call where
  | next | has | remaining | rmEmpty | unparse | get (k : Nat)
  deriving Repr, DecidableEq

/-- what one call returns -/
inductive Ans where
  | str (s : Str) | bool (b : Bool) | nat (n : Nat) | unit | raised
  deriving Repr, DecidableEq

/-- one call on the object; a `bpp` exception of `nextToken` leaves the object unchanged.
`_nested` = the object is a NestedStringTokenizer: since the repair it has no method of its own
that behaves differently (the stub `unparseRemainingTokens() { return ""; }` is gone; the base
method was what ran through a `StringTokenizer&` all along). -/
def callStep (_nested fixed : Bool) (t : Tokenizer) : Call → R (Ans × Tokenizer)
  | .next =>
    match t.nextToken with
    | .ok (tok, t') => .ok (.str tok, t')
    | .error .bpp => .ok (.raised, t)
    | .error e => .error e
  | .has => .ok (.bool t.hasMoreToken, t)
  | .remaining => .ok (.nat t.numberOfRemainingTokens, t)
  | .rmEmpty => do
    let t' ← t.removeEmptyTokens
    pure (.unit, t')
  | .unparse => do
    let u ← if fixed then t.unparseRemainingTokens else t.unparseRemainingTokensOld
    pure (.str u, t)
  | .get k =>
    match (if fixed then t.getToken k else t.getTokenOld k) with
    | .ok tok => .ok (.str tok, t)
    | .error .bpp => .ok (.raised, t)
    | .error e => .error e

def runCalls (nested fixed : Bool) : Tokenizer → List Call → R (List Ans)
  | _, [] => .ok []
  | t, c :: cs => do
    let (a, t') ← callStep nested fixed t c
    let rest ← runCalls nested fixed t' cs
    pure (a :: rest)

end Bpp.Text.U
