import BppModel.Text.StrLite
/-
The wildcard matcher of the library.  The same code appears three times:
  ParameterList::getMatchingParameterNames   src/Bpp/Numeric/ParameterList.cpp:220-252
  ApplicationTools::matchingParameters (map)  src/Bpp/App/ApplicationTools.cpp:28-60
  ApplicationTools::matchingParameters (vec)  src/Bpp/App/ApplicationTools.cpp:64-96
`matcher` is the code after the repair "fix: wildcard-free pattern must equal the parameter
name"; `matcherOld` is the code as found.  `globMatch` is the textbook recursive glob with `*`.
-/
namespace Bpp.Text.Glob
open Bpp.Text

/-- `StringTokenizer(pattern, "*", solid = true, allowEmptyTokens = false)`
(StringTokenizer.cpp:38-62) for the one-character delimiter: the pattern is cut at every
maximal run of `*`; a leading / trailing run gives an empty first / last token; the token list is
never empty.  `skip` = "inside a run of delimiters" (the inner `while` of the constructor). -/
def starTokens (skip : Bool) : Str → List Str
  | [] => [[]]
  | c :: rest =>
    if c == '*' then (if skip then starTokens true rest else [] :: starTokens true rest)
    else match starTokens false rest with
      | t :: ts => (c :: t) :: ts
      | [] => [[c]]

/-- the `while (flag && stj.hasMoreToken())` loop: `pos1`, the last token `g`, the remaining tokens.
`none` = `flag` became false. -/
def matchLoop (name : Str) : Nat → Str → List Str → Option (Nat × Str)
  | pos1, g, [] => some (pos1, g)
  | pos1, _, g :: ts =>
    match findFrom g name pos1 with            -- pos2 = name.find(g, pos1)
    | none => none                              -- flag = false; break
    | some pos2 => matchLoop name (pos2 + g.length) g ts

/-- `name.rfind(g) == name.length() - g.length()` in `size_t` arithmetic (npos = 2^64-1: when `g` is
exactly one longer than `name` both sides are 2^64-1) -/
def rfindEqEnd (g name : Str) : Bool :=
  match rfind g name with
  | some k => decide (k + g.length = name.length)
  | none => decide (g.length = name.length + 1)

/-- the final test `g.length()==0 || pos1==name.length() || name.rfind(g)==name.length()-g.length()` -/
def finalTest (name : Str) (pos1 : Nat) (g : Str) : Bool :=
  g.length == 0 || pos1 == name.length || rfindEqEnd g name

/-- the matcher after the repair -/
def matcher (pattern name : Str) : Bool :=
  match starTokens false pattern with
  | [] => false                                  -- cannot happen (nextToken would throw)
  | g :: ts =>
    -- pos1 = name.find(g); if (pos1 != 0) flag = false; pos1 += g.length();
    if find g name != some 0 then false
    -- if (!stj.hasMoreToken() && name != g) flag = false;          (the repair)
    else if ts.isEmpty && name != g then false
    else match matchLoop name g.length g ts with
      | none => false
      | some (pos1, gl) => finalTest name pos1 gl

/-- the matcher as found -/
def matcherOld (pattern name : Str) : Bool :=
  match starTokens false pattern with
  | [] => false
  | g :: ts =>
    if find g name != some 0 then false
    else match matchLoop name g.length g ts with
      | none => false
      | some (pos1, gl) => finalTest name pos1 gl

/-- textbook glob: `*` matches any (possibly empty) string, every other character itself -/
def globMatch : Str → Str → Bool
  | [], [] => true
  | [], _ :: _ => false
  | p :: ps, [] => p == '*' && globMatch ps []
  | p :: ps, c :: n =>
    if p == '*' then globMatch ps (c :: n) || globMatch (p :: ps) n
    else p == c && globMatch ps n
termination_by p n => p.length + n.length

end Bpp.Text.Glob
