import BppModel.Text.Ub
import BppModel.Text.Number
/-
UB-aware model of `TextTools::toInt` (src/Bpp/Text/TextTools.cpp:218-256, after the repair "fix:
TextTools::toInt ignored the exponent it accepts and clamped silently"): the three loops compute
in a `long long`; here every `long long` operation goes through `llRes` (signed overflow is
`.error .ub`) and the scaling loop takes fuel (`.error .hang` when it needs more rounds than the
entry point allows).  C17's `Number.toInt` is the same computation on naturals, where neither
outcome can be expressed; `Props/C16ToInt.lean` proves that the two agree, i.e. that no
overflow happens and that the scaling loop runs at most 11 times.
`sat = false` is the code without the saturation of the exponent (`if (e > 10) e = 11;`), kept
for the witness theorems.
-/
namespace Bpp.Text.U
open Bpp.Text

def llMax : Int := 9223372036854775807
def llMin : Int := -9223372036854775808
/-- the result of a `long long` operation: undefined outside the range -/
def llRes (v : Int) : R Int := if llMin ≤ v ∧ v ≤ llMax then .ok v else .error .ub

/-- `s[i] - '0'`: `char` is signed on x86-64 (bytes ≥ 0x80 are negative), both operands are
promoted to `int` -/
def charMinus0 (c : Char) : Int :=
  (if c.toNat < 128 then (c.toNat : Int) else (c.toNat : Int) - 256) - 48

/-- `lim` = -INT_MIN (:224) -/
def toIntLimI : Int := 2147483648

/-- `if (m > lim) m = lim + 1;` -/
def satLim (m : Int) : Int := if m > toIntLimI then toIntLimI + 1 else m

/-- the mantissa loop :229-234, `for (; i < s.size() && s[i] != scientificNotation; ++i)`:
returns the mantissa and what is left (starting at the mark) -/
def mantU (sci : Char) : Int → Str → R (Int × Str)
  | m, [] => .ok (m, [])
  | m, c :: r =>
    if c == sci then .ok (m, c :: r)
    else do
      let m1 ← llRes (m * 10)                                     -- :231 m * 10
      let m2 ← llRes (m1 + charMinus0 c)                          --      + (s[i] - '0')
      mantU sci (satLim m2) r                                      -- :232-233

/-- the exponent loop :240-245; `sat` = with `if (e > 10) e = 11;` -/
def expU (sat : Bool) : Int → Str → R Int
  | e, [] => .ok e
  | e, c :: r => do
    let e1 ← llRes (e * 10)                                        -- :242
    let e2 ← llRes (e1 + charMinus0 c)
    expU sat (if sat && decide (e2 > 10) then 11 else e2) r        -- :243-244

/-- the scaling loop :246-251, `for (; e > 0 && m != 0; --e)`; `fuel` = rounds allowed -/
def scaleU : Nat → Int → Int → R Int
  | 0, e, m => if decide (e > 0) && m != 0 then .error .hang else .ok m
  | fuel + 1, e, m =>
    if decide (e > 0) && m != 0 then do
      let m1 ← llRes (m * 10)                                      -- :248
      let e' ← llRes (e - 1)                                       -- --e
      scaleU fuel e' (satLim m1)                                   -- :249-250
    else .ok m

/-- rounds the entry point allows to the scaling loop: the saturated exponent is at most 11 -/
def scaleFuel : Nat := 12

/-- `TextTools::toInt(s, scientificNotation)`; `sat = true` is the code -/
def toIntUG (sat : Bool) (sci : Char) (s : Str) : R Int :=
  if !Number.isDecimalInteger sci s then .error .bpp               -- :220
  else do
    let neg := s.head? == some '-'                                 -- :225 s[0] == '-'
    let body := if neg then s.drop 1 else s
    let (m, rest) ← mantU sci 0 body                               -- :228-234
    let m ←
      match rest with
      | [] => pure m                                               -- :235 i == size
      | _ :: r => do                                               -- :237 ++i; :238 if (s[i] == '+') ++i
        let e ← expU sat 0 (Number.skipPlus r)
        scaleU scaleFuel e m
    if (if neg then decide (m > toIntLimI) else decide (m ≥ toIntLimI)) then .error .bpp   -- :253
    else .ok (if neg then -m else m)                               -- :255 static_cast<int>

def toIntU := toIntUG true
/-- the code without the saturation of the exponent -/
def toIntNoSat := toIntUG false

end Bpp.Text.U
