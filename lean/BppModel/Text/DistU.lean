import BppModel.Text.KeyvalU
/-
UB-aware model of the *text handling* of BppODiscreteDistributionFormat::readDiscreteDistribution
(src/Bpp/Io/BppODiscreteDistributionFormat.cpp:40-267): the dispatch on the distribution name, the
presence tests of the arguments, `listContent_` (:32-37), the number lists `values` / `probas` of
`Simple` and `probas` of `Mixture`, the `ranges` list of `Simple` (items `V<k>[<a>;<b>]` taken apart
with `find` / `substr` at computed positions), the class count `n`.

What is NOT modelled: the distribution objects built from the parsed arguments (their constructors
raise the library's exception on their own conditions: probabilities not summing to 1, equal
values, parameter constraints …), the nested readers of `Invariant` / `Mixture`, `initialize_`.
So the model answers `.error .bpp` when the *text stage* raises, and `.ok stage` when the text
stage is passed (the outcome of the call is then decided by code outside this model); it never
answers `.ok` for a text on which the text stage raises, and the correspondence check uses it in
that direction only (`Drive/C16.lean`, op `dd.read`).
-/
namespace Bpp.Text.U
open Bpp.Text Bpp.Text.Keyval

/-- `listContent_(rf)` (:32-37): the text between the first and the last character -/
def listContent (rf : Str) : R Str :=
  if rf.length < 2 then .error .bpp                                -- :34
  else substr rf 1 (wsub rf.length 2)                               -- :36

/-- `while (strtok.hasMoreToken()) v.push_back(TextTools::toDouble(strtok.nextToken()));`
(:90-91, :95-96, :147-148): returns the accepted items -/
def drainDoubles : Nat → Tokenizer → List Str → R (List Str)
  | 0, _, _ => .error .hang
  | fuel + 1, st, acc =>
    if !st.hasMoreToken then .ok acc
    else do
      let (tok, st) ← st.nextToken
      let _ ← toDoubleClass '.' 'e' tok
      drainDoubles fuel st (acc ++ [tok])

/-- a list argument `(v1,v2,…)` of numbers: `StringTokenizer strtok(listContent_(rf), ",")` + the loop -/
def numberList (rf : Str) : R (List Str) := do
  let c ← listContent rf
  let st ← mkTokenizer c [','] false false
  drainDoubles (st.tokens.length + 1) st []

/-- one item of `ranges` (:113-120): `po`, `ppv`, `pf` are the results of `find` (possibly `npos`),
the three `substr` positions are computed modulo 2^64 -/
def rangeItem (desc : Str) : R (Str × Str × Str) := do
  let po := toSz (find ['['] desc)
  let ppv := toSz (find [';'] desc)
  let pf := toSz (find [']'] desc)
  let num ← substr desc 1 (wsub po 1)                               -- :117 desc.substr(1, po - 1)
  let _ ← toIntClass 'e' num
  let deb ← substr desc (wadd po 1) (wsub (wsub ppv po) 1)          -- :118
  let _ ← toDoubleClass '.' 'e' deb
  let fin ← substr desc (wadd ppv 1) (wsub (wsub pf ppv) 1)         -- :119
  let _ ← toDoubleClass '.' 'e' fin
  pure (num, deb, fin)

/-- the loop :111-126 over the items of `ranges` -/
def drainRanges : Nat → Tokenizer → List (Str × Str × Str) → R (List (Str × Str × Str))
  | 0, _, _ => .error .hang
  | fuel + 1, st, acc =>
    if !st.hasMoreToken then .ok acc
    else do
      let (tok, st) ← st.nextToken
      let r ← rangeItem tok
      drainRanges fuel st (acc ++ [r])

/-- the `ranges` argument (:103-127) -/
def rangeList (rr : Str) : R (List (Str × Str × Str)) := do
  let c ← listContent rr
  let st ← mkTokenizer c [','] false false
  drainRanges (st.tokens.length + 1) st []

/-- what the text stage hands over to the code that builds the distribution -/
inductive DistStage where
  /-- `Invariant` / `InvariantMixed`: the nested description -/
  | invariant (nested : Str)
  | constant
  /-- `Simple`: the items of `values`, `probas`, `ranges` -/
  | simple (values probas : List Str) (ranges : List (Str × Str × Str))
  /-- `Mixture`: the items of `probas`, the nested descriptions `dist1 …` -/
  | mixture (probas : List Str) (nested : List Str)
  /-- every other name (known or not), with the class count read -/
  | standard (name : Str) (n : Int)
  deriving Repr, DecidableEq

/-- `while (args.find("dist" + toString(++nbd)) != args.end())` (:153-154): the descriptions
`dist1`, `dist2`, … up to the first missing one (at most one per entry of the map) -/
def nestedDists (args : Map) : Nat → Nat → List Str
  | 0, _ => []
  | fuel + 1, k =>
    match mapFind ("dist".toList ++ Number.natDigits k) args with
    | none => []
    | some d => d :: nestedDists args fuel (k + 1)

/-- the text stage of the `Simple` branch (:80-127) -/
def simpleStage (args : Map) : R DistStage :=
  match mapFind "values".toList args with
  | none => .error .bpp                                             -- :82
  | some rfv =>
    match mapFind "probas".toList args with
    | none => .error .bpp                                           -- :84
    | some rfp => do
      let values ← numberList rfv                                   -- :88-91
      let probas ← numberList rfp                                   -- :93-96
      if values.isEmpty then .error .bpp                            -- :98
      else
        match mapFind "ranges".toList args with
        | none => pure (.simple values probas [])
        | some rr => do
          let rs ← rangeList rr
          pure (.simple values probas rs)

/-- the text stage of the `Mixture` branch (:138-159) -/
def mixtureStage (args : Map) : R DistStage :=
  match mapFind "probas".toList args with
  | none => .error .bpp                                             -- :140
  | some rf => do
    let probas ← numberList rf                                      -- :145-148
    let nested := nestedDists args (args.length + 1) 1              -- :152-154
    if probas.isEmpty then .error .bpp                              -- :156
    else if nested.length != probas.length then .error .bpp         -- :158
    else pure (.mixture probas nested)

/-- `args["k"]` of a `std::map<string, string>`: an absent key is created with the empty string
(defined behaviour of `operator[]`) -/
def mapAt (k : Str) (args : Map) : Str :=
  match mapFind k args with
  | some v => v
  | none => []

/-- the names of the last branch (:186-260) that are known; `Uniform` needs `begin` and `end` -/
def standardKnown (name : Str) (args : Map) : Bool :=
  name == "Gamma".toList || name == "Gaussian".toList || name == "Beta".toList ||
  name == "Exponential".toList || name == "TruncExponential".toList ||
  (name == "Uniform".toList && (mapFind "begin".toList args).isSome && (mapFind "end".toList args).isSome)

/-- the text stage of readDiscreteDistribution (:40-267) -/
def distStage (desc : Str) : R DistStage := do
  let (name, args) ← parseProcedure desc                            -- :47
  if name == "InvariantMixed".toList || name == "Invariant".toList then
    let nested := mapAt "dist".toList args                          -- :52
    if isEmptyStr nested then .error .bpp else pure (.invariant nested)   -- :53
  else if name == "Constant".toList then
    match mapFind "value".toList args with
    | none => .error .bpp                                           -- :75
    | some _ => pure .constant                                      -- `to<double>` (a stream) never raises
  else if name == "Simple".toList then simpleStage args
  else if name == "Mixture".toList then mixtureStage args
  else
    match mapFind "n".toList args with
    | none => .error .bpp                                           -- :178
    | some nv =>
      match Number.toInt 'e' nv with                                -- :181 TextTools::toInt
      | none => .error .bpp
      | some n =>
        if n < 1 then .error .bpp                                   -- :182
        else if !standardKnown name args then .error .bpp           -- :248, :250, :259
        else pure (.standard name n)

end Bpp.Text.U
