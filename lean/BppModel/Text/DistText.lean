import BppModel.Text.Number
import BppModel.Text.Keyval
/-
C17, the textual layer of the distribution description language
(src/Bpp/Io/BppODiscreteDistributionFormat.cpp:274-405, BppOParametrizableFormat.cpp:48-84): a
parametric family is written `Name(n=<class count>,<param>=<numeral>,…)` — a KeyvalTools
procedure whose values are numerals of the strict decimal grammar (`ostream << fixed`).
What is read back from it is `KeyvalTools::parseProcedure`, `TextTools::toInt(args["n"])` and
`TextTools::toDouble(args[param])` (:47, :181, ApplicationTools::getDoubleParameter).
-/
namespace Bpp.Text.DistText
open Bpp.Text Bpp.Text.Number Bpp.Text.Keyval

/-- the arguments as written: the class count, then the parameters -/
def paramArgs (n : Nat) (params : List (Str × DecParts)) : List (Str × Str) :=
  ("n".toList, natDigits n) :: params.map (fun kp => (kp.1, kp.2.render '.' 'e'))

/-- `Name(n=…,p1=…,…)` -/
def paramDesc (fam : Str) (n : Nat) (params : List (Str × DecParts)) : Str :=
  render fam (paramArgs n params)

/-- what the reader extracts: the name, the class count (`toInt`), the parameter values (`toDouble`,
as rationals: the decimal→binary rounding is libc's) -/
def readParams (desc : Str) (keys : List Str) : Option (Str × Int × List (Str × Rat)) :=
  match parseProcedure desc with
  | none => none
  | some (name, args) =>
    match (mapFind "n".toList args).bind (toInt 'e') with
    | none => none
    | some n =>
      (keys.mapM (fun k => ((mapFind k args).bind (toDouble '.' 'e')).map (fun v => (k, v)))).map
        (fun vs => (name, n, vs))

end Bpp.Text.DistText
