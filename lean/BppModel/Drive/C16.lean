import BppModel.Proto
import BppModel.Text.StrLite
import BppModel.Text.Number
import BppModel.Text.Ub
import BppModel.Text.TextToolsU
import BppModel.Text.TokenizerU
import BppModel.Text.KeyvalU
import BppModel.Text.AttrU
import BppModel.Text.TableU
import BppModel.Text.Vars
import BppModel.Text.DistU
import BppModel.Text.ToIntU
import BppModel.Text.RecogU
/-
Driver for C16 (text and option parsing never crashes, corrupts memory or hangs).
Stateless: every op carries its inputs (strings hex-escaped, "-" = empty).  The model's answer is
the value or the outcome class `exc:bpp` / `exc:std` / `ub` / `hang`; the verdict evaluates the
property's predicate `U.safe` (returned, or raised the library's exception) on the
*implementation's* outcome, and the allocation bounds of `Props/C16*.lean` on its value.
-/
namespace Bpp.Drive.C16
open Bpp Bpp.Proto Bpp.Text Bpp.Text.U

def showErr : Err → String
  | .ub => "ub" | .std => "exc:std" | .bpp => "exc:bpp" | .hang => "hang"

def showR {α : Type} (f : α → String) : R α → String
  | .ok a => f a
  | .error e => showErr e

def showStrs (l : List Str) : String :=
  toString l.length ++ String.join (l.map (fun t => " " ++ hex t))

def showMap (m : Keyval.Map) : String :=
  toString m.length ++ String.join (m.map (fun kv => " " ++ hex kv.1 ++ " " ++ hex kv.2))

/-- outcome class of the implementation's answer -/
def implClass : List String → R Unit
  | [] => .ok ()
  | t :: _ =>
    if t == "ub" || t.startsWith "crash" || t == "short" then .error .ub
    else if t == "hang" then .error .hang
    else if t == "exc:std" then .error .std
    else if t == "exc:bpp" then .error .bpp
    else .ok ()

/-- the property's predicate on the implementation's outcome, with the clause that fails -/
def classVerdict (impl : Option (List String)) : String :=
  match impl with
  | none => "-"
  | some t =>
    if safe (implClass t) then "ok"
    else match implClass t with
      | .error .ub => "FAIL:no_ub"
      | .error .hang => "FAIL:terminates"
      | .error .std => "FAIL:raises_only_bpp"
      | _ => "ok"

/-- class verdict + an allocation bound on a single returned string -/
def strVerdict (impl : Option (List String)) (bound : Nat) : String :=
  let v := classVerdict impl
  if v != "ok" then v
  else match impl with
    | some [h] =>
      match unhex h with
      | some out => if out.length ≤ bound then "ok" else "FAIL:alloc_bounded"
      | none => "ok"
    | _ => "ok"

/-- class verdict + a bound on the total size of a returned list / map (`n h1 h2 …`) -/
def listVerdict (impl : Option (List String)) (bound : Nat) : String :=
  let v := classVerdict impl
  if v != "ok" then v
  else match impl with
    | some (_ :: hs) =>
      let tot := hs.foldl (fun a h => a + (match unhex h with | some s => s.length | none => 0)) 0
      if tot ≤ bound then "ok" else "FAIL:alloc_bounded"
    | _ => "ok"

def char? (h : String) : Option Char :=
  match unhex h with
  | some [c] => some c
  | _ => none

def bool? (t : String) : Bool := t == "1"

def unhexList : List String → Option (List Str)
  | [] => some []
  | h :: r =>
    match unhex h, unhexList r with
    | some s, some l => some (s :: l)
    | _, _ => none

def parsePairs : List String → Option (List (Str × Str))
  | [] => some []
  | k :: v :: rest =>
    match unhex k, unhex v, parsePairs rest with
    | some k, some v, some r => some ((k, v) :: r)
    | _, _, _ => none
  | _ => none

/-- method script: `n.h.r.e.u.g3` (`-` = no call) -/
def parseCalls (t : String) : Option (List Call) :=
  if t == "-" then some []
  else (t.splitOn ".").mapM (fun w =>
    if w == "n" then some Call.next
    else if w == "h" then some Call.has
    else if w == "r" then some Call.remaining
    else if w == "e" then some Call.rmEmpty
    else if w == "u" then some Call.unparse
    else if w.startsWith "g" then (w.drop 1).toString.toNat?.map Call.get
    else none)

def showAns : Ans → String
  | .str s => "s:" ++ hex s
  | .bool b => "b:" ++ showBool b
  | .nat n => "n:" ++ toString n
  | .unit => "u"
  | .raised => "x"

/-- constructor result + method script -/
def tokenizerOp (nested : Bool) (mk : R Tokenizer) (calls : List Call) : String :=
  showR id (do
    let t ← mk
    let as ← runCalls nested true t calls
    pure (showStrs t.tokens ++ " /" ++ String.join (as.map (fun a => " " ++ showAns a))))

def isHang {α : Type} : R α → Bool
  | .error .hang => true
  | _ => false

/-- substitutions allowed per entry before the model reports `hang` -/
def varsFuel : Nat := 400

def sumLen (l : List Str) : Nat := (l.map List.length).sum

/-- lengths of the full expansions of acyclic structured definitions, without building them: `rounds`
iterations of `len k = Σ literal lengths + Σ len (referenced keys)` from 0 (exact once `rounds` is
the number of definitions).  Driver device only (not a theorem): it tells when the resolved values
are too large to be built by the model — the doubling definitions `v1=$(v0)$(v0), v2=$(v1)$(v1), …`
reach 2^n characters. -/
def expLens (env : Vars.SEnv) : Nat → List (Str × Nat)
  | 0 => env.map (fun e => (e.1, 0))
  | r + 1 =>
    let prev := expLens env r
    env.map (fun e => (e.1, e.2.foldl (fun a sg => match sg with
      | .lit t => a + t.length
      | .ref b => a + (match prev.find? (fun kv => kv.1 == b) with | some kv => kv.2 | none => 0)) 0))

def maxExpLen (env : Vars.SEnv) : Nat := (expLens env env.length).foldl (fun a kv => max a kv.2) 0

/-- above this predicted size the model is not run (`big`) -/
def bigValue : Nat := 4194304

/-- `at.vars` / `at.varsE`: resolveVariables on a map, any mark characters -/
def varsOp (s : Unit) (hc hb he : String) (rest : List String) (impl : Option (List String)) : Unit × String × String :=
  let bad := (s, "bad-op", "-")
    match char? hc, char? hb, char? he, parsePairs rest with
    | some c, some b, some e, some kvs =>
      let am := Keyval.mapOfList kvs
      -- structured reading (default marks only): is the set of definitions acyclic?
      let senv? : Option Vars.SEnv :=
        if c == '$' && b == '(' && e == ')' then
          am.mapM (fun kv => (Vars.parseSegs (kv.2.length + 1) kv.2).map (fun sg => (kv.1, sg)))
        else none
      let acyclic := match senv? with
        | some env => Vars.AcyclicOk env
        | none => false
      -- acyclic definitions whose expansion is exponentially large (doubling chains): the model is not run
      let predicted := match senv? with
        | some env => if acyclic then maxExpLen env else 0
        | none => 0
      if predicted > bigValue then
        let verdict := match impl with
          | none => "-"
          | some t =>
            match implClass t with
            -- the allocation is exponential in the number of definitions: when the implementation runs out of
            -- memory / time on it the clause is `resolve_alloc_exponential` (known finding), not `terminates`
            | .error .hang => "FAIL:resolve_alloc_exponential"
            | .error .std => "FAIL:resolve_alloc_exponential"
            | _ => classVerdict impl
        (s, "big " ++ toString predicted, verdict)
      else
      let res := resolveVariablesU c b e varsFuel am
      let verdict := match impl with
        | none => "-"
        | some t =>
          match implClass t with
          -- the whitelisted clause is used only when the definitions are not acyclic AND the model
          -- does not terminate either
          | .error .hang => if !acyclic && isHang res then "FAIL:resolve_terminates_cyclic" else "FAIL:terminates"
          | _ => classVerdict impl
      (s, showR showMap res, verdict)
    | _, _, _, _ => bad

def step (s : Unit) (op : List String) (impl : Option (List String)) : Unit × String × String :=
  let bad := (s, "bad-op", "-")
  match op with
  | ["tt.isEmpty", h] =>
    match unhex h with
    | some a => (s, showBool (isEmptyStr a), classVerdict impl)
    | none => bad
  | ["tt.upper", h] =>
    match unhex h with
    | some a => (s, hex (toUpper a), strVerdict impl a.length)
    | none => bad
  | ["tt.lower", h] =>
    match unhex h with
    | some a => (s, hex (toLower a), strVerdict impl a.length)
    | none => bad
  | ["tt.ws", h] =>
    match char? h with
    | some c => (s, showBool (isSpace c), classVerdict impl)
    | none => bad
  | ["tt.rmws", h] =>
    match unhex h with
    | some a => (s, hex (removeWhiteSpaces a), strVerdict impl a.length)
    | none => bad
  | ["tt.rmfirst", h] =>
    match unhex h with
    | some a => (s, hex (removeFirstWS a), strVerdict impl a.length)
    | none => bad
  | ["tt.rmlast", h] =>
    match unhex h with
    | some a => (s, hex (removeLastWS a), strVerdict impl a.length)
    | none => bad
  | ["tt.trim", h] =>
    match unhex h with
    | some a => (s, hex (trim a), strVerdict impl a.length)
    | none => bad
  | ["tt.rmnl", h] =>
    match unhex h with
    | some a => (s, hex (removeNewLines a), strVerdict impl a.length)
    | none => bad
  | ["tt.rmlastnl", h] =>
    match unhex h with
    | some a => (s, hex (removeLastNewLines a), strVerdict impl a.length)
    | none => bad
  | ["tt.num", h, hd, hc] =>
    match unhex h, char? hd, char? hc with
    | some a, some dec, some sci =>
      -- the UB-aware recognisers / conversions (RecogU, ToIntU): an access out of range would show as `ub`
      let out := showR showBool (isDecimalNumberU dec sci a) ++ " " ++ showR showBool (isDecimalIntegerU sci a)
        ++ " " ++ showR (fun _ => "ok") (toDoubleU dec sci a) ++ " " ++ showR (fun _ => "ok") (toIntU sci a)
      (s, out, classVerdict impl)
    | _, _, _ => bad
  | ["tt.resizeR", h, n, hf] =>
    match unhex h, nat? n, char? hf with
    | some a, some n, some f => (s, showR hex (resizeRight a n f), strVerdict impl n)
    | _, _, _ => bad
  | ["tt.resizeL", h, n, hf] =>
    match unhex h, nat? n, char? hf with
    | some a, some n, some f => (s, showR hex (resizeLeft a n f), strVerdict impl n)
    | _, _, _ => bad
  | ["tt.split", h, n] =>
    match unhex h, nat? n with
    | some a, some n => (s, showR showStrs (split a n), listVerdict impl a.length)
    | _, _ => bad
  | ["tt.rmsub", h, hb, he] =>
    match unhex h, char? hb, char? he with
    | some a, some b, some e => (s, showR hex (removeSubstrings3 b e 0 a), strVerdict impl a.length)
    | _, _, _ => bad
  | "tt.rmsub5" :: h :: hb :: he :: nb :: rest =>
    match unhex h, char? hb, char? he, nat? nb with
    | some a, some b, some e, some nb =>
      match unhexList (rest.take nb), unhexList ((rest.drop nb).drop 1) with
      | some xb, some xe => (s, showR hex (removeSubstrings5 a b e xb xe), strVerdict impl ((a.length + 1) * (a.length + 1)))
      | _, _ => bad
    | _, _, _, _ => bad
  | ["tt.rmchar", h, hc] =>
    match unhex h, char? hc with
    | some a, some c => (s, hex (removeChar a c), strVerdict impl a.length)
    | _, _ => bad
  | ["tt.count", h, hp] =>
    match unhex h, unhex hp with
    | some a, some p => (s, toString (count a p), classVerdict impl)
    | _, _ => bad
  | ["tt.starts", h, hp] =>
    match unhex h, unhex hp with
    | some a, some p => (s, showBool (startsWith a p), classVerdict impl)
    | _, _ => bad
  | ["tt.ends", h, hp] =>
    match unhex h, unhex hp with
    | some a, some p => (s, showBool (endsWith a p), classVerdict impl)
    | _, _ => bad
  | ["tt.has", h, hp] =>
    match unhex h, unhex hp with
    | some a, some p => (s, showBool (hasSubstring a p), classVerdict impl)
    | _, _ => bad
  | ["tt.replace", h, hq, hr] =>
    match unhex h, unhex hq, unhex hr with
    | some a, some q, some r => (s, hex (replaceAll a q r), strVerdict impl (a.length + a.length * r.length))
    | _, _, _ => bad
  | ["st", h, hd, so, al, sc] =>
    match unhex h, unhex hd, parseCalls sc with
    | some a, some d, some calls =>
      (s, tokenizerOp false (mkTokenizer a d (bool? so) (bool? al)) calls, classVerdict impl)
    | _, _, _ => bad
  | ["nst", h, ho, he, hd, so, sc] =>
    match unhex h, unhex ho, unhex he, unhex hd, parseCalls sc with
    | some a, some o, some e, some d, some calls =>
      (s, tokenizerOp true (mkNested a o e d (bool? so)) calls, classVerdict impl)
    | _, _, _, _, _ => bad
  | ["kv.single", hd, hsp] =>
    match unhex hd, unhex hsp with
    | some d, some sp =>
      (s, showR (fun (kv : Str × Str) => hex kv.1 ++ " " ++ hex kv.2) (singleKeyval d sp), classVerdict impl)
    | _, _ => bad
  | ["kv.multi", hd, hsp, nst] =>
    match unhex hd, unhex hsp with
    | some d, some sp => (s, showR showMap (multipleKeyvals d [] sp (bool? nst)), classVerdict impl)
    | _, _ => bad
  | ["kv.parse", hd] =>
    match unhex hd with
    | some d =>
      (s, showR (fun (nm : Str × Keyval.Map) => hex nm.1 ++ " " ++ showMap nm.2) (parseProcedure d), classVerdict impl)
    | _ => bad
  | "kv.change" :: hd :: hsp :: nst :: _n :: rest =>
    match unhex hd, unhex hsp, parsePairs rest with
    | some d, some sp, some news =>
      (s, showR hex (changeKeyvals d (Keyval.mapOfList news) sp (bool? nst)), classVerdict impl)
    | _, _, _ => bad
  | ["glob", hp, hn] =>
    match unhex hp, unhex hn with
    | some pat, some name =>
      let m := showR showBool (matcherU pat name)
      (s, m ++ " " ++ m ++ " " ++ m, classVerdict impl)
    | _, _ => bad
  | ["at.rmc", h, hb, he] =>
    match unhex h, unhex hb, unhex he with
    | some a, some b, some e => (s, showR hex (removeComments a b e), strVerdict impl a.length)
    | _, _, _ => bad
  | "at.map" :: hdl :: _n :: rest =>
    match unhex hdl, unhexList rest with
    | some dl, some lines => (s, showR showMap (getAttributesMap lines dl), listVerdict impl (sumLen lines))
    | _, _ => bad
  | "at.vars" :: hc :: hb :: he :: _n :: rest => varsOp s hc hb he rest impl
  -- the same call with `ApplicationTools::error` set (the two messages of :158 / :166 are written)
  | "at.varsE" :: hc :: hb :: he :: _n :: rest => varsOp s hc hb he rest impl
  | ["ft.name", hp, hs] =>
    match unhex hp, char? hs with
    | some p, some c => (s, showR hex (getFileName p c), strVerdict impl p.length)
    | _, _ => bad
  | ["ft.parent", hp, hs] =>
    match unhex hp, char? hs with
    | some p, some c => (s, showR hex (getParent p c), strVerdict impl p.length)
    | _, _ => bad
  | ["ft.ext", hp] =>
    match unhex hp with
    | some p => (s, showR hex (getExtension p), strVerdict impl p.length)
    | none => bad
  | ["ic.read", hd] =>
    match unhex hd with
    | some d =>
      (s, showR (fun (r : Bool × Bool × Str × Str) => showBool r.1 ++ " " ++ showBool r.2.1) (readDescription d), classVerdict impl)
    | none => bad
  | ["dt.read", ht, hsp, hd, rn] =>
    match unhex ht, unhex hsp, int? rn with
    | some txt, some sp, some rn =>
      (s, showR (fun (rc : Nat × Nat) => "ok " ++ toString rc.1 ++ " " ++ toString rc.2) (readTable txt sp (bool? hd) rn), classVerdict impl)
    | _, _, _ => bad
  -- entry points that are not modelled: only the outcome class of the implementation is judged
  -- dd.read: the text stage of the reader is modelled (`DistU.lean`); when it raises, the call raises;
  -- when it passes the outcome is decided by the unmodelled constructors (answer `?stage`)
  | "dd.read" :: hd :: _ =>
    match unhex hd with
    | some d =>
      let ans := match distStage d with
        | .ok (.invariant _) => "?invariant"
        | .ok .constant => "?constant"
        | .ok (.simple v p r) => "?simple " ++ toString v.length ++ " " ++ toString p.length ++ " " ++ toString r.length
        | .ok (.mixture p n) => "?mixture " ++ toString p.length ++ " " ++ toString n.length
        | .ok (.standard _ n) => "?standard " ++ toString n
        | .error e => showErr e
      (s, ans, classVerdict impl)
    | none => bad
  | "dt.edit" :: _ => (s, "?", classVerdict impl)
  | "at.opts" :: _ => (s, "?", classVerdict impl)
  | "ap.vec" :: _ => (s, "?", classVerdict impl)
  | "nc.vec" :: _ => (s, "?", classVerdict impl)
  | "nc.seq" :: _ => (s, "?", classVerdict impl)
  | "ct.parse" :: _ => (s, "?", classVerdict impl)
  | _ => bad

def machine : Machine Unit := { init := fun _ => (), step := step }

end Bpp.Drive.C16
