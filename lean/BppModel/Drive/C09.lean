import BppModel.Proto
import BppModel.Discretize
import BppModel.DiscretizeFamilies
import BppModel.DiscretizeCompound
import BppModel.DiscretizeShared
/-
Driver for C09 (discretised distributions).

The distribution objects live in a `World` (BppModel/DiscretizeShared.lean): registers `cur`, `alt`
(a second object made by `fork` = `clone()` or `forkassign` = `operator=`), and the stack of mixture
components are indices into it.  Every object dump carries the group `q`: the parameters with the
constraint they have now and a tag telling whether that constraint is the object's own domain.

State-changing ops are answered by the harness with a dump of the protected state of
`AbstractDiscreteDistribution` plus (group `o`) the values the family's own `pProb`/`qProb`/
`Expectation` returned at the points the algorithm queried them, plus (groups `xp`, `xe`)
`pProb`/`Expectation` at `lower :: bounds_ ++ [upper]` for the exploration of the parent's
consistency.  The driver runs the model at `Float` — with the closed forms for exponential /
truncated exponential / uniform, with the recorded values as oracle for gamma / beta / gaussian
(a query of the model at a point the implementation did not query is an `oracle-miss`) — prints
the model's dump, and evaluates the predicates of `BppProofs/Props/C09.lean` on the
*implementation's* state.
-/
namespace Bpp.Drive.C09
open Bpp Bpp.Proto Bpp.Discretize

def hx (x : Float) : String := Hex.ofFloatCanon x
def float? (s : String) : Option Float := if s == "nan" then some (0.0 / 0.0) else Hex.float? s
def same (a b : Float) : Bool := (a.isNaN && b.isNaN) || a.toBits == b.toBits
def sameL : List Float → List Float → Bool
  | [], [] => true
  | a :: as, b :: bs => same a b && sameL as bs
  | _, _ => false
def bool? (s : String) : Option Bool := if s == "1" then some true else if s == "0" then some false else none
def b01 (b : Bool) : String := if b then "1" else "0"
def hxs (l : List Float) : String := " ".intercalate (l.map hx)

/-- a value no parent function ever returns: marks an oracle miss -/
def missV : Float := Float.ofBits 0x7fe1234512345123

/-- one recorded value of the parent: slot of the distribution, function, argument, result -/
structure Ent where
  slot : Nat
  fn : String
  x : Float
  r : Float

def parseEnts : List String → Option (List Ent)
  | [] => some []
  | s :: f :: x :: r :: rest =>
    match s.toNat?, float? x, float? r, parseEnts rest with
    | some s, some x, some r, some es => some (⟨s, f, x, r⟩ :: es)
    | _, _, _, _ => none
  | _ => none

def lookupE (es : List Ent) (slot : Nat) (fn : String) (x : Float) : Float :=
  match es.find? (fun e => e.slot == slot && e.fn == fn && same e.x x) with
  | some e => e.r
  | none => missV

def oracleOf (es : List Ent) (slot : Nat) : Parent Float :=
  { P := lookupE es slot "P", Q := lookupE es slot "Q", E := lookupE es slot "E" }

/-- the dumped state of one distribution object -/
def parseDD (groups : List (List String)) : Option (DD Float) :=
  let grp (tag : String) : Option (List String) := (groups.find? (fun g => g.head? == some tag)).map (·.drop 1)
  match grp "st", grp "dom", grp "c", grp "p", grp "b" with
  | some [n, m, sc, pr], some [lo, hi, il, iu], some c, some p, some b =>
    match n.toNat?, bool? m, sc.toNat?, float? pr, float? lo, float? hi, bool? il, bool? iu,
          c.mapM float?, p.mapM float?, b.mapM float? with
    | some n, some m, some sc, some pr, some lo, some hi, some il, some iu, some c, some p, some b =>
      if c.length != p.length then none else
      some { n := n, dist := c.zip p, bounds := b, dom := ⟨lo, hi, il, iu, 0⟩, median := m, scheme := sc, prec := pr }
    | _, _, _, _, _, _, _, _, _, _, _ => none
  | _, _, _, _, _ => none

/-- one parameter as dumped: name, value, tag, constraint -/
structure QP where
  name : String
  value : Float
  tag : String
  c : Option (Interval Float)

def parseQ : List String → Option (List QP)
  | [] => some []
  | nm :: v :: tag :: lo :: hi :: il :: iu :: rest =>
    match float? v, parseQ rest with
    | some v, some r =>
      if tag == "n" || tag == "x" then some (⟨nm, v, tag, none⟩ :: r) else
      (match float? lo, float? hi, bool? il, bool? iu with
       | some lo, some hi, some il, some iu =>
         let b (x : Float) : Bound Float := if x.isInf then (if x > 0 then .posInf else .negInf) else .fin x
         some (⟨nm, v, tag, some ⟨b lo, b hi, il, iu, 0⟩⟩ :: r)
       | _, _, _, _ => none)
    | _, _ => none
  | _ => none

/-- the `q` groups of a dump: of the object and of its components -/
def qGroups (t : List String) : List (List QP) :=
  (splitTok "/" t).filterMap (fun part =>
    match (splitTok ";" part).find? (fun g => g.head? == some "q") with
    | some g => parseQ (g.drop 1)
    | none => none)

def hxBound : Bound Float → String
  | .negInf => Hex.ofFloat (-(1.0 / 0.0))
  | .posInf => Hex.ofFloat (1.0 / 0.0)
  | .fin x => hx x

def strHex (s : String) : String :=
  if s.isEmpty then "-" else
  String.ofList (s.toUTF8.toList.flatMap (fun b => [Hex.hexDigit (b.toNat / 16), Hex.hexDigit (b.toNat % 16)]))

def showQ (name : String) (v : Float) (tag : String) (c : Option (Interval Float)) : String :=
  " " ++ strHex name ++ " " ++ hx v ++
  (match c with
   | some i => " " ++ tag ++ " " ++ hxBound i.lo ++ " " ++ hxBound i.hi ++ " " ++ b01 i.inclLo ++ " " ++ b01 i.inclHi
   | none => " n - - - -")

/-- the parameters of a leaf: tag `o` when the constraint is the leaf's own domain object -/
def showLeafQ (w : World Float) (l : Leaf Float) (sl : Slot Float) : String :=
  String.join (l.pinfo.map (fun p =>
    let tied := p.tieable && sl.tie.isSome
    showQ p.name p.value (if tied then (if sl.tie == some sl.id then "o" else "i") else "i") (p.constraint (w.peek sl.tie))))

/-- a compound's copies of the parameters of one component (`pre`: their namespace inside the compound) -/
def showCopyQ (w : World Float) (pre : String) (l : Leaf Float) (sl : Slot Float) : String :=
  String.join ((copyParams (w.peek sl.ctie) l sl.cvals).zip l.pinfo |>.map (fun vp =>
    let tied := vp.2.tieable && sl.ctie.isSome
    showQ (pre ++ vp.1.name) vp.1.value (if tied then (if sl.ctie == some sl.id then "c" else "i") else "i") vp.1.constraint))

def showDD (s : DD Float) : String :=
  "st " ++ toString s.n ++ " " ++ b01 s.median ++ " " ++ toString s.scheme ++ " " ++ hx s.prec ++
  " ; dom " ++ hx s.dom.lo ++ " " ++ hx s.dom.hi ++ " " ++ b01 s.dom.inclLo ++ " " ++ b01 s.dom.inclHi ++
  " ; c " ++ hxs s.cats ++ " ; p " ++ hxs s.probs ++ " ; b " ++ hxs s.bounds

/-- an implementation answer to a state-changing op -/
structure Ans where
  exc : Option String
  main : DD Float
  subs : List (DD Float)
  ents : List Ent
  oTail : String       -- the groups `o`, `xp`, `xe` as printed (echoed by the model)
  xp : List Float
  xe : List Float
  xq : List Float      -- triples (x, qProb x, pProb (qProb x)) for the quantiles the discretisation asked for
  qs : List (List QP)  -- the parameters of the object, of its components, of the second object and of its components
  altPart : Option String   -- the dump of the second object as printed

def parseAns (t0 : List String) : Option Ans :=
  let (exc, t1) : Option String × List String := match t0 with
    | h :: r => if h.startsWith "exc:" then (some h, r) else (none, t0)
    | [] => (none, [])
  let (t, altT) : List String × Option (List String) := match splitTok "//" t1 with
    | [a] => (a, none)
    | [a, b] => (a, some b)
    | _ => (t1, none)
  match splitTok "/" t with
  | mainT :: subT =>
    let groups := splitTok ";" mainT
    let grp (tag : String) : List String := match groups.find? (fun g => g.head? == some tag) with | some g => g.drop 1 | none => []
    match parseDD groups, parseEnts (grp "o"), subT.mapM (fun st => parseDD (splitTok ";" st)),
          (grp "xp").mapM float?, (grp "xe").mapM float?, (grp "xq").mapM float? with
    | some d, some es, some subs, some xp, some xe, some xq =>
      some { exc := exc, main := d, subs := subs, ents := es,
             oTail := " ; o " ++ " ".intercalate (grp "o") ++ " ; xp " ++ " ".intercalate (grp "xp") ++ " ; xe " ++ " ".intercalate (grp "xe") ++
               " ; xq " ++ " ".intercalate (grp "xq"),
             xp := xp, xe := xe, xq := xq,
             qs := qGroups t ++ (match altT with | some a => qGroups a | none => []),
             altPart := altT.map (fun a => " ".intercalate a) }
    | _, _, _, _, _, _ => none
  | [] => none

/-- a double as an extended bound -/
def boundOf (x : Float) : Bound Float := if x.isInf then (if x > 0 then .posInf else .negInf) else .fin x

def firstFail (l : List (String × Bool)) : String :=
  match l.find? (fun p => !p.2) with
  | some (c, _) => "FAIL:" ++ c
  | none => "ok"

def absF (x : Float) : Float := Float.abs x
def maxF (a b : Float) : Float := if a < b then b else a

/-! ### predicates on the implementation's state -/

/-- the clauses that hold of every state of a continuous family (theorems `n_classes`,
`probs_nonneg`, `probs_sum_one`, `bounds_monotone_in_domain`, `values_strict_mono`) -/
def baseClauses (s : DD Float) : List (String × Bool) :=
  [("n_classes", nClassesOk s),
   ("probs_nonneg", probsNonneg s),
   ("probs_sum_one", probsSumOne 1e-9 s),
   ("bounds_monotone_in_domain", boundsMonoInDom s),
   ("values_strict_mono", valuesStrictMono s)]

/-- the raw class values are *resolved* by the comparator precision: no adjustment near the ends
of the domain and no two values closer than the precision (guard of `value_in_own_class` and
`mean_preserved`, computed on the model side) -/
def resolvedF (par : Parent Float) (s : DD Float) : Bool := Discretize.resolved par s

/-- exploration of the parent on the points `lower :: bounds ++ [upper]` (groups `xp`, `xe`):
`pProb` non-decreasing; class masses; mean relation `a ΔP ≤ ΔE ≤ b ΔP`; discrete mean -/
def exploreClauses (s : DD Float) (eqProbBranch meanValued resolvedOk medianRescaled : Bool) (xp xe : List Float) : List (String × Bool) :=
  if xp.length != s.allBounds.length || xe.length != xp.length || xp.length < 2 then [] else
  let pLo := xp.headD 0
  let pHi := xp.getLastD 0
  let cond := pHi - pLo
  let dP := (pairs xp).map (fun ab => ab.2 - ab.1)
  let dE := (pairs xe).map (fun ab => ab.2 - ab.1)
  let ab := pairs s.allBounds
  let tolM : Float := 1e-3
  -- classes narrower than the spacing of the doubles around them cannot carry their mass in doubles
  let wide := ab.all (fun q => q.2 - q.1 > 1e-9 * (1 + absF q.1 + absF q.2))
  [("search_parent_monotone", (pairs xp).all (fun q => q.1 ≤ q.2 + 1e-9)),
   ("search_class_mass", !wide || (dP.zip s.probs).all (fun dp => absF (dp.1 - dp.2 * cond) ≤ tolM)),
   ("search_equal_mass", !wide || !eqProbBranch || dP.all (fun d => absF (d - cond / Float.ofNat s.n) ≤ tolM)),
   ("search_mean_relation", ((ab.zip dP).zip dE).all (fun x =>
      let a := x.1.1.1; let b := x.1.1.2; let dp := x.1.2; let de := x.2
      let sl := 1e-6 * (1 + maxF (absF a) (absF b)) * (absF dp + 1e-9)
      -- the far tails of the domain (|bound| = 1.7e23) carry no mass: skip them
      absF a > 1e20 || absF b > 1e20 || (a * dp - sl ≤ de && de ≤ b * dp + sl))),
   -- theorem `class_value_is_mean`: a mean-valued class value is the parent's mean over its class
   ("search_class_mean", !(meanValued && resolvedOk && wide) ||
      ((s.cats.zip (dP.zip dE)).all (fun x => x.2.1 ≤ 1e-12 || absF (x.1 - x.2.2 / x.2.1) ≤ 5e-3 * (1 + absF x.1)))),
   -- theorem `mean_preserved_median`
   ("search_mean_preserved_median", !(medianRescaled && resolvedOk) ||
      (let m := discreteMean s
       let pm := (xe.getLastD 0 - xe.headD 0) / cond
       absF (m - pm) ≤ 1e-6 * (1 + absF pm))),
   ("search_mean_preserved", !(meanValued && resolvedOk) ||
      (let m := discreteMean s
       let pm := (xe.getLastD 0 - xe.headD 0) / cond
       absF (m - pm) ≤ 1e-6 * (1 + absF pm)))]

/-- exploration of "pProb and qProb are mutually inverse" at the quantiles the discretisation asked for:
`pProb (qProb x) = x` up to 2% of the smaller tail mass `min x (1 - x)` (the quantile algorithms are
accurate to about 1e-6 relative, qChisq's small-value branch to about 1%) — in particular in the far tails, where the domain carries too
little mass for the other explorations.  Probabilities outside `]0,1[` and quantiles that left the
domain (clamped by the discretisation) are skipped. -/
def inverseClause (lo hi : Float) : List Float → Bool
  | x :: q :: pq :: rest =>
    (!(x > 0 && x < 1) || !(q > lo && q < hi) ||
      -- a quantile that close to a non-zero end of the domain is not resolved by the doubles around it
      absF (q - lo) < 1e-9 * absF lo || absF (hi - q) < 1e-9 * absF hi ||
      absF (pq - x) ≤ 2e-2 * (if x < 1 - x then x else 1 - x) + 1e-13) && inverseClause lo hi rest
  | _ => true

/-- exploration of `q_ge_lo` / `q_le_hi` (consequences of `H`): a quantile asked for a probability
strictly between `pProb lower` and `pProb upper` lies inside the domain.  Judged where the mass of
the domain is resolved by the doubles (`cond ≥ 1e-9·max |P|`) and the probability is at least
0.1% of that mass away from both ends.  Covers the error value -1 of qGamma. -/
def quantileInDomain (lo hi pl ph : Float) : List Float → Bool
  | x :: q :: _ :: rest =>
    let cond := ph - pl
    (!(cond ≥ 1e-9 * maxF (absF pl) (absF ph)) || !(x > pl + 1e-3 * cond && x < ph - 1e-3 * cond) ||
      (q ≥ lo - 1e-9 * (1 + absF lo) && q ≤ hi + 1e-9 * (1 + absF hi))) && quantileInDomain lo hi pl ph rest
  | _ => true

/-! ### constructors -/

/-- what a constructor op asks for -/
inductive NewReq where
  | leaf (l : Leaf Float)           -- a leaf constructor that succeeded
  | fail (e : Err)                  -- a refused constructor: nothing changes
  | invar (p inv : Float)           -- wraps the current object
  | mix (k : Nat) (ws : List Float) -- takes the last k objects of the stack

def floats? (l : List String) : Option (List Float) := l.mapM float?

def unzip2 : List Float → List Float × List Float
  | a :: b :: t => let r := unzip2 t; (a :: r.1, b :: r.2)
  | _ => ([], [])

def newReq (orc : Parent Float) (slot : Nat) (fam : String) (args : List String) : Option NewReq :=
  let mk (r : Except Err (FamSt Float)) : Option NewReq :=
    match r with
    | .ok f => some (.leaf (.fam slot f))
    | .error e => some (.fail e)
  match fam, args with
  | "const", [v] => (float? v).map fun v => .leaf (.const (ConstSt.make v))
  | "simple", prec :: _fixed :: k :: rest =>
    match float? prec, k.toNat?, floats? rest with
    | some prec, some k, some vp =>
      if vp.length != 2 * k then none else
      let (vs, ps) := unzip2 vp
      match SimpleSt.make vs ps prec with
      | .ok s => some (.leaf (.simple s))
      | .error e => some (.fail e)
    | _, _, _ => none
  | "invar", [p, inv] =>
    match float? p, float? inv with
    | some p, some inv => some (.invar p inv)
    | _, _ => none
  | "mix", k :: ws =>
    match k.toNat?, floats? ws with
    | some k, some ws => if ws.length != k then none else some (.mix k ws)
    | _, _ => none
  | _, _ =>
  match famOfName fam, args with
  | some .gamma, [n, a, b, fl, off] =>
    match n.toNat?, float? a, float? b, bool? fl, float? off with
    | some n, some a, some b, some fl, some off => mk (construct orc .gamma n a b off fl 1)
    | _, _, _, _, _ => none
  | some .beta, [n, a, b, sc] =>
    match n.toNat?, float? a, float? b, sc.toNat? with
    | some n, some a, some b, some sc => mk (construct orc .beta n a b 0 false sc)
    | _, _, _, _ => none
  | some .gauss, [n, a, b] =>
    match n.toNat?, float? a, float? b with
    | some n, some a, some b => mk (construct orc .gauss n a b 0 false 1)
    | _, _, _ => none
  | some .exp, [n, a] =>
    match n.toNat?, float? a with
    | some n, some a => mk (construct orc .exp n a 0 0 false 1)
    | _, _ => none
  | some .texp, [n, a, b] =>
    match n.toNat?, float? a, float? b with
    | some n, some a, some b => mk (construct orc .texp n a b 0 false 1)
    | _, _, _ => none
  | some .unif, [n, a, b] =>
    match n.toNat?, float? a, float? b with
    | some n, some a, some b => mk (construct orc .unif n a b 0 false 1)
    | _, _, _ => none
  | _, _ => none

/-! ### driver state -/

structure St where
  w : World Float := World.empty
  cur : Option Nat := none
  alt : Option Nat := none
  stack : List Nat := []
  nextSlot : Nat := 0
  /-- the implementation's dump of the second object after the previous operation -/
  lastAlt : Option String := none

def St.curObj (s : St) : Option (TObj Float) := s.cur.bind (fun i => s.w.objs[i]?)
def St.curState (s : St) : Option (CState Float) := s.curObj.map (·.st)

/-- (main dump, component dumps) of an object -/
def showObj (w : World Float) (o : TObj Float) : String × String :=
  let comps := o.slots.zip o.st.leaves
  let unitI : Option (Interval Float) := some unitC
  match o.st with
  | .leaf l =>
    (showDD l.top ++ " ; q" ++ (match o.slots with | [sl] => showLeafQ w l sl | _ => " ?"), "")
  | .invar st =>
    (showDD st.top ++ " ; q" ++ String.join (comps.map (fun sl => showCopyQ w sl.2.prefix_ sl.2 sl.1)) ++ showQ "p" st.p "i" unitI,
     String.join (comps.map (fun sl => " / " ++ showDD sl.2.top ++ " ; q" ++ showLeafQ w sl.2 sl.1)))
  | .mix st =>
    let thetas := String.join ((st.thetas.zip (List.range st.thetas.length)).map (fun ti =>
      showQ ("theta" ++ toString (ti.2 + 1)) ti.1 "i" unitI))
    let copies := String.join ((List.range comps.length).map (fun k =>
      match comps[k]? with
      | some sl => showCopyQ w (toString (k + 1) ++ "_" ++ sl.2.prefix_) sl.2 sl.1
      | none => ""))
    (showDD st.top ++ " ; q" ++ thetas ++ copies,
     String.join (comps.map (fun sl => " / " ++ showDD sl.2.top ++ " ; q" ++ showLeafQ w sl.2 sl.1)))

/-- the tag the invariant `Owned` (BppProofs/Props/C09Shared.lean: `world_owned`) demands of every
parameter whose constraint was replaced by a domain object: `o` — the object's own —, for a
compound's copy `c` — the domain of the component it mirrors.  Same order as the `q` groups of
`showObj`; `none`: nothing demanded. -/
def expectedTags (o : TObj Float) : List (List (Option String)) :=
  let comps := o.slots.zip o.st.leaves
  let leafTags (sl : Slot Float × Leaf Float) : List (Option String) :=
    sl.2.pinfo.map (fun p => if p.tieable && sl.1.tie.isSome then some "o" else none)
  let copyTags (sl : Slot Float × Leaf Float) : List (Option String) :=
    sl.2.pinfo.map (fun p => if p.tieable && sl.1.ctie.isSome then some "c" else none)
  match o.st with
  | .leaf _ => [comps.flatMap leafTags]
  | .invar _ => (comps.flatMap copyTags ++ [none]) :: comps.map leafTags
  | .mix st => (st.thetas.map (fun _ => none) ++ comps.flatMap copyTags) :: comps.map leafTags

def St.expectedTags (s : St) : List (List (Option String)) :=
  (match s.curObj with | some o => Drive.C09.expectedTags o | none => []) ++
  (match s.alt.bind (fun i => s.w.objs[i]?) with | some o => Drive.C09.expectedTags o | none => [])

def showAlt (s : St) : String :=
  match s.alt.bind (fun i => s.w.objs[i]?) with
  | some o => let (m, subs) := showObj s.w o; " // " ++ m ++ subs
  | none => ""

def showState (s : St) (exc : Option Err) (oTail : String) : String :=
  let pre := match exc with | some e => e.toString ++ " " | none => ""
  match s.curObj with
  | none => pre ++ "none" ++ showAlt s
  | some o => let (m, subs) := showObj s.w o; pre ++ m ++ oTail ++ subs ++ showAlt s

/-- verdict on the implementation's answer to a state-changing op.

Clauses that do not depend on the parent are judged on every state.  Clauses that hold under the
hypotheses `H` on the parent are judged where the double evaluation of the parent is
well-conditioned (conditional mass of the domain ≥ 1e-3: below that `pProb(upper) - pProb(lower)`
cancels and the gamma quantile leaves its documented range) or in the uniform fallback. -/
def judgeState (s : St) (es : List Ent) (a : Ans) : String :=
  match s.curState with
  | none => "ok"
  | some c =>
    match c with
    | .leaf (.fam slot f) =>
      let par := f.parent (oracleOf es slot)
      let d := a.main
      let cond := par.P f.dd.dom.hi - par.P f.dd.dom.lo
      -- without a re-discretisation there are no recorded values of an abstract parent: the state is
      -- unchanged and has been judged before
      let hasPar := (f.fam == .exp || f.fam == .texp || f.fam == .unif) || !es.isEmpty
      let wc := hasPar && cond ≥ 1e-3
      let fallback := hasPar && par.P f.dd.dom.hi == par.P f.dd.dom.lo && f.dd.scheme != 2
      let rs := resolvedF par f.dd
      let eqB := eqProbBranch par f.dd
      let sentinel := f.fam == .gamma && es.any (fun e => e.fn == "Q" && e.r == -1)
      -- the situation of the state, for the clauses about class values:
      --  median   : median-valued classes of the equal-probability scheme (rescaled, clamped at the ends)
      --  resolved : the comparator precision does not interfere (`resolved` for the equal-probability
      --             values, `eqIntResolved` for the equal-interval ones): the theorems apply
      --  narrow   : the domain is narrower than four separation steps per class
      let med := eqB && f.dd.median && !fallback
      let resolvedHere := if eqB then rs else eqIntResolved f.dd
      let valueClause (base : String) : String :=
        if med then (if rs then base ++ "_median" else base ++ "_median_unresolved")
        else if resolvedHere then base
        else if narrowDom f.dd then base ++ "_unresolved_narrow" else base ++ "_unresolved"
      if !hasPar then firstFail [("values_strict_mono", valuesStrictMono d)] else
      firstFail (
        [("search_parent_quantile_sentinel", !sentinel),
         ("search_parent_inverse", inverseClause f.dd.dom.lo f.dd.dom.hi a.xq),
         ("search_parent_quantile_in_domain", quantileInDomain f.dd.dom.lo f.dd.dom.hi (par.P f.dd.dom.lo) (par.P f.dd.dom.hi) a.xq),
         ("n_classes", nClassesOk d),
         -- needs no parent and no conditioning: an inverted domain (audit F1) shows here
         ("bounds_in_domain", boundsInDom d),
         -- (the full clause `bounds_monotone_in_domain` is judged below, where the quantile's rounding is
         -- small against the class widths: on domains of width 1e-13 qGamma is not monotone to the last bits)
         -- on a domain without mass both schemes give equal probabilities (exact); with mass the
         -- equal-interval masses are differences of pProb divided by the mass: judged where well-conditioned
         ("probs_sum_one", probsSumOne 1e-9 d || !(eqB || wc || !(cond > 0))),
         ("values_strict_mono", valuesStrictMono d),
         ("probs_nonneg", probsNonneg d || !(eqB || wc || !(cond > 0))),
         ("equal_mass", !eqB || equalMass d),
         -- **every state is judged on its class values** (audit round 2): the clause name says in which
         -- situation the state is — plain: the theorem applies, a failure is a violation; `_median`,
         -- `_unresolved`, `_narrow`: situations where the clause is false of the code (known findings)
         (valueClause "value_in_domain", valuesInDom d)] ++
        (if wc || fallback || !eqB then
          [(valueClause "value_in_own_class", valuesInClass d)] else []) ++
        (if wc || fallback then
          [("bounds_monotone_in_domain", boundsMonoInDom d)]
         else []) ++
        -- theorem `when_possible_distinct_bounds` (in doubles: classes wider than the spacing of the doubles)
        (if f.dd.scheme == 3 && (f.dd.dom.hi - f.dd.dom.lo) / Float.ofNat f.dd.n > 1e-9 * (1 + absF f.dd.dom.lo + absF f.dd.dom.hi)
         then [("when_possible_distinct_bounds", !(hasEqualNeighbours d.allBounds))] else []) ++
        -- mean-valued classes are explored where none of them fell back to the midpoint of its bounds
        (if wc then exploreClauses d eqB (!f.dd.median && eqB && noMeanFallback par f.dd) rs (eqB && f.dd.median && !fallback && rescaledB par f.dd) a.xp a.xe else []))
    | .leaf (.const _) =>
      -- theorem `constant_class_is_value`: the one class of a constant distribution is its `value`
      -- parameter with probability one, after every operation (the value is read from the
      -- implementation's own parameter dump)
      let pv := (a.qs.headD []).find? (fun q => hexName q.name == "value")
      firstFail (compoundClauses [] a.main ++ [("n_classes", a.main.dist.length == 1 && a.main.n == 1),
        ("constant_class_is_value", match pv, a.main.dist with
          | some q, [(k, p)] => same k q.value && same p 1
          | _, _ => false)])
    | .leaf (.simple ss) =>
      -- theorems `simple_restrict_keeps_classes`, `compound_normalised_simple_history`: the class values of
      -- a user-specified distribution are its `V<i>` parameters (as long as these are further apart than
      -- the precision of the map: otherwise the separation loop moves them) — after parameter updates,
      -- restrictions, median toggles alike
      let vs := ((a.qs.headD []).filter (fun q => (hexName q.name).startsWith "V")).map (·.value)
      let sorted := vs.foldl (fun acc v => (acc.filter (· ≤ v)) ++ [v] ++ (acc.filter (fun x => !(x ≤ v)))) ([] : List Float)
      let apart := (pairs sorted).all (fun ab => ab.2 - ab.1 > 2 * a.main.prec && ab.2 != ab.1)
      firstFail (compoundClauses [] a.main ++
        [("n_classes", a.main.dist.length == ss.vs.length && a.main.n == ss.vs.length),
         ("values_strict_mono", valuesStrictMono a.main), ("bounds_monotone_in_domain", nondecr a.main.bounds),
         ("simple_classes_are_parameters", !apart || sameL a.main.cats sorted)])
    | .invar st =>
      -- `invariant_in_own_class` (clause 4 of the statement for the class the compound adds): the
      -- invariant is a class value and lies in its own class interval `[allBounds[k], allBounds[k+1]]`
      let d := a.main
      let inOwn := match d.cats.findIdx? (fun k => same k st.inv) with
        | some k => (match d.allBounds[k]?, d.allBounds[k + 1]? with
                     | some lo, some hi => lo ≤ st.inv && st.inv ≤ hi
                     | _, _ => false)
        | none => false
      firstFail (compoundClauses a.subs a.main ++ [("values_strict_mono", valuesStrictMono a.main),
        ("invariant_in_own_class", inOwn)])
    | _ => firstFail (compoundClauses a.subs a.main ++ [("values_strict_mono", valuesStrictMono a.main)])

/-- clauses about the parameters and the second object (BppProofs/Props/C09Shared.lean), on the
implementation's answer:
 * `tie_own` — a parameter constrained by a domain object is constrained by the domain object of
   its own distribution (of the component it mirrors, for a compound's copy): invariant `Owned`;
 * `param_accepted` — every parameter (of the object, of its components, of the second object)
   holds a value accepted by the constraint it has now;
 * `copy_independent` — an operation on the current object leaves the second object (classes,
   bounds, domain, parameters, parameter constraints, of it and of its components) as it was. -/
def sharedClauses (exp : List (List (Option String))) (prevAlt : Option String) (touchesAlt : Bool) (a : Ans) : List (String × Bool) :=
  [("tie_own", exp.length != a.qs.length || (exp.zip a.qs).all (fun eq =>
      eq.1.length != eq.2.length || (eq.1.zip eq.2).all (fun tq => match tq.1 with | some t => tq.2.tag == t | none => true))),
   ("param_accepted", a.qs.all (fun g => paramsAccepted (g.map (fun q => (⟨q.name, q.value, q.c⟩ : PView Float))))),
   ("copy_independent", touchesAlt || (match prevAlt, a.altPart with
      | some x, some y => x == y
      | none, _ => true
      | some _, none => false))]

def stepChange (s : St) (impl : Option (List String)) (touchesAlt : Bool) (f : List Ent → St × Option Err) : St × String × String :=
  let ans := impl.bind parseAns
  let es := match ans with | some a => a.ents | none => []
  let (s', err) := f es
  let oTail := match ans with | some a => a.oTail | none => " ; o ; xp ; xe ; xq"
  -- an answer without a current object: `[exc:…] none [// alt]`
  let noneAns : Option (Option String) := match impl with
    | some t =>
      let t1 := match t with | h :: r => if h.startsWith "exc:" then r else t | [] => []
      (match splitTok "//" t1 with
       | [["none"]] => some none
       | [["none"], b] => some (some (" ".intercalate b))
       | _ => none)
    | none => none
  let verdict := match impl, ans, noneAns with
    | none, _, _ => "-"
    | some _, _, some altP =>
      firstFail [("copy_independent", touchesAlt || (match s.lastAlt, altP with | some x, some y => x == y | none, _ => true | some _, none => false))]
    | some _, none, none => "FAIL:parse"
    | some _, some a, none =>
      let v := judgeState s' es a
      if v != "ok" then v else firstFail (sharedClauses s'.expectedTags s.lastAlt touchesAlt a)
  let alt' : Option String := match impl, ans, noneAns with
    | none, _, _ => s'.lastAlt
    | _, some a, _ => a.altPart
    | _, none, some altP => altP
    | _, none, none => s'.lastAlt
  ({ s' with lastAlt := alt' }, showState s' err oTail, verdict)

def exceptStr {β : Type} (f : β → String) : Except Err β → String
  | .ok v => f v
  | .error e => e.toString

def implNat? : Option (List String) → Option Nat
  | some [t] => t.toNat?
  | _ => none
def implFloat? : Option (List String) → Option Float
  | some [t] => float? t
  | _ => none


/-- `getBounds()` (cpp:527-537) with the virtual `getLowerBound()` / `getUpperBound()` of the object -/
def getBoundsV (c : CState Float) : Except Err (List Float) := do
  let d := c.top
  let inner ← (List.range (d.n - 1)).mapM (fun i => getBound d i)
  return c.lowerBound :: inner ++ [c.upperBound]

/-- look-ups at a value / bound / class value and cumulative queries at a class value -/
def lookStep (d : DD Float) (allB : Except Err (List Float)) (noImpl : Bool) (op : List String) (impl : Option (List String)) : Option (String × String) :=
  let ver (l : List (String × Bool)) : String := if noImpl then "-" else firstFail l
  match op with
  | [lk, arg] =>
    if lk == "look" || lk == "lookb" || lk == "lookc" then
      let xo : Option (Except Err Float) :=
        if lk == "look" then (float? arg).map .ok
        else if lk == "lookb" then arg.toNat?.map (fun i => match allB with
          | .ok b => (match b[i]? with | some x => .ok x | none => .error .index)
          | .error e => .error e)
        else arg.toNat?.map (fun i => if i ≥ d.n then .error .index else getCategory d i)
      match xo with
      | none => none
      | some (.error e) => some (e.toString, "-")
      | some (.ok x) =>
        let mv := exceptStr hx (getValueCategory d x)
        let mi := exceptStr toString (getCategoryIndex d x)
        some (hx x ++ " " ++ mv ++ " " ++ mi,
         ver [("lookup_spec", match impl with
           | some [_, v, k] =>
             (match float? v, k.toNat? with
              | some v, some k => lookupOk d x k && k < d.n && (match d.cats[k]? with | some c => same c v | none => false)
              | none, none => !(d.dom.isCorrect x)
              | _, _ => false)
           | _ => false)])
    else if lk == "cumi" then
      match arg.toNat? with
      | none => none
      | some i =>
        match d.cats[i]?, d.probs[i]? with
        | some k, some pk =>
          let a := cInf d k; let b := cIInf d k; let c2 := cSup d k; let e := cSSup d k
          some (hx k ++ " " ++ hx a ++ " " ++ hx b ++ " " ++ hx c2 ++ " " ++ hx e ++ " " ++ hx pk,
           ver [("cumulative_consistent", match impl.map (fun t => t.mapM float?) with
              | some (some [_, ia, ib, ic, ie, ip]) =>
                -- against the partial sums of the implementation's own probabilities (= the model's, by the tie)
                same ia (sumL (d.probs.take i)) && same ic (sumL (d.probs.drop (i + 1))) &&
                same ib (1 - sumL (d.probs.drop (i + 1))) && same ie (1 - sumL (d.probs.take i)) && same ip pk &&
                (d.probs.any (fun p => p.isNaN) ||
                 (absF (ia + ie - 1) ≤ 1e-9 && absF (ib + ic - 1) ≤ 1e-9 &&
                  (!(probsSumOne 1e-9 d) || absF (ib - ia - ip) ≤ 1e-9)))
              | _ => false)])
        | _, _ => some ("exc:index", "-")
    else none
  | _ => none

/-- apply an operation of the world to the current object -/
def onCur (s : St) (orc : Nat → Parent Float) (mk : Nat → WOp Float) : St × Option Err :=
  match s.cur with
  | some i => let r := WOp.step orc s.w (mk i); ({ s with w := r.1 }, r.2)
  | none => (s, none)

def isLeafObj (w : World Float) (i : Nat) : Bool :=
  match w.objs[i]? with
  | some o => (match o.st with | .leaf _ => true | _ => false)
  | none => false

def step (s : St) (op : List String) (impl : Option (List String)) : St × String × String :=
  let bad : St × String × String := (s, "bad-op", "-")
  let noImpl := impl.isNone
  -- an operation that did not return is a failure of its own
  if (match impl with | some t => t.contains "hang" | none => false) then ({ s with cur := none, alt := none, lastAlt := none }, "hang", "FAIL:terminates") else
  match op with
  | "new" :: famName :: args =>
    stepChange s impl false fun es =>
      let slot := s.nextSlot
      let s1 := { s with nextSlot := slot + 1 }
      match newReq (oracleOf es slot) slot famName args with
      | some (.leaf l) =>
        let r := WOp.step (oracleOf es) s1.w (.add l)
        ({ s1 with w := r.1, cur := some s1.w.objs.length }, none)
      | some (.fail e) => (s1, some e)
      | some (.invar p inv) =>
        (match s1.cur with
         | some i =>
           if !(isLeafObj s1.w i) then (s1, some .bpp) else
           let r := WOp.step (oracleOf es) s1.w (.wrapInvar i p inv)
           (match r.2 with
            | none => ({ s1 with w := r.1 }, none)
            | some e => ({ s1 with cur := none }, some e))      -- the nested distribution was moved into the constructor
         | none => (s1, some .bpp))
      | some (.mix k ws) =>
        if s1.stack.length < k then (s1, some .bpp) else
        let comps := s1.stack.drop (s1.stack.length - k)
        let s2 := { s1 with stack := s1.stack.take (s1.stack.length - k) }
        if !(comps.all (isLeafObj s2.w)) then (s2, some .bpp) else
        let r := WOp.step (oracleOf es) s2.w (.mkMix comps ws)
        (match r.2 with
         | none => ({ s2 with w := r.1, cur := some s2.w.objs.length }, none)
         | some e => (s2, some e))
      | none => (s1, some .unreachable)
  | ["push"] =>
    match s.cur with
    | some c => let st := s.stack ++ [c]; ({ s with cur := none, stack := st }, "ok " ++ toString st.length, "-")
    | none => (s, "ok " ++ toString s.stack.length, "-")
  | ["swap"] => stepChange s impl true fun _ => ({ s with cur := s.alt, alt := s.cur }, none)
  | _ =>
  match s.curState with
  | none => (s, "none" ++ showAlt s, "-")
  | some c =>
  let orc (es : List Ent) : Nat → Parent Float := oracleOf es
  let change (mk : Nat → WOp Float) : St × String × String :=
    stepChange s impl false fun es => onCur s (orc es) mk
  match op with
  | ["setp", name, v] =>
    match float? v with
    | some v => change fun i => .setP i (hexName name) v
    | none => bad
  | ["setn", n] =>
    match n.toNat? with
    | some n => change fun i => .setN i n
    | none => bad
  | ["median", b] =>
    match bool? b with
    | some b => change fun i => .setMed i b
    | none => bad
  | ["discretize"] => change fun i => .rediscretize i
  | ["restrict", lo, hi, il, iu] =>
    match float? lo, float? hi, bool? il, bool? iu with
    | some lo, some hi, some il, some iu =>
      change fun i => .restrict i ⟨boundOf lo, boundOf hi, il, iu, (Constants.TINY : Float)⟩
    | _, _, _, _ => bad
  | ["copy"] =>
    -- the current object is replaced by its clone (the original is destroyed)
    stepChange s impl false fun es =>
      let r := onCur s (orc es) .clone
      ({ r.1 with cur := some s.w.objs.length }, r.2)
  | ["fork"] =>
    -- `alt = cur->clone()`: the copy constructor
    stepChange s impl true fun es =>
      let r := onCur s (orc es) .clone
      ({ r.1 with alt := some s.w.objs.length }, r.2)
  | ["forkassign"] =>
    -- `alt = <a fresh object of the same class>; *alt = *cur`: the assignment operator
    stepChange s impl true fun es =>
      let r := onCur s (orc es) .clone
      let k := s.w.objs.length
      let r2 := onCur r.1 (orc es) (fun i => .assign i k)
      ({ r2.1 with alt := some k }, r2.2)
  | ["dump"] => stepChange s impl false fun _ => (s, none)
  -- `*cur = *cur`: the assignment operators return at once
  | ["selfassign"] => stepChange s impl false fun _ => (s, none)
  | _ =>
  -- queries on the compound / family's top-level object
  let d := c.top
  let ver (l : List (String × Bool)) : String := if noImpl then "-" else firstFail l
  match lookStep d (getBoundsV c) noImpl op impl with
  | some (m, v) => (s, m, v)
  | none =>
  match op with
  | ["n"] => (s, toString d.n, ver [("n_classes", implNat? impl == some d.n)])
  | ["cats"] => (s, if d.cats.isEmpty then "-" else hxs d.cats, "-")
  | ["probs"] => (s, if d.probs.isEmpty then "-" else hxs d.probs, "-")
  | ["bounds"] => (s, exceptStr hxs (getBoundsV c), "-")
  | ["bound", i] =>
    match i.toNat? with
    | some i => (s, exceptStr hx (getBound d i), "-")
    | none => bad
  | ["cat", i] =>
    match i.toNat? with
    | some i => (s, if i ≥ d.dist.length then "exc:index" else exceptStr hx (getCategory d i), "-")
    | none => bad
  | ["prob", i] =>
    match i.toNat? with
    | some i => (s, if i ≥ d.dist.length then "exc:index" else exceptStr hx (getProbabilityAt d i), "-")
    | none => bad
  | ["lu"] => (s, hx c.lowerBound ++ " " ++ hx c.upperBound ++ " " ++ b01 (!d.dom.inclLo) ++ " " ++ b01 (!d.dom.inclHi), "-")
  | ["valcat", x] =>
    match float? x with
    | some x =>
      (s, exceptStr hx (getValueCategory d x),
       ver [("lookup_spec", match implFloat? impl with
              | some v => (match d.cats.findIdx? (fun k => same k v) with
                           | some k => lookupOk d x k
                           | none => false)
              | none => !(d.dom.isCorrect x))])
    | none => bad
  | ["catidx", x] =>
    match float? x with
    | some x =>
      (s, exceptStr toString (getCategoryIndex d x),
       ver [("lookup_spec", match implNat? impl with
              | some k => lookupOk d x k && k < d.n
              | none => !(d.dom.isCorrect x))])
    | none => bad
  | [q, x] =>
    match float? x with
    | some x =>
      let cum (v : Float) (clause : Bool) : St × String × String :=
        (s, hx v, ver [("cumulative_consistent", (match implFloat? impl with | some w => same w v | none => false) && clause)])
      -- complementarity of the queries (theorem `cumulative_consistent`) evaluated on the model side of the same state
      let compl : Bool := absF (cInf d x + cSSup d x - 1) ≤ 1e-9 || (d.dist.findIdx? d.prec x).isNone
      if q == "cinf" then cum (cInf d x) compl
      else if q == "ciinf" then cum (cIInf d x) true
      else if q == "csup" then cum (cSup d x) true
      else if q == "cssup" then cum (cSSup d x) compl
      else if q == "P" || q == "Q" || q == "E" then (s, (match impl with | some t => " ".intercalate t | none => "-"), "-")
      else bad
    | none => bad
  | _ => bad

def machine : Machine St := { init := fun _ => {}, step := step }

end Bpp.Drive.C09
