import BppModel.Proto
import BppModel.EigenGlue
import BppModel.EigenBook
/-
Driver for C06 (EigenValue.h, MatrixTools::pow/exp).

Ops (doubles as 16 hex digits, `nan` for any NaN; `;` separates lists):
  cdiv xr xi yr yi          -> cr ci
  mat nr nc a11 a12 ...     -> ok                       (sets the current matrix, row major)
  eig                       -> s ; d.. ; e.. ; V..      (decomposes the current square matrix)
  getD                      -> D..                      (of the last decomposition)
  setde d.. ; e..           -> D.. | crash              (hook: overwrite (d,e), then getD)
  trace                     -> hits k:c .. ; log.. ; d.. ; e.. ; V..   (guarded instrumentation of the last
                               decomposition: branch counters, the records of the bookkeeping steps of
                               tql2 / hqr2, and d, e, V once more; see `replay` below)
  pow p                     -> d.. ; V.. ; W.. ; O..    | exc:dimension | exc:zerodiv
  exp                       -> d.. ; V.. ; W.. ; O..    | exc:dimension | exc:zerodiv

Modelled (bit-exact at Float, compared by check.py): cdiv, the symmetry flag, getD from the
implementation's own (d,e), the glue of pow/exp from the implementation's own (d, V, W).
Explored (exact `Rat` arithmetic on the implementation's doubles, verdict clauses): everything
about the untranscribed kernels — residual, (d,e) shape, trace, determinant, order and
orthonormality for symmetric input, pow against repeated products, exp against the series.
Tokens `r.<clause>=<x>` appended to the model's answer report the observed size of each explored
quantity in units of its bound without the constant (gens/C06.py collects their maxima).
-/
namespace Bpp.Drive.C06
open Bpp Bpp.Proto Bpp.EigenGlue Bpp.EigenBook

/-! ### constants of the explored bounds (in units of machine epsilon = 2^-52) -/
def cResidual : Rat := 64    -- ‖(AV − VD)·j‖₁ ≤ c ε ‖A‖₁ (‖v_j‖₁ + ‖v_partner‖₁)
def cTrace : Rat := 16       -- |Σ d − tr A| ≤ c ε n ‖A‖
def cDet : Rat := 16         -- |Π blocks − det A| ≤ c ε n ‖A‖ⁿ
def cOrth : Rat := 8         -- |VᵀV − I|_max ≤ c ε n
def cCdiv : Rat := 4         -- |q·y − x|₁ ≤ c ε |q|₁ |y|₁
def cPow : Rat := 4          -- ‖O − A^k‖_max ≤ c ε (k+1) κ² max(‖A‖^k, max|λ|^k), κ = ‖V‖‖W‖
def cExp : Rat := 4          -- ‖O − Σ A^j/j!‖_max ≤ c ε κ² e^‖A‖
def condGate : Rat := 10000   -- pow/exp are judged only when κ = ‖V‖₁‖W‖₁ ≤ this
def cHypot : Rat := 8        -- |r² − (p² + 1)| ≤ c ε (p² + 1)   (hypothesis of tql2_shift_uniform)
def cSweep : Rat := 16       -- |tr(window) after sweeps − before| ≤ c ε n ‖A‖  (hypothesis of the trace theorems)

def eps : Rat := 1 / (2 ^ 52 : Nat)

structure St where
  nr : Nat := 0
  nc : Nat := 0
  A : Array Float := #[]
  haveEig : Bool := false
  d : Array Float := #[]
  e : Array Float := #[]
  V : Array Float := #[]

/-! ### parsing / printing -/
def nan : Float := 0.0 / 0.0
def flt? (s : String) : Option Float := if s == "nan" then some nan else Hex.float? s
def flts? (l : List String) : Option (Array Float) := (l.mapM flt?).map List.toArray
def showF (x : Float) : String := Hex.ofFloatCanon x
def showFs (l : List Float) : String := " ".intercalate (l.map showF)

def fin (x : Float) : Bool := !(x.isNaN || x.isInf)
def toRat (x : Float) : Rat := (floatToRat? x).getD 0
def rabs (x : Rat) : Rat := if x < 0 then -x else x
def rmax (x y : Rat) : Rat := if x < y then y else x

/-- a rational as a decimal string (6 significant digits are enough for reporting) -/
def ratToFloat (q : Rat) : Float :=
  let s : Int := (q.num * (2 ^ 80 : Nat)) / (q.den : Int)
  Float.ofInt s / Float.ofNat (2 ^ 80)
def rtok (name : String) (q : Rat) : String := " r." ++ name ++ "=" ++ toString (ratToFloat q)

/-! ### exact dense helpers over `Rat` (row-major `Array Rat`) -/
abbrev RM := Array Rat
def rget (n : Nat) (m : RM) (i j : Nat) : Rat := m[i * n + j]!
def rfun (n : Nat) (m : RM) : FMat Rat := fun i j => rget n m i j
def rtab (n : Nat) (f : FMat Rat) : RM :=
  ((List.range n).flatMap fun i => (List.range n).map fun j => f i j).toArray
def rmul (n : Nat) (a b : RM) : RM := rtab n (multEntry n (rfun n a) (rfun n b))
def rid (n : Nat) : RM := rtab n (fun i j => if i = j then 1 else 0)
def rsum (l : List Rat) : Rat := l.foldl (· + ·) 0
def rmaxl (l : List Rat) : Rat := l.foldl rmax 0
/-- max column sum -/
def norm1 (n : Nat) (m : RM) : Rat :=
  rmaxl ((List.range n).map fun j => rsum ((List.range n).map fun i => rabs (rget n m i j)))
/-- max row sum -/
def normInf (n : Nat) (m : RM) : Rat :=
  rmaxl ((List.range n).map fun i => rsum ((List.range n).map fun j => rabs (rget n m i j)))
def normMax (m : RM) : Rat := rmaxl (m.toList.map rabs)
def col1 (n : Nat) (m : RM) (j : Nat) : Rat := rsum ((List.range n).map fun i => rabs (rget n m i j))
def rsub (a b : RM) : RM := (a.zip b).map fun (x, y) => x - y
def rpow (n : Nat) (a : RM) : Nat → RM
  | 0 => rid n
  | k + 1 => rmul n (rpow n a k) a
def qpow (x : Rat) : Nat → Rat
  | 0 => 1
  | k + 1 => qpow x k * x

/-- exact determinant by fraction Gaussian elimination -/
def rdet (n : Nat) (m0 : RM) : Rat := Id.run do
  let mut m := m0
  let mut det : Rat := 1
  for c in [0:n] do
    -- pivot: first row ≥ c with a non-zero entry in column c
    let mut p := n
    for r in [c:n] do
      if p == n && rget n m r c != 0 then p := r
    if p == n then
      return 0
    if p != c then
      for j in [0:n] do
        let x := rget n m c j
        m := m.set! (c * n + j) (rget n m p j)
        m := m.set! (p * n + j) x
      det := -det
    let piv := rget n m c c
    det := det * piv
    for r in [c+1:n] do
      let f := rget n m r c / piv
      if f != 0 then
        for j in [c:n] do
          m := m.set! (r * n + j) (rget n m r j - f * rget n m c j)
  return det

/-! ### verdicts -/

/-- first failing clause or `ok` -/
def firstFail (l : List (String × Bool)) : String :=
  match l.find? (fun p => !p.2) with
  | some (c, _) => "FAIL:" ++ c
  | none => "ok"

def allFin (a : Array Float) : Bool := a.all fin

/-- exploration of one decomposition. Returns (verdict, report tokens). -/
def eigVerdict (n : Nat) (A : Array Float) (sym : Bool) (d e V : Array Float) : String × String :=
  if !(allFin A) then ("-", "") else
  if !(allFin d && allFin e && allFin V) then ("FAIL:finite", "") else
  let a : RM := A.map toRat
  let v : RM := V.map toRat
  let dq : Nat → Rat := fun i => toRat d[i]!
  let eq : Nat → Rat := fun i => toRat e[i]!
  let wf := pairsWFb n dq eq
  -- D assembled by the *model's* getD at Rat from the implementation's lists
  let dm : FMat Rat := blockEntry dq eq
  let av := rmul n a v
  let vd := rtab n (multEntry n (rfun n v) dm)
  let r := rsub av vd
  let nA1 := norm1 n a
  let nAinf := normInf n a
  let mu := rmax nA1 nAinf
  -- per-column residual in units of ε‖A‖₁(‖v_j‖₁+‖v_partner‖₁)
  let colUnit (j : Nat) : Rat :=
    let partner := if eq j > 0 then col1 n v (j + 1) else if eq j < 0 then col1 n v (j - 1) else 0
    eps * nA1 * (col1 n v j + partner)
  let resOk := (List.range n).all fun j => col1 n r j ≤ cResidual * colUnit j
  let resRatio := rmaxl ((List.range n).map fun j =>
    let u := colUnit j
    if u == 0 then (if col1 n r j == 0 then 0 else 1000000000) else col1 n r j / u)
  -- no eigenvector may vanish
  let vecOk := (List.range n).all fun j => col1 n v j > 0
  let tr := rsum ((List.range n).map fun i => rget n a i i)
  let sd := spectrumSum n dq        -- the model's definitions (theorem spectrum_trace_det)
  let trUnit := eps * (n : Rat) * mu
  let trOk := rabs (sd - tr) ≤ cTrace * trUnit
  let trRatio := if trUnit == 0 then (if sd == tr then 0 else 1000000000) else rabs (sd - tr) / trUnit
  let det := rdet n a
  let sp := spectrumProd n dq eq
  let detUnit := eps * (n : Rat) * qpow mu n
  let detOk := rabs (sp - det) ≤ cDet * detUnit
  let detRatio := if detUnit == 0 then (if sp == det then 0 else 1000000000) else rabs (sp - det) / detUnit
  -- symmetric input
  let realOk := (List.range n).all fun i => eq i == 0
  let ascOk := (List.range (n - 1)).all fun i => dq i ≤ dq (i + 1)
  let vtv := rtab n (fun i j => rsum ((List.range n).map fun k => rget n v k i * rget n v k j))
  let orthErr := normMax (rsub vtv (rid n))
  let orthUnit := eps * (n : Rat)
  let orthOk := orthErr ≤ cOrth * orthUnit
  let verdict := firstFail ([("de_wellformed", wf), ("eigenvector_nonzero", vecOk), ("residual", resOk),
      ("trace", trOk), ("determinant", detOk)] ++
    (if sym then [("sym_real", realOk), ("sym_ascending", ascOk), ("sym_orthonormal", orthOk)] else []))
  (verdict, rtok "residual" resRatio ++ rtok "trace" trRatio ++ rtok "determinant" detRatio ++
    (if sym then rtok "orthonormal" (orthErr / orthUnit) else ""))

/-- does the implementation's `D` (row major) equal the documented block form of `(d, e)`?
(`blockEntry` at `Float`; comparison by bit pattern up to the sign of zero / NaN payload) -/
def sameF (x y : Float) : Bool := (x == y) || (x.isNaN && y.isNaN)

def dVerdict (n : Nat) (d e : Array Float) (impl : Option (List String)) : String :=
  match impl with
  | none => "-"
  | some t =>
    match flts? t with
    | none => if t.head? == some "ub" || ((t.head?.getD "").startsWith "crash") then "-" else "FAIL:parse"
    | some D =>
      if D.size != n * n then "FAIL:parse" else
      let df : Nat → Float := fun i => d[i]!
      let ef : Nat → Float := fun i => e[i]!
      if (List.range n).all (fun i => (List.range n).all fun j => sameF D[i * n + j]! (blockEntry df ef i j))
      then "ok" else "FAIL:getD_blocks"

def showRows (r : Except Err (List (Array Float))) : String :=
  match r with
  | .ok rows => showFs (rows.flatMap Array.toList)
  | .error .ub => "ub"
  | .error .dimension => "exc:dimension"

/-- exp(x) for a rational `x ≥ 0`, 60 terms of the series (a lower bound that is within 1e-20
relative for x ≤ 16) -/
def qexp (x : Rat) : Rat := Id.run do
  let mut term : Rat := 1
  let mut s : Rat := 1
  for j in [1:60] do
    term := term * x / (j : Rat)
    s := s + term
  return s

/-- Σ_{j<N} A^j / j! -/
def rexpSeries (n : Nat) (a : RM) (N : Nat) : RM := Id.run do
  let mut term := rid n
  let mut s := rid n
  for j in [1:N] do
    term := (rmul n term a).map (· / (j : Rat))
    s := (s.zip term).map fun (x, y) => x + y
  return s

/-- exploration of pow / exp: given the implementation's (d, V, W, O) -/
def glueVerdict (isExp : Bool) (n : Nat) (A : Array Float) (p : Float) (d V W O : Array Float) : String × String :=
  if !(allFin A) then ("-", "") else
  if !(allFin d && allFin V && allFin W) then ("-", "") else
  let a : RM := A.map toRat
  let v : RM := V.map toRat
  let w : RM := W.map toRat
  let kappa := norm1 n v * norm1 n w
  -- the imaginary parts are ignored by pow/exp: only real spectra are in the property's scope;
  -- recognised here by the hypothesis of `pow_glue` itself, A·V ≈ V·diag(d)
  let dq : Nat → Rat := fun i => toRat d[i]!
  let av := rmul n a v
  let vd := rtab n (fun i j => rget n v i j * dq j)
  let hyp := norm1 n (rsub av vd)
  let nA1 := norm1 n a
  let mu := rmax nA1 (normInf n a)
  let hypOk := hyp ≤ cResidual * eps * nA1 * norm1 n v * (n : Rat)
  if !hypOk || kappa > condGate then ("-", rtok "kappa_skipped" kappa) else
  if !(allFin O) then ((if isExp then "FAIL:exp_series" else "FAIL:pow_products"), "") else
  let o : RM := O.map toRat
  let lamMax := rmaxl ((List.range n).map fun i => rabs (dq i))
  if isExp then
    if mu > 16 then ("-", "") else
    let s := rexpSeries n a 60
    let err := normMax (rsub o s)
    let unit := eps * kappa * kappa * qexp mu
    ((if err ≤ cExp * unit then "ok" else "FAIL:exp_series"), rtok "exp" (err / unit) ++ rtok "kappa" kappa)
  else
    -- judged exponents: k = 0..8 (O ≈ A^k), −1, −2 (O·A^|k| ≈ I), 1/2 (O·O ≈ A)
    let pk := toRat p
    let scale (k : Nat) : Rat := rmax (rmax (qpow mu k) (qpow lamMax k)) 1
    if pk.den == 1 && 0 ≤ pk.num && pk.num ≤ 8 then
      let k := pk.num.toNat
      let err := normMax (rsub o (rpow n a k))
      let unit := eps * ((k : Rat) + 1) * kappa * kappa * scale k
      ((if err ≤ cPow * unit then "ok" else "FAIL:pow_products"), rtok "pow" (err / unit) ++ rtok "kappa" kappa)
    else if pk.den == 1 && -2 ≤ pk.num && pk.num < 0 then
      let k := (-pk.num).toNat
      let lamMin := (List.range n).foldl (fun m i => if rabs (dq i) < m then rabs (dq i) else m) (rabs (dq 0))
      if lamMin == 0 then ("-", "") else
      let err := normMax (rsub (rmul n o (rpow n a k)) (rid n))
      -- O ≈ A^-k has size ≤ κ / λmin^k; multiplied by A^k of size ≤ μ^k
      let unit := eps * ((k : Rat) + 1) * kappa * kappa * kappa * rmax (qpow (mu / lamMin) k) 1
      ((if err ≤ cPow * unit then "ok" else "FAIL:pow_inverse"), rtok "powneg" (err / unit) ++ rtok "kappa" kappa)
    else if pk == 1 / 2 then
      if (List.range n).any (fun i => dq i < 0) then ("-", "") else
      let err := normMax (rsub (rmul n o o) a)
      let unit := eps * kappa * kappa * kappa * rmax mu 1
      ((if err ≤ cPow * unit then "ok" else "FAIL:pow_sqrt"), rtok "powhalf" (err / unit) ++ rtok "kappa" kappa)
    else ("-", "")

def afun (n : Nat) (m : Array Float) : FMat Float := fun i j => m[i * n + j]!

/-! ### replay of the bookkeeping records (op `trace`)

The guarded instrumentation of EigenValue.h appends one record `code len payload..` per bookkeeping
step (all numbers as doubles):
  1  tql2 shift   l m e[l] hypot(p,1) f' ; d before (n) ; d after `f = f + h` (n)
  2  tql2 finish  l d[l] f d[l]+f
  3  tql2 presort d (n) ; V (n·n)
  4  hqr2 iter==10  n x exshift' ; diag(0..n) before ; diag(0..n) after
  5  hqr2 iter==30  n x y w s exshift' ; diag(0..n) before ; after        (only when the shift is taken)
  6  hqr2 one root  n H(n,n) exshift d[n] e[n] ; diag(0..n-1)
  7  hqr2 two roots n H(n-1,n-1) H(n-1,n) H(n,n-1) H(n,n) exshift d[n-1] d[n] e[n-1] e[n] ; diag(0..n-2)
The model (`EigenBook.hqrStep` / `tqlStep` / `sortEig` at `Float`) is run over the records: every value a
bookkeeping step *computes* (exshift, f, shifted diagonals, reported eigenvalues, sorted lists) is
recomputed from the values that *enter* the step and printed in the record's place, so that the ordinary
token comparison of check.py is the tie; the window sizes of the records must be the model's. -/
structure Rec where
  code : Nat
  p : Array Float

def natOfFloat (x : Float) : Option Nat :=
  if x.isNaN || x < 0 || x > 1000000 then none else
  let k := x.toUInt64.toNat
  if Float.ofNat k == x then some k else none

def parseLog (a : Array Float) : Option (List Rec) := Id.run do
  let mut i := 0
  let mut out : Array Rec := #[]
  for _ in [0:a.size] do
    if i < a.size then
      if i + 1 < a.size then
        match natOfFloat a[i]!, natOfFloat a[i + 1]! with
        | some c, some len =>
          if i + 2 + len ≤ a.size then
            out := out.push { code := c, p := a.extract (i + 2) (i + 2 + len) }
            i := i + 2 + len
          else return none
        | _, _ => return none
      else return none
  return some out.toList

def showRec (r : Rec) : String :=
  showFs ([Float.ofNat r.code, Float.ofNat r.p.size] ++ r.p.toList)

def seg (a : Array Float) (off len : Nat) : Nat → Float := fun i => if i < len then a[off + i]! else 0.0
def tab (f : Nat → Float) (len : Nat) : List Float := (List.range len).map f

/-- hqr2 records through `hqrStep` -/
def replayHqr (st0 : HqrSt Float) (recs : List Rec) : Option (List Rec × HqrSt Float) :=
  recs.foldlM (fun (acc : List Rec × HqrSt Float) r => do
    let (out, st) := acc
    let p := r.p
    let nc ← natOfFloat (p[0]?.getD (-1.0))
    let w := nc + 1
    if st.n != w then none else
    match r.code with
    | 4 =>
      if p.size != 3 + 2 * w then none else do
      let st1 ← hqrStep st (.sweep (seg p 3 w))
      let st2 ← hqrStep st1 .ex10
      pure (out ++ [{ r with p := (#[p[0]!, st1.diag nc, st2.exshift] ++ (tab (seg p 3 w) w).toArray ++ (tab st2.diag w).toArray) }], st2)
    | 5 =>
      if p.size != 6 + 2 * w || w < 2 then none else do
      let st1 ← hqrStep st (.sweep (seg p 6 w))
      let st2 ← hqrStep st1 (.ex30 p[3]!)
      let s := (ex30Shift (st1.diag nc) (st1.diag (nc - 1)) p[3]!).getD nan
      pure (out ++ [{ r with p := (#[p[0]!, st1.diag nc, st1.diag (nc - 1), p[3]!, s, st2.exshift] ++ (tab (seg p 6 w) w).toArray ++ (tab st2.diag w).toArray) }], st2)
    | 6 =>
      if p.size != 5 + nc then none else do
      let hnn := p[1]!
      let st1 ← hqrStep st (.sweep (fun i => if i < nc then p[5 + i]! else hnn))
      let st2 ← hqrStep st1 .defl1
      pure (out ++ [{ r with p := (#[p[0]!, hnn, st.exshift, st2.d nc, st2.e nc] ++ p.extract 5 (5 + nc)) }], st2)
    | 7 =>
      if nc < 1 || p.size != 10 + (nc - 1) then none else do
      let st1 ← hqrStep st (.sweep (fun i => if i + 1 < nc then p[10 + i]! else if i + 1 = nc then p[1]! else p[4]!))
      let st2 ← hqrStep st1 (.defl2 p[2]! p[3]!)
      pure (out ++ [{ r with p := (#[p[0]!, p[1]!, p[2]!, p[3]!, p[4]!, st.exshift, st2.d (nc - 1), st2.d nc, st2.e (nc - 1), st2.e nc]
          ++ p.extract 10 (10 + (nc - 1))) }], st2)
    | _ => none) ([], st0)

/-- tql2 records through `tqlStep`; the presort record is copied, the sort is run afterwards -/
def replayTql (n : Nat) (st0 : TqlSt Float) (recs : List Rec) : Option (List Rec × TqlSt Float) :=
  recs.foldlM (fun (acc : List Rec × TqlSt Float) r => do
    let (out, st) := acc
    let p := r.p
    match r.code with
    | 1 =>
      if p.size != 5 + 2 * n then none else do
      let l ← natOfFloat p[0]!
      if st.l != l then none else
      -- entries below l are final values the model already holds; the window [l, n) enters from the record
      let dB : Nat → Float := fun i => if i < l then st.d i else p[5 + i]!
      let st1 ← tqlStep st (.sweep dB)
      let st2 ← tqlStep st1 (.shift p[2]! p[3]!)
      pure (out ++ [{ r with p := (#[p[0]!, p[1]!, p[2]!, p[3]!, st2.f] ++ (tab dB n).toArray ++ (tab st2.d n).toArray) }], st2)
    | 2 =>
      if p.size != 4 then none else do
      let l ← natOfFloat p[0]!
      if st.l != l then none else
      let st1 ← tqlStep st (.sweep (upd st.d l p[1]!))
      let st2 ← tqlStep st1 .fin
      pure (out ++ [{ r with p := #[p[0]!, p[1]!, st.f, st2.d l] }], st2)
    | 3 =>
      if p.size != n + n * n || st.l != n then none else
      pure (out ++ [{ r with p := (tab st.d n).toArray ++ p.extract n (n + n * n) }], st)
    | _ => none) ([], st0)

/-- exact sum of the first `len` entries of a segment -/
def qsum (a : Array Float) (off len : Nat) : Rat := rsum ((List.range len).map fun i => toRat a[off + i]!)

/-- explored on the implementation's records: the hypotheses of the bookkeeping theorems.
Returns the observed sizes (hypot relation, drift of the window's trace across the untranscribed sweeps)
in units of their bounds without the constants. -/
def traceHyps (n : Nat) (sym : Bool) (A : Array Float) (recs : List Rec) : Rat × Rat :=
  let a : RM := A.map toRat
  let unit := eps * (n : Rat) * rmax (norm1 n a) (normInf n a)
  if sym then
    let hyp := rmaxl (recs.map fun r =>
      if r.code == 1 && r.p.size == 5 + 2 * n then
        let l := (natOfFloat r.p[0]!).getD 0
        let el := toRat r.p[2]!
        let rr := toRat r.p[3]!
        if el == 0 || l + 1 ≥ n then 1000000000 else
        let p := (toRat r.p[5 + l + 1]! - toRat r.p[5 + l]!) / (2 * el)
        if rr ≤ 0 then 1000000000 else rabs (rr * rr - (p * p + 1)) / (eps * (p * p + 1))
      else 0)
    -- every QL transformation lies between a shift record (d after `f = f + h`, full list) and the next
    -- record with a full list: the next shift record (same or later l) or the presort record.  Between them
    -- the entries l₁ .. l₂-1 are finished (`d[i] += f`, f unchanged: no shift in between), so
    --   Σ_{i ≥ l₁} d_next = Σ_{i ≥ l₁} d_after + (l₂ - l₁) f   iff the transformation preserved Σ_{i ≥ l₁} d
    let full := recs.filter fun r => (r.code == 1 && r.p.size == 5 + 2 * n) || (r.code == 3 && r.p.size == n + n * n)
    let pairs := full.zip (full.drop 1)
    let drift := rmaxl (pairs.map fun (r1, r2) =>
      if r1.code == 1 then
        let l1 := (natOfFloat r1.p[0]!).getD 0
        let (l2, off2) := if r2.code == 1 then ((natOfFloat r2.p[0]!).getD 0, 5) else (n, 0)
        if l2 < l1 || l1 > n then 1000000000 else
        let s1 := qsum r1.p (5 + n + l1) (n - l1) + ((l2 - l1 : Nat) : Rat) * toRat r1.p[4]!
        let s2 := qsum r2.p (off2 + l1) (n - l1)
        if unit == 0 then (if s1 == s2 then 0 else 1000000000) else rabs (s1 - s2) / unit
      else 0)
    (hyp, drift)
  else
    -- (window size, offset of the diagonal before the step, offset after the step or none)
    let before (r : Rec) : Option (Nat × Rat) :=
      let nc := (natOfFloat (r.p[0]?.getD (-1.0))).getD 0
      let w := nc + 1
      match r.code with
      | 4 => if r.p.size == 3 + 2 * w then some (w, qsum r.p 3 w) else none
      | 5 => if r.p.size == 6 + 2 * w then some (w, qsum r.p 6 w) else none
      | 6 => if r.p.size == 5 + nc then some (w, qsum r.p 5 nc + toRat r.p[1]!) else none
      | 7 => if nc ≥ 1 && r.p.size == 10 + (nc - 1) then some (w, qsum r.p 10 (nc - 1) + toRat r.p[1]! + toRat r.p[4]!) else none
      | _ => none
    -- trace of the first `w'` diagonal entries after the step (w' ≤ the window left by the step)
    let after (r : Rec) (w' : Nat) : Option Rat :=
      let nc := (natOfFloat (r.p[0]?.getD (-1.0))).getD 0
      let w := nc + 1
      match r.code with
      | 4 => if r.p.size == 3 + 2 * w && w' == w then some (qsum r.p (3 + w) w) else none
      | 5 => if r.p.size == 6 + 2 * w && w' == w then some (qsum r.p (6 + w) w) else none
      | 6 => if r.p.size == 5 + nc && w' == nc then some (qsum r.p 5 nc) else none
      | 7 => if nc ≥ 1 && r.p.size == 10 + (nc - 1) && w' == nc - 1 then some (qsum r.p 10 (nc - 1)) else none
      | _ => none
    let pairs := recs.zip (recs.drop 1)
    let drift := rmaxl (pairs.map fun (r1, r2) =>
      match before r2 with
      | some (w2, s2) =>
        match after r1 w2 with
        | some s1 => if unit == 0 then (if s1 == s2 then 0 else 1000000000) else rabs (s1 - s2) / unit
        | none => 1000000000        -- the window grew or the records are malformed
      | none => 1000000000)
    -- the first record against tr A (orthes is a similarity)
    let first := match recs.head? with
      | some r => (match before r with
        | some (w, s) => if w != n then 1000000000 else
          let tr := rsum ((List.range n).map fun i => rget n a i i)
          if unit == 0 then (if s == tr then 0 else 1000000000) else rabs (s - tr) / unit
        | none => 1000000000)
      | none => 0
    (0, rmax drift first)

/-- the model's answer to `trace` and the verdict on the implementation's records -/
def traceStep (s : St) (t : List String) : String × String :=
  match splitTok ";" t with
  | [hits, logs, ds, es, vs] =>
    match flts? logs, flts? ds, flts? es, flts? vs with
    | some log, some dF, some eF, some vF =>
      let n := s.nr
      if dF.size != n || eF.size != n || vF.size != n * n then ("bad-trace", "FAIL:parse") else
      match parseLog log with
      | none => ("bad-trace", "FAIL:parse")
      | some recs =>
        let sym := isSymmetric n (afun n s.A)
        let hitsS := " ".intercalate hits
        let (hyp, drift) := traceHyps n sym s.A recs
        let rep := (if sym then rtok "hypot" hyp else "") ++ rtok "sweeptrace" drift
        let verdict :=
          if !(allFin s.A) || !(allFin log) then "-" else
          firstFail ((if sym then [("tql2_hypot", decide (hyp ≤ cHypot))] else []) ++
            [(if sym then "tql2_sweep_trace" else "hqr2_sweep_trace", decide (drift ≤ cSweep))])
        if sym then
          match replayTql n (tqlInit n (fun _ => 0.0)) recs with
          | none => ("trace-structure " ++ hitsS, verdict)
          | some (out, _) =>
            -- the sort runs on the implementation's own pre-sort lists (record 3)
            match recs.find? (·.code == 3) with
            | some r3 =>
              if r3.p.size != n + n * n then ("trace-structure " ++ hitsS, verdict) else
              let (d', V') := sortEig n (fun i => r3.p[i]!) (fun i j => r3.p[n + i * n + j]!)
              (hitsS ++ " ; " ++ " ".intercalate (out.map showRec) ++ " ; " ++ showFs (tab d' n) ++ " ; "
                ++ showFs (tab (fun _ => 0.0) n) ++ " ; " ++ showFs ((tabulate n n V').flatMap id) ++ rep, verdict)
            | none => ("trace-structure " ++ hitsS, verdict)
        else
          match replayHqr (hqrInit n (fun _ => 0.0)) recs with
          | none => ("trace-structure " ++ hitsS, verdict)
          | some (out, st) =>
            if st.n != 0 then ("trace-structure " ++ hitsS, verdict) else
            (hitsS ++ " ; " ++ " ".intercalate (out.map showRec) ++ " ; " ++ showFs (tab st.d n) ++ " ; "
              ++ showFs (tab st.e n) ++ " ; " ++ showFs vF.toList ++ rep, verdict)
    | _, _, _, _ => ("bad-trace", "FAIL:parse")
  | _ => ("bad-trace", "FAIL:parse")

/-! ### the machine -/

def step (s : St) (op : List String) (impl : Option (List String)) : St × String × String :=
  match op with
  | ["cdiv", xr, xi, yr, yi] =>
    match flt? xr, flt? xi, flt? yr, flt? yi with
    | some xr, some xi, some yr, some yi =>
      let (cr, ci) := cdiv xr xi yr yi
      let out := showF cr ++ " " ++ showF ci
      -- cdiv_spec, explored on the implementation's answer in exact arithmetic
      let (verdict, rep) := match impl with
        | none => ("-", "")
        | some t => match flts? t with
          | some #[ir, ii] =>
            if !(fin xr && fin xi && fin yr && fin yi) then ("-", "")
            else if toRat yr == 0 && toRat yi == 0 then ("-", "")
            else if !(fin ir && fin ii) then ("FAIL:cdiv_spec", "")
            else
              let (xr, xi, yr, yi, qr, qi) := (toRat xr, toRat xi, toRat yr, toRat yi, toRat ir, toRat ii)
              let err := rabs (qr * yr - qi * yi - xr) + rabs (qr * yi + qi * yr - xi)
              let unit := eps * (rabs qr + rabs qi) * (rabs yr + rabs yi)
              if unit == 0 then ((if err == 0 then "ok" else "FAIL:cdiv_spec"), "")
              else ((if err ≤ cCdiv * unit then "ok" else "FAIL:cdiv_spec"), rtok "cdiv" (err / unit))
          | _ => ("FAIL:parse", "")
      (s, out ++ rep, verdict)
    | _, _, _, _ => (s, "bad-op", "-")
  | "mat" :: nr :: nc :: rest =>
    match nat? nr, nat? nc, flts? rest with
    | some nr, some nc, some a =>
      if a.size != nr * nc then (s, "bad-op", "-")
      else ({ nr := nr, nc := nc, A := a }, "ok", "-")
    | _, _, _ => (s, "bad-op", "-")
  | ["eig"] =>
    if s.nr != s.nc || s.nr == 0 then (s, "bad-op", "-") else
    let n := s.nr
    let sym := isSymmetric n (afun n s.A)
    match impl with
    | none => (s, showBool sym, "-")
    | some ["hang"] => (s, showBool sym, "FAIL:terminates")
    | some t =>
      if (t.head?.getD "").startsWith "crash" then (s, showBool sym, "FAIL:no_crash") else
      match splitTok ";" t with
      | [[fl], ds, es, vs] =>
        match flts? ds, flts? es, flts? vs with
        | some d, some e, some v =>
          if d.size != n || e.size != n || v.size != n * n then (s, showBool sym, "FAIL:parse") else
          let s' := { s with haveEig := true, d := d, e := e, V := v }
          let (verdict, rep) := eigVerdict n s.A (fl == "1") d e v
          (s', showBool sym ++ rep, verdict)
        | _, _, _ => (s, showBool sym, "FAIL:parse")
      | _ => (s, showBool sym, "FAIL:parse")
  | ["getD"] =>
    if !s.haveEig then (s, "bad-op", "-") else
    let n := s.nr
    let r := getD n (fun i => s.d[i]!) (fun i => s.e[i]!)
    (s, showRows r, dVerdict n s.d s.e impl)
  | "setde" :: rest =>
    if !s.haveEig then (s, "bad-op", "-") else
    let n := s.nr
    match splitTok ";" rest with
    | [ds, es] =>
      match flts? ds, flts? es with
      | some d, some e =>
        if d.size != n || e.size != n then (s, "bad-op", "-") else
        let s' := { s with d := d, e := e }
        let r := getD n (fun i => d[i]!) (fun i => e[i]!)
        (s', showRows r, match r with | .ok _ => dVerdict n d e impl | _ => "-")
      | _, _ => (s, "bad-op", "-")
    | _ => (s, "bad-op", "-")
  | ["trace"] =>
    if !s.haveEig then (s, "bad-op", "-") else
    match impl with
    | none => (s, "hole", "-")
    | some t =>
      let (out, verdict) := traceStep s t
      (s, out, verdict)
  | "pow" :: _ | "exp" :: _ =>
    let isExp := op.head? == some "exp"
    let p? : Option Float := if isExp then some 0.0 else (match op with | [_, p] => flt? p | _ => none)
    match p? with
    | none => (s, "bad-op", "-")
    | some p =>
      if s.nr == 0 && s.nc == 0 then (s, "bad-op", "-") else
      if s.nr != s.nc then (s, "exc:dimension", "-") else
      let n := s.nr
      match impl with
      | none => (s, "hole", "-")
      | some ["hang"] => (s, "hole", "FAIL:terminates")
      | some t =>
        if (t.head?.getD "").startsWith "crash" then (s, "hole", "FAIL:no_crash") else
        match splitTok ";" t with
        | [ds, vs, ws, os] =>
          match flts? ds, flts? vs, flts? ws, flts? os with
          | some d, some v, some w, some o =>
            if d.size != n || v.size != n * n || w.size != n * n || o.size != n * n then (s, "hole", "FAIL:parse") else
            let res := if isExp then expGlue n n (afun n v) (fun k => d[k]!) (afun n w)
                       else powGlue n n (afun n v) (fun k => d[k]!) (afun n w) p
            match res with
            | .ok f =>
              let (verdict, rep) := glueVerdict isExp n s.A p d v w o
              (s, showFs ((tabulate n n f).flatMap id) ++ rep, verdict)
            | .error _ => (s, "exc:dimension", "-")
          | _, _, _, _ => (s, "hole", "FAIL:parse")
        | _ => (s, "hole", "-")
  | _ => (s, "bad-op", "-")

def machine : Machine St := { init := fun _ => {}, step := step }

end Bpp.Drive.C06
