import BppModel.Proto
import BppModel.LUStore
/-
Driver for C05 (LUDecomposition.h, MatrixTools::inv/det).

Model answers are produced by the `Float` instantiation of the statement-level model
`Bpp.LUS` (`BppModel/LUStore.lean`: every loop in source order, every element access through
`get`/`set`/`resize` of the storage class named on the `case` line, the in/out parameters `X` / `x`
kept in the state of the case and passed in whatever state the previous operations left them), and
compared bit-for-bit with the implementation.  `Props/C05Storage.lean` proves that these answers
are those of the abstract model `Bpp.LU` (`BppModel/LU.lean`) which the property theorems are about.  Verdicts are the property's predicates (`LU.UnitLower`, `LU.Upper`,
`LU.PivInjective`, `permuteRows piv A = matMul L U`, `matMul A X = B`, determinant, indicator,
singularity guard) evaluated *exactly in `Rat`* on the implementation's answers; where the
implementation rounds, the equations are required up to the standard componentwise
backward-error bounds (Higham, Accuracy and Stability of Numerical Algorithms, Thm 9.3/9.4),
also evaluated in `Rat`.
-/
namespace Bpp.Drive.C05
open Bpp Bpp.Proto Bpp.LU Bpp.Mx Bpp.LUS

/-- a matrix whose shape is known only at run time -/
structure AnyMat (α : Type) where
  m : Nat
  n : Nat
  M : Mat α m n

def AnyMat.as {α : Type} (X : AnyMat α) (m n : Nat) : Option (Mat α m n) :=
  if h : X.m = m ∧ X.n = n then some (h.1 ▸ h.2 ▸ X.M) else none

def matOfArray {α : Type} [Inhabited α] (m n : Nat) (a : Array α) : Mat α m n :=
  Mat.ofFn fun i j => a[i.val * n + j.val]!

def flt? (s : String) : Option Float := if s == "nan" then some (0.0 / 0.0) else Hex.float? s

/-- `r c <r*c hex>` -/
def parseMat (l : List String) : Option (AnyMat Float × List String) :=
  match l with
  | r :: c :: rest =>
    match nat? r, nat? c with
    | some m, some n =>
      if rest.length < m * n then none else
      match (rest.take (m * n)).mapM flt? with
      | some vals => some (⟨m, n, matOfArray m n vals.toArray⟩, rest.drop (m * n))
      | none => none
    | _, _ => none
  | _ => none

def entries {α : Type} {m n : Nat} (M : Mat α m n) : List α :=
  (List.finRange m).flatMap fun i => (List.finRange n).map fun j => M.get i j

def showF (x : Float) : String := Hex.ofFloatCanon x
def showMat {m n : Nat} (M : Mat Float m n) : String :=
  " ".intercalate (toString m :: toString n :: (entries M).map showF)

def showErr : LU.Err → String
  | .ub => "ub"
  | .badInteger => "exc:bpp"
  | .zeroDivision => "exc:zerodiv"
  | .dimension => "exc:dimension"

def finite (x : Float) : Bool := !(x.isNaN || x.isInf)
def allFinite {m n : Nat} (M : Mat Float m n) : Bool := (entries M).all finite

def toRat (x : Float) : Rat := (floatToRat? x).getD 0
def matToRat {m n : Nat} (M : Mat Float m n) : Mat Rat m n := Mat.ofFn fun i j => toRat (M.get i j)

/-! exact arithmetic helpers -/
def rabs (x : Rat) : Rat := if x < 0 then -x else x
def absMat {m n : Nat} (M : Mat Rat m n) : Mat Rat m n := Mat.ofFn fun i j => rabs (M.get i j)
def allFin2 (m n : Nat) (p : Fin m → Fin n → Bool) : Bool :=
  (List.finRange m).all fun i => (List.finRange n).all fun j => p i j
/-- unit roundoff of binary64 and `γ_k = k·u / (1 - k·u)` -/
def uRound : Rat := 1 / (2 ^ 53 : Nat)
def gamma (k : Nat) : Rat := (k : Rat) * uRound / (1 - (k : Rat) * uRound)
/-- a rational upper bound of `√q` (`q ≥ 0`) -/
def sqrtUp (q : Rat) : Rat :=
  let s : Nat := (q * ((2 : Rat) ^ 60)).ceil.toNat
  ((Nat.sqrt s + 1 : Nat) : Rat) / ((2 : Rat) ^ 30)

/-- the Bool forms of the structural predicates (decidable instances of the very `Prop`s the
theorems are about) -/
instance {α : Type} [Scalar α] [DecidableEq α] {m n : Nat} (L : Mat α m n) : Decidable (UnitLower L) := by
  unfold UnitLower; infer_instance
instance {α : Type} [Scalar α] [DecidableEq α] {k n : Nat} (U : Mat α k n) : Decidable (Upper U) := by
  unfold Upper; infer_instance
instance {m : Nat} (piv : Vector (Fin m) m) : Decidable (PivInjective piv) := by
  unfold PivInjective; infer_instance
def unitLowerB {m n : Nat} (L : Mat Rat m n) : Bool := decide (UnitLower L)
def upperB {k n : Nat} (U : Mat Rat k n) : Bool := decide (Upper U)
def pivInjB {m : Nat} (piv : Vector (Fin m) m) : Bool := decide (PivInjective piv)

def pivOfList (m : Nat) (l : List Nat) : Option (Vector (Fin m) m) :=
  if l.length = m ∧ l.all (· < m) then
    some (Vector.ofFn fun i => if h' : l[i.val]! < m then ⟨l[i.val]!, h'⟩ else i)
  else none

/-- exact determinant of a matrix of doubles: the model's own algorithm run in `Rat`
(`det_eq` proves that this is the determinant) -/
def exactDet {n : Nat} (A : Mat Rat n n) : Rat :=
  match matDet A with
  | .ok d => d
  | .error _ => 0

/-- rigorous bound on `|sign·ΠÛ_ii − det A|` given `P·A + ΔA = L̂·Û`, `|ΔA| ≤ γ_n |L̂||Û|`:
by multilinearity and Hadamard's inequality `|det(A+E) − det A| ≤ Π(‖a_i‖+‖e_i‖) − Π‖a_i‖` (rows,
2-norms, bounded above in `Rat`) -/
def detTolerance {n : Nat} (PA : Mat Rat n n) (L U : Mat Rat n n) : Rat :=
  let G := matMul (absMat L) (absMat U)
  let g := gamma n
  let rows := (List.finRange n).map fun i =>
    let a := sqrtUp (sumFin n fun j => PA.get i j * PA.get i j)
    let e := g * sqrtUp (sumFin n fun j => G.get i j * G.get i j)
    (a, e)
  rows.foldl (fun p ae => p * (ae.1 + ae.2)) 1 - rows.foldl (fun p ae => p * ae.1) 1

/-- `|P·A − L·U| ≤ γ_n |L||U|` componentwise -/
def factorOk {m n : Nat} (A : Mat Rat m n) (piv : Vector (Fin m) m) (L : Mat Rat m n) (U : Mat Rat n n) : Bool :=
  let PA := permuteRows piv A
  let LU := matMul L U
  let G := matMul (absMat L) (absMat U)
  let g := gamma n
  allFin2 m n fun i j => decide (rabs (PA.get i j - LU.get i j) ≤ g * G.get i j)

/-- `|B − A·X| ≤ γ_{3n} (Pᵀ|L||U|)|X|` componentwise (`L`,`U`,`piv` of the factorisation of `A`) -/
def residualOk {n nx : Nat} (A : Mat Rat n n) (piv : Vector (Fin n) n) (L U : Mat Rat n n)
    (X B : Mat Rat n nx) : Bool :=
  let AX := matMul A X
  let G := matMul (matMul (absMat L) (absMat U)) (absMat X)     -- rows in pivoted order
  let PB := permuteRows piv B
  let PAX := permuteRows piv AX
  let g := gamma (3 * n)
  allFin2 n nx fun i j => decide (rabs (PB.get i j - PAX.get i j) ≤ g * G.get i j)

def diagMinAbs {n : Nat} (U : Mat Rat n n) : Option Rat :=
  (List.finRange n).foldl (fun acc i =>
    let c := rabs (U.get i i)
    match acc with
    | none => some c
    | some d => some (if c < d then c else d)) none

/-- the current decomposition object: the abstract state (used by the verdicts) and the
statement-level object (used for the answers) -/
structure Cur where
  m : Nat
  n : Nat
  A : Mat Float m n
  h : n ≤ m
  s : State Float m n
  ss : StateS Float

/-- state of a case: the storage classes of `A`, `B`, `X` named on the `case` line, the current
object, and the in/out parameters (`X` of `solve`/`inv`, `x` of the vector overload), which persist
from one operation to the next -/
structure St where
  kA : Kind := .row
  kB : Kind := .row
  kX : Kind := .row
  cur : Option Cur := none
  X : Store Float := Store.empty .row
  xv : Array Float := #[]

def kind? (s : String) : Kind := if s == "col" then .col else if s == "lin" then .lin else .row

def initSt (l : List String) : St :=
  let k := fun (i : Nat) => kind? (l.getD i "row")
  { kA := k 1, kB := k 2, kX := k 3, X := Store.empty (k 3) }

/-- an operand of class `k` with the given entries (`K(r, c)` followed by assignments) -/
def storeOf (k : Kind) (M : AnyMat Float) : Store Float := Store.ofFn k M.m M.n (fun i j => fnOf M.M i j)

def showStore (S : Store Float) : String :=
  " ".intercalate (toString S.nrows :: toString S.ncols ::
    ((List.range S.nrows).flatMap fun i => (List.range S.ncols).map fun j => showF (S.entry i j)))

def showLuS (ss : StateS Float) : String :=
  match getLS ss, getUS ss, detS ss with
  | .ok L, .ok U, .ok d =>
    "piv " ++ " ".intercalate (ss.piv.toList.map toString)
      ++ " ; L " ++ showStore L ++ " ; U " ++ showStore U ++ " ; det " ++ showF d
  | _, _, _ => "ub"

/-- determinant clauses for a square factorisation -/
def luSquareVerdict {n : Nat} (Ar : Mat Rat n n) (piv : Vector (Fin n) n) (Lr Ur : Mat Rat n n) (dr : Rat) : String :=
  let p : Rat := (pivSignOf piv : Int) * Fin.foldl n (fun acc i => acc * Ur.get i i) 1
  if !(decide (rabs (dr - p) ≤ gamma n * rabs p)) then "FAIL:pivsign_eq_sign"
  else if !(decide (rabs (p - exactDet Ar) ≤ detTolerance (permuteRows piv Ar) Lr Ur)) then "FAIL:det_eq"
  else "ok"

/-- verdict on the implementation's answer to `lu` -/
def luVerdict {m n : Nat} (A : Mat Float m n) (impl : List String) : String :=
  match splitTok ";" impl with
  | [("piv" :: pv), ("L" :: lt), ("U" :: ut), ["det", dt]] =>
    match pv.mapM nat?, parseMat lt, parseMat ut, flt? dt with
    | some pl, some (Lm, []), some (Um, []), some d =>
      match pivOfList m pl, Lm.as m n, Um.as n n with
      | some piv, some L, some U =>
        if !allFinite A then "-" else
        if !(allFinite L && allFinite U && finite d) then "FAIL:lu_finite" else
        let Ar := matToRat A; let Lr := matToRat L; let Ur := matToRat U; let dr := toRat d
        if !pivInjB piv then "FAIL:piv_permutation"
        else if !unitLowerB Lr then "FAIL:lu_unit_lower"
        else if !upperB Ur then "FAIL:lu_upper"
        else if !(allFin2 m n fun i j => decide (rabs (Lr.get i j) ≤ 1)) then "FAIL:multiplier_le_one"
        else if !factorOk Ar piv Lr Ur then "FAIL:lu_factor"
        else if h : m = n then (by subst h; exact luSquareVerdict Ar piv Lr Ur dr)
        else if dr != 0 then "FAIL:det_nonsquare" else "ok"
      | _, _, _ => "FAIL:lu_shape"
    | _, _, _, _ => "FAIL:parse"
  | _ => "FAIL:parse"

/-- verdict on the implementation's answer to `solve`/`inv`: `s` is the model's decomposition
of `A` (bit-equal to the implementation's whenever the `lu` answers agreed) -/
def solveVerdict {n mb nx : Nat} (A : Mat Float n n) (s : State Float n n) (B : Mat Float mb nx)
    (impl : List String) : String :=
  let raised := match impl with
    | [e] => e.startsWith "exc:"
    | _ => false
  if mb ≠ n then (if impl == ["exc:bpp"] then "ok" else "FAIL:wrong_height_raises") else
  if n = 0 ∨ nx = 0 then "-" else
  if !(allFinite A && allFinite B && allFinite s.lu) then "-" else
  let Ur := matToRat (getU (Nat.le_refl n) s)
  let Lr := matToRat (getL s)
  match diagMinAbs Ur with
  | none => "-"
  | some dmin =>
    -- the number the theorems call `threshold` (the generated rational, exact at `Rat` and at the
    -- reals) must be the double the `Float` instantiation compares with
    if toRat (threshold : Float) != (threshold : Rat) then "FAIL:threshold_value" else
    if dmin < toRat (threshold : Float) then
      (if impl == ["exc:zerodiv"] then "ok" else "FAIL:singular_raises")
    else if raised then "FAIL:solve_returns"
    else match splitTok ";" impl with
      | [["minD", dt], ("X" :: xt)] =>
        match flt? dt, parseMat xt with
        | some d, some (Xm, []) =>
          match Xm.as n nx with
          | some X =>
            if h : mb = n then
              let Bq : Mat Float n nx := h ▸ B
              if !(finite d && allFinite X) then "FAIL:solve_finite"
              else if toRat d != dmin then "FAIL:indicator_spec"
              else if !residualOk (matToRat A) s.piv Lr Ur (matToRat X) (matToRat Bq) then "FAIL:solve_spec"
              else "ok"
            else "-"
          | none => "FAIL:solve_shape"
        | _, _ => "FAIL:parse"
      | _ => "FAIL:parse"

def showSolveS (r : LUS.Res (Float × Store Float)) : String :=
  match r with
  | .error e => showErr e
  | .ok (d, X) => "minD " ++ showF d ++ " ; X " ++ showStore X

def showDet (r : LUS.Res Float) : String :=
  match r with
  | .ok d => showF d
  | .error e => showErr e

/-- |d − exact det| within the rigorous tolerance, using the model's own factors of `A` -/
def detClose {n : Nat} (A : Mat Float n n) (d : Float) (exact : Rat) : Bool :=
  if !allFinite A then true else
  if !finite d then false else
  let s := factor (Nat.le_refl n) A
  if !allFinite s.lu then true else
  let Ar := matToRat A
  let Lr := matToRat (getL s); let Ur := matToRat (getU (Nat.le_refl n) s)
  let tol := detTolerance (permuteRows s.piv Ar) Lr Ur
  let p : Rat := (pivSignOf s.piv : Int) * Fin.foldl n (fun acc i => acc * Ur.get i i) 1
  -- d = fl(sign·ΠÛ_ii) = p(1+θ_n); p = det(A+ΔA)
  decide (rabs (toRat d - exact) ≤ tol + gamma n * rabs p)

def squareOf {α : Type} (X : AnyMat α) : Option ((n : Nat) × Mat α n n) :=
  if h : X.m = X.n then some ⟨X.n, h ▸ X.M⟩ else none

def step (st : St) (op : List String) (impl : Option (List String)) : St × String × String :=
  match op with
  | "xset" :: rest =>
    -- the output matrix becomes a fresh matrix of class `kX` with the given shape and contents
    match parseMat rest with
    | some (M, []) => ({ st with X := storeOf st.kX M }, "ok", "-")
    | _ => (st, "bad-op", "-")
  | "xvset" :: k :: rest =>
    match parseMat (k :: "1" :: rest) with
    | some (M, []) => ({ st with xv := (entries M.M).toArray }, "ok", "-")
    | _ => (st, "bad-op", "-")
  | "lu" :: rest =>
    match parseMat rest with
    | some (⟨m, n, A⟩, []) =>
      match constructS (storeOf st.kA ⟨m, n, A⟩) with
      | .error e => ({ st with cur := none }, showErr e, "-")
      | .ok ss =>
        if h : n ≤ m then
          let s := factor h A
          let v := match impl with
            | none => "-"
            | some t => luVerdict A t
          ({ st with cur := some ⟨m, n, A, h, s, ss⟩ }, showLuS ss, v)
        else ({ st with cur := none }, "ub", "-")
    | _ => (st, "bad-op", "-")
  | "solve" :: rest =>
    match st.cur, parseMat rest with
    | some c, some (⟨mb, nx, B⟩, []) =>
      let r := solveS c.ss (storeOf st.kB ⟨mb, nx, B⟩) st.X
      let st' := match r with
        | .ok (_, X') => { st with X := X' }
        | .error _ => st
      let v := match impl with
        | none => "-"
        | some t =>
          if h : c.m = c.n then
            let A : Mat Float c.n c.n := h ▸ c.A
            let s : State Float c.n c.n := h ▸ c.s
            solveVerdict A s B t
          else "-"
      (st', showSolveS r, v)
    | none, _ => (st, "no-lu", "-")
    | _, _ => (st, "bad-op", "-")
  | "solveip" :: rest =>
    -- `solve(B, B)`: the right-hand side (of the class of `X`) is also the output
    match st.cur, parseMat rest with
    | some c, some (⟨mb, nx, B⟩, []) =>
      let Bs := storeOf st.kX ⟨mb, nx, B⟩
      let r := solveSelfS c.ss Bs
      let st' := match r with
        | .ok (_, X') => { st with X := X' }
        | .error _ => { st with X := Bs }
      let v := match impl with
        | none => "-"
        | some t =>
          if h : c.m = c.n then
            let A : Mat Float c.n c.n := h ▸ c.A
            let s : State Float c.n c.n := h ▸ c.s
            solveVerdict A s B t
          else "-"
      (st', showSolveS r, v)
    | none, _ => (st, "no-lu", "-")
    | _, _ => (st, "bad-op", "-")
  | "solvevip" :: mb :: rest =>
    -- `solve(b, b)` of the vector overload
    match st.cur, parseMat (mb :: "1" :: rest) with
    | some c, some (⟨_, nx, B⟩, []) =>
      if nx = 1 then
        let b : Array Float := (entries B).toArray
        let r := solveVecS c.ss b b
        let st' := match r with
          | .ok (_, x') => { st with xv := x' }
          | .error _ => { st with xv := b }
        let out := match r with
          | .error e => showErr e
          | .ok (d, x) => "minD " ++ showF d ++ " ; X " ++ " ".intercalate (toString x.size :: "1" :: x.toList.map showF)
        let v := match impl with
          | none => "-"
          | some t =>
            if h : c.m = c.n then
              let A : Mat Float c.n c.n := h ▸ c.A
              let s : State Float c.n c.n := h ▸ c.s
              solveVerdict A s B t
            else "-"
        (st', out, v)
      else (st, "bad-op", "-")
    | none, _ => (st, "no-lu", "-")
    | _, _ => (st, "bad-op", "-")
  | "solvev" :: mb :: rest =>
    -- the vector overload: the answer is printed as a one-column matrix
    match st.cur, parseMat (mb :: "1" :: rest) with
    | some c, some (⟨_, nx, B⟩, []) =>
      if nx = 1 then
        let b : Array Float := (entries B).toArray
        let r := solveVecS c.ss b st.xv
        let st' := match r with
          | .ok (_, x') => { st with xv := x' }
          | .error _ => st
        let out := match r with
          | .error e => showErr e
          | .ok (d, x) => "minD " ++ showF d ++ " ; X " ++ " ".intercalate (toString x.size :: "1" :: x.toList.map showF)
        let v := match impl with
          | none => "-"
          | some t =>
            if h : c.m = c.n then
              let A : Mat Float c.n c.n := h ▸ c.A
              let s : State Float c.n c.n := h ▸ c.s
              solveVerdict A s B t
            else "-"
        (st', out, v)
      else (st, "bad-op", "-")
    | none, _ => (st, "no-lu", "-")
    | _, _ => (st, "bad-op", "-")
  | "inv" :: rest =>
    match parseMat rest with
    | some (X, []) =>
      let r := invS (storeOf st.kA X) st.X
      let st' := match r with
        | .ok (_, O') => { st with X := O' }
        | .error _ => st
      let v := match impl, squareOf X with
        | some t, some ⟨n, A⟩ =>
          solveVerdict A (factor (Nat.le_refl n) A) (identity n : Mat Float n n) t
        | some t, none => if t == ["exc:dimension"] then "ok" else "FAIL:inv_nonsquare_raises"
        | none, _ => "-"
      (st', showSolveS r, v)
    | _ => (st, "bad-op", "-")
  | "invip" :: rest =>
    -- `MatrixTools::inv(A, A)`: operand and output are the same object; the constructor has copied
    -- `A` before `O` is resized and `A` is not read afterwards, so the call is `invS A A`
    match parseMat rest with
    | some (X, []) =>
      let A := storeOf st.kX X
      let r := invS A A
      let st' := match r with
        | .ok (_, O') => { st with X := O' }
        | .error _ => { st with X := A }
      let v := match impl, squareOf X with
        | some t, some ⟨n, A⟩ =>
          solveVerdict A (factor (Nat.le_refl n) A) (identity n : Mat Float n n) t
        | some t, none => if t == ["exc:dimension"] then "ok" else "FAIL:inv_nonsquare_raises"
        | none, _ => "-"
      (st', showSolveS r, v)
    | _ => (st, "bad-op", "-")
  | "det" :: rest =>
    match parseMat rest with
    | some (X, []) =>
      let out := showDet (matDetS (storeOf st.kA X))
      let v := match impl, squareOf X with
        | some [t], some ⟨_, A⟩ =>
          match flt? t with
          | some d => if detClose A d (exactDet (matToRat A)) then "ok" else "FAIL:det_eq"
          | none => "FAIL:det_eq"
        | some t, none => if t == ["exc:dimension"] then "ok" else "FAIL:det_nonsquare_raises"
        | some _, _ => "FAIL:parse"
        | none, _ => "-"
      (st, out, v)
    | _ => (st, "bad-op", "-")
  | "dett" :: n :: rest =>
    match parseMat (n :: n :: rest) with
    | some (X, []) =>
      match squareOf X with
      | some ⟨k, A⟩ =>
        let At := transpose A
        let out := showDet (matDetS (storeOf st.kA ⟨k, k, A⟩)) ++ " " ++ showDet (matDetS (storeOf st.kB ⟨k, k, At⟩))
        let v := match impl with
          | some [t1, t2] =>
            match flt? t1, flt? t2 with
            | some d1, some d2 =>
              let ex := exactDet (matToRat A)
              if !detClose A d1 ex then "FAIL:det_eq"
              else if !detClose At d2 ex then "FAIL:det_transpose"
              else "ok"
            | _, _ => "FAIL:parse"
          | some _ => "FAIL:parse"
          | none => "-"
        (st, out, v)
      | none => (st, "bad-op", "-")
    | _ => (st, "bad-op", "-")
  | "detmul" :: n :: rest =>
    match nat? n with
    | some k =>
      match parseMat (n :: n :: rest.take (k * k)), parseMat (n :: n :: rest.drop (k * k)) with
      | some (X, []), some (Y, []) =>
        match X.as k k, Y.as k k with
        | some A, some B =>
          -- product formed as in the harness: acc = 0; acc += A(i,l)*B(l,j), l increasing
          let C : Mat Float k k := Mat.ofFn fun i j =>
            Fin.foldl k (fun acc l => acc + A.get i l * B.get l j) 0.0
          let out := showDet (matDetS (storeOf st.kA ⟨k, k, A⟩)) ++ " " ++ showDet (matDetS (storeOf st.kB ⟨k, k, B⟩))
            ++ " " ++ showDet (matDetS (storeOf st.kX ⟨k, k, C⟩))
          let v := match impl with
            | some [t1, t2, t3] =>
              match flt? t1, flt? t2, flt? t3 with
              | some d1, some d2, some d3 =>
                let ea := exactDet (matToRat A); let eb := exactDet (matToRat B)
                -- the product is exact for the small integer matrices this op is used with
                let exactProd : Bool := matToRat C == matMul (matToRat A) (matToRat B)
                if !exactProd then "-"
                else if !detClose A d1 ea then "FAIL:det_eq"
                else if !detClose B d2 eb then "FAIL:det_eq"
                else if !detClose C d3 (ea * eb) then "FAIL:det_mul"
                else "ok"
              | _, _, _ => "FAIL:parse"
            | some _ => "FAIL:parse"
            | none => "-"
          (st, out, v)
        | _, _ => (st, "bad-op", "-")
      | _, _ => (st, "bad-op", "-")
    | none => (st, "bad-op", "-")
  | _ => (st, "bad-op", "-")

def machine : Machine St := { init := initSt, step := step }

end Bpp.Drive.C05
