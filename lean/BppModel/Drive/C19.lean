import BppModel.Proto
import BppModel.Simplex
/-
Driver for C19 (Simplex / OrderedSimplex).

Registers s0..s3 (Simplex) and o0..o3 (OrderedSimplex).  The model is run at `Float`
(bit-exact tie with the implementation).  The verdict evaluates, in exact rational arithmetic on
the doubles the *implementation* returned, the predicates the theorems of
`BppProofs/Props/C19.lean` are about; the same generic model functions instantiated at `Rat`
give the exact value of the maps (`probsOf`, `orderedValues`) at the implementation's parameters.

Rounding tolerances (explicit; rounding itself is not modelled by the theorems):
  tolFire  n        = n · 2⁻⁵⁰                 state produced by fireParameterChanged
  tolRound m n pmin = n · 2⁻⁵⁰ (/ pmin if m=2)  probabilities given by the caller and kept / returned
    (the local-ratio coding stores p(i+1)/p(i) as 1-θ with θ next to 1: the relative error of the
     ratio is 2⁻⁵³/(1-θ) ≈ 2⁻⁵³·p(i)/p(i+1), and it is inherited by every later probability)
-/
namespace Bpp.Drive.C19
open Bpp Bpp.Proto Bpp.Simplex

abbrev F := Float

structure Obs where
  θ : List String
  p : List String
  method : Nat
  dim : Nat

structure St where
  reg : Array (Option (Simplex.St F)) := Array.replicate 4 none
  oreg : Array (Option (Simplex.OSt F)) := Array.replicate 4 none
  /-- the implementation's last answer about a register: a `get` must repeat it (the state of an
  object changes only through successful operations on that object: copy independence and
  exception safety) -/
  last : Array (Option String) := Array.replicate 8 none
  /-- the vector last given by the caller to new/setfreq, while the parameters still come from it -/
  input : Array (Option (List Rat)) := Array.replicate 8 none
  /-- (parameters set by the caller, probabilities answered) — injectivity -/
  seen : List Obs := []

def showL (l : List F) : String := " ".intercalate (l.map Hex.ofFloatCanon)
def showS (s : Simplex.St F) : String := showL s.probs ++ " ; " ++ showL s.params
def showO (s : Simplex.OSt F) : String := showL s.values ++ " ; " ++ showS s.base

def floats? (l : List String) : Option (List F) := l.mapM Hex.float?
def rats? (l : List String) : Option (List Rat) :=
  l.mapM (fun s => (Hex.float? s).bind floatToRat?)

def two50 : Rat := (2 ^ 50 : Nat)
def tolFire (n : Nat) : Rat := (n : Rat) / two50
def minL (l : List Rat) : Rat := l.foldl (fun a b => if b < a then b else a) 1
def tolRound (method n : Nat) (pin : List Rat) : Rat :=
  if method = 2 then tolFire n / minL pin else tolFire n

def rabs (x : Rat) : Rat := if x < 0 then -x else x
def rsum (l : List Rat) : Rat := l.foldl (· + ·) 0
def close (tol : Rat) (a b : List Rat) : Bool :=
  a.length == b.length && (List.zip a b).all (fun (x, y) => decide (rabs (x - y) ≤ tol))

/-- hypotheses of the round-trip theorems on a caller-supplied vector: positive entries,
sum one to rounding -/
def validProbs (p : List Rat) : Bool :=
  p.all (fun x => decide (0 < x)) && decide (rabs (rsum p - 1) ≤ tolFire p.length)

def nonincreasing : List Rat → Bool
  | [] => true
  | [_] => true
  | a :: b :: r => decide (b ≤ a) && nonincreasing (b :: r)

/-- strictly decreasing, positive, sum one: hypotheses of `ordered_roundtrip` -/
def validOrdered (v : List Rat) : Bool :=
  validProbs (Simplex.orderedToProbs v 1)

/-- Predicates on a Simplex state answered by the implementation.
`input` = vector the caller gave and from which the current parameters were derived (if any). -/
def judgeS (method dim : Nat) (allowNull : Bool) (input : Option (List Rat))
    (p θ : List String) : String :=
  if method = 0 ∨ method > 3 ∨ dim = 0 then "-" else
  match rats? p, rats? θ with
  | some p, some θ =>
    if p.length ≠ dim ∨ θ.length ≠ dim - 1 then "FAIL:shape"
    else if !(θ.all (Simplex.inConstraint allowNull)) then "FAIL:params_in_constraints"
    else if !(θ.all (fun t => decide (0 < t ∧ t < 1))) then "-"   -- outside the open cube: nothing claimed
    else if !(p.all (fun x => decide (0 ≤ x))) then "FAIL:probs_nonneg"
    else if !(decide (rabs (rsum p - 1) ≤ tolFire dim)) then "FAIL:probs_sum_one"
    else
      let tol := match input with | some i => tolRound method dim i | none => tolFire dim
      let fired := input.isNone
      match Simplex.probsOf (α := Rat) method dim θ with
      | some q =>
        if !(close tol p q) then "FAIL:probs_match_params"
        -- exact tie, insensitive to the order of the floating-point operations: for the product
        -- codings (1, 3), parameters k/16 and dimension ≤ 9 every intermediate result is a dyadic
        -- number of at most 32 bits, so double arithmetic is exact
        else if fired && method ≠ 2 && dim ≤ 9 && θ.all (fun t => (t * 16).den == 1) && p != q then "FAIL:exact_on_dyadic"
        else match input with
          | some i => if close tol p i then "ok" else "FAIL:roundtrip"
          | none => "ok"
      | none => "-"
  | _, _ =>
    -- NaN / infinity: allowed only when a parameter sits on the closed boundary
    match floats? θ with
    | some θf => if allowNull && θf.any (fun t => t == 0 || t == 1) then "-" else "FAIL:finite"
    | none => "FAIL:parse"

def judgeO (method dim : Nat) (allowNull : Bool) (input : Option (List Rat))
    (v p θ : List String) : String :=
  let inP := input.map (fun i => Simplex.orderedToProbs i 1)
  match judgeS method dim allowNull inP p θ with
  | "ok" =>
    match rats? v, rats? p with
    | some v, some p =>
      let tol := match inP with | some i => tolRound method dim i | none => tolFire dim
      if v.length ≠ dim then "FAIL:shape"
      else if !(nonincreasing v) || !(v.all (fun x => decide (0 ≤ x))) then "FAIL:ordered_nonincreasing"
      else if !(decide (rabs (rsum v - 1) ≤ tolFire dim)) then "FAIL:ordered_sum_one"
      else if !(close tol v (Simplex.orderedValues p 1)) then "FAIL:ordered_match"
      else match input with
        | some i => if close tol v i then "ok" else "FAIL:ordered_roundtrip"
        | none => "ok"
    | _, _ => "FAIL:finite"
  | other => other

/-- injectivity on the caller's parameter vectors: two different vectors (same coding and
dimension) must not give the same probabilities -/
def injOk (seen : List Obs) (o : Obs) : Bool :=
  seen.all (fun s => !(s.method == o.method && s.dim == o.dim && s.θ != o.θ && s.p == o.p))

inductive Kind | fresh (input : List Rat) | keep | fired | userParams

def idx (ordered : Bool) (k : Nat) : Nat := if ordered then 4 + k else k

/-- common tail of every op on a Simplex register: store the model state, judge the
implementation's answer -/
def finishS (s : St) (k : Nat) (r : Except Err (Simplex.St F)) (kind : Kind)
    (impl : Option (List String)) (validIn : Bool) : St × String × String :=
  let old := s.reg[k]!
  let (st, out) : Option (Simplex.St F) × String := match r with
    | .ok n => (some n, showS n)
    | .error e => (old, e.show)
  let inp : Option (List Rat) := match r, kind with
    | .ok _, .fresh i => some i
    | .ok _, .keep => s.input[idx false k]!
    | .ok _, _ => none
    | .error _, _ => s.input[idx false k]!
  let s1 := { s with reg := s.reg.set! k st, input := s.input.set! (idx false k) inp }
  match impl with
  | none => (s1, out, "-")
  | some t =>
    let ans := " ".intercalate t
    -- an operation that raised must leave the object as it was last seen
    let s2 := if ans.startsWith "exc:" then s1 else { s1 with last := s1.last.set! (idx false k) (some ans) }
    if ans.startsWith "inconsistent-accessors" then (s2, out, "FAIL:accessors_agree") else
    match st, splitTok ";" t with
    | some m, [p, θ] =>
      let v := judgeS m.method m.dim m.allowNull inp p θ
      let (s3, v) := match kind, v with
        | .userParams, "ok" =>
          let o : Obs := ⟨θ, p, m.method, m.dim⟩
          if injOk s2.seen o then ({ s2 with seen := o :: s2.seen }, "ok") else (s2, "FAIL:injective")
        | _, v => (s2, v)
      (s3, out, v)
    | _, _ =>
      -- the implementation raised (or the register is empty)
      if validIn && ans.startsWith "exc:" then (s2, out, "FAIL:accepts_valid") else (s2, out, "-")

def finishO (s : St) (k : Nat) (r : Except Err (Simplex.OSt F)) (kind : Kind)
    (impl : Option (List String)) (validIn : Bool) : St × String × String :=
  let old := s.oreg[k]!
  let (st, out) : Option (Simplex.OSt F) × String := match r with
    | .ok n => (some n, showO n)
    | .error e => (old, e.show)
  let inp : Option (List Rat) := match r, kind with
    | .ok _, .fresh i => some i
    | .ok _, .keep => s.input[idx true k]!
    | .ok _, _ => none
    | .error _, _ => s.input[idx true k]!
  let s1 := { s with oreg := s.oreg.set! k st, input := s.input.set! (idx true k) inp }
  match impl with
  | none => (s1, out, "-")
  | some t =>
    let ans := " ".intercalate t
    let s2 := if ans.startsWith "exc:" then s1 else { s1 with last := s1.last.set! (idx true k) (some ans) }
    if ans.startsWith "inconsistent-accessors" then (s2, out, "FAIL:accessors_agree")
    else if ans == "sliced" then (s2, out, "FAIL:clone_keeps_type") else
    match st, splitTok ";" t with
    | some m, [v, p, θ] =>
      (s2, out, judgeO m.base.method m.base.dim m.base.allowNull inp v p θ)
    | _, _ =>
      if validIn && ans.startsWith "exc:" then (s2, out, "FAIL:accepts_valid") else (s2, out, "-")

def bool? (s : String) : Option Bool := if s == "1" then some true else if s == "0" then some false else none

def ratsOfF (l : List F) : Option (List Rat) := l.mapM floatToRat?

/-- did `setfreq` change a parameter (fire ran) in the model? -/
def paramsChanged (a b : Simplex.St F) : Bool :=
  (List.zip a.params b.params).any (fun (x, y) => !(x == y))

def step (s : St) (op : List String) (impl : Option (List String)) : St × String × String :=
  match op with
  | "new" :: k :: m :: a :: hs =>
    match nat? k, nat? m, bool? a, floats? hs with
    | some k, some m, some a, some p =>
      let ri := ratsOfF p
      let valid := (1 ≤ m && m ≤ 3) && (match ri with | some r => validProbs r | none => false)
      finishS s k (Simplex.construct p m a) (match ri with | some r => if valid then .fresh r else .fired | none => .fired) impl valid
    | _, _, _, _ => (s, "bad-op", "-")
  | ["newdim", k, n, m, a] =>
    match nat? k, nat? n, nat? m, bool? a with
    | some k, some n, some m, some a =>
      let u : List Rat := List.replicate n (1 / (n : Rat))
      finishS s k (Simplex.constructDim n m a) (if m = 3 then .fired else .fresh u) impl (1 ≤ m && m ≤ 3 && n ≥ 1)
    | _, _, _, _ => (s, "bad-op", "-")
  | "setfreq" :: k :: hs =>
    match nat? k, floats? hs with
    | some k, some p =>
      match s.reg[k]! with
      | none => (s, "none", "-")
      | some st =>
        let ri := ratsOfF p
        let valid := (1 ≤ st.method && st.method ≤ 3) && p.length == st.dim && (match ri with | some r => validProbs r | none => false)
        let r := Simplex.setFrequencies st p
        let kind : Kind := match r, ri with
          | .ok n, some ri => if valid then (if paramsChanged st n || st.dim ≤ 1 then .fresh ri else .keep) else .fired
          | _, _ => .fired
        finishS s k r kind impl valid
    | _, _ => (s, "bad-op", "-")
  | "setpar" :: k :: hs =>
    match nat? k, floats? hs with
    | some k, some θ =>
      match s.reg[k]! with
      | none => (s, "none", "-")
      | some st =>
        let r := Simplex.matchParams st θ
        let kind : Kind := match r with
          | .ok n => if paramsChanged st n then .userParams else .keep
          | _ => .keep
        finishS s k r kind impl false
    | _, _ => (s, "bad-op", "-")
  | ["setone", k, i, h] =>
    match nat? k, nat? i, Hex.float? h with
    | some k, some i, some v =>
      match s.reg[k]! with
      | none => (s, "none", "-")
      | some st => finishS s k (Simplex.setOne st i v) .userParams impl false
    | _, _, _ => (s, "bad-op", "-")
  | ["get", k] =>
    match nat? k with
    | some k =>
      match s.reg[k]! with
      | none => (s, "none", "-")
      | some st =>
        let prev := s.last[idx false k]!
        let (s', out, v) := finishS s k (.ok st) .keep impl false
        let v := match impl, prev with
          | some t, some a => if " ".intercalate t == a then v else "FAIL:state_stable"
          | _, _ => v
        (s', out, v)
    | _ => (s, "bad-op", "-")
  | ["copy", k, j] | ["assign", k, j] =>
    match nat? k, nat? j with
    | some k, some j =>
      match s.reg[k]! with
      | none => (s, "none", "-")
      | some st =>
        let s0 := { s with input := s.input.set! (idx false j) (s.input[idx false k]!) }
        finishS s0 j (.ok st) .keep impl false
    | _, _ => (s, "bad-op", "-")
  -- OrderedSimplex
  | "onew" :: k :: m :: a :: hs =>
    match nat? k, nat? m, bool? a, floats? hs with
    | some k, some m, some a, some v =>
      let ri := ratsOfF v
      let valid := (1 ≤ m && m ≤ 3) && (match ri with | some r => validOrdered r | none => false)
      finishO s k (Simplex.oConstruct v m a) (match ri with | some r => if valid then .fresh r else .fired | none => .fired) impl valid
    | _, _, _, _ => (s, "bad-op", "-")
  | ["onewdim", k, n, m, a] =>
    match nat? k, nat? n, nat? m, bool? a with
    | some k, some n, some m, some a =>
      finishO s k (Simplex.oConstructDim n m a) .fired impl (1 ≤ m && m ≤ 3 && n ≥ 1)
    | _, _, _, _ => (s, "bad-op", "-")
  | "osetfreq" :: k :: hs =>
    match nat? k, floats? hs with
    | some k, some v =>
      match s.oreg[k]! with
      | none => (s, "none", "-")
      | some st =>
        let ri := ratsOfF v
        let valid := (1 ≤ st.base.method && st.base.method ≤ 3) && v.length == st.base.dim && (match ri with | some r => validOrdered r | none => false)
        let r := Simplex.oSetFrequencies st v
        finishO s k r (match ri with | some r => if valid then .fresh r else .fired | none => .fired) impl valid
    | _, _ => (s, "bad-op", "-")
  | "osetpar" :: k :: hs =>
    match nat? k, floats? hs with
    | some k, some θ =>
      match s.oreg[k]! with
      | none => (s, "none", "-")
      | some st =>
        let r := Simplex.oMatchParams st θ
        let kind : Kind := match r with
          | .ok n => if paramsChanged st.base n.base then .fired else .keep
          | _ => .keep
        finishO s k r kind impl false
    | _, _ => (s, "bad-op", "-")
  | ["osetone", k, i, h] =>
    match nat? k, nat? i, Hex.float? h with
    | some k, some i, some v =>
      match s.oreg[k]! with
      | none => (s, "none", "-")
      | some st => finishO s k (Simplex.oSetOne st i v) .fired impl false
    | _, _, _ => (s, "bad-op", "-")
  | ["oget", k] =>
    match nat? k with
    | some k =>
      match s.oreg[k]! with
      | none => (s, "none", "-")
      | some st =>
        let prev := s.last[idx true k]!
        let (s', out, v) := finishO s k (.ok st) .keep impl false
        let v := match impl, prev with
          | some t, some a => if " ".intercalate t == a then v else "FAIL:state_stable"
          | _, _ => v
        (s', out, v)
    | _ => (s, "bad-op", "-")
  | ["ocopy", k, j] | ["oclone", k, j] =>
    match nat? k, nat? j with
    | some k, some j =>
      match s.oreg[k]! with
      | none => (s, "none", "-")
      | some st =>
        let s0 := { s with input := s.input.set! (idx true j) (s.input[idx true k]!) }
        finishO s0 j (.ok st) .keep impl false
    | _, _ => (s, "bad-op", "-")
  | _ => (s, "bad-op", "-")

def machine : Machine St := { init := fun _ => {}, step := step }

end Bpp.Drive.C19
