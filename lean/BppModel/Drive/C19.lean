import BppModel.Proto
import BppModel.Simplex
import BppModel.SimplexObj
/-
Driver for C19 (Simplex / OrderedSimplex).

Registers s0..s3 (Simplex) = heap registers 0..3, o0..o3 (OrderedSimplex) = heap registers 4..7 of
the object model `BppModel/SimplexObj.lean` (every data member, parameters as heap cells, copy
operations member by member), run at `Float` (bit-exact tie with the implementation, including the
private ratio cache read through the guarded hook).  The verdict evaluates, in exact rational
arithmetic on the doubles the *implementation* returned, the predicates the theorems of
`BppProofs/Props/C19*.lean` are about; the generic coding functions instantiated at `Rat` give the
exact value of the maps (`probsOf`, `orderedValues`) at the implementation's parameters.

Answers:  Simplex `<probs> ; <thetas> ; m<method> d<dim> c<constraints> ; <valpha>`,
OrderedSimplex `<values> ; ` + the same.

Rounding tolerances (explicit; rounding itself is not modelled by the theorems):
  tolFire  n        = n · 2⁻⁵⁰                 state produced by fireParameterChanged
  tolRound m n pmin = n · 2⁻⁵⁰ (/ pmin if m=2)  probabilities given by the caller and kept / returned
    (the local-ratio coding stores p(i+1)/p(i) as 1-θ with θ next to 1: the relative error of the
     ratio is 2⁻⁵³/(1-θ) ≈ 2⁻⁵³·p(i)/p(i+1), and it is inherited by every later probability)
  cache: |valpha_i − (1−θ_i)/θ_i| ≤ 2⁻⁵⁰/θ_i
-/
namespace Bpp.Drive.C19
open Bpp Bpp.Proto

abbrev F := Float
abbrev Obj := SimplexObj.Obj F
abbrev Heap := SimplexObj.Heap F

structure Obs where
  θ : List String
  p : List String
  method : Nat
  dim : Nat

def showL (l : List F) : String := " ".intercalate (l.map Hex.ofFloatCanon)
def showMeta (o : Obj) : String :=
  "m" ++ toString o.method ++ " d" ++ toString o.dim ++ " c" ++
    String.ofList (o.params.map fun p => if p.incl then '1' else '0')
def showObj (o : Obj) : String :=
  let tail := showL o.vProb ++ " ; " ++ showL o.θ ++ " ; " ++ showMeta o ++ " ; " ++ showL o.valpha
  match o.vValues with
  | none => tail
  | some v => showL v ++ " ; " ++ tail

def floats? (l : List String) : Option (List F) := l.mapM Hex.float?
def rats? (l : List String) : Option (List Rat) :=
  l.mapM (fun s => (Hex.float? s).bind floatToRat?)

def two50 : Rat := (2 ^ 50 : Nat)
def tolFire (n : Nat) : Rat := (n : Rat) / two50
def minL (l : List Rat) : Rat := l.foldl (fun a b => if b < a then b else a) 1
def tolRound (method n : Nat) (pin : List Rat) : Rat :=
  if method = 2 then tolFire n / minL pin else tolFire n

def rabs (x : Rat) : Rat := if x < 0 then -x else x
def rsum (l : List Rat) : Rat := l.foldl (· + ·) 0
def close (tol : Rat) (a b : List Rat) : Bool :=
  a.length == b.length && (List.zip a b).all (fun (x, y) => decide (rabs (x - y) ≤ tol))

/-- hypotheses of the round-trip theorems on a caller-supplied vector: positive entries,
sum one to rounding -/
def validProbs (p : List Rat) : Bool :=
  p.all (fun x => decide (0 < x)) && decide (rabs (rsum p - 1) ≤ tolFire p.length)

def nonincreasing : List Rat → Bool
  | [] => true
  | [_] => true
  | a :: b :: r => decide (b ≤ a) && nonincreasing (b :: r)

/-- a probability vector with null entries allowed (zero-allowing constraint): non-negative, sum one -/
def nullProbs (p : List Rat) : Bool :=
  p.all (fun x => decide (0 ≤ x)) && decide (rabs (rsum p - 1) ≤ tolFire p.length) && !p.isEmpty

/-- strictly decreasing, positive, sum one: hypotheses of `ordered_roundtrip` -/
def validOrdered (v : List Rat) : Bool :=
  validProbs (Simplex.orderedToProbs v 1)

/-- conditioning of the local-ratio coding on the vector `i`: storing `θ_j = p_j/(p_j+p_{j+1})` (rounded
to 2⁻⁵³ relative) loses the ratio `p_{j+1}/p_j = (1-θ_j)/θ_j` to a relative `2⁻⁵³·(1 + p_j/p_{j+1})`, and
every later entry inherits it: relative error of every entry ≤ n·2⁻⁵⁰·(1 + max_j p_j/p_{j+1}) -/
def kappa : List Rat → Rat
  | a :: b :: r => let k := if b > 0 then a / b else 0
                   let m := kappa (b :: r)
                   if k > m then k else m
  | _ => 0
def closeRel (rel : Rat) (a ref : List Rat) : Bool :=
  a.length == ref.length && (List.zip a ref).all (fun (x, y) => decide (rabs (x - y) ≤ rel * rabs y))
def condTol (n : Nat) (i : List Rat) : Rat := tolFire n * (1 + kappa i)

/-- exact running products / sum of the ratios `(1-θ)/θ`: does the accumulation of Simplex.cpp:156-164
leave the binary64 range? -/
def ratioOverflow (θ : List Rat) : Bool :=
  let big : Rat := (2 ^ 1023 : Nat)
  let (_, _, ov) := θ.foldl (fun (acc : Rat × Rat × Bool) t =>
    let (th, x, ov) := acc
    if t ≤ 0 then (th, x, ov) else
    let th' := th * ((1 - t) / t)
    let x' := x + th'
    (th', x', ov || decide (th' ≥ big) || decide (x' ≥ big) || decide ((1 - t) / t ≥ big))) (1, 1, false)
  ov

/-- Predicates on a Simplex state answered by the implementation.
`input` = vector the caller gave and from which the current parameters were derived (if any).
Round trip and "probabilities = image of the parameters" are judged with the TIGHT absolute
tolerance n·2⁻⁵⁰ for every coding.  For the local-ratio coding a vector that misses it but stays
inside the conditioning bound `condTol` (relative, per entry) is reported as `roundtrip_accuracy`
(known finding C19-local-ratio-accuracy); outside that bound it is `roundtrip` / `probs_match_params`.
Zero-allowing constraint with parameters ON the boundary (0 or 1): clauses `null_*`. -/
def judgeS (method dim : Nat) (allowNull : Bool) (input : Option (List Rat))
    (p θ : List String) : String :=
  if method = 0 ∨ method > 3 ∨ dim = 0 then "-" else
  match rats? p, rats? θ with
  | some p, some θ =>
    if p.length ≠ dim ∨ θ.length ≠ dim - 1 then "FAIL:shape"
    else if !(θ.all (Simplex.inConstraint allowNull)) then "FAIL:params_in_constraints"
    else if !(θ.all (fun t => decide (0 < t ∧ t < 1))) then
      -- allowNull, a parameter equal to 0 or 1: a probability vector with null entries
      if !(p.all (fun x => decide (0 ≤ x))) || !(decide (rabs (rsum p - 1) ≤ tolFire dim)) then "FAIL:null_probs"
      else
        let mapOk := if method = 2 then true else
          match Simplex.probsOf (α := Rat) method dim θ with
          | some q => close (tolFire dim) p q
          | none => true
        if !mapOk then "FAIL:null_probs"
        else match input with
          | some i => if close (tolFire dim) p i then "ok" else "FAIL:null_roundtrip"
          | none => "ok"
    else if !(p.all (fun x => decide (0 ≤ x))) then "FAIL:probs_nonneg"
    else if !(decide (rabs (rsum p - 1) ≤ tolFire dim)) then "FAIL:probs_sum_one"
    else
      let tol := tolFire dim
      let fired := input.isNone
      match Simplex.probsOf (α := Rat) method dim θ with
      | some q =>
        let accuracy := method = 2 && (match input with | some i => closeRel (condTol dim i) q p | none => false)
        if !(close tol p q) && !accuracy then "FAIL:probs_match_params"
        -- exact tie, insensitive to the order of the floating-point operations: for the product
        -- codings (1, 3), parameters k/16 and dimension ≤ 9 every intermediate result is a dyadic
        -- number of at most 32 bits, so double arithmetic is exact
        else if fired && method ≠ 2 && dim ≤ 9 && θ.all (fun t => (t * 16).den == 1) && p != q then "FAIL:exact_on_dyadic"
        -- product codings (1, 3), state produced by a notification: every probability is a product of at
        -- most n factors θ or 1-θ (1-θ is rounded once), so it is RELATIVELY accurate to n·2⁻⁵⁰ as long as
        -- it stays clear of the denormal range: an entry that is 0 (or off by a factor) where the exact
        -- value is a tiny positive number fails here, although the absolute test above cannot see it
        -- (theorem `probs_sum_one`: every probability is POSITIVE on the open cube)
        else if fired && method ≠ 2 && !((List.zip p q).all (fun (x, y) =>
            decide (y < 1 / ((2 ^ 1000 : Nat) : Rat)) || decide (rabs (x - y) ≤ tolFire (2 * dim + 2) * y))) then
          "FAIL:probs_match_params_rel"
        else match input with
          | some i =>
            if close tol p i && close tol p q then "ok"
            else if method = 2 && closeRel (condTol dim i) p i then "FAIL:roundtrip_accuracy"
            else "FAIL:roundtrip"
          | none => "ok"
      | none => "-"
  | _, _ =>
    -- NaN / infinity
    match floats? θ with
    | some θf =>
      if allowNull && θf.any (fun t => t == 0 || t == 1) then "FAIL:null_finite"
      else if method = 2 && (match rats? θ with | some θr => ratioOverflow θr | none => false) then "FAIL:local_ratio_overflow"
      else "FAIL:finite"
    | none => if allowNull then "FAIL:null_finite" else "FAIL:parse"

def judgeO (method dim : Nat) (allowNull : Bool) (input : Option (List Rat))
    (v p θ : List String) : String :=
  let inP := input.map (fun i => Simplex.orderedToProbs i 1)
  match judgeS method dim allowNull inP p θ with
  | "ok" =>
    match rats? v, rats? p with
    | some v, some p =>
      let tol := tolFire dim
      if v.length ≠ dim then "FAIL:shape"
      else if !(nonincreasing v) || !(v.all (fun x => decide (0 ≤ x))) then "FAIL:ordered_nonincreasing"
      else if !(decide (rabs (rsum v - 1) ≤ tolFire dim)) then "FAIL:ordered_sum_one"
      else if !(close tol v (Simplex.orderedValues p 1)) then "FAIL:ordered_match"
      else match input with
        | some i => if close tol v i then "ok" else "FAIL:ordered_roundtrip"
        | none => "ok"
    | _, _ => "FAIL:finite"
  | other => other

/-- the ratio cache answered by the implementation (hook): size, and — when the parameters are in
the open cube — the ratios of the current parameters (`SimplexObj.OK.cache`, `Fresh`) -/
def judgeCache (method dim : Nat) (θ cache : List String) (checkFresh : Bool) : String :=
  if method ≠ 2 then (if cache.isEmpty then "ok" else "FAIL:cache_len")
  else if dim = 0 then "ok"
  else if cache.length ≠ dim - 1 then "FAIL:cache_len"
  else if !checkFresh then "ok"
  else match rats? θ, rats? cache with
    | some θ, some c =>
      if !(θ.all (fun t => decide (0 < t ∧ t < 1))) then "ok"
      else if (List.zip θ c).all (fun (t, a) => decide (rabs (a - (1 - t) / t) ≤ 1 / (t * two50))) then "ok"
      else "FAIL:cache_fresh"
    | _, _ => "ok"

/-- the same predicate on the model's own state: a vector rejected by `setFrequencies` legitimately
leaves its ratios in the cache (Simplex.cpp:234 before :268) until the next notification -/
def modelFresh (o : Obj) : Bool :=
  judgeCache o.method o.dim (o.θ.map Hex.ofFloatCanon) (o.valpha.map Hex.ofFloatCanon) true == "ok"

/-- injectivity on the caller's parameter vectors: two different vectors (same coding and
dimension) must not give the same probabilities -/
def injOk (seen : List Obs) (o : Obs) : Bool :=
  seen.all (fun s => !(s.method == o.method && s.dim == o.dim && s.θ != o.θ && s.p == o.p))

inductive Kind | fresh (input : List Rat) | keep | fired | userParams

/-- sections of an answer -/
structure Ans where
  v : Option (List String)
  p : List String
  θ : List String
  mem : List String
  cache : List String

def parseAns (ordered : Bool) (t : List String) : Option Ans :=
  match ordered, splitTok ";" t with
  | false, [p, θ, m, c] => some ⟨none, p, θ, m, c⟩
  | true, [v, p, θ, m, c] => some ⟨some v, p, θ, m, c⟩
  | _, _ => none

/-- what the members answered by the implementation must be equal to (computed from the
implementation's own earlier answers or from the arguments of a constructor) -/
structure Expect where
  clause : String
  mem : List String
  /-- probabilities and parameters too (copies) -/
  p : Option (List String) := none
  θ : Option (List String) := none
  v : Option (List String) := none

/-- probabilities / ordered values carried by a copy or kept by a `get`: equal, to rounding
(`tolFire`; identical strings — NaN included — are equal) -/
def sameVec (a b : List String) : Bool :=
  a == b || (match rats? a, rats? b with
    | some x, some y => close (tolFire x.length) x y
    | _, _ => false)

def Expect.check (e : Expect) (a : Ans) : Bool :=
  a.mem == e.mem
    && (match e.p with | some p => sameVec a.p p | none => true)
    && (match e.θ with | some θ => a.θ == θ | none => true)
    && (match e.v, a.v with
        | some v, some w => sameVec w v
        | some _, none => false
        | none, _ => true)

structure St where
  heap : Heap := SimplexObj.Heap.empty 8
  /-- the implementation's last answer about a register: a `get` must repeat it, a setter must keep
  its members section, a copy must repeat it (the state of an object changes only through
  successful operations on that object: copy independence and exception safety) -/
  last : Array (Option (List String)) := Array.replicate 8 none
  /-- the vector last given by the caller to new/setfreq, while the parameters still come from it -/
  input : Array (Option (List Rat)) := Array.replicate 8 none
  /-- ordered register whose `vValues_` were left behind by an assignment through a base-class
  reference (`baseassign`): nothing is claimed about them until they are recomputed -/
  stale : Array Bool := Array.replicate 8 false
  /-- (parameters set by the caller, probabilities answered) — injectivity -/
  seen : List Obs := []

def allowNullOf (o : Obj) : Bool := match o.params with | p :: _ => p.incl | [] => false

def errShow : SimplexObj.HErr → String
  | .exc e => e.show
  | .empty => "none"
  | .dangling => "dangling"
  | .badclass => "bad-op"

/-- common tail of every op: `r` = register the answer is about; store the model heap, judge the
implementation's answer -/
def finish (s : St) (r : Nat) (res : Heap × Option SimplexObj.HErr) (kind : Kind)
    (impl : Option (List String)) (validIn : Bool) (exp : Option Expect) (healed : Bool := false)
    (nullIn : Bool := false)
    (makeStale : Bool := false) : St × String × String :=
  let ordered := r ≥ 4
  let h := res.1
  let obj : Option Obj := match h.view r with | .ok (_, o) => some o | .error _ => none
  let out := match res.2 with
    | some e => errShow e
    | none => match obj with | some o => showObj o | none => "none"
  let ok := res.2.isNone
  let inp : Option (List Rat) :=
    if ok then (match kind with | .fresh i => some i | .keep => s.input[r]! | _ => none) else s.input[r]!
  let staleNow : Bool :=
    if !ok then s.stale[r]!
    else if makeStale then true
    else if healed then false
    else match obj with
      | some o => s.stale[r]! && !(o.vValues == some (Simplex.orderedValues o.vProb 1))
      | none => false
  -- a stale register whose values happen to be right again: the kept input was the probability vector
  let inp : Option (List Rat) :=
    if s.stale[r]! && !staleNow then (match kind with | .fresh i => some i | _ => none) else inp
  let s1 := { s with heap := h, input := s.input.set! r inp, stale := s.stale.set! r staleNow }
  match impl with
  | none => (s1, out, "-")
  | some t =>
    let ans := " ".intercalate t
    if ans.startsWith "exc:" || ans == "ub" then
      -- (`ub`: the harness did not execute a call that would read out of bounds)
      (s1, out, if validIn then "FAIL:accepts_valid" else if nullIn then "FAIL:null_accepts" else "-")
    else
    let s2 := { s1 with last := s1.last.set! r (some t) }
    if ans.startsWith "inconsistent-accessors" then (s2, out, "FAIL:accessors_agree")
    else if ans == "sliced" then (s2, out, "FAIL:clone_keeps_type") else
    match obj, parseAns ordered t with
    | some m, some a =>
      -- 1. the members the operation must carry / keep
      let v0 := match exp with
        | some e => if e.check a then "ok" else "FAIL:" ++ e.clause
        | none => "ok"
      if v0 != "ok" then (s2, out, v0) else
      -- 2. the ratio cache
      let v1 := judgeCache m.method m.dim a.θ a.cache (modelFresh m)
      if v1 != "ok" then (s2, out, v1) else
      -- 3. the probability vector
      let v2 := match a.v with
        | none => judgeS m.method m.dim (allowNullOf m) inp a.p a.θ
        | some v =>
          -- (while stale, `inp` is the probability vector the Simplex part came from)
          if staleNow then judgeS m.method m.dim (allowNullOf m) inp a.p a.θ
          else judgeO m.method m.dim (allowNullOf m) inp v a.p a.θ
      let (s3, v2) := match kind, v2 with
        | .userParams, "ok" =>
          let o : Obs := ⟨a.θ, a.p, m.method, m.dim⟩
          -- injectivity is claimed on the open cube only
          let open_ := match rats? a.θ with | some θ => θ.all (fun t => decide (0 < t ∧ t < 1)) | none => false
          if ordered || !open_ then (s2, "ok")
          else if injOk s2.seen o then ({ s2 with seen := o :: s2.seen }, "ok") else (s2, "FAIL:injective")
        | _, v => (s2, v)
      (s3, out, v2)
    | _, _ => (s2, out, "-")

def bool? (s : String) : Option Bool := if s == "1" then some true else if s == "0" then some false else none

def ratsOfF (l : List F) : Option (List Rat) := l.mapM floatToRat?

def pairs? : List String → Option (List (Nat × F))
  | [] => some []
  | i :: v :: rest =>
    match nat? i, Hex.float? v, pairs? rest with
    | some i, some v, some r => some ((i, v) :: r)
    | _, _, _ => none
  | _ => none

/-- did the call change a parameter in the model? -/
def paramsChanged (a b : Obj) : Bool := (List.zip a.θ b.θ).any (fun (x, y) => !(x == y))

def reg (ordered : Bool) (k : Nat) : Nat := if ordered then 4 + k else k

/-- (class of the register the op addresses, op without its class prefix) -/
def classify : String → Bool × String
  | "onew" => (true, "new") | "onewdim" => (true, "newdim") | "osetfreq" => (true, "setfreq")
  | "osetpar" => (true, "setpar") | "osetone" => (true, "setone") | "osetsome" => (true, "setsome")
  | "omatchsome" => (true, "matchsome") | "ofire" => (true, "fire") | "oget" => (true, "get")
  | "ocopy" => (true, "copy") | "oclone" => (true, "copy") | "oassign" => (true, "assign")
  | "copyctor" => (false, "copy")
  | n => (false, n)

def metaOf (t : List String) (ordered : Bool) : List String :=
  match parseAns ordered t with | some a => a.mem | none => ["?"]

/-- members section a constructor must produce -/
def ctorMeta (n m : Nat) (a : Bool) : List String :=
  let np := if 1 ≤ m ∧ m ≤ 3 ∧ 1 ≤ n then n - 1 else 0
  ["m" ++ toString m, "d" ++ toString n, "c" ++ String.ofList (List.replicate np (if a then '1' else '0'))]

/-- expectation of a setter: the members section of the implementation's last answer -/
def keepMeta (s : St) (r : Nat) : Option Expect :=
  (s.last[r]!).map fun t => { clause := "setters_keep_members", mem := metaOf t (r ≥ 4) }

/-- expectation of a copy: everything the implementation last said about the source -/
def carry (s : St) (src : Nat) (tgtOrdered : Bool) (vOfTgt : Option (List String)) : Option Expect :=
  match s.last[src]! with
  | none => none
  | some t =>
    match parseAns (src ≥ 4) t with
    | none => none
    | some a => some { clause := "assign_carries", mem := a.mem, p := some a.p, θ := some a.θ,
                       v := if tgtOrdered then (match vOfTgt with | some v => some v | none => a.v) else none }

def step (s : St) (op : List String) (impl : Option (List String)) : St × String × String :=
  match op with
  | [] => (s, "bad-op", "-")
  | name :: args =>
  let (ordered, base) := classify name
  match base, args with
  | "new", k :: m :: a :: hs =>
    match nat? k, nat? m, bool? a, floats? hs with
    | some k, some m, some a, some p =>
      let ri := ratsOfF p
      let valid := (1 ≤ m && m ≤ 3) && (match ri with
        | some r => if ordered then validOrdered r else validProbs r | none => false)
      let vnull := a && (1 ≤ m && m ≤ 3) && !valid && (match ri with
        | some r => nullProbs (if ordered then Simplex.orderedToProbs r 1 else r) | none => false)
      let kind : Kind := match ri with | some r => if valid || vnull then .fresh r else .fired | none => .fired
      finish s (reg ordered k) (SimplexObj.applyH s.heap (.newVec (reg ordered k) ordered m a p)) kind impl valid
        (some { clause := "ctor_members", mem := ctorMeta p.length m a }) (healed := true) (nullIn := vnull)
    | _, _, _, _ => (s, "bad-op", "-")
  | "newdim", [k, n, m, a] =>
    match nat? k, nat? n, nat? m, bool? a with
    | some k, some n, some m, some a =>
      let u : List Rat := List.replicate n (1 / (n : Rat))
      let kind : Kind := if ordered || m = 3 then .fired else .fresh u
      finish s (reg ordered k) (SimplexObj.applyH s.heap (.newDim (reg ordered k) ordered n m a)) kind impl
        (1 ≤ m && m ≤ 3 && n ≥ 1) (some { clause := "ctor_members", mem := ctorMeta n m a }) (healed := true)
    | _, _, _, _ => (s, "bad-op", "-")
  | "setfreq", k :: hs =>
    match nat? k, floats? hs with
    | some k, some p =>
      let r := reg ordered k
      match s.heap.view r with
      | .error _ => (s, "none", "-")
      | .ok (_, st) =>
        let ri := ratsOfF p
        let valid := (1 ≤ st.method && st.method ≤ 3) && p.length == st.dim && (match ri with
          | some q => if ordered then validOrdered q else validProbs q | none => false)
        let vnull := allowNullOf st && (1 ≤ st.method && st.method ≤ 3) && p.length == st.dim && !valid && (match ri with
          | some q => nullProbs (if ordered then Simplex.orderedToProbs q 1 else q) | none => false)
        let res := SimplexObj.applyH s.heap (.setFreq r p)
        let kind : Kind := match res.2, ri, res.1.view r with
          | none, some ri, .ok (_, n) =>
            if !valid && !vnull then .fired
            else if ordered then .fresh ri
            else if paramsChanged st n || st.dim ≤ 1 then .fresh ri else .keep
          | _, _, _ => .fired
        finish s r res kind impl valid (keepMeta s r) (healed := true) (nullIn := vnull)
    | _, _ => (s, "bad-op", "-")
  | "setpar", k :: hs =>
    match nat? k, floats? hs with
    | some k, some θ =>
      let r := reg ordered k
      match s.heap.view r with
      | .error _ => (s, "none", "-")
      | .ok (_, st) =>
        let res := SimplexObj.applyH s.heap (.setPar r θ)
        let kind : Kind := match res.2, res.1.view r with
          | none, .ok (_, n) => if paramsChanged st n then (if ordered then .fired else .userParams) else .keep
          | _, _ => .keep
        finish s r res kind impl false (keepMeta s r)
    | _, _ => (s, "bad-op", "-")
  | "matchsome", k :: rest | "setsome", k :: rest =>
    match nat? k, pairs? rest with
    | some k, some pl =>
      let r := reg ordered k
      match s.heap.view r with
      | .error _ => (s, "none", "-")
      | .ok (_, st) =>
        let res := SimplexObj.applyH s.heap (if base == "setsome" then .setSome r pl else .matchSome r pl)
        let kind : Kind := match res.2, res.1.view r with
          | none, .ok (_, n) =>
            if paramsChanged st n then (if ordered then .fired else .userParams)
            else if base == "setsome" then .fired else .keep
          | _, _ => .keep
        finish s r res kind impl false (keepMeta s r)
    | _, _ => (s, "bad-op", "-")
  | "setone", [k, i, h] =>
    match nat? k, nat? i, Hex.float? h with
    | some k, some i, some v =>
      let r := reg ordered k
      match s.heap.view r with
      | .error _ => (s, "none", "-")
      | .ok _ =>
        finish s r (SimplexObj.applyH s.heap (.setOne r i v)) (if ordered then .fired else .userParams) impl false
          (keepMeta s r)
    | _, _, _ => (s, "bad-op", "-")
  | "fire", [k] =>
    match nat? k with
    | some k =>
      let r := reg ordered k
      match s.heap.view r with
      | .error _ => (s, "none", "-")
      -- (the parameters are what they were: a vector they came from is still the reference)
      | .ok _ => finish s r (SimplexObj.applyH s.heap (.fire r)) .keep impl false (keepMeta s r)
    | _ => (s, "bad-op", "-")
  | "get", [k] =>
    match nat? k with
    | some k =>
      let r := reg ordered k
      match s.heap.view r with
      | .error _ => (s, "none", "-")
      | .ok _ =>
        -- every member but the cache (which a rejected setFrequencies may have rewritten)
        let exp : Option Expect := match s.last[r]! with
          | none => none
          | some t => match parseAns ordered t with
            | none => none
            | some a => some { clause := "state_stable", mem := a.mem, p := some a.p, θ := some a.θ, v := a.v }
        finish s r (s.heap, none) .keep impl false exp
    | _ => (s, "bad-op", "-")
  | "copy", [k, j] =>
    match nat? k, nat? j with
    | some k, some j =>
      let (rk, rj) := (reg ordered k, reg ordered j)
      match s.heap.view rk with
      | .error _ => (s, "none", "-")
      | .ok _ =>
        let s0 := { s with input := s.input.set! rj (s.input[rk]!), stale := s.stale.set! rj (s.stale[rk]!) }
        finish s0 rj (SimplexObj.applyH s.heap (.copy rk rj)) .keep impl false (carry s rk ordered none)
          (makeStale := s.stale[rk]!)
    | _, _ => (s, "bad-op", "-")
  | "assign", [k, j] =>
    match nat? k, nat? j with
    | some k, some j =>
      let (rk, rj) := (reg ordered k, reg ordered j)
      match s.heap.view rk with
      | .error _ => (s, "none", "-")
      | .ok _ =>
        -- the harness first builds `Simplex(1, 1)` / `OrderedSimplex(1, 1)` in an empty target register
        let h0 := match s.heap.view rj with
          | .ok _ => s.heap
          | .error _ => (SimplexObj.applyH s.heap (.newDim rj ordered 1 1 false)).1
        let s0 := { s with input := s.input.set! rj (s.input[rk]!), stale := s.stale.set! rj (s.stale[rk]!) }
        finish s0 rj (SimplexObj.applyH h0 (.assign rk rj)) .keep impl false (carry s rk ordered none)
          (makeStale := s.stale[rk]!)
    | _, _ => (s, "bad-op", "-")
  | "slicecopy", [k, j] | "sliceassign", [k, j] =>
    match nat? k, nat? j with
    | some k, some j =>
      let (rk, rj) := (reg true k, reg false j)
      match s.heap.view rk with
      | .error _ => (s, "none", "-")
      | .ok _ =>
        let h0 := match base, s.heap.view rj with
          | "sliceassign", .error _ => (SimplexObj.applyH s.heap (.newDim rj false 1 1 false)).1
          | _, _ => s.heap
        -- the probabilities of the slice are those the ordered values came from
        let inp := if s.stale[rk]! then s.input[rk]! else (s.input[rk]!).map (fun i => Simplex.orderedToProbs i 1)
        let s0 := { s with input := s.input.set! rj inp }
        finish s0 rj (SimplexObj.applyH h0 (if base == "slicecopy" then .sliceCopy rk rj else .sliceAssign rk rj))
          .keep impl false (carry s rk false none)
    | _, _ => (s, "bad-op", "-")
  | "baseassign", [k, j] =>
    match nat? k, nat? j with
    | some k, some j =>
      let (rk, rj) := (reg false k, reg true j)
      match s.heap.view rk, s.heap.view rj with
      | .ok _, .ok _ =>
        let vOld := (s.last[rj]!).bind (fun t => (parseAns true t).bind (·.v))
        let s0 := { s with input := s.input.set! rj (s.input[rk]!) }
        finish s0 rj (SimplexObj.applyH s.heap (.baseAssign rk rj)) .keep impl false (carry s rk true vOld)
          (makeStale := true)
      | _, _ => (s, "none", "-")
    | _, _ => (s, "bad-op", "-")
  | _, _ => (s, "bad-op", "-")

def machine : Machine St := { init := fun _ => {}, step := step }

end Bpp.Drive.C19
