import BppModel.Proto
import BppModel.ParamList
import BppModel.ParamListSpec
import BppModel.ParamListExt
import BppModel.ParamListExtSpec
import BppModel.ParamListListen
/-
Driver for C02 (ParameterList / AbstractParametrizable).  Six list registers (0..3 plain
lists, 4..5 owned by an AbstractParametrizable).  After each operation the whole machine
state is printed; object identity is printed as a stable number given to each object the
first time it appears in an answer (the harness does the same from addresses).

The implementation's answers are parsed back into a machine `State` (objects numbered by the
harness), and the property's clauses (`ParamList.xcheckStep`, which contains `checkStep`) are
evaluated on the pair (previous implementation state, implementation state after the operation).

Round 2: the machine is the extended one (`ParamListExt.xstep`): `setallp` / `setps` are the repaired
routines, `at` / `param` answer an object (`obj <entry>`; `ub` for an out-of-range `operator[]`, which
the harness does not execute), `clone` is the copy constructor, `ap.*` are the owner's read routes
through the namespace and its protected forwarders (= the list-level operation on the owner's list).
A value token `n'` means n/4 + 2⁻³⁰.
-/
namespace Bpp.Drive.C02
open Bpp Bpp.Proto Bpp.ParamList

def NREG : Nat := 6
def NPLAIN : Nat := 4

structure St where
  /-- model state -/
  m : State := State.init
  /-- model object id ↦ printed number -/
  ren : List (ObjId × Nat) := []
  /-- state reconstructed from the implementation's answers -/
  impl : State := State.init
  implOk : Bool := true
  /-- listener table of the model (audit F1); non-empty = the history has attached a listener -/
  mirrors : Mirrors := []

/-! ### printing -/

def showName (s : String) : String := if s.isEmpty then "-" else s
def readName (s : String) : String := if s == "-" then "" else s

/-- the nudge of a value token `n'`: `n/4 + 2⁻³⁰` (an exactly representable double next to a
grid point, so that "differs" and "equal" are told apart by less than any sensible tolerance) -/
def nudge : Rat := 1 / 1073741824

def showQ (v : Rat) : String :=
  let x := v * 4
  if x.den == 1 then toString x.num
  else
    let y := (v - nudge) * 4
    if y.den == 1 then toString y.num ++ "'" else "x" ++ toString v.num ++ "/" ++ toString v.den

def showBnd : Bnd → String
  | .negInf => "-inf"
  | .posInf => "+inf"
  | .fin q => showQ q

def showCon : Option Con → String
  | none => "-"
  | some c => "c:" ++ showBool c.inclLo ++ ":" ++ showBnd c.lo ++ ":" ++ showBnd c.hi ++ ":" ++ showBool c.inclHi

def numOf (ren : List (ObjId × Nat)) (i : ObjId) : List (ObjId × Nat) × Nat :=
  match ren.lookup i with
  | some n => (ren, n)
  | none => ((i, ren.length) :: ren, ren.length)

def showList (h : Store) (ren : List (ObjId × Nat)) (l : List ObjId) : List (ObjId × Nat) × String :=
  l.foldl (fun (acc : List (ObjId × Nat) × String) i =>
    let (ren', n) := numOf acc.1 i
    let p := h.get i
    (ren', acc.2 ++ " " ++ showName p.name ++ "," ++ showQ p.value ++ "," ++ showCon p.con ++ "," ++ toString n))
    (ren, "")

def showOut : Out → String
  | .ok => "ok"
  | .err .constraint => "exc:constraint"
  | .err .notfound => "exc:notfound"
  | .err .index => "exc:index"
  | .err .bpp => "exc:bpp"
  | .flag b none => "flag " ++ showBool b
  | .flag b (some pos) => "flag " ++ showBool b ++ " pos" ++ String.join (pos.map (fun p => " " ++ toString p))
  | .nat n => "nat " ++ toString n
  | .bool b => "bool " ++ showBool b
  | .strs l => "strs" ++ String.join (l.map (fun s => " " ++ showName s))
  | .val q => "val " ++ showQ q

/-- an object-valued answer is printed as the entry of that object (numbered like every other) -/
def showXOut (h : Store) (ren : List (ObjId × Nat)) : XOut → List (ObjId × Nat) × String
  | .base o => (ren, showOut o)
  | .obj i => let (r, t) := showList h ren [i]; (r, "obj" ++ t)
  | .ub => (ren, "ub")
  | .str s => (ren, "str " ++ showName s)

def showState (s : State) (ans : XAns) (ren : List (ObjId × Nat)) : List (ObjId × Nat) × String :=
  let (ren0, o) := showXOut s.heap ren ans.out
  let (ren1, f) := match ans.fired with
    | none => (ren0, " ; -")
    | some l => let (r, t) := showList s.heap ren0 l; (r, " ; f" ++ t)
  (List.range NREG).foldl (fun (acc : List (ObjId × Nat) × String) k =>
    let (r, t) := showList s.heap acc.1 (s.lists k)
    (r, acc.2 ++ " ;" ++ (if k ≥ NPLAIN then " pre=" ++ showName (s.pre k) else "") ++ t))
    (ren1, o ++ f)

/-! ### parsing -/

def quarter? (s : String) : Option Rat :=
  if s.endsWith "'" then (int? (s.dropEnd 1).toString).map (fun n => (n : Rat) / 4 + nudge)
  else (int? s).map (fun n => (n : Rat) / 4)

def bnd? (s : String) : Option Bnd :=
  if s == "-inf" then some .negInf else if s == "+inf" then some .posInf else (quarter? s).map .fin

def bool? (s : String) : Option Bool :=
  if s == "1" then some true else if s == "0" then some false else none

def con? (s : String) : Option (Option Con) :=
  if s == "-" then some none
  else match s.splitOn ":" with
    | ["c", il, lo, hi, ih] =>
      match bool? il, bnd? lo, bnd? hi, bool? ih with
      | some il, some lo, some hi, some ih => some (some ⟨lo, hi, il, ih⟩)
      | _, _, _, _ => none
    | _ => none

def par? (n q c : String) : Option Par :=
  match quarter? q, con? c with
  | some q, some c => some ⟨readName n, q, c⟩
  | _, _ => none

def nats? (l : List String) : Option (List Nat) := l.mapM nat?

def isAp (k : Nat) : Bool := decide (NPLAIN ≤ k) && decide (k < NREG)
def isReg (k : Nat) : Bool := decide (k < NREG)
def isPlain (k : Nat) : Bool := decide (k < NPLAIN)

def parseBase (t : List String) : Option Op :=
  match t with
  | ["add", k, n, q, c] => do let k ← nat? k; let p ← par? n q c; guard (isReg k); pure (.add k p)
  | ["addp", k, n, q, c] => do let k ← nat? k; let p ← par? n q c; guard (isReg k); pure (.addPtr k p)
  | ["addall", k, j] => do let k ← nat? k; let j ← nat? j; guard (isReg k && isReg j); pure (.addAll k j)
  | ["share", k, j, n] => do let k ← nat? k; let j ← nat? j; guard (isReg k && isReg j); pure (.share k j (readName n))
  | ["shareall", k, j] => do let k ← nat? k; let j ← nat? j; guard (isReg k && isReg j); pure (.shareAll k j)
  | ["include", k, j] => do let k ← nat? k; let j ← nat? j; guard (isReg k && isReg j); pure (.incl k j)
  | ["setp", k, i, n, q, c] => do let k ← nat? k; let i ← nat? i; let p ← par? n q c; guard (isReg k); pure (.setParam k i p)
  | ["setv", k, n, q] => do let k ← nat? k; let q ← quarter? q; guard (isReg k); pure (.setValue k (readName n) q)
  | ["setallv", k, j] => do let k ← nat? k; let j ← nat? j; guard (isReg k && isReg j); pure (.setAllValues k j)
  | ["setvs", k, j] => do let k ← nat? k; let j ← nat? j; guard (isReg k && isReg j); pure (.setValues k j)
  | ["testvs", k, j] => do let k ← nat? k; let j ← nat? j; guard (isReg k && isReg j); pure (.testValues k j)
  | ["matchvs", k, j] => do let k ← nat? k; let j ← nat? j; guard (isReg k && isReg j); pure (.matchValues k j true)
  | ["matchvs0", k, j] => do let k ← nat? k; let j ← nat? j; guard (isReg k && isReg j); pure (.matchValues k j false)
  | ["matchps", k, j] => do let k ← nat? k; let j ← nat? j; guard (isReg k && isReg j); pure (.matchParams k j)
  | ["del", k, n] => do let k ← nat? k; guard (isReg k); pure (.delName k (readName n))
  | "dels" :: k :: must :: ns => do let k ← nat? k; let b ← bool? must; guard (isReg k); pure (.delNames k (ns.map readName) b)
  | ["deli", k, i] => do let k ← nat? k; let i ← nat? i; guard (isReg k); pure (.delIdx k i)
  | "delis" :: k :: idx => do let k ← nat? k; let idx ← nats? idx; guard (isReg k); pure (.delIdxs k idx)
  | "subn" :: k :: j :: ns => do let k ← nat? k; let j ← nat? j; guard (isReg k && isPlain j); pure (.subNames k j (ns.map readName))
  | ["sub1", k, j, n] => do let k ← nat? k; let j ← nat? j; guard (isReg k && isPlain j); pure (.subName k j (readName n))
  | "subi" :: k :: j :: idx => do let k ← nat? k; let j ← nat? j; let idx ← nats? idx; guard (isReg k && isPlain j); pure (.subIdxs k j idx)
  | ["subi1", k, j, i] => do let k ← nat? k; let j ← nat? j; let i ← nat? i; guard (isReg k && isPlain j); pure (.subIdx k j i)
  | "shsubn" :: k :: j :: ns => do let k ← nat? k; let j ← nat? j; guard (isReg k && isPlain j); pure (.shareSubNames k j (ns.map readName))
  | "shsubi" :: k :: j :: idx => do let k ← nat? k; let j ← nat? j; let idx ← nats? idx; guard (isReg k && isPlain j); pure (.shareSubIdxs k j idx)
  | ["common", k, j, m] => do let k ← nat? k; let j ← nat? j; let m ← nat? m; guard (isReg k && isReg j && isPlain m); pure (.common k j m)
  | ["which", k, n] => do let k ← nat? k; guard (isReg k); pure (.which k (readName n))
  | ["has", k, n] => do let k ← nat? k; guard (isReg k); pure (.has k (readName n))
  | ["names", k] => do let k ← nat? k; guard (isReg k); pure (.names k)
  | ["getv", k, n] => do let k ← nat? k; guard (isReg k); pure (.getValue k (readName n))
  | ["size", k] => do let k ← nat? k; guard (isReg k); pure (.size k)
  | ["copy", k, j] => do let k ← nat? k; let j ← nat? j; guard (isReg k && isPlain j); pure (.copy k j)
  -- `clone()` is `new ParameterList(*this)` (ParameterList.h:48)
  | ["clone", k, j] => do let k ← nat? k; let j ← nat? j; guard (isReg k && isPlain j); pure (.copy k j)
  -- the protected forwarders of AbstractParametrizable (h:111-157): one list-level call each
  | ["ap.addp", k, n, q, c] => do let k ← nat? k; let p ← par? n q c; guard (isAp k); pure (.addPtr k p)
  | ["ap.addall", k, j] => do let k ← nat? k; let j ← nat? j; guard (isAp k && isReg j); pure (.addAll k j)
  | ["ap.share", k, j, n] => do let k ← nat? k; let j ← nat? j; guard (isAp k && isReg j); pure (.share k j (readName n))
  | ["ap.shareall", k, j] => do let k ← nat? k; let j ← nat? j; guard (isAp k && isReg j); pure (.shareAll k j)
  | ["ap.include", k, j] => do let k ← nat? k; let j ← nat? j; guard (isAp k && isReg j); pure (.incl k j)
  | ["ap.deli", k, i] => do let k ← nat? k; let i ← nat? i; guard (isAp k); pure (.delIdx k i)
  | ["ap.del", k, n] => do let k ← nat? k; guard (isAp k); pure (.delName k (readName n))
  | "ap.dels" :: k :: ns => do let k ← nat? k; guard (isAp k); pure (.delNames k (ns.map readName) true)
  | ["ap.reset", k] => do let k ← nat? k; guard (isAp k); pure (.reset k)
  | ["ap.size", k] => do let k ← nat? k; guard (isAp k); pure (.size k)
  | ["ap.names", k] => do let k ← nat? k; guard (isAp k); pure (.names k)
  | ["assign", k, j] => do let k ← nat? k; let j ← nat? j; guard (isReg k && isReg j); pure (.assign k j)
  | ["reset", k] => do let k ← nat? k; guard (isReg k); pure (.reset k)
  | ["ap.setallv", k, j] => do let k ← nat? k; let j ← nat? j; guard (isAp k && isReg j); pure (.apSetAll k j)
  | ["ap.setv", k, n, q] => do let k ← nat? k; let q ← quarter? q; guard (isAp k); pure (.apSetValue k (readName n) q)
  | ["ap.setvs", k, j] => do let k ← nat? k; let j ← nat? j; guard (isAp k && isReg j); pure (.apSetValues k j)
  | ["ap.matchvs", k, j] => do let k ← nat? k; let j ← nat? j; guard (isAp k && isReg j); pure (.apMatch k j)
  | ["ap.ns", k, p] => do let k ← nat? k; guard (isAp k); pure (.apNamespace k (readName p))
  | _ => none

def parseOp (t : List String) : Option XOp :=
  match t with
  | ["setallp", k, j] => do let k ← nat? k; let j ← nat? j; guard (isReg k && isReg j); pure (.setAllParamsA k j)
  | ["setps", k, j] => do let k ← nat? k; let j ← nat? j; guard (isReg k && isReg j); pure (.setParamsA k j)
  | ["at", k, i] => do let k ← nat? k; let i ← nat? i; guard (isReg k); pure (.nth k i)
  | ["param", k, n] => do let k ← nat? k; guard (isReg k); pure (.param k (readName n))
  | ["ap.addnull", k] => do let k ← nat? k; guard (isAp k); pure (.apAddNull k)
  | ["ap.has", k, n] => do let k ← nat? k; guard (isAp k); pure (.apHas k (readName n))
  | ["ap.param", k, n] => do let k ← nat? k; guard (isAp k); pure (.apParam k (readName n))
  | ["ap.getv", k, n] => do let k ← nat? k; guard (isAp k); pure (.apGetValue k (readName n))
  | ["ap.at", k, i] => do let k ← nat? k; let i ← nat? i; guard (isAp k); pure (.apAt k i)
  | ["ap.nons", k, n] => do let k ← nat? k; guard (isAp k); pure (.apNameNoNs k (readName n))
  -- implicit copy constructor / copy assignment of the owner
  | ["ap.copy", k, j] => do let k ← nat? k; let j ← nat? j; guard (isAp k && isAp j); pure (.apCopy k j)
  | ["ap.assign", k, j] => do let k ← nat? k; let j ← nat? j; guard (isAp k && isAp j); pure (.apCopy k j)
  | _ => (parseBase t).map .base

def parseOut (t : List String) : Option Out :=
  match t with
  | ["ok"] => some .ok
  | ["exc:constraint"] => some (.err .constraint)
  | ["exc:notfound"] => some (.err .notfound)
  | ["exc:index"] => some (.err .index)
  | ["exc:bpp"] => some (.err .bpp)
  | ["flag", b] => (bool? b).map (fun b => .flag b none)
  | "flag" :: b :: "pos" :: pos => do let b ← bool? b; let pos ← nats? pos; pure (.flag b (some pos))
  | ["nat", n] => (nat? n).map .nat
  | ["bool", b] => (bool? b).map .bool
  | "strs" :: l => some (.strs (l.map readName))
  | ["val", q] => (quarter? q).map .val
  | _ => none

/-- one printed entry `name,value,con,obj` -/
def entry? (s : String) : Option (Par × Nat) :=
  match s.splitOn "," with
  | [n, q, c, o] => do let p ← par? n q c; let o ← nat? o; pure (p, o)
  | _ => none

def entries? (l : List String) : Option (List (Par × Nat)) := l.mapM entry?

/-- write the printed objects into the reconstructed heap -/
def absorb (h : Store) (es : List (Par × Nat)) : Store :=
  es.foldl (fun h e => { cells := fun j => if j = e.2 then e.1 else h.cells j, next := max h.next (e.2 + 1) }) h

/-- parse the implementation's answer into (out, fired, new implementation state) -/
def parseImpl (prev : State) (t : List String) : Option (XOut × Option (List ObjId) × State) :=
  match splitTok ";" t with
  | res :: fired :: regs =>
    if regs.length != NREG then none else do
    let (h0, out) ← match res with
      | ["obj", e] => do let e ← entry? e; pure (absorb prev.heap [e], XOut.obj e.2)
      | ["ub"] => some (prev.heap, XOut.ub)
      | ["str", s] => some (prev.heap, XOut.str (readName s))
      | _ => (parseOut res).map (fun o => (prev.heap, XOut.base o))
    let (h1, f) ← match fired with
      | ["-"] => some (h0, none)
      | "f" :: es => do let es ← entries? es; pure (absorb h0 es, some (es.map (·.2)))
      | _ => none
    -- registers
    let rec go (k : Nat) (regs : List (List String)) (s : State) : Option State :=
      match regs with
      | [] => some s
      | r :: rest =>
        let (pre, body) := match r with
          | p :: body => if p.startsWith "pre=" then (some (readName (p.drop 4).toString), body) else (none, r)
          | [] => (none, [])
        match entries? body with
        | none => none
        | some es =>
          let s1 : State := { heap := absorb s.heap es,
                              lists := fun j => if j = k then es.map (·.2) else s.lists j,
                              pre := match pre with
                                | some p => fun j => if j = k then p else s.pre j
                                | none => s.pre }
          go (k + 1) rest s1
    let s ← go 0 regs { prev with heap := h1 }
    pure (out, f, s)
  | _ => none

/-! ### the machine -/

/-- with listeners attached, the operations that write values or clone parameters go through the
listener-aware step; the others must be free of both (anything else is answered `unsupported`) -/
def toLOp (op : XOp) : Option LOp :=
  match op with
  | .base (.copy k j) | .base (.assign k j) => some (.copy k j)
  | .base (.subNames k j ns) => some (.subNames k j ns)
  | .base (.subName k j n) => some (.subNames k j [n])
  | .base (.setValue k n v) => some (.setValue k n v)
  | .base (.setValues k j) => some (.setValues k j)
  | .base (.add ..) | .base (.addPtr ..) | .base (.delName ..) | .base (.delIdx ..) | .base (.delIdxs ..)
  | .base (.reset ..) | .base (.which ..) | .base (.has ..) | .base (.names ..) | .base (.getValue ..)
  | .base (.size ..) | .base (.testValues ..) | .base (.shareSubNames ..) | .base (.shareSubIdxs ..)
  | .nth .. | .param .. => some (.plain op)
  | _ => none

/-- the clauses are those of the listener-free specification; when the history has attached a
listener a failure is reported under its own name (known findings `C02-copied-listeners`,
`C02-listener-raise-half-way`): `frame` — an object outside the written list changed, which with
listeners attached inside one list can only happen through a *copied* parameter — becomes
`copy_independent_with_listeners`, `bulk_atomic` becomes `bulk_atomic_with_listeners` -/
def renameClause (listening : Bool) (c : String) : String :=
  if !listening then c
  else if c == "frame" then "copy_independent_with_listeners"
  else c ++ "_with_listeners"

def lcheck (op : Op) (o : Out) (b a : State) : Option String :=
  if !clauseNames NREG b op a then some "names_unique"
  else if !clauseOk NREG b a then some "list_param_inv"
  else if !clauseAtomic NREG b op o a then some "bulk_atomic"
  else if !clauseFrame NREG b op a then some "frame"
  else none

def step (s : St) (opToks : List String) (impl : Option (List String)) : St × String × String :=
  let parsed : Option (Option XOp × Option LOp) :=
    match opToks with
    | ["listen", k, n, t] =>
      match nat? k with
      | some k => if isReg k then some (none, some (.listen k (readName n) (readName t))) else none
      | none => none
    | _ =>
      match parseOp opToks with
      | none => none
      | some op => if s.mirrors.isEmpty then some (some op, none) else some (some op, toLOp op)
  match parsed with
  | none => (s, "bad-op", "-")
  | some (xop, lop) =>
    -- the model's step
    let r : Option (State × Mirrors × XAns) :=
      match lop, xop with
      | some l, _ => (lstep { s := s.m, mirrors := s.mirrors } l).map (fun r => (r.1.s, r.1.mirrors, r.2))
      | none, some op => if s.mirrors.isEmpty then (let r := ParamList.xstep s.m op; some (r.1, s.mirrors, r.2)) else none
      | none, none => none
    match r with
    | none => (s, (if lop.isNone then "unsupported-with-listeners" else "out-of-fuel"), "-")
    | some (m', mir', ans) =>
      let (ren', line) := showState m' ans s.ren
      match impl with
      | none => ({ s with m := m', ren := ren', mirrors := mir' }, line, "-")
      | some t =>
        if !s.implOk then ({ s with m := m', ren := ren', mirrors := mir' }, line, "-")
        else match parseImpl s.impl t with
          | none => ({ s with m := m', ren := ren', implOk := false, mirrors := mir' }, line, "-")
          | some (out, fired, a) =>
            let verdict :=
              match xop with
              | none => if unchanged NREG s.impl a then "ok" else "FAIL:listen_changes_nothing"
              | some op =>
                let listening := !mir'.isEmpty
                let r :=
                  match listening, op, out with
                  -- with listeners, a value write legitimately reaches the listeners' targets inside the
                  -- written list: only names / constraints / atomicity / frame are judged, not the
                  -- listener-free exactness clauses ("parameters not named are never touched", …)
                  | true, .base (.setValue k n v), .base o => lcheck (.setValue k n v) o s.impl a
                  | true, .base (.setValues k j), .base o => lcheck (.setValues k j) o s.impl a
                  | _, _, _ => xcheckStep NREG s.impl op out fired a
                match r with
                | none => "ok"
                | some c => "FAIL:" ++ renameClause listening c
            ({ m := m', ren := ren', impl := a, implOk := true, mirrors := mir' }, line, verdict)

def machine : Machine St := { init := fun _ => {}, step := step }

end Bpp.Drive.C02
