import BppModel.Proto
import BppModel.NumDeriv
/-
Driver for C12 (numerical derivatives).  Script grammar: see harness/C12.cpp.
The wrapped function is a polynomial given as a list of monomials, evaluated with the same
operations in the same order as `PolyFn::eval` of the harness.

Every case is run on the model at `Float` (bit-exact tie with the implementation); a case whose
header says `rat` is also run at `Rat` on the same (dyadic) inputs: when both runs print the same
answer, double arithmetic was exact on that operation and the exactness predicates (numerical =
analytical derivative, as rationals) are evaluated on the implementation's answer.
-/
namespace Bpp.Drive.C12
open Bpp Bpp.Proto Bpp.NumDeriv Bpp.Scalar

/-! ### numbers on the wire -/
def natLog2 (n : Nat) : Nat := Nat.log2 n

/-- exact conversion of a rational to binary64 (normal range only); `none` when the rational is not
a double: the rational run then prints `inexact` and no exactness predicate is evaluated -/
def ratToFloat (q : Rat) : Option Float :=
  if q == 0 then some (Float.ofBits 0) else
  let neg := decide (q < 0)
  let a : Rat := if neg then -q else q
  let num := a.num.toNat
  let den := a.den
  -- e with 2^52 ≤ a / 2^e < 2^53 (first guess from bit lengths, then adjust)
  let e0 : Int := (natLog2 num : Int) - (natLog2 den : Int) - 52
  let scaled (e : Int) : Nat × Nat := if e ≥ 0 then (num, den * 2 ^ e.toNat) else (num * 2 ^ (-e).toNat, den)
  let fits (e : Int) : Bool := let (n, d) := scaled e; decide (2 ^ 52 * d ≤ n) && decide (n < 2 ^ 53 * d)
  let e : Int := if fits e0 then e0 else if fits (e0 - 1) then e0 - 1 else e0 + 1
  if !fits e then none else
  let (n, d) := scaled e
  let m := n / d
  -- only exactly representable rationals: no rounding
  if n % d != 0 then none else
  let be : Int := e + 52 + 1023
  if be < 1 || be > 2046 then none else
  let bits : Nat := (if neg then 2 ^ 63 else 0) + be.toNat * 2 ^ 52 + (m - 2 ^ 52)
  some (Float.ofBits bits.toUInt64)

class Codec (α : Type) where
  parse : String → Option α
  render : α → String

def canon (x : Float) : String :=
  if x.isNaN then "nan" else if x == 0 then "0000000000000000" else Hex.ofFloat x

instance : Codec Float where
  parse := Hex.float?
  render := canon

instance : Codec Rat where
  parse s := (Hex.float? s).bind floatToRat?
  render q := match ratToFloat q with
    | some x => canon x
    | none => "inexact"

/-! ### the polynomial family -/
structure Mono (α : Type) where
  c : α
  e : List Nat

section
variable {α : Type} [Scalar α]

/-- `c * prod x_i^e_i` differentiated along the indices `ds` (one after the other), `none` when the
monomial vanishes; same operations as `PolyFn::eval` -/
def monoVal (m : Mono α) (ds : List Nat) (x : List α) : Option α :=
  let r := ds.foldl (fun (acc : Option (α × List Nat)) d =>
    match acc with
    | none => none
    | some (t, e) =>
      match (e[d]? : Option Nat) with
      | some k => if k < 1 then none else some (t * ofInt (Int.ofNat k), e.set d (k - 1))
      | none => none) (some (m.c, m.e))
  match r with
  | none => none
  | some (t, e) =>
    some ((List.zip x e).foldl (fun t (xe : α × Nat) => (List.range xe.2).foldl (fun t _ => t * xe.1) t) t)

def polyEval (ms : List (Mono α)) (ds : List Nat) (x : List α) : α :=
  ms.foldl (fun s m => match monoVal m ds x with
    | some t => s + t
    | none => s) zero

def polyDeriv (ms : List (Mono α)) : Deriv α :=
  { d1 := fun k x => polyEval ms [k] x,
    d2 := fun k x => polyEval ms [k, k] x,
    dx := fun k l x => polyEval ms [k, l] x }

/-- degree of the polynomial in its `k`-th variable -/
def degIn (ms : List (Mono α)) (k : Nat) : Nat :=
  ms.foldl (fun d m => if eqb m.c zero then d else max d (m.e.getD k 0)) 0
end

/-! ### parsing -/
section
variable {α : Type} [Scalar α] [Codec α]

def pCon : List String → Option (Option (Interval α) × List String)
  | "N" :: r => some (none, r)
  | "I" :: lo :: hi :: il :: ih :: r =>
    let b (s : String) : Option (Option α) := if s == "*" then some none else (Codec.parse s).map some
    match b lo, b hi with
    | some l, some u => some (some ⟨l, u, il == "1", ih == "1"⟩, r)
    | _, _ => none
  | _ => none

def pParam : List String → Option (Param α × List String)
  | n :: v :: pr :: r =>
    match nat? n, (Codec.parse v : Option α), (Codec.parse pr : Option α), pCon (α := α) r with
    | some n, some v, some pr, some (c, r') => some (⟨n, v, pr, c⟩, r')
    | _, _, _, _ => none
  | _ => none

def pParams : Nat → List String → Option (PList α × List String)
  | 0, r => some ([], r)
  | k + 1, r =>
    match pParam (α := α) r with
    | some (p, r') =>
      match pParams k r' with
      | some (ps, r'') => some (p :: ps, r'')
      | none => none
    | none => none

def pList : List String → Option (PList α × List String)
  | k :: r => match nat? k with
    | some k => pParams k r
    | none => none
  | _ => none

def pMonos (n : Nat) : Nat → List String → Option (List (Mono α))
  | 0, _ => some []
  | k + 1, c :: r =>
    match (Codec.parse c : Option α), (r.take n).mapM nat? with
    | some c, some e => if e.length == n then (pMonos n k (r.drop n)).map (fun ms => ⟨c, e⟩ :: ms) else none
    | _, _ => none
  | _, _ => none

/-! ### state and printing -/
structure S (α : Type) where
  fn : Option (Fn α) := none
  w : Option (W α) := none
  poly : List (Mono α) := []
  lastOk : Bool := true
  /-- names of the list handed to `updateDerivatives` by the last operation, when that operation was an
  entry point that returned (`none` after anything else that changes the wrapper) -/
  lastListed : Option (List Nat) := none

def curFn (s : S α) : Option (Fn α) :=
  match s.w with
  | some w => some w.fn
  | none => s.fn

def rD (d : DVal α) : String :=
  match d with
  | some x => Codec.render x
  | none => "nan"

def excStr : Exc → String
  | .constraint => "exc:constraint"
  | .notfound => "exc:notfound"
  | .bpp => "exc:bpp"
  | .index => "exc:index"
  | .hang => "hang"

def statusStr : Option Exc → String
  | none => "ok"
  | some e => excStr e

/-- prints (and the caller then clears) the evaluation log -/
def stateStr (w : Option (W α)) (fn : Fn α) : String :=
  let vs (l : List α) := l.map (fun x => " " ++ Codec.render x) |> String.join
  let ds (l : List (DVal α)) := l.map (fun x => " " ++ rD x) |> String.join
  let pts := fn.log.reverse
  " v=" ++ (match w with
    | some w => Codec.render w.value
    | none => "-")
  ++ " fv=" ++ Codec.render fn.fval ++ " P" ++ vs (values fn.params)
  ++ (match w with
    | some w => " D1" ++ ds w.der1 ++ " D2" ++ ds w.der2 ++ " X" ++ String.join (w.cross.map ds)
        -- the wrapped function seen through the wrapper (`FunctionWrapper` forwards)
        ++ " WP" ++ vs (values fn.params) ++ " 1 " ++ toString fn.params.length
    | none => "")
  ++ " E " ++ showBool fn.en1 ++ " " ++ showBool fn.en2
  ++ " L " ++ toString pts.length ++ String.join (pts.map vs)

def clearLog (fn : Fn α) : Fn α := { fn with log := [] }

def putFn (s : S α) (fn : Fn α) : S α :=
  match s.w with
  | some w => { s with w := some { w with fn := fn } }
  | none => { s with fn := some fn }

/-- the model's answer to one op and the new state; `none` for a malformed op -/
def stepModel (s : S α) (op : List String) : Option (S α × String) :=
  match op with
  | "fn" :: kind :: n :: r =>
    match nat? kind, nat? n with
    | some kind, some n =>
      match pParams (α := α) n r with
      | some (ps, "poly" :: m :: r') =>
        match nat? m with
        | some m =>
          match pMonos (α := α) n m r' with
          | some ms =>
            let f := polyEval ms []
            let fn0 : Fn α := { params := ps, fval := zero, log := [], kind := kind, en1 := decide (kind ≥ 1), en2 := decide (kind ≥ 2), pt1 := [], pt2 := [] }
            let fn := fn0.fire f
            some ({ fn := some (clearLog fn), w := none, poly := ms, lastOk := true }, "ok r=-" ++ stateStr none fn)
          | none => none
        | none => none
      | _ => none
    | _, _ => none
  | ["wrap", sch, h] =>
    -- `D`: no `setInterval`, the constructors' default 0.0001 (NumericalDerivative.h:81)
    match s.fn, (if h == "D" then some (ofRat 1 10000) else (Codec.parse h : Option α)) with
    | some fn, some h =>
      let scheme : Scheme := if sch == "2" then .two else if sch == "3" then .three else .five
      let w : W α := { scheme := scheme, h := h, vars := [], der1 := [], der2 := [], cross := [], c1 := true, c2 := true, cx := false,
                       f1 := zero, f2 := zero, f3 := zero, fn := fn }
      some ({ s with w := some w, lastListed := none }, "ok r=" ++ Codec.render h ++ stateStr (some w) fn)
    | _, _ => none
  | ["interval", h] =>
    match s.w, (Codec.parse h : Option α) with
    | some w, some h =>
      let w := { w with h := h }
      some ({ s with w := some w, lastListed := none }, "ok r=" ++ Codec.render w.h ++ stateStr (some w) w.fn)
    | _, _ => none
  | ["fnenable", a, b] =>
    match curFn s with
    | some fn =>
      let fn := (fn.enable1 (a == "1")).enable2 (b == "1")
      some ({ putFn s fn with lastListed := none }, "ok r=-" ++ stateStr s.w fn)
    | none => none
  | ["copy"] | ["assign"] =>
    -- copy constructor / assignment operator: every field is taken over, the wrapped function is shared
    match s.w with
    | some w => some (s, "ok r=-" ++ stateStr (some w) w.fn)
    | none => none
  | "fnset" :: r =>
    match curFn s, pList (α := α) r with
    | some fn, some (pl, _) =>
      let f := polyEval s.poly []
      let (fn', e) := fn.setParameters f pl
      some ({ putFn s (clearLog fn') with lastListed := none }, statusStr e ++ " r=-" ++ stateStr s.w fn')
    | _, _ => none
  | "vars" :: k :: r =>
    match s.w, nat? k with
    | some w, some k =>
      match (r.take k).mapM nat? with
      | some vs =>
        let w := w.setVars vs
        some ({ s with w := some w, lastListed := none }, "ok r=-" ++ stateStr (some w) w.fn)
      | none => none
    | _, _ => none
  | ["enable", a, b, c] =>
    match s.w with
    | some w =>
      let w := { w with c1 := a == "1", c2 := b == "1", cx := c == "1" }
      some ({ s with w := some w, lastListed := none }, "ok r=" ++ showBool w.c1 ++ showBool w.c2 ++ showBool w.cx ++ stateStr (some w) w.fn)
    | none => none
  | ["en1", a] | ["en2", a] | ["enx", a] =>
    match s.w with
    | some w =>
      let o := op.headD ""
      let w := if o == "en1" then { w with c1 := a == "1" } else if o == "en2" then { w with c2 := a == "1" } else { w with cx := a == "1" }
      some ({ s with w := some w, lastListed := none }, "ok r=" ++ showBool w.c1 ++ showBool w.c2 ++ showBool w.cx ++ stateStr (some w) w.fn)
    | none => none
  | "get" :: what :: r =>
    match s.w with
    | some w =>
      let D := polyDeriv s.poly
      let res : Option (Except Exc (DVal α)) :=
        match what, r.mapM nat? with
        | "d1", some [n] => some (w.getD1 D n)
        | "d2", some [n] => some (w.getD2 D n)
        | "dx", some [n, m] => some (w.getDX D n m)
        | _, _ => none
      match res with
      | some (.ok d) => some (s, "ok r=" ++ rD d)
      | some (.error e) => some (s, excStr e ++ " r=-")
      | none => none
    | none => none
  | ["setone", n, v] =>
    match s.w, nat? n, (Codec.parse v : Option α) with
    | some w, some n, some v =>
      let f := polyEval s.poly []
      let (w', e, _) := w.call f (.setOne n v)
      some ({ s with w := some { w' with fn := clearLog w'.fn }, lastOk := e.isNone, lastListed := if e.isNone then some [n] else none }, statusStr e ++ " r=-" ++ stateStr (some w') w'.fn)
    | _, _, _ => none
  | "df" :: n :: r | "d2f" :: n :: r =>
    -- `FirstOrderDerivable::df` / `SecondOrderDerivable::d2f` (Functions.h:138, 193): `setParameters` then the getter
    match s.w, nat? n, pList (α := α) r with
    | some w, some n, some (pl, _) =>
      let f := polyEval s.poly []
      let D := polyDeriv s.poly
      let (w', e, _) := w.call f (.setParameters pl)
      let g : Except Exc (DVal α) := if op.head? == some "df" then w'.getD1 D n else w'.getD2 D n
      let ans := match e, g with
        | some x, _ => excStr x ++ " r=-"
        | none, .ok d => "ok r=" ++ rD d
        | none, .error x => excStr x ++ " r=-"
      some ({ s with w := some { w' with fn := clearLog w'.fn }, lastOk := e.isNone, lastListed := if e.isNone then some (pl.map (·.name)) else none }, ans ++ stateStr (some w') w'.fn)
    | _, _, _ => none
  | "d2fx" :: n :: m :: r =>
    match s.w, nat? n, nat? m, pList (α := α) r with
    | some w, some n, some m, some (pl, _) =>
      let f := polyEval s.poly []
      let D := polyDeriv s.poly
      let (w', e, _) := w.call f (.setParameters pl)
      let ans := match e, w'.getDX D n m with
        | some x, _ => excStr x ++ " r=-"
        | none, .ok d => "ok r=" ++ rD d
        | none, .error x => excStr x ++ " r=-"
      some ({ s with w := some { w' with fn := clearLog w'.fn }, lastOk := e.isNone, lastListed := if e.isNone then some (pl.map (·.name)) else none }, ans ++ stateStr (some w') w'.fn)
    | _, _, _, _ => none
  | o :: r =>
    match s.w, pList (α := α) r with
    | some w, some (pl, _) =>
      let f := polyEval s.poly []
      let ent : Option (Entry α) :=
        if o == "set" then some (.setParameters pl) else if o == "setall" then some (.setAll pl)
        else if o == "setvals" then some (.setVals pl) else if o == "match" then some (.matchPV pl)
        else if o == "f" then some (.f pl) else none
      match ent with
      | some ent =>
        let (w', e, b) := w.call f ent
        let r := if e.isSome then "-" else if o == "match" then showBool b else if o == "f" then Codec.render w'.value else "-"
        some ({ s with w := some { w' with fn := clearLog w'.fn }, lastOk := e.isNone, lastListed := if e.isNone then some (pl.map (·.name)) else none }, statusStr e ++ " r=" ++ r ++ stateStr (some w') w'.fn)
      | none => none
    | _, _ => none
  | _ => none

/-! ### predicates on the implementation's answer -/

/-- the tokens between marker `a` and the next marker -/
def section_ (t : List String) (a : String) (markers : List String) : List String :=
  ((t.dropWhile (· != a)).drop 1).takeWhile (fun x => !markers.contains x)

def markers : List String := ["P", "D1", "D2", "X", "WP", "E", "L"]

def field (t : List String) (pre : String) : Option String :=
  (t.find? (·.startsWith pre)).map (fun x => (x.drop pre.length).toString)

def chunks {β : Type} (n : Nat) (l : List β) : List (List β) :=
  if n = 0 then [] else
  (List.range (l.length / n)).map (fun i => (l.drop (i * n)).take n)

def entryOf (op : List String) : Option (Entry α) :=
  match op with
  | "df" :: _ :: r | "d2f" :: _ :: r | "d2fx" :: _ :: _ :: r =>
    match pList (α := α) r with
    | some (pl, _) => some (.setParameters pl)
    | none => none
  | ["setone", n, v] =>
    match nat? n, (Codec.parse v : Option α) with
    | some n, some v => some (.setOne n v)
    | _, _ => none
  | o :: r =>
    match pList (α := α) r with
    | some (pl, _) =>
      if o == "set" then some (.setParameters pl) else if o == "setall" then some (.setAll pl)
      else if o == "setvals" then some (.setVals pl) else if o == "match" then some (.matchPV pl)
      else if o == "f" then some (.f pl) else none
    | none => none
  | _ => none

/-- what a recomputation of every selected variable at the current point stores: the same wrapper
updated with the wrapped function's whole list (`none` when that raises) -/
def recompute (f : List α → α) (w : W α) : Option (W α) :=
  let r := w.update f w.fn.params
  if r.2.isSome then none else some r.1

/-- indices of the selected variables `updateDerivatives` skips because the list it was handed does
not mention them (`if (!parameters.hasParameter(var)) continue;`, Two:40, Three:42, Five:27) -/
def unlisted (w : W α) (listed : List Nat) : List (Nat × Nat) :=
  (List.zip (List.range w.vars.length) w.vars).filter (fun (iv : Nat × Nat) =>
    idx w.vars iv.2 == some iv.1 && has w.fn.params iv.2 && !listed.contains iv.2)

/-- transparency and feasibility of the probes, judged on the implementation's answer `t` to the
entry-point `op` issued in state `s` (the pre-state of the model) -/
def verdictEntry (s : S α) (w : W α) (ent : Entry α) (t : List String) : String :=
  let f := polyEval s.poly []
  let (fnB, fe, _) := w.fn.forward f ent
  let implOk := t.head? == some "ok"
  let implP := section_ t "P" markers
  let r (l : List α) := l.map Codec.render
  let fB := Codec.render (f (values fnB.params))
  let noPrec := w.fn.params.all (fun p => eqb p.prec zero)
  -- the wrapped function seen through the wrapper is the wrapped function
  if section_ t "WP" markers != implP ++ ["1", toString w.fn.params.length] then "FAIL:wrapper_view" else
  let transparent : String :=
    -- with a precision on the wrapped function's side its parameters only follow up to that
    -- precision: nothing is claimed then
    if !noPrec then "ok" else
    if implOk then
      if implP != r (values fnB.params) then "FAIL:transparent"
      else if field t "v=" != some fB then "FAIL:transparent_value"
      else if field t "fv=" != some fB then "FAIL:transparent_value"
      else "ok"
    else
      match fe with
      | some _ => if implP != r (values w.fn.params) then "FAIL:raise_unchanged" else "ok"
      | none =>
        -- `transparent_on_raise`: the selection is well formed (no duplicate, only parameters of the
        -- wrapped function) and the step is not 0: the only exception is the one of the cross
        -- derivatives at a limit, and it leaves with everything restored
        let wf := w.vars.all (fun v => has w.fn.params v) && decide (w.vars.eraseDups.length = w.vars.length) &&
          !(eqb w.h zero)
        let sch := match w.scheme with
          | .two => "two"
          | .three => "three"
          | .five => "five"
        let kind := ((t.headD "").drop 4).toString
        if !wf then "ok"
        else if implP != r (values fnB.params) then "FAIL:transparent_on_raise_" ++ sch ++ "_" ++ kind
        else if field t "v=" != some fB || field t "fv=" != some fB then "FAIL:transparent_on_raise_value"
        else if !(w.scheme == .three && w.cx && kind == "bpp") then "FAIL:one_sided_no_raise_" ++ sch ++ "_" ++ kind
        else
          let want1 := showBool (if w.fn.kind ≥ 1 then w.c1 else w.fn.en1)
          let want2 := showBool (if w.fn.kind ≥ 2 then w.c2 else w.fn.en2)
          if section_ t "E" markers != [want1, want2] then "FAIL:transparent_on_raise_flags" else "ok"
  if transparent != "ok" then transparent else
  -- after a call that returns, the analytical derivatives of the wrapped function are switched on
  -- exactly when the wrapper has the corresponding derivatives on (delegation_fresh)
  let eFlags := section_ t "E" markers
  let want1 := showBool (w.c1 && decide (w.fn.kind ≥ 1))
  let want2 := if w.scheme == .two then showBool w.fn.en2 else showBool (w.c2 && decide (w.fn.kind ≥ 2))
  if implOk && eFlags != [want1, want2] then "FAIL:delegation_flags" else
  -- every logged point satisfies the constraints of the wrapped function and (when the wrapped
  -- function has no precision) those of the list the caller passed
  let n := w.fn.params.length
  let lt := section_ t "L" markers
  let pts := chunks n (lt.drop 1)
  let callerList : PList α := match ent.list fnB with
    | .ok pl => pl
    | .error _ => []
  let okPt (pt : List String) : Bool :=
    (List.zip w.fn.params pt).all (fun (pc : Param α × String) =>
      match (Codec.parse pc.2 : Option α) with
      | none => true   -- "nan": nothing to judge
      | some x =>
        !pc.1.violates x &&
        (!noPrec || (match find? callerList pc.1.name with
          | some q => !q.violates x
          | none => true)))
  if !pts.all okPt then "FAIL:probes_feasible" else
  -- every selected variable — also one the caller's list does not mention — has the derivatives of the
  -- scheme at the CURRENT point: what a recomputation with the wrapped function's whole list stores
  -- (known finding C12-unlisted-selected-stale: `updateDerivatives` skips such a variable)
  let stale : Bool :=
    if !implOk || !w.c1 || fe.isSome then false else
    let r1 := w.call f ent
    if r1.2.1.isSome then false else
    let w1 := r1.1
    match recompute f w1 with
    | none => false
    | some wr =>
      let i1 := section_ t "D1" markers
      let i2 := section_ t "D2" markers
      let ix := chunks w.vars.length (section_ t "X" markers)
      let listed := callerList.map (·.name)
      let unl := unlisted w1 listed
      let valid := (List.zip (List.range w.vars.length) w.vars).filter (fun (iv : Nat × Nat) =>
        idx w.vars iv.2 == some iv.1 && has w1.fn.params iv.2)
      unl.any (fun iv => i1[iv.1]? != (wr.der1[iv.1]?).map rD ||
        (w.scheme != .two && i2[iv.1]? != (wr.der2[iv.1]?).map rD)) ||
      (w.scheme == .three && w.cx &&
        valid.any (fun iv => valid.any (fun jv => iv.1 != jv.1 &&
          (!listed.contains iv.2 || !listed.contains jv.2) &&
          (ix.getD iv.1 [])[jv.1]? != ((wr.cross.getD iv.1 [])[jv.1]?).map rD)))
  if stale then "FAIL:stale_derivative" else
  -- one-sided fall-back: a selected variable with room for the probes on one side at least gets its
  -- derivatives (no NaN marker, no exception) — judged when no precision is involved
  let callerNoPrec := callerList.all (fun p => eqb p.prec zero)
  if !noPrec || !callerNoPrec || !w.c1 || fe.isSome || tooBig (f (values fnB.params)) then "ok" else
  let two : α := ofInt 2
  let feasibleAt (n : Name) (x : α) : Bool :=
    (match find? fnB.params n with
      | some p => !p.violates x
      | none => false) &&
    (match find? callerList n with
      | some q => !q.violates x
      | none => false)
  let d1 := section_ t "D1" markers
  let wfSel := w.vars.all (fun v => has w.fn.params v) && decide (w.vars.eraseDups.length = w.vars.length)
  if !wfSel then "ok" else
  let sel := (List.zip (List.range w.vars.length) w.vars).filter (fun (iv : Nat × Nat) => has callerList iv.2)
  let room (iv : Nat × Nat) : Bool :=
    match find? fnB.params iv.2 with
    | none => false
    | some b =>
      let x := b.value
      let hh := (one + abs x) * w.h
      -- the probes never leave [x - k*hh, x + k*hh]; intervals are convex, so end points suffice
      let k : α := if w.scheme == .five then two else one
      (feasibleAt iv.2 (x - k * hh) || feasibleAt iv.2 (x + k * hh)) && gtb w.h zero
  -- (a call that raises is judged above: `transparent_on_raise`)
  let bad := implOk && sel.any (fun iv => room iv && d1.getD iv.1 "nan" == "nan")
  if bad then "FAIL:one_sided_fallback" else
  -- five-point scheme: its one-sided formulas need TWO steps on one side; with room for one step only
  -- (and less than two on either side) it stores the NaN marker although "one-sided probes" would be
  -- possible (known finding C12-5pt-needs-two-steps)
  let room1 (iv : Nat × Nat) : Bool :=
    match find? fnB.params iv.2 with
    | none => false
    | some b =>
      let x := b.value
      let hh := (one + abs x) * w.h
      (feasibleAt iv.2 (x - hh) || feasibleAt iv.2 (x + hh)) && gtb w.h zero
  let bad5 := implOk && w.scheme == .five &&
    sel.any (fun iv => idx w.vars iv.2 == some iv.1 && room1 iv && !room iv && d1.getD iv.1 "nan" == "nan")
  if bad5 then "FAIL:five_point_needs_two_steps" else
  -- two-point scheme, all ten tries (left, right, then halved steps alternately): the NaN marker only
  -- when none of them is accepted by the constraints with a value below VERY_BIG
  let tries (h0 : α) : List α :=
    (List.range 10).foldl (fun (acc : List α × α) _ =>
      (acc.1 ++ [acc.2], if ltb acc.2 zero then -acc.2 else acc.2 / (-(ofInt 2)))) ([], h0) |>.1
  let room2 (iv : Nat × Nat) : Bool :=
    match find? fnB.params iv.2, posOf fnB.params iv.2 with
    | some b, some k =>
      let x := b.value
      (tries (-(one + abs x) * w.h)).any (fun h =>
        feasibleAt iv.2 (x + h) && !tooBig (f ((values fnB.params).set k (x + h))))
    | _, _ => false
  let bad2 := implOk && w.scheme == .two && !(eqb w.h zero) &&
    sel.any (fun iv => idx w.vars iv.2 == some iv.1 && room2 iv && d1.getD iv.1 "nan" == "nan")
  if bad2 then "FAIL:two_point_retries" else "ok"

/-- delegation: a derivative of a non-selected variable (or with numerical derivatives switched
off) is the wrapped function's analytical derivative at the current point -/
def verdictGet (s : S α) (w : W α) (what : String) (ns : List Nat) (t : List String) : String :=
  if !s.lastOk then "-" else
  let D := polyDeriv s.poly
  let x := values w.fn.params
  let own (n : Nat) := posOf w.fn.params n
  -- the wrapped function of the harness caches its analytical derivatives when it is evaluated with
  -- them switched on: the claim is about a cache computed at the current point
  let same (a b : List α) : Bool := a.length == b.length && (List.zip a b).all (fun ab => eqb ab.1 ab.2)
  let fresh1 := same w.fn.pt1 x
  let fresh2 := same w.fn.pt2 x
  let want : Option α :=
    match what, ns with
    | "d1", [n] => if ((idx w.vars n).isNone || !w.c1) && w.fn.kind ≥ 1 && w.fn.en1 && fresh1 then (own n).map (fun k => D.d1 k x) else none
    | "d2", [n] => if w.scheme != .two && ((idx w.vars n).isNone || !w.c2) && w.fn.kind ≥ 2 && w.fn.en2 && fresh2 then (own n).map (fun k => D.d2 k x) else none
    | "dx", [n, m] =>
      if w.scheme == .three && ((idx w.vars n).isNone || (idx w.vars m).isNone || !w.cx) && w.fn.kind ≥ 2 && w.fn.en2 && fresh2 then
        match own n, own m with
        | some k, some l => some (D.dx k l x)
        | _, _ => none
      else none
    | _, _ => none
  match want with
  | some v => if t == ["ok", "r=" ++ Codec.render v] then "ok" else "FAIL:delegation_spec"
  | none =>
    -- a selected variable: the stored value was judged at the entry point that computed it, unless
    -- that entry point's list did not mention the variable — then it must be the value a
    -- recomputation at the current point gives (known finding C12-unlisted-selected-stale)
    let f := polyEval s.poly []
    match s.lastListed with
    | none => "-"
    | some listed =>
      match recompute f w with
      | none => "-"
      | some wr =>
        let un (n : Nat) : Option Nat := ((unlisted w listed).find? (fun iv => iv.2 == n)).map (·.1)
        let judge (d : Option (DVal α)) : String :=
          match d with
          | some d => if t == ["ok", "r=" ++ rD d] then "ok" else "FAIL:stale_derivative"
          | none => "-"
        match what, ns with
        | "d1", [n] => if w.c1 then (match un n with
          | some i => judge wr.der1[i]?
          | none => "-") else "-"
        | "d2", [n] => if w.c1 && w.c2 && w.scheme != .two then (match un n with
          | some i => judge wr.der2[i]?
          | none => "-") else "-"
        | "dx", [n, m] =>
          if w.c1 && w.cx && w.scheme == .three && n != m && (un n).isSome || (w.c1 && w.cx && w.scheme == .three && n != m && (un m).isSome) then
            match idx w.vars n, idx w.vars m with
            | some i, some j => if has w.fn.params n && has w.fn.params m then judge ((wr.cross.getD i [])[j]?) else "-"
            | _, _ => "-"
          else "-"
        | _, _ => "-"
end

/-! ### exactness predicates (rational run) -/

def ratOfTok (s : String) : Option Rat := (Hex.float? s).bind floatToRat?

/-- `impl` is the stored value (`nan` allowed when `nanOk`), `want` the analytical derivative -/
def exactTok (impl : String) (want : Rat) (nanOk : Bool) : Bool :=
  if impl == "nan" then nanOk else
  match ratOfTok impl with
  | some q => q == want
  | none => false

/-- judged on the implementation's answer `t` after an entry point that returned normally;
`wB` is the rational model after the call (its wrapped function is at the requested point) -/
def verdictExact (poly : List (Mono Rat)) (wPre wB : W Rat) (callerList : PList Rat) (t : List String) : String :=
  let own := wB.fn.params
  let x := values own
  let D := polyDeriv poly
  let noPrec := own.all (fun p => p.prec == 0) && callerList.all (fun p => p.prec == 0)
  if !noPrec || !wPre.c1 || tooBig wB.value then "ok" else
  let d1 := section_ t "D1" markers
  let d2 := section_ t "D2" markers
  let xs := chunks wB.vars.length (section_ t "X" markers)
  let free (n : Nat) : Bool :=
    (match find? own n with
      | some p => p.con.isNone
      | none => false) &&
    (match find? callerList n with
      | some q => q.con.isNone
      | none => false)
  let sel := (List.zip (List.range wB.vars.length) wB.vars).filter (fun (iv : Nat × Nat) =>
    has callerList iv.2 && idx wB.vars iv.2 == some iv.1)
  let r := sel.foldl (fun (acc : String) (iv : Nat × Nat) =>
    if acc != "ok" then acc else
    match posOf own iv.2 with
    | none => acc
    | some k =>
      let deg := degIn poly k
      let i1 := d1.getD iv.1 "nan"
      let i2 := d2.getD iv.1 "nan"
      let a1 := D.d1 k x
      let a2 := D.d2 k x
      let fr := free iv.2
      -- on every path (one-sided probes included): first derivative exact on degree ≤ 1,
      -- second derivative exact on degree ≤ 2; the NaN marker when no probe was feasible
      if deg ≤ 1 && !exactTok i1 a1 true then "FAIL:d1_exact_deg1"
      else if wB.scheme != .two && deg ≤ 2 && !exactTok i2 a2 true then "FAIL:d2_exact_deg2"
      -- without constraints the probes are symmetric
      else if fr && wB.scheme == .two && deg ≤ 1 && !exactTok i1 a1 false then "FAIL:two_point_exact_deg1"
      -- (three-point scheme: symmetric for a positive step, the hypothesis of `three_point_stored_exact_partial`;
      -- with a negative step the second probe is on the same side as the first one)
      else if fr && wB.scheme == .three && decide (wB.h > 0) && deg ≤ 2 && !exactTok i1 a1 false then "FAIL:three_point_d1_exact_deg2"
      else if fr && wB.scheme == .three && decide (wB.h > 0) && deg ≤ 3 && !exactTok i2 a2 false then "FAIL:three_point_d2_exact_deg3"
      else if fr && wB.scheme == .five && deg ≤ 4 && !exactTok i1 a1 false then "FAIL:five_point_d1_exact_deg4"
      else if fr && wB.scheme == .five && deg ≤ 5 && !exactTok i2 a2 false then "FAIL:five_point_d2_exact_deg5"
      else acc) "ok"
  if r != "ok" then r else
  if !(wB.scheme == .three && wPre.cx) then "ok" else
  -- cross derivatives: exact when the polynomial has degree ≤ 2 in each of the two variables
  sel.foldl (fun (acc : String) (iv : Nat × Nat) =>
    sel.foldl (fun (acc : String) (jv : Nat × Nat) =>
      if acc != "ok" || iv.1 == jv.1 then acc else
      match posOf own iv.2, posOf own jv.2 with
      | some k, some l =>
        -- (constraints or not: when the call returns, the 2×2 stencil was evaluated in full)
        if degIn poly k ≤ 2 && degIn poly l ≤ 2 then
          let tok := ((xs.getD iv.1 []).getD jv.1 "nan")
          if exactTok tok (D.dx k l x) false then acc else "FAIL:cross_exact"
        else acc
      | _, _ => acc) acc) "ok"

/-! ### the machine -/
structure St where
  f : S Float := {}
  r : Option (S Rat) := none

def isEntry (o : String) : Bool := ["set", "setall", "setvals", "match", "f", "setone", "df", "d2f", "d2fx"].contains o
def isDf (o : String) : Bool := ["df", "d2f", "d2fx"].contains o

/-- `df` / `d2f`: what is returned is the derivative the wrapper stores for that variable after the
update (when it is a selected variable with numerical derivatives of that order switched on) -/
def verdictDf (w : W Float) (op : List String) (t : List String) : String :=
  if t.head? != some "ok" then "ok" else
  let r := field t "r="
  let d1 := section_ t "D1" markers
  let d2 := section_ t "D2" markers
  let xs := chunks w.vars.length (section_ t "X" markers)
  match op with
  | ["df", n] =>
    match nat? n with
    | some n => match idx w.vars n with
      | some i => if w.c1 && r != d1[i]? then "FAIL:df_consistent" else "ok"
      | none => "ok"
    | none => "ok"
  | ["d2f", n] =>
    match nat? n with
    | some n => match idx w.vars n with
      | some i => if w.scheme != .two && w.c2 && r != d2[i]? then "FAIL:d2f_consistent" else "ok"
      | none => "ok"
    | none => "ok"
  | ["d2fx", n, m] =>
    match nat? n, nat? m with
    | some n, some m => match idx w.vars n, idx w.vars m with
      | some i, some j => if w.scheme == .three && w.cx && r != (xs.getD i [])[j]? then "FAIL:d2f_cross_consistent" else "ok"
      | _, _ => "ok"
    | _, _ => "ok"
  | _ => "ok"

def step (st : St) (op : List String) (impl : Option (List String)) : St × String × String :=
  match stepModel st.f op with
  | none => (st, "bad-op", "-")
  | some (sf, out) =>
    -- the rational run (if any)
    let rr : Option (S Rat × String) := st.r.bind (fun sr => stepModel sr op)
    let st' : St := { f := sf, r := rr.map (·.1) }
    let verdict : String :=
      match impl with
      | none => "-"
      | some t =>
        match op with
        | o :: rest =>
          if isEntry o then
            match st.f.w, (entryOf (α := Float) op) with
            | some w, some ent =>
              -- `df`/`d2f`: the exception of the getter (after an update that returned) is not an
              -- exception of the update: the entry-point part is judged as returned
              let getterRaised := isDf o && sf.lastOk && t.head? != some "ok" && (out.splitOn " ").head? == t.head?
              let t := if getterRaised then "ok" :: t.drop 1 else t
              let v := verdictEntry st.f w ent t
              if v != "ok" then v else
              let v := if isDf o && !getterRaised then verdictDf w (op.take (if o == "d2fx" then 3 else 2)) t else "ok"
              if v != "ok" then v else
              -- exactness, when the rational run agrees with the double run on this answer
              match st.r, rr with
              | some sr, some (sr', outR) =>
                if outR != out || t.head? != some "ok" then "ok" else
                match sr.w, sr'.w, (entryOf (α := Rat) op) with
                | some wPre, some wB, some entR =>
                  let cl : PList Rat := match entR.list wB.fn with
                    | .ok pl => pl
                    | .error _ => []
                  verdictExact sr.poly wPre wB cl t
                | _, _, _ => "ok"
              | _, _ => "ok"
            | _, _ => "ok"
          else if o == "interval" then
            match rest with
            | [h] => if field t "r=" == (Hex.float? h).map canon then "ok" else "FAIL:interval_readback"
            | _ => "ok"
          else if o == "enable" then
            if field t "r=" == some (String.join rest) then "ok" else "FAIL:enable_readback"
          else if o == "en1" || o == "en2" || o == "enx" then
            -- one switch alone: the two others keep their state
            match st.f.w with
            | some w =>
              let a := rest.headD ""
              let want := (if o == "en1" then a else showBool w.c1) ++ (if o == "en2" then a else showBool w.c2)
                ++ (if o == "enx" then a else showBool w.cx)
              if field t "r=" == some want then "ok" else "FAIL:enable_readback"
            | none => "ok"
          else if o == "get" then
            match st.f.w, rest with
            | some w, what :: ns =>
              match ns.mapM nat? with
              | some ns => verdictGet st.f w what ns t
              | none => "ok"
            | _, _ => "ok"
          else "ok"
        | [] => "ok"
    (st', out, verdict)

def machine : Machine St :=
  { init := fun t => if t.contains "rat" then { f := {}, r := some {} } else { f := {}, r := none },
    step := step }

end Bpp.Drive.C12
